(* C18 — proofs about Model/C18_Nesting.v.

   Main results
     context_general        on a well-formed file, at a position touching a leaf and not inside a
                            lambda written directly in a class body, get_context is the innermost
                            def/class whose extent (after its first character) contains the position
                            and whose keyword column is left of the position's column
     context_is_innermost   strict reading (suite positions): the innermost def/class whose BODY
                            contains the position, provided its keyword column is left of the position
     context_extent         header positions: the definition itself
     context_module         module when no def/class extent contains the position
     *_refuted              the column proviso and the lambda-in-class proviso are necessary
     parent_chain_lexical   iterating parent() from a def/class visits exactly the enclosing defs/classes
     full_name_qualname     enclosing scopes all classes: qualified names = module names ++ __qualname__ *)
From Coq Require Import Sorting.Sorted Orders OrdersTac.
From JV Require Import Base.Str Model.C18_Nesting.


(* ------------------------------------------------------------------ positions *)
Definition plt (a b : pos) : Prop := (fst a < fst b \/ (fst a = fst b /\ snd a < snd b))%N.
Definition ple (a b : pos) : Prop := (fst a < fst b \/ (fst a = fst b /\ snd a <= snd b))%N.

Lemma pos_ltb_spec a b : pos_ltb a b = true <-> plt a b.
Proof.
  unfold pos_ltb, plt. rewrite orb_true_iff, andb_true_iff, !N.ltb_lt, N.eqb_eq. tauto.
Qed.
Lemma pos_leb_spec a b : pos_leb a b = true <-> ple a b.
Proof.
  unfold pos_leb, ple. rewrite orb_true_iff, andb_true_iff, N.ltb_lt, N.leb_le, N.eqb_eq. tauto.
Qed.
Lemma pos_ltb_nspec a b : pos_ltb a b = false <-> ~ plt a b.
Proof. rewrite <- pos_ltb_spec. destruct (pos_ltb a b); split; congruence. Qed.
Lemma pos_leb_nspec a b : pos_leb a b = false <-> ~ ple a b.
Proof. rewrite <- pos_leb_spec. destruct (pos_leb a b); split; congruence. Qed.

Ltac pos_hyps :=
  repeat match goal with
  | H : pos_ltb _ _ = true |- _ => apply pos_ltb_spec in H
  | H : pos_ltb _ _ = false |- _ => apply pos_ltb_nspec in H
  | H : pos_leb _ _ = true |- _ => apply pos_leb_spec in H
  | H : pos_leb _ _ = false |- _ => apply pos_leb_nspec in H
  end.
Ltac pos_goal :=
  match goal with
  | |- pos_ltb _ _ = true => apply pos_ltb_spec
  | |- pos_ltb _ _ = false => apply pos_ltb_nspec
  | |- pos_leb _ _ = true => apply pos_leb_spec
  | |- pos_leb _ _ = false => apply pos_leb_nspec
  | _ => idtac
  end.
Ltac pos_lia := pos_hyps; pos_goal; unfold plt, ple, kwcol in *; lia.

(* boolean conjunction splitting *)
Ltac bsplit :=
  repeat match goal with
  | H : _ && _ = true |- _ => apply andb_true_iff in H; destruct H
  end.

(* ------------------------------------------------------------------ leaves *)
Definition covers (p : pos) (t : tok) : bool := pos_leb (fst t) p && pos_leb p (snd t).

Lemma toks_sorted_tail t r : toks_sorted (t :: r) = true -> toks_sorted r = true.
Proof. destruct r; [reflexivity|]. change (toks_sorted (t :: t0 :: r)) with
  (pos_ltb (fst t) (snd t) && pos_leb (snd t) (fst t0) && toks_sorted (t0 :: r)). intros H. bsplit. assumption. Qed.

Lemma toks_sorted_cons2 t v r :
  toks_sorted (t :: v :: r) = pos_ltb (fst t) (snd t) && pos_leb (snd t) (fst v) && toks_sorted (v :: r).
Proof. reflexivity. Qed.

Lemma toks_sorted_first t r : toks_sorted (t :: r) = true -> plt (fst t) (snd t).
Proof. destruct r; [simpl|rewrite toks_sorted_cons2]; intros H; bsplit; pos_lia. Qed.

Lemma toks_sorted_head t r u :
  toks_sorted (t :: r) = true -> In u r -> ple (snd t) (fst u) /\ plt (fst t) (snd t).
Proof.
  revert t. induction r as [|v r IH]; intros t Hs Hin; [inversion Hin|].
  pose proof (toks_sorted_first _ _ Hs) as Hf.
  rewrite toks_sorted_cons2 in Hs. bsplit.
  destruct Hin as [->|Hin].
  - split; [pos_lia|assumption].
  - destruct (IH v H0 Hin) as [A B]. split; [|assumption]. pos_lia.
Qed.

Lemma toks_sorted_nonempty l t : toks_sorted l = true -> In t l -> plt (fst t) (snd t).
Proof.
  induction l as [|v r IH]; intros Hs Hin; [inversion Hin|].
  destruct Hin as [->|Hin].
  - eapply toks_sorted_first; eauto.
  - apply IH; auto. eapply toks_sorted_tail; eauto.
Qed.

Lemma leaf_at'_covers l : forall prev p,
  toks_sorted l = true -> existsb (covers p) l = true ->
  exists t, leaf_at' prev l p = Some t /\ In t l /\ ple (fst t) p /\ ple p (snd t).
Proof.
  induction l as [|t r IH]; intros prev p Hs Hc; [discriminate|].
  simpl in Hc. simpl.
  destruct (pos_leb p (snd t)) eqn:E1.
  - destruct (pos_ltb p (fst t)) eqn:E2.
    + (* impossible: some token of t :: r covers p *)
      exfalso. apply orb_true_iff in Hc. destruct Hc as [Hc|Hc].
      * unfold covers in Hc. bsplit. pos_lia.
      * apply existsb_exists in Hc. destruct Hc as [u [Hu Hcu]].
        destruct (toks_sorted_head _ _ _ Hs Hu) as [A B].
        unfold covers in Hcu. bsplit. pos_lia.
    + exists t. split; [reflexivity|]. split; [left; reflexivity|]. split; pos_lia.
  - apply orb_true_iff in Hc. destruct Hc as [Hc|Hc].
    + unfold covers in Hc. bsplit. congruence.
    + destruct (IH (Some t) p (toks_sorted_tail _ _ Hs) Hc) as [u [A [B [C D]]]].
      exists u. split; [assumption|]. split; [right; assumption|]. split; assumption.
Qed.

Lemma leaf_at_covers f p :
  toks_sorted (f_toks f) = true -> on_code f p = true ->
  exists t, leaf_at (f_toks f) p = Some t /\ In t (f_toks f) /\ ple (fst t) p /\ ple p (snd t).
Proof. intros. apply leaf_at'_covers; auto. Qed.

(* ------------------------------------------------------------------ a decision procedure for the order on positions *)
Module PosO <: EqLtLe.
  Definition t := pos.
  Definition eq := @Logic.eq pos.
  Definition lt := plt.
  Definition le := ple.
End PosO.

Module PosTO <: IsTotalOrder PosO.
  Definition eq_equiv : Equivalence PosO.eq := eq_equivalence.
  Lemma lt_strorder : StrictOrder PosO.lt.
  Proof.
    split.
    - intros x H. unfold PosO.lt, plt in H. lia.
    - intros x y z H1 H2. unfold PosO.lt, plt in *. lia.
  Qed.
  Lemma lt_compat : Proper (PosO.eq ==> PosO.eq ==> iff) PosO.lt.
  Proof. intros a b H c d H'. unfold PosO.eq in *. subst. tauto. Qed.
  Lemma le_lteq : forall x y, PosO.le x y <-> PosO.lt x y \/ PosO.eq x y.
  Proof.
    intros [a b] [c d]. unfold PosO.le, PosO.lt, PosO.eq, ple, plt. simpl. split.
    - intros H. destruct (N.eq_dec a c) as [->|Hn].
      + destruct (N.eq_dec b d) as [->|Hm]; [right; reflexivity|left; lia].
      + left. lia.
    - intros [H|H]; [lia|]. inversion H; subst. lia.
  Qed.
  Lemma lt_total : forall x y, PosO.lt x y \/ PosO.eq x y \/ PosO.lt y x.
  Proof.
    intros [a b] [c d]. unfold PosO.lt, PosO.eq, plt. simpl.
    destruct (N.lt_trichotomy a c) as [H|[->|H]]; [left; lia| |right; right; lia].
    destruct (N.lt_trichotomy b d) as [H|[->|H]]; [left; lia|right; left; reflexivity|right; right; lia].
  Qed.
End PosTO.

Module PosOrder := MakeOrderTac PosO PosTO.

Ltac pos_order :=
  pos_hyps; pos_goal;
  change plt with PosO.lt in *; change ple with PosO.le in *;
  PosOrder.order.

Lemma ple_eq a b : ple a b -> ~ plt a b -> a = b.
Proof. intros. pos_order. Qed.
(* ------------------------------------------------------------------ lists *)
Lemma SS_app {A} (R : A -> A -> Prop) l1 l2 :
  StronglySorted R l1 -> StronglySorted R l2 ->
  (forall x y, In x l1 -> In y l2 -> R x y) -> StronglySorted R (l1 ++ l2).
Proof.
  induction l1 as [|a l1 IH]; intros H1 H2 H; simpl; auto.
  inversion H1; subst. constructor.
  - apply IH; auto. intros; apply H; simpl; auto.
  - apply Forall_app. split; auto. apply Forall_forall. intros y Hy. apply H; simpl; auto.
Qed.

Lemma SS_rev {A} (R : A -> A -> Prop) l :
  StronglySorted R l -> StronglySorted (fun a b => R b a) (rev l).
Proof.
  induction 1 as [|a l Hl IH Hf]; simpl; [constructor|].
  apply SS_app; auto.
  - repeat constructor.
  - intros x y Hx Hy. destruct Hy as [<-|[]]. apply in_rev in Hx.
    rewrite Forall_forall in Hf. auto.
Qed.

Lemma SS_filter {A} (R : A -> A -> Prop) f l :
  StronglySorted R l -> StronglySorted R (filter f l).
Proof.
  induction 1 as [|a l Hl IH Hf]; simpl; [constructor|].
  destruct (f a); auto. constructor; auto.
  rewrite Forall_forall in *. intros x Hx. apply filter_In in Hx. destruct Hx. auto.
Qed.

Lemma SS_split {A} (R : A -> A -> Prop) pre x s :
  StronglySorted R (pre ++ x :: s) ->
  Forall (fun a => R a x) pre /\ StronglySorted R (x :: s) /\
  Forall (fun a => Forall (R a) s) pre.
Proof.
  induction pre as [|a pre IH]; simpl; intros H.
  - repeat split; auto.
  - inversion H; subst. destruct (IH H2) as [A1 [A2 A3]].
    rewrite Forall_forall in H3.
    repeat split; auto.
    + constructor; auto. apply H3. apply in_or_app. right. left. reflexivity.
    + constructor; auto. apply Forall_forall. intros y Hy. apply H3.
      apply in_or_app. right. right. assumption.
Qed.

Lemma filter_rev' {A} (f : A -> bool) l : filter f (rev l) = rev (filter f l).
Proof.
  induction l as [|a l IH]; simpl; auto.
  rewrite filter_app, IH. simpl. destruct (f a); simpl; auto. rewrite app_nil_r. reflexivity.
Qed.

Lemma find_filter {A} (P Q : A -> bool) l :
  find P (filter Q l) = find (fun s => Q s && P s) l.
Proof.
  induction l as [|a l IH]; simpl; auto.
  destruct (Q a) eqn:E; simpl; auto. destruct (P a); auto.
Qed.

Lemma find_ext_in {A} (f g : A -> bool) l :
  (forall x, In x l -> f x = g x) -> find f l = find g l.
Proof.
  induction l as [|a l IH]; simpl; intros H; auto.
  rewrite (H a) by auto. destruct (g a); auto.
Qed.

Lemma find_rev_last {A} (P : A -> bool) l e :
  find P (rev l) = Some e ->
  exists l1 l2, l = l1 ++ e :: l2 /\ P e = true /\ forall z, In z l2 -> P z = false.
Proof.
  induction l as [|a l IH]; simpl; intros H; [discriminate|].
  destruct (find P (rev l)) eqn:E.
  - assert (find P (rev l ++ [a]) = Some a0).
    { clear -E. induction (rev l) as [|b r IHr]; simpl in *; [discriminate|].
      destruct (P b); auto. }
    rewrite H0 in H. inversion H; subst.
    destruct (IH eq_refl) as [l1 [l2 [HA [HB HC]]]].
    exists (a :: l1), l2. subst. repeat split; auto.
  - assert (find P (rev l ++ [a]) = if P a then Some a else None).
    { clear -E. induction (rev l) as [|b r IHr]; simpl in *; auto.
      destruct (P b); [discriminate|auto]. }
    rewrite H0 in H. destruct (P a) eqn:Ea; [|discriminate]. inversion H; subst.
    exists [], l. repeat split; auto.
    intros z Hz. apply in_rev in Hz.
    destruct (P z) eqn:Ez; auto. exfalso.
    pose proof (find_none _ _ E z Hz). congruence.
Qed.

Lemma all_pairs_SS P l : all_pairs P l = true -> StronglySorted (fun a b => P a b = true) l.
Proof.
  induction l as [|a l IH]; simpl; intros H; [constructor|].
  bsplit. constructor; auto. apply Forall_forall. rewrite forallb_forall in H. assumption.
Qed.

Lemma SS_in_cases {A} (R : A -> A -> Prop) l a b :
  StronglySorted R l -> In a l -> In b l -> a = b \/ R a b \/ R b a.
Proof.
  induction 1 as [|c l Hl IH Hf]; intros Ha Hb; [inversion Ha|].
  rewrite Forall_forall in Hf.
  destruct Ha as [<-|Ha], Hb as [<-|Hb]; auto.
Qed.

(* ------------------------------------------------------------------ scopes *)
Lemma pair_ok_spec a b : pair_ok a b = true ->
  plt (s_kw a) (s_kw b) /\
  (ple (s_end a) (s_kw b) \/
   (ple (s_end b) (s_end a) /\
    (is_def a = true ->
     (plt (s_kw b) (s_colon a) -> ple (s_end b) (s_colon a) /\ is_def b = false) /\
     (~ plt (s_kw b) (s_colon a) -> is_def b = true -> ple (s_body a) (s_kw b))))).
Proof.
  unfold pair_ok. intros H. bsplit. split; [pos_lia|].
  apply orb_true_iff in H0. destruct H0 as [H0|H0]; [left; pos_lia|right].
  bsplit. split; [pos_lia|]. intros Hd. rewrite Hd in H1. simpl in H1.
  destruct (pos_ltb (s_kw b) (s_colon a)) eqn:E.
  - bsplit. split.
    + intros _. split; [pos_lia|]. destruct (is_def b); simpl in *; congruence.
    + intros N. exfalso. apply N. pos_lia.
  - split.
    + intros N. exfalso. pos_lia.
    + intros _ Hb. rewrite Hb in H1. simpl in H1. pos_lia.
Qed.

Lemma scope_ok_spec s : scope_ok s = true ->
  plt (s_kw s) (s_end s) /\
  (is_def s = true -> plt (s_kw s) (s_colon s) /\ plt (s_colon s) (s_body s) /\
                      plt (s_body s) (s_end s) /\ snd (s_end s) = 0%N).
Proof.
  unfold scope_ok. intros H. bsplit. split; [pos_lia|].
  intros Hd. rewrite Hd in H0. simpl in H0. bsplit. apply N.eqb_eq in H1.
  repeat split; try pos_lia; assumption.
Qed.

Section WF.
Variable l : list scope.
Hypothesis Hwf : wf_scopes l = true.

Lemma wf_scope_ok s : In s l -> scope_ok s = true.
Proof. unfold wf_scopes in Hwf. bsplit. rewrite forallb_forall in H. auto. Qed.

Lemma wf_SS : StronglySorted (fun a b => pair_ok a b = true) l.
Proof. unfold wf_scopes in Hwf. bsplit. apply all_pairs_SS. assumption. Qed.

Lemma wf_pair a b : In a l -> In b l -> plt (s_kw a) (s_kw b) -> pair_ok a b = true.
Proof.
  intros Ha Hb Hlt.
  destruct (SS_in_cases _ _ _ _ wf_SS Ha Hb) as [->|[H|H]]; auto.
  - exfalso. unfold plt in Hlt. lia.
  - apply pair_ok_spec in H. destruct H as [H _]. exfalso. unfold plt in *. lia.
Qed.

Lemma wf_kw_inj a b : In a l -> In b l ->
  fst (s_kw a) = fst (s_kw b) -> snd (s_kw a) = snd (s_kw b) -> a = b.
Proof.
  intros Ha Hb H1 H2.
  destruct (SS_in_cases _ _ _ _ wf_SS Ha Hb) as [->|[H|H]]; auto;
    apply pair_ok_spec in H; destruct H as [H _]; exfalso; unfold plt in *; lia.
Qed.

(* chains *)
Lemma In_chain s q : In s (chain_at l q) <-> In s l /\ contains s q = true.
Proof. unfold chain_at. rewrite <- in_rev, filter_In. tauto. Qed.

Lemma chain_SS q : StronglySorted (fun a b => pair_ok b a = true) (chain_at l q).
Proof. unfold chain_at. apply SS_rev. apply SS_filter. exact wf_SS. Qed.

End WF.
(* ------------------------------------------------------------------ the walk *)
Definition Pcol (col : N) (s : scope) : bool := is_def s && (kwcol s <? col)%N.

Fixpoint drop_until (P : scope -> bool) (c : ctx) : ctx :=
  match c with
  | s :: r => if P s then c else drop_until P r
  | [] => []
  end.

(* no lambda of the chain sits directly in a class or in the header of the next def/class *)
Fixpoint nhs (c : ctx) : Prop :=
  match c with
  | x :: r => match r with
              | y :: _ => (is_lam x = true ->
                           is_cls y = false /\ (is_def y = true -> ple (s_colon y) (s_kw x))) /\ nhs r
              | [] => True
              end
  | [] => True
  end.

Definition head_named (c : ctx) : Prop := match c with s :: _ => is_comp s = false | [] => True end.

Ltac kinds s := unfold is_def, is_lam, is_comp, is_cls, Pcol in *; destruct (s_kind s) eqn:?; simpl in *;
                try discriminate; try congruence.

Lemma nhs_tail x r : nhs (x :: r) -> nhs r.
Proof. simpl. destruct r; [auto|]. intros [_ H]. exact H. Qed.

Lemma nhs_skip_comps c : nhs c -> nhs (skip_comps c).
Proof.
  induction c as [|s r IH]; simpl; auto. intros H.
  destruct (is_comp s); [apply IH; eapply nhs_tail; eauto|exact H].
Qed.
Lemma nhs_drop_to_def c : nhs c -> nhs (drop_to_def c).
Proof.
  induction c as [|s r IH]; simpl; auto. intros H.
  destruct (is_def s); [exact H|apply IH; eapply nhs_tail; eauto].
Qed.
Lemma len_skip_comps c : (length (skip_comps c) <= length c)%nat.
Proof. induction c as [|s r IH]; simpl; auto. destruct (is_comp s); simpl; lia. Qed.
Lemma len_drop_to_def c : (length (drop_to_def c) <= length c)%nat.
Proof. induction c as [|s r IH]; simpl; auto. destruct (is_def s); simpl; lia. Qed.
Lemma du_skip_comps col c : drop_until (Pcol col) (skip_comps c) = drop_until (Pcol col) c.
Proof.
  induction c as [|s r IH]; simpl; auto.
  destruct (is_comp s) eqn:E; simpl; auto.
  rewrite IH. assert (Pcol col s = false) by (unfold Pcol, is_def; unfold is_comp in E; destruct (s_kind s); try discriminate; reflexivity). rewrite H. reflexivity.
Qed.
Lemma du_drop_to_def col c : drop_until (Pcol col) (drop_to_def c) = drop_until (Pcol col) c.
Proof.
  induction c as [|s r IH]; simpl; auto.
  destruct (is_def s) eqn:E; simpl; auto.
  rewrite IH. assert (Pcol col s = false) by (unfold Pcol; rewrite E; reflexivity). rewrite H. reflexivity.
Qed.
Lemma hn_skip_comps c : head_named (skip_comps c).
Proof. induction c as [|s r IH]; simpl; auto. destruct (is_comp s) eqn:E; simpl; auto. Qed.
Lemma hn_drop_to_def c : head_named (drop_to_def c).
Proof.
  induction c as [|s r IH]; simpl; auto. destruct (is_def s) eqn:E; simpl; auto. kinds s.
Qed.

Lemma ctx_walk_char col : forall fuel c,
  (length c < fuel)%nat -> nhs c -> head_named c ->
  ctx_walk fuel col c = drop_until (Pcol col) c.
Proof.
  induction fuel as [|fuel IH]; intros c Hl Hn Hh; [lia|].
  destruct c as [|s rest]; [reflexivity|].
  cbn [ctx_walk drop_until]. fold (Pcol col s).
  destruct (Pcol col s) eqn:EP; [reflexivity|].
  simpl in Hl.
  unfold name_parent.
  destruct (is_def s) eqn:Ed.
  - rewrite IH.
    + apply du_drop_to_def.
    + pose proof (len_drop_to_def rest). lia.
    + apply nhs_drop_to_def. eapply nhs_tail; eauto.
    + apply hn_drop_to_def.
  - (* a lambda: name.parent_context *)
    assert (El : is_lam s = true) by (simpl in Hh; kinds s).
    assert (Hp : parent_ctx (s :: rest) = rest).
    { unfold parent_ctx. assert (K : s_kind s = Lam) by (kinds s). rewrite K.
      destruct rest as [|y r]; [reflexivity|].
      simpl in Hn. destruct Hn as [Hn _]. destruct (Hn El) as [Hc Hd].
      unfold scope_of.
      assert (is_def y && pos_ltb (s_kw s) (s_colon y) = false).
      { destruct (is_def y) eqn:Ey; simpl; auto. specialize (Hd eq_refl). pos_lia. }
      rewrite H. simpl. rewrite Hc. reflexivity. }
    rewrite Hp. rewrite IH.
    + apply du_skip_comps.
    + pose proof (len_skip_comps rest). lia.
    + apply nhs_skip_comps. eapply nhs_tail; eauto.
    + apply hn_skip_comps.
Qed.

Lemma head_drop_until P c : ctx_head (drop_until P c) = find P c.
Proof. induction c as [|s r IH]; simpl; auto. destruct (P s); auto. Qed.
(* ------------------------------------------------------------------ get_context *)
Lemma tok_ok_spec l t s : tok_ok l t = true -> In s l ->
  (plt (fst t) (s_kw s) -> ple (snd t) (s_kw s)) /\
  (plt (fst t) (s_end s) -> ple (snd t) (s_end s)) /\
  (is_def s = true -> plt (fst t) (s_colon s) -> ple (snd t) (s_colon s)).
Proof.
  unfold tok_ok. intros H Hs. rewrite forallb_forall in H. specialize (H s Hs).
  unfold al in H. bsplit.
  repeat split.
  - intros L. apply orb_true_iff in H. destruct H as [H|H]; [|pos_lia].
    apply negb_true_iff in H. pos_lia.
  - intros L. apply orb_true_iff in H1. destruct H1 as [H1|H1]; [|pos_lia].
    apply negb_true_iff in H1. pos_lia.
  - intros Hd L. rewrite Hd in H0. simpl in H0.
    apply orb_true_iff in H0. destruct H0 as [H0|H0]; [|pos_lia].
    apply negb_true_iff in H0. pos_lia.
Qed.

Lemma drop_to_def_split c n above :
  drop_to_def c = n :: above ->
  exists pre, c = pre ++ n :: above /\ is_def n = true /\ Forall (fun s => is_def s = false) pre.
Proof.
  induction c as [|s r IH]; simpl; intros H; [discriminate|].
  destruct (is_def s) eqn:E.
  - inversion H; subst. exists []. repeat split; auto.
  - destruct (IH H) as [pre [A [B C]]]. exists (s :: pre). subst. repeat split; auto.
Qed.

Lemma drop_to_def_nil c : drop_to_def c = [] -> Forall (fun s => is_def s = false) c.
Proof.
  induction c as [|s r IH]; simpl; intros H; [constructor|].
  destruct (is_def s) eqn:E; [discriminate|]. constructor; auto.
Qed.

Lemma du_nodef col pre c :
  Forall (fun s => is_def s = false) pre -> drop_until (Pcol col) (pre ++ c) = drop_until (Pcol col) c.
Proof.
  induction 1 as [|s pre Hs _ IH]; simpl; auto.
  unfold Pcol at 1. rewrite Hs. simpl. exact IH.
Qed.

Section MAIN.
Variable f : file.
Variable p : pos.
Variable t : tok.
Let l := scopes f.
Let ls := fst t.
Let le := snd t.
Hypothesis Hwf : wf_scopes l = true.
Hypothesis Htok : tok_ok l t = true.
Hypothesis Hlcf : lam_cls_free l p = true.
Hypothesis Hlo : ple ls p.
Hypothesis Hhi : ple p le.
Hypothesis Hne : plt ls le.

Let c := chain_at l ls.

Lemma F_in s : In s c -> In s l /\ ple (s_kw s) ls /\ plt ls (s_end s).
Proof.
  intros H. apply (In_chain l) in H. destruct H as [H1 H2]. unfold contains in H2. bsplit.
  split; [assumption|]. split; pos_order.
Qed.

Lemma F_end s : In s c -> ple le (s_end s) /\ ple p (s_end s) /\ ple (s_kw s) p.
Proof.
  intros H. destruct (F_in _ H) as [A [B C]].
  destruct (tok_ok_spec _ _ _ Htok A) as [_ [E _]]. specialize (E C).
  fold le in E. split; [|split]; pos_order.
Qed.

(* a def/class of the chain that is not the innermost one has its colon before the leaf *)
Lemma above_def_colon y n :
  In y c -> In n c -> is_def y = true -> is_def n = true -> plt (s_kw y) (s_kw n) ->
  ple (s_colon y) ls.
Proof.
  intros Hy Hn Dy Dn Hlt.
  destruct (F_in _ Hy) as [Ly [Ky Ey]]. destruct (F_in _ Hn) as [Ln [Kn En]].
  pose proof (wf_pair l Hwf y n Ly Ln Hlt) as Hp. apply pair_ok_spec in Hp.
  destruct Hp as [_ [Hp|[_ Hp]]]; [exfalso; pos_order|].
  destruct (Hp Dy) as [H1 H2].
  assert (N : ~ plt (s_kw n) (s_colon y)).
  { intros L. destruct (H1 L) as [_ Q]. congruence. }
  pos_order.
Qed.

(* a lambda of the chain written in the header of an enclosing def/class y *)
Lemma lam_hdr x y :
  In x c -> In y c -> pair_ok y x = true -> is_def y = true -> plt (s_kw x) (s_colon y) ->
  plt (s_kw y) p /\ ple p (s_body y) /\ plt ls (s_colon y).
Proof.
  intros Hx Hy Hp Dy L.
  destruct (F_in _ Hx) as [Lx [Kx Ex]]. destruct (F_in _ Hy) as [Ly [Ky Ey]].
  destruct (F_end _ Hx) as [Ex1 [Ex2 Ex3]].
  apply pair_ok_spec in Hp. destruct Hp as [Hlt [Hp|[_ Hp]]]; [exfalso; pos_order|].
  destruct (Hp Dy) as [H1 _]. destruct (H1 L) as [Q _].
  destruct (scope_ok_spec _ (wf_scope_ok l Hwf y Ly)) as [_ S]. destruct (S Dy) as [S1 [S2 [S3 S4]]].
  split; [|split]; pos_order.
Qed.

Lemma nhs_suffix : forall c' pre,
  c = pre ++ c' ->
  (forall y, In y c' -> is_def y = true -> ple (s_colon y) ls) ->
  nhs c'.
Proof.
  induction c' as [|x r IH]; intros pre Hc Hcol; [exact I|].
  destruct r as [|y r']; [exact I|].
  assert (Hx : In x c) by (rewrite Hc; apply in_or_app; right; left; reflexivity).
  assert (Hy : In y c) by (rewrite Hc; apply in_or_app; right; right; left; reflexivity).
  pose proof (chain_SS l Hwf ls) as HSS. fold c in HSS. rewrite Hc in HSS.
  destruct (SS_split _ _ _ _ HSS) as [Hpre [Hxs _]].
  inversion Hxs as [|? ? Hyr Hfx]; subst.
  assert (Hpyx : pair_ok y x = true) by (inversion Hfx; assumption).
  split.
  - intros Lx. split.
    + (* not directly in a class *)
      destruct (is_cls y) eqn:Cy; [exfalso|reflexivity].
      destruct (F_in _ Hx) as [Lx' [Kx Ex]]. destruct (F_in _ Hy) as [Ly [Ky Ey]].
      destruct (F_end _ Hx) as [Ex1 [Ex2 Ex3]].
      unfold lam_cls_free in Hlcf. rewrite forallb_forall in Hlcf. specialize (Hlcf x Lx').
      assert (Tx : touches x p = true).
      { unfold touches. apply andb_true_iff. split; pos_order. }
      rewrite Lx, Tx in Hlcf. apply negb_true_iff in Hlcf.
      unfold direct_cls in Hlcf.
      assert (Hall : forall y0, In y0 l ->
                (if is_cls y0 then (if strictly_encloses y0 x then negb (between l y0 x) else false) else false) = false).
      { intros y0 Hy0.
        destruct (if is_cls y0 then (if strictly_encloses y0 x then negb (between l y0 x) else false) else false) eqn:E; auto.
        assert (existsb (fun y1 => if is_cls y1 then (if strictly_encloses y1 x then negb (between l y1 x) else false) else false) l = true).
        { apply existsb_exists. exists y0. split; auto. }
        congruence. }
      specialize (Hall y Ly). rewrite Cy in Hall.
      pose proof Hpyx as Hp2. apply pair_ok_spec in Hp2.
      destruct Hp2 as [Hlt [Hp2|[Hnest _]]]; [exfalso; pos_order|].
      assert (Se : strictly_encloses y x = true).
      { unfold strictly_encloses. apply andb_true_iff. split; pos_order. }
      rewrite Se in Hall. apply negb_false_iff in Hall.
      unfold between in Hall. apply existsb_exists in Hall. destruct Hall as [z [Lz Hz]].
      unfold strictly_encloses in Hz. bsplit.
      assert (Hzc : In z c).
      { apply (In_chain l). split; auto. unfold contains. apply andb_true_iff. split; pos_order. }
      rewrite Hc in Hzc. apply in_app_or in Hzc. destruct Hzc as [Hzc|[Hzc|[Hzc|Hzc]]].
      * rewrite Forall_forall in Hpre. specialize (Hpre z Hzc). simpl in Hpre.
        apply pair_ok_spec in Hpre. destruct Hpre as [Q _]. pos_order.
      * subst z. pos_order.
      * subst z. pos_order.
      * inversion Hyr as [|? ? _ Hfy]; subst. rewrite Forall_forall in Hfy. specialize (Hfy z Hzc).
        simpl in Hfy. apply pair_ok_spec in Hfy. destruct Hfy as [Q _]. pos_order.
    + intros Dy.
      assert (N : ~ plt (s_kw x) (s_colon y)).
      { intros L. destruct (lam_hdr x y Hx Hy Hpyx Dy L) as [_ [_ Q]].
        assert (ple (s_colon y) ls) by (apply Hcol; [right; left; reflexivity|assumption]).
        pos_order. }
      pos_order.
  - apply (IH (pre ++ [x])).
    + rewrite <- app_assoc. exact Hc.
    + intros y0 Hy0. apply Hcol. right. exact Hy0.
Qed.

(* the context the walk starts from *)
Definition start_ctx : ctx :=
  match drop_to_def c with
  | n :: above =>
      if pos_ltb (s_kw n) p && pos_leb p (s_body n) then n :: above else skip_comps (scope_of c ls)
  | [] => skip_comps (scope_of c ls)
  end.

Lemma nhs_cons_def n r : is_def n = true -> nhs r -> nhs (n :: r).
Proof.
  intros D H. destruct r as [|y r']; [exact I|]. split; auto.
  intros L. exfalso. kinds n.
Qed.

Lemma hn_def n r : is_def n = true -> head_named (n :: r).
Proof. intros D. simpl. kinds n. Qed.

Lemma walk_start :
  ctx_walk (S (length start_ctx)) (snd p) start_ctx = drop_until (Pcol (snd p)) c.
Proof.
  unfold start_ctx.
  destruct (drop_to_def c) as [|n above] eqn:Ed.
  - (* no def/class around the leaf *)
    pose proof (drop_to_def_nil _ Ed) as Hnd.
    assert (Hs : scope_of c ls = c).
    { destruct c as [|h r]; [reflexivity|]. simpl. inversion Hnd; subst. rewrite H1. reflexivity. }
    rewrite Hs. rewrite ctx_walk_char.
    + apply du_skip_comps.
    + pose proof (len_skip_comps c). lia.
    + apply nhs_skip_comps. apply (nhs_suffix c []); [reflexivity|].
      intros y Hy Dy. rewrite Forall_forall in Hnd. specialize (Hnd y Hy). congruence.
    + apply hn_skip_comps.
  - destruct (drop_to_def_split _ _ _ Ed) as [pre [Hc [Dn Hpre]]].
    assert (Hn : In n c) by (rewrite Hc; apply in_or_app; right; left; reflexivity).
    pose proof (chain_SS l Hwf ls) as HSS. fold c in HSS. rewrite Hc in HSS.
    destruct (SS_split _ _ _ _ HSS) as [Hpn [Hnab _]].
    assert (Habove : forall y, In y above -> is_def y = true -> ple (s_colon y) ls).
    { intros y Hy Dy. apply (above_def_colon y n); auto.
      - rewrite Hc. apply in_or_app. right. right. exact Hy.
      - inversion Hnab as [|? ? _ Hf]; subst. rewrite Forall_forall in Hf. specialize (Hf y Hy).
        simpl in Hf. apply pair_ok_spec in Hf. destruct Hf as [Q _]. exact Q. }
    assert (Nab : nhs above).
    { apply (nhs_suffix above (pre ++ [n])); [rewrite <- app_assoc; exact Hc|exact Habove]. }
    destruct (pos_ltb (s_kw n) p && pos_leb p (s_body n)) eqn:Ecase.
    + (* on the header: create_value(n).as_context() *)
      rewrite ctx_walk_char.
      * rewrite Hc. rewrite du_nodef; auto.
      * lia.
      * apply nhs_cons_def; auto.
      * apply hn_def; auto.
    + (* create_context(leaf) *)
      destruct (F_in _ Hn) as [Ln [Kn En]].
      destruct (scope_ok_spec _ (wf_scope_ok l Hwf n Ln)) as [_ S]. destruct (S Dn) as [S1 [S2 [S3 S4]]].
      destruct (tok_ok_spec _ _ _ Htok Ln) as [_ [_ Tc]]. specialize (Tc Dn). fold ls le in Tc.
      destruct (pos_ltb ls (s_colon n)) eqn:Ehdr.
      * (* the leaf is in n's header: then p is the start of n's keyword and n heads the chain *)
        assert (Tc' : ple le (s_colon n)) by (apply Tc; pos_order).
        assert (Hp : p = s_kw n).
        { apply andb_false_iff in Ecase. destruct Ecase as [E|E]; pos_order. }
        assert (Hpre0 : pre = []).
        { destruct pre as [|h pre']; [reflexivity|exfalso].
          assert (Hh : In h c) by (rewrite Hc; left; reflexivity).
          destruct (F_in _ Hh) as [_ [Kh _]].
          rewrite Forall_forall in Hpn. specialize (Hpn h (or_introl eq_refl)). simpl in Hpn.
          apply pair_ok_spec in Hpn. destruct Hpn as [Q _]. pos_order. }
        subst pre. simpl in Hc. rewrite Hc.
        assert (Hs : scope_of (n :: above) ls = above).
        { simpl. rewrite Dn, Ehdr. reflexivity. }
        rewrite Hs. rewrite ctx_walk_char.
        -- rewrite du_skip_comps. simpl.
           assert (Pcol (snd p) n = false).
           { unfold Pcol, kwcol. rewrite Hp. rewrite N.ltb_irrefl. apply andb_false_r. }
           rewrite H. reflexivity.
        -- pose proof (len_skip_comps above). lia.
        -- apply nhs_skip_comps. exact Nab.
        -- apply hn_skip_comps.
      * assert (Hs : scope_of c ls = c).
        { destruct c as [|h r] eqn:Ec; [reflexivity|]. simpl.
          destruct (is_def h) eqn:Dh; [|reflexivity]. simpl.
          (* h is def, so h = n *)
          destruct pre as [|h' pre'].
          - simpl in Hc. inversion Hc; subst. rewrite Ehdr. reflexivity.
          - simpl in Hc. inversion Hc; subst. inversion Hpre; subst. congruence. }
        rewrite Hs. rewrite ctx_walk_char.
        -- apply du_skip_comps.
        -- pose proof (len_skip_comps c). lia.
        -- apply nhs_skip_comps. apply (nhs_suffix c []); [reflexivity|].
           intros y Hy Dy. rewrite Hc in Hy. apply in_app_or in Hy.
           destruct Hy as [Hy|[Hy|Hy]].
           ++ rewrite Forall_forall in Hpre. specialize (Hpre y Hy). congruence.
           ++ subst y. pos_order.
           ++ apply Habove; auto.
        -- apply hn_skip_comps.
Qed.

End MAIN.
(* ------------------------------------------------------------------ get_context = innermost (extent, column) *)
Lemma find_all_false {A} (P : A -> bool) l : (forall x, In x l -> P x = false) -> find P l = None.
Proof.
  induction l as [|a l IH]; simpl; intros H; auto.
  rewrite (H a) by auto. apply IH. intros; apply H; auto.
Qed.

Theorem context_general f p :
  wf_file f = true -> on_code f p = true -> lam_cls_free (scopes f) p = true ->
  get_context_scope f p = innermost_ext_col (scopes f) p.
Proof.
  intros Hwf Hon Hl.
  unfold wf_file in Hwf. bsplit.
  destruct (leaf_at_covers f p H Hon) as [t [Hleaf [Hin [Hlo Hhi]]]].
  rewrite forallb_forall in H0. pose proof (H0 t Hin) as Htok.
  pose proof (toks_sorted_nonempty _ _ H Hin) as Hne.
  unfold get_context_scope, get_context_ctx. rewrite Hleaf.
  change (ctx_head (ctx_walk (S (length (start_ctx f p t))) (snd p) (start_ctx f p t)) =
          innermost_ext_col (scopes f) p).
  rewrite walk_start; auto.
  rewrite head_drop_until.
  unfold chain_at. rewrite <- filter_rev'. rewrite find_filter.
  unfold innermost_ext_col.
  apply find_ext_in. intros s Hs. apply in_rev in Hs.
  unfold Pcol.
  destruct (is_def s) eqn:Ds; simpl; [|apply andb_false_r].
  destruct (kwcol s <? snd p)%N eqn:Ecol; [|rewrite !andb_false_r; reflexivity].
  rewrite !andb_true_r.
  apply N.ltb_lt in Ecol.
  destruct (tok_ok_spec _ _ _ Htok Hs) as [Tk [Te _]].
  destruct (scope_ok_spec _ (wf_scope_ok _ H1 s Hs)) as [_ S]. destruct (S Ds) as [_ [_ [_ S4]]].
  unfold contains, in_extent.
  destruct (pos_leb (s_kw s) (fst t) && pos_ltb (fst t) (s_end s)) eqn:C;
  destruct (pos_ltb (s_kw s) p && pos_ltb p (s_end s)) eqn:X; auto; exfalso.
  - bsplit. assert (Q : ple (snd t) (s_end s)) by (apply Te; pos_order).
    apply andb_false_iff in X. destruct X as [X|X].
    + assert (E : s_kw s = p) by pos_order. rewrite <- E in Ecol. unfold kwcol in Ecol. lia.
    + assert (E : p = s_end s) by pos_order. rewrite E in Ecol. rewrite S4 in Ecol. lia.
  - bsplit. apply andb_false_iff in C. destruct C as [C|C].
    + assert (Q : ple (snd t) (s_kw s)) by (apply Tk; pos_order). pos_order.
    + pos_order.
Qed.

(* the last match in preorder is the innermost one *)
Lemma find_innermost l (Q : scope -> bool) d :
  wf_scopes l = true -> In d l -> Q d = true ->
  (forall e, In e l -> Q e = true -> encloses e d = true) ->
  find Q (rev l) = Some d.
Proof.
  intros Hwf Hd Qd Hall.
  destruct (find Q (rev l)) as [e|] eqn:E.
  - destruct (find_rev_last _ _ _ E) as [l1 [l2 [Hl [Qe Hl2]]]].
    assert (He : In e l) by (rewrite Hl; apply in_or_app; right; left; reflexivity).
    rewrite Hl in Hd. apply in_app_or in Hd. destruct Hd as [Hd|[Hd|Hd]].
    + exfalso. pose proof (wf_SS l Hwf) as HSS. rewrite Hl in HSS.
      destruct (SS_split _ _ _ _ HSS) as [Hpre _]. rewrite Forall_forall in Hpre.
      specialize (Hpre d Hd). simpl in Hpre. apply pair_ok_spec in Hpre. destruct Hpre as [Hlt _].
      specialize (Hall e He Qe). unfold encloses in Hall. bsplit. pos_order.
    + subst. reflexivity.
    + specialize (Hl2 d Hd). congruence.
  - exfalso. pose proof (find_none _ _ E d). rewrite <- in_rev in H. specialize (H Hd). congruence.
Qed.

Lemma innermost_complete R l p d :
  wf_scopes l = true -> Innermost R l p d -> innermost R l p = Some d.
Proof.
  intros Hwf [Hd [Dd [Rd Hall]]]. unfold innermost. apply find_innermost; auto.
  - rewrite Dd, Rd. reflexivity.
  - intros e He Qe. bsplit. auto.
Qed.

Lemma innermost_sound R l p d :
  wf_scopes l = true ->
  (forall s, In s l -> is_def s = true -> R s p = true -> plt (s_kw s) (s_end s) /\ ple (s_kw s) p /\ plt p (s_end s)) ->
  innermost R l p = Some d -> Innermost R l p d.
Proof.
  intros Hwf HR H. unfold innermost in H.
  destruct (find_rev_last _ _ _ H) as [l1 [l2 [Hl [Qd Hl2]]]]. bsplit.
  assert (Hd : In d l) by (rewrite Hl; apply in_or_app; right; left; reflexivity).
  split; [assumption|]. split; [assumption|]. split; [assumption|].
  intros e He De Re.
  rewrite Hl in He. apply in_app_or in He. destruct He as [He|[He|He]].
  - pose proof (wf_SS l Hwf) as HSS. rewrite Hl in HSS.
    destruct (SS_split _ _ _ _ HSS) as [Hpre _]. rewrite Forall_forall in Hpre.
    pose proof (Hpre e He) as Hp. simpl in Hp. apply pair_ok_spec in Hp.
    assert (Le : In e l) by (rewrite Hl; apply in_or_app; left; assumption).
    destruct (HR e Le De Re) as [A1 [A2 A3]]. destruct (HR d Hd H0 H1) as [B1 [B2 B3]].
    destruct Hp as [Hlt [Hp|[Hp _]]]; [exfalso; pos_order|].
    unfold encloses. apply andb_true_iff. split; pos_order.
  - subst. unfold encloses. apply andb_true_iff. split; pos_order.
  - specialize (Hl2 e He). rewrite De, Re in Hl2. discriminate.
Qed.

Lemma innermost_ext_col_of l p d :
  wf_scopes l = true -> Innermost in_extent l p d -> (kwcol d < snd p)%N ->
  innermost_ext_col l p = Some d.
Proof.
  intros Hwf [Hd [Dd [Rd Hall]]] Hcol. unfold innermost_ext_col. apply find_innermost; auto.
  - rewrite Dd, Rd. simpl. apply N.ltb_lt. assumption.
  - intros e He Qe. bsplit. auto.
Qed.

Theorem context_extent f p d :
  wf_file f = true -> on_code f p = true -> lam_cls_free (scopes f) p = true ->
  Innermost in_extent (scopes f) p d -> (kwcol d < snd p)%N ->
  get_context_scope f p = Some d.
Proof.
  intros Hwf Hon Hl Hi Hc. rewrite context_general; auto.
  apply innermost_ext_col_of; auto. unfold wf_file in Hwf. bsplit. assumption.
Qed.

Theorem context_is_innermost f p d :
  wf_file f = true -> on_code f p = true -> lam_cls_free (scopes f) p = true ->
  Innermost in_body (scopes f) p d -> NoneContains in_header (scopes f) p ->
  (kwcol d < snd p)%N ->
  get_context_scope f p = Some d.
Proof.
  intros Hwf Hon Hl [Hd [Dd [Rd Hall]]] Hnh Hc.
  apply context_extent; auto.
  assert (Hw : wf_scopes (scopes f) = true) by (unfold wf_file in Hwf; bsplit; assumption).
  split; [assumption|]. split; [assumption|]. split.
  - destruct (scope_ok_spec _ (wf_scope_ok _ Hw d Hd)) as [_ S]. destruct (S Dd) as [S1 [S2 [S3 _]]].
    unfold in_body in Rd. unfold in_extent. bsplit. apply andb_true_iff. split; pos_order.
  - intros e He De Re. apply Hall; auto.
    specialize (Hnh e He De). unfold in_header in Hnh. unfold in_extent in Re. unfold in_body.
    bsplit. apply andb_true_iff. split; [|assumption].
    apply andb_false_iff in Hnh. destruct Hnh as [Hnh|Hnh]; [congruence|]. pos_order.
Qed.

Theorem context_module f p :
  wf_file f = true -> on_code f p = true -> lam_cls_free (scopes f) p = true ->
  NoneContains in_extent (scopes f) p ->
  get_context_scope f p = None.
Proof.
  intros Hwf Hon Hl Hn. rewrite context_general; auto.
  unfold innermost_ext_col. apply find_all_false. intros s Hs. apply in_rev in Hs.
  destruct (is_def s) eqn:Ds; [|reflexivity]. rewrite (Hn s Hs Ds). reflexivity.
Qed.
(* ------------------------------------------------------------------ parent() chains *)
Lemma filter_ext_in' {A} (f g : A -> bool) l :
  (forall x, In x l -> f x = g x) -> filter f l = filter g l.
Proof.
  induction l as [|a l IH]; simpl; intros H; auto.
  rewrite (H a) by auto. rewrite IH; auto.
Qed.

Lemma filter_none {A} (f : A -> bool) l : (forall x, In x l -> f x = false) -> filter f l = [].
Proof.
  induction l as [|a l IH]; simpl; intros H; auto.
  rewrite (H a) by auto. apply IH. intros; apply H; auto.
Qed.

Lemma up_chain_defs : forall c fuel,
  (length (drop_to_def c) < fuel)%nat ->
  up_chain fuel (drop_to_def c) = map s_id (filter is_def c) ++ [0%N].
Proof.
  induction c as [|s r IH]; intros fuel Hl.
  - destruct fuel; [simpl in Hl; lia|]. reflexivity.
  - simpl drop_to_def in *. simpl filter.
    destruct (is_def s) eqn:E.
    + simpl in Hl. destruct fuel as [|fuel]; [lia|]. cbn [up_chain name_parent]. rewrite E.
      simpl. f_equal. apply IH. pose proof (len_drop_to_def r). lia.
    + apply IH. exact Hl.
Qed.

Section CHAIN.
Variable l : list scope.
Hypothesis Hwf : wf_scopes l = true.
Variable d : scope.
Hypothesis Hd : In d l.

(* the chain at the keyword of d is d followed by the scopes that enclose it *)
Lemma chain_at_kw : chain_at l (s_kw d) = d :: enclosing l d.
Proof.
  destruct (in_split _ _ Hd) as [l1 [l2 Hl]].
  pose proof (wf_SS l Hwf) as HSS. rewrite Hl in HSS.
  destruct (SS_split _ _ _ _ HSS) as [Hpre [Hds _]].
  inversion Hds as [|? ? _ Hpost]; subst.
  rewrite Forall_forall in Hpre, Hpost.
  destruct (scope_ok_spec _ (wf_scope_ok _ Hwf d Hd)) as [Sd _].
  unfold chain_at, enclosing. rewrite !filter_app. simpl.
  assert (Cd : contains d (s_kw d) = true).
  { unfold contains. apply andb_true_iff. split; pos_order. }
  assert (Ed : strictly_encloses d d = false).
  { unfold strictly_encloses. apply andb_false_iff. left. pos_order. }
  rewrite Cd, Ed.
  assert (F2 : filter (fun s => contains s (s_kw d)) l2 = []).
  { apply filter_none. intros x Hx. specialize (Hpost x Hx). simpl in Hpost.
    apply pair_ok_spec in Hpost. destruct Hpost as [Q _].
    unfold contains. apply andb_false_iff. left. pos_order. }
  assert (G2 : filter (fun s => strictly_encloses s d) l2 = []).
  { apply filter_none. intros x Hx. specialize (Hpost x Hx). simpl in Hpost.
    apply pair_ok_spec in Hpost. destruct Hpost as [Q _].
    unfold strictly_encloses. apply andb_false_iff. left. pos_order. }
  rewrite F2, G2, app_nil_r.
  assert (F1 : filter (fun s => contains s (s_kw d)) l1 = filter (fun s => strictly_encloses s d) l1).
  { apply filter_ext_in'. intros x Hx. specialize (Hpre x Hx). simpl in Hpre.
    apply pair_ok_spec in Hpre. destruct Hpre as [Q Hp].
    unfold contains, strictly_encloses.
    destruct (pos_leb (s_kw x) (s_kw d) && pos_ltb (s_kw d) (s_end x)) eqn:C;
    destruct (pos_ltb (s_kw x) (s_kw d) && pos_leb (s_end d) (s_end x)) eqn:X; auto; exfalso.
    - bsplit. destruct Hp as [Hp|[Hp _]]; [pos_order|].
      apply andb_false_iff in X. destruct X as [X|X]; pos_order.
    - bsplit. apply andb_false_iff in C. destruct C as [C|C]; pos_order. }
  rewrite F1. rewrite rev_app_distr. reflexivity.
Qed.

(* p lies in d and in no scope nested in d *)
Definition own_pos (p : pos) : Prop :=
  contains d p = true /\ forall e, In e l -> contains e p = true -> encloses e d = true.

Lemma chain_at_own p : own_pos p -> chain_at l p = chain_at l (s_kw d).
Proof.
  intros [Cp Hp]. unfold chain_at. f_equal. apply filter_ext_in'. intros x Hx.
  destruct (scope_ok_spec _ (wf_scope_ok _ Hwf d Hd)) as [Sd _].
  destruct (contains x p) eqn:C1; destruct (contains x (s_kw d)) eqn:C2; auto; exfalso.
  - specialize (Hp x Hx C1). unfold encloses in Hp. unfold contains in C2. bsplit.
    apply andb_false_iff in C2. destruct C2 as [C2|C2]; pos_order.
  - unfold contains in *. bsplit.
    destruct (pos_ltb (s_kw x) (s_kw d)) eqn:L.
    + pose proof (wf_pair l Hwf x d Hx Hd) as Hpair. assert (Q : plt (s_kw x) (s_kw d)) by pos_order.
      specialize (Hpair Q). apply pair_ok_spec in Hpair. destruct Hpair as [_ [Hpair|[Hpair _]]]; [pos_order|].
      apply andb_false_iff in C1. destruct C1 as [C1|C1]; pos_order.
    + assert (E : s_kw x = s_kw d) by pos_order.
      assert (x = d) by (apply (wf_kw_inj l Hwf); auto; rewrite E; reflexivity).
      subst x. rewrite H1, H2 in C1. discriminate.
Qed.

Theorem parent_chain_lexical p :
  own_pos p ->
  parent_chain l NDef p = map s_id (filter is_def (enclosing l d)) ++ [0%N].
Proof.
  intros Hp. unfold parent_chain, first_parent. rewrite (chain_at_own p Hp), chain_at_kw. simpl tl.
  rewrite up_chain_defs.
  - reflexivity.
  - lia.
Qed.

(* a parameter of d (written in d's header outside nested scopes): d first, then as above *)
Theorem parent_chain_param p :
  is_def d = true -> own_pos p ->
  parent_chain l NParam p = s_id d :: map s_id (filter is_def (enclosing l d)) ++ [0%N].
Proof.
  intros Dd Hp. unfold parent_chain, first_parent. rewrite (chain_at_own p Hp), chain_at_kw.
  replace (drop_to_def (d :: enclosing l d)) with (d :: enclosing l d) by (simpl; rewrite Dd; reflexivity).
  change (up_chain (S (length (d :: enclosing l d))) (d :: enclosing l d))
    with (s_id d :: up_chain (S (length (enclosing l d))) (name_parent (d :: enclosing l d))).
  unfold name_parent. rewrite Dd. f_equal.
  apply up_chain_defs. pose proof (len_drop_to_def (enclosing l d)). lia.
Qed.

(* ------------------------------------------------------------------ qualified names *)
Lemma enclosing_facts :
  StronglySorted (fun a b => pair_ok b a = true) (d :: enclosing l d) /\
  forall e, In e (enclosing l d) -> In e l.
Proof.
  split.
  - rewrite <- chain_at_kw. apply chain_SS. exact Hwf.
  - intros e He. unfold enclosing in He. apply in_rev in He. apply filter_In in He. tauto.
Qed.

Lemma qn_classes : forall E fuel,
  (length E < fuel)%nat ->
  StronglySorted (fun a b => pair_ok b a = true) E ->
  (forall e, In e E -> In e l /\ is_cls e = true) ->
  qn_ctx fuel E = Some (map s_name (rev E)).
Proof.
  induction E as [|s r IH]; intros fuel Hl HSS Hall.
  - destruct fuel; [simpl in Hl; lia|]. reflexivity.
  - destruct fuel as [|fuel]; [simpl in Hl; lia|]. simpl in Hl.
    destruct (Hall s (or_introl eq_refl)) as [Ls Cs].
    assert (Ncomp : is_comp s = false) by (kinds s).
    cbn [qn_ctx]. rewrite Ncomp.
    inversion HSS as [|? ? Hr Hf]; subst.
    destruct r as [|y r'].
    + unfold lexical_parent. rewrite Ncomp. reflexivity.
    + destruct (Hall y (or_intror (or_introl eq_refl))) as [Ly Cy].
      assert (Hs : lexical_parent (s :: y :: r') = y :: r').
      { unfold lexical_parent. rewrite Ncomp. unfold scope_of.
        inversion Hf as [|? ? Hp _]; subst. apply pair_ok_spec in Hp.
        assert (Dy : is_def y = true) by (kinds y). assert (Ds : is_def s = true) by (kinds s).
        destruct Hp as [Hlt [Hp|[_ Hp]]].
        - (* disjoint: impossible, but then the header test is false anyway *)
          destruct (scope_ok_spec _ (wf_scope_ok _ Hwf y Ly)) as [_ S]. destruct (S Dy) as [S1 [S2 [S3 _]]].
          rewrite Dy. simpl. assert (pos_ltb (s_kw s) (s_colon y) = false) by pos_order. rewrite H. reflexivity.
        - destruct (Hp Dy) as [H1 H2]. rewrite Dy. simpl.
          destruct (pos_ltb (s_kw s) (s_colon y)) eqn:L; [|reflexivity].
          exfalso. assert (Q : plt (s_kw s) (s_colon y)) by pos_order.
          destruct (H1 Q) as [_ N]. congruence. }
      rewrite Hs. rewrite Cy.
      rewrite IH.
      * simpl. rewrite !map_app. reflexivity.
      * simpl. simpl in Hl. lia.
      * assumption.
      * intros e He. apply Hall. right. assumption.
Qed.

Lemma qualname_classes : forall E name,
  (forall e, In e E -> is_cls e = true) ->
  qualname_of (filter is_def E) name = map s_name E ++ [name].
Proof.
  induction E as [|s r IH]; intros name Hall; [reflexivity|].
  assert (Cs : is_cls s = true) by (apply Hall; left; reflexivity).
  assert (Ds : is_def s = true) by (kinds s).
  simpl. rewrite Ds. simpl.
  assert (K : s_kind s = Cls) by (kinds s). rewrite K.
  f_equal. apply IH. intros e He. apply Hall. right. assumption.
Qed.

Theorem full_name_qualname f p :
  l = scopes f ->
  is_def d = true -> own_pos p -> plt p (s_colon d) ->
  forallb is_cls (enclosing l d) = true ->
  full_name_def f p (s_name d) = Some (f_mod f ++ qualname l d).
Proof.
  intros Hl Dd Hp Hcol Hcls. unfold full_name_def. rewrite <- Hl.
  rewrite (chain_at_own p Hp), chain_at_kw.
  assert (Hs : scope_of (d :: enclosing l d) p = enclosing l d).
  { simpl. rewrite Dd. simpl. assert (pos_ltb p (s_colon d) = true) by pos_order. rewrite H. reflexivity. }
  rewrite Hs.
  destruct enclosing_facts as [HSS Hin].
  rewrite forallb_forall in Hcls.
  rewrite qn_classes.
  - f_equal. f_equal. unfold qualname.
    rewrite qualname_classes.
    + reflexivity.
    + intros e He. apply in_rev in He. auto.
  - lia.
  - inversion HSS; assumption.
  - intros e He. split; auto.
Qed.

End CHAIN.
(* ------------------------------------------------------------------ computable specification = Prop specification *)
Lemma innermost_body_sound l p d :
  wf_scopes l = true -> innermost in_body l p = Some d -> Innermost in_body l p d.
Proof.
  intros Hwf H. apply innermost_sound; auto.
  intros s Hs Ds Rs. destruct (scope_ok_spec _ (wf_scope_ok _ Hwf s Hs)) as [S0 S].
  destruct (S Ds) as [S1 [S2 [S3 _]]]. unfold in_body in Rs. bsplit.
  split; [assumption|]. split; pos_order.
Qed.

Lemma innermost_extent_sound l p d :
  wf_scopes l = true -> innermost in_extent l p = Some d -> Innermost in_extent l p d.
Proof.
  intros Hwf H. apply innermost_sound; auto.
  intros s Hs Ds Rs. destruct (scope_ok_spec _ (wf_scope_ok _ Hwf s Hs)) as [S0 _].
  unfold in_extent in Rs. bsplit. split; [assumption|]. split; pos_order.
Qed.

Lemma none_contains_b R l p :
  forallb (fun e => negb (is_def e && R e p)) l = true -> NoneContains R l p.
Proof.
  intros H e He De. rewrite forallb_forall in H. specialize (H e He).
  rewrite De in H. simpl in H. apply negb_true_iff in H. exact H.
Qed.

(* ------------------------------------------------------------------ examples and refutation witnesses *)
(* class A:
       class B:
           def m(self, a=lambda q: q):
               x = [i for i in a]
               return x
       def n(self):
           def inner():
               pass
           return inner
   def top(): pass
    *)
Definition ex_main : file :=
  File [[112;107]%N; [109;111;100]%N]
    [((1,0)%N,(1,5)%N); ((1,6)%N,(1,7)%N); ((1,7)%N,(1,8)%N); ((1,8)%N,(2,0)%N); ((2,4)%N,(2,9)%N); ((2,10)%N,(2,11)%N); ((2,11)%N,(2,12)%N); ((2,12)%N,(3,0)%N); ((3,8)%N,(3,11)%N); ((3,12)%N,(3,13)%N); ((3,13)%N,(3,14)%N); ((3,14)%N,(3,18)%N); ((3,18)%N,(3,19)%N); ((3,20)%N,(3,21)%N); ((3,21)%N,(3,22)%N); ((3,22)%N,(3,28)%N); ((3,29)%N,(3,30)%N); ((3,30)%N,(3,31)%N); ((3,32)%N,(3,33)%N); ((3,33)%N,(3,34)%N); ((3,34)%N,(3,35)%N); ((3,35)%N,(4,0)%N); ((4,12)%N,(4,13)%N); ((4,14)%N,(4,15)%N); ((4,16)%N,(4,17)%N); ((4,17)%N,(4,18)%N); ((4,19)%N,(4,22)%N); ((4,23)%N,(4,24)%N); ((4,25)%N,(4,27)%N); ((4,28)%N,(4,29)%N); ((4,29)%N,(4,30)%N); ((4,30)%N,(5,0)%N); ((5,12)%N,(5,18)%N); ((5,19)%N,(5,20)%N); ((5,20)%N,(6,0)%N); ((6,4)%N,(6,7)%N); ((6,8)%N,(6,9)%N); ((6,9)%N,(6,10)%N); ((6,10)%N,(6,14)%N); ((6,14)%N,(6,15)%N); ((6,15)%N,(6,16)%N); ((6,16)%N,(7,0)%N); ((7,8)%N,(7,11)%N); ((7,12)%N,(7,17)%N); ((7,17)%N,(7,18)%N); ((7,18)%N,(7,19)%N); ((7,19)%N,(7,20)%N); ((7,20)%N,(8,0)%N); ((8,12)%N,(8,16)%N); ((8,16)%N,(9,0)%N); ((9,8)%N,(9,14)%N); ((9,15)%N,(9,20)%N); ((9,20)%N,(10,0)%N); ((10,0)%N,(10,3)%N); ((10,4)%N,(10,7)%N); ((10,7)%N,(10,8)%N); ((10,8)%N,(10,9)%N); ((10,9)%N,(10,10)%N); ((10,11)%N,(10,15)%N); ((10,15)%N,(11,0)%N)]
    [DT (Scope 1 Cls [65]%N 0 (1,0)%N (1,7)%N (1,8)%N (10,0)%N) [DT (Scope 2 Cls [66]%N 4 (2,4)%N (2,11)%N (2,12)%N (6,0)%N) [DT (Scope 3 Func [109]%N 8 (3,8)%N (3,34)%N (3,35)%N (6,0)%N) [DT (Scope 4 Lam [60;108;97;109;98;100;97;62]%N 22 (3,22)%N (3,22)%N (3,22)%N (3,33)%N) (@nil (dtree)); DT (Scope 5 Comp (@nil N) 16 (4,16)%N (4,16)%N (4,16)%N (4,30)%N) (@nil (dtree))]]; DT (Scope 6 Func [110]%N 4 (6,4)%N (6,15)%N (6,16)%N (10,0)%N) [DT (Scope 7 Func [105;110;110;101;114]%N 8 (7,8)%N (7,19)%N (7,20)%N (9,0)%N) (@nil (dtree))]]; DT (Scope 8 Func [116;111;112]%N 0 (10,0)%N (10,9)%N (10,11)%N (11,0)%N) (@nil (dtree))].
(* id 1 cls A kw (1, 0) name (1, 6)  *)
(* id 2 cls B kw (2, 4) name (2, 10)  *)
(* id 3 func m kw (3, 8) name (3, 12)  *)
(* id 4 lam <lambda> kw (3, 22) name None  *)
(* id 5 comp  kw (4, 16) name None  *)
(* id 6 func n kw (6, 4) name (6, 8)  *)
(* id 7 func inner kw (7, 8) name (7, 12)  *)
(* id 8 func top kw (10, 0) name (10, 4)  *)
(* def f():
       x = [
   1]
    *)
Definition ex_cont : file :=
  File [[109]%N]
    [((1,0)%N,(1,3)%N); ((1,4)%N,(1,5)%N); ((1,5)%N,(1,6)%N); ((1,6)%N,(1,7)%N); ((1,7)%N,(1,8)%N); ((1,8)%N,(2,0)%N); ((2,4)%N,(2,5)%N); ((2,6)%N,(2,7)%N); ((2,8)%N,(2,9)%N); ((3,0)%N,(3,1)%N); ((3,1)%N,(3,2)%N); ((3,2)%N,(4,0)%N)]
    [DT (Scope 1 Func [102]%N 0 (1,0)%N (1,7)%N (1,8)%N (4,0)%N) (@nil (dtree))].
(* id 1 func f kw (1, 0) name (1, 4)  *)
(* async def f():
       x = 1
    *)
Definition ex_async : file :=
  File [[109]%N]
    [((1,0)%N,(1,5)%N); ((1,6)%N,(1,9)%N); ((1,10)%N,(1,11)%N); ((1,11)%N,(1,12)%N); ((1,12)%N,(1,13)%N); ((1,13)%N,(1,14)%N); ((1,14)%N,(2,0)%N); ((2,4)%N,(2,5)%N); ((2,6)%N,(2,7)%N); ((2,8)%N,(2,9)%N); ((2,9)%N,(3,0)%N)]
    [DT (Scope 1 Func [102]%N 0 (1,6)%N (1,13)%N (1,14)%N (3,0)%N) (@nil (dtree))].
(* id 1 func f kw (1, 6) name (1, 10)  *)
(* class A:
       f = lambda: 1
    *)
Definition ex_lamcls : file :=
  File [[109]%N]
    [((1,0)%N,(1,5)%N); ((1,6)%N,(1,7)%N); ((1,7)%N,(1,8)%N); ((1,8)%N,(2,0)%N); ((2,4)%N,(2,5)%N); ((2,6)%N,(2,7)%N); ((2,8)%N,(2,14)%N); ((2,14)%N,(2,15)%N); ((2,16)%N,(2,17)%N); ((2,17)%N,(3,0)%N)]
    [DT (Scope 1 Cls [65]%N 0 (1,0)%N (1,7)%N (1,8)%N (3,0)%N) [DT (Scope 2 Lam [60;108;97;109;98;100;97;62]%N 8 (2,8)%N (2,8)%N (2,8)%N (2,17)%N) (@nil (dtree))]].
(* id 1 cls A kw (1, 0) name (1, 6)  *)
(* id 2 lam <lambda> kw (2, 8) name None  *)

Definition sc_f_cont : scope := Scope 1 Func [102]%N 0 (1,0)%N (1,7)%N (1,8)%N (4,0)%N.
Definition sc_f_async : scope := Scope 1 Func [102]%N 0 (1,6)%N (1,13)%N (1,14)%N (3,0)%N.
Definition sc_A_lamcls : scope := Scope 1 Cls [65]%N 0 (1,0)%N (1,7)%N (1,8)%N (3,0)%N.

(* a continuation line that starts left of the `def`: the column walk leaves the function *)
Lemma context_suite_column_refuted :
  exists f p d, wf_file f = true /\ on_code f p = true /\ lam_cls_free (scopes f) p = true /\
    Innermost in_body (scopes f) p d /\ NoneContains in_header (scopes f) p /\
    get_context_scope f p <> Some d.
Proof.
  exists ex_cont, (3,0)%N, sc_f_cont.
  split; [vm_compute; reflexivity|]. split; [vm_compute; reflexivity|]. split; [vm_compute; reflexivity|].
  split; [apply innermost_body_sound; vm_compute; reflexivity|].
  split; [apply none_contains_b; vm_compute; reflexivity|].
  vm_compute. discriminate.
Qed.

(* body of an `async def` indented less than the column of its `def` keyword *)
Lemma context_async_refuted :
  exists f p d, wf_file f = true /\ on_code f p = true /\ lam_cls_free (scopes f) p = true /\
    Innermost in_body (scopes f) p d /\ NoneContains in_header (scopes f) p /\
    (s_ind d < snd p)%N /\ get_context_scope f p <> Some d.
Proof.
  exists ex_async, (2,4)%N, sc_f_async.
  split; [vm_compute; reflexivity|]. split; [vm_compute; reflexivity|]. split; [vm_compute; reflexivity|].
  split; [apply innermost_body_sound; vm_compute; reflexivity|].
  split; [apply none_contains_b; vm_compute; reflexivity|].
  split; [vm_compute; reflexivity|].
  vm_compute. discriminate.
Qed.

(* inside a lambda written directly in a class body the class is skipped *)
Lemma context_lambda_in_class_refuted :
  exists f p d, wf_file f = true /\ on_code f p = true /\
    Innermost in_body (scopes f) p d /\ NoneContains in_header (scopes f) p /\
    (kwcol d < snd p)%N /\ get_context_scope f p <> Some d.
Proof.
  exists ex_lamcls, (2,16)%N, sc_A_lamcls.
  split; [vm_compute; reflexivity|]. split; [vm_compute; reflexivity|].
  split; [apply innermost_body_sound; vm_compute; reflexivity|].
  split; [apply none_contains_b; vm_compute; reflexivity|].
  split; [vm_compute; reflexivity|].
  vm_compute. discriminate.
Qed.

(* a function nested in a module-level function: jedi says mod.f.g, Python says f.<locals>.g *)
Definition sc_inner : scope := Scope 7 Func [105;110;110;101;114]%N 8 (7,8)%N (7,19)%N (7,20)%N (9,0)%N.
Definition sc_n : scope := Scope 6 Func [110]%N 4 (6,4)%N (6,15)%N (6,16)%N (10,0)%N.

Lemma full_name_function_local_refuted :
  exists f d p, wf_file f = true /\ In d (scopes f) /\ is_def d = true /\
    contains d p = true /\ (forall e, In e (scopes f) -> contains e p = true -> encloses e d = true) /\
    pos_ltb p (s_colon d) = true /\
    forallb is_cls (enclosing (scopes f) d) = false /\
    full_name_def f p (s_name d) <> Some (f_mod f ++ qualname (scopes f) d).
Proof.
  exists ex_main, sc_inner, (7,12)%N.
  split; [vm_compute; reflexivity|]. split; [vm_compute; tauto|]. split; [reflexivity|].
  split; [vm_compute; reflexivity|].
  split.
  { intros e He Hc. vm_compute in He.
    repeat (destruct He as [<-|He]; [vm_compute in Hc; try discriminate; vm_compute; reflexivity|]).
    destruct He. }
  split; [vm_compute; reflexivity|]. split; [vm_compute; reflexivity|].
  vm_compute. discriminate.
Qed.
