(* C02 proofs.
   PART B  binding_agrees_proof: jedi's get_executed_param_names_and_issues (jedi_bind) gives every
           parameter what Python's call binding (py_bind) gives it, whenever Python's succeeds.
   PART C  mro_single_inheritance_proof: depth-first de-duplicated MRO = C3 on single inheritance.
   PART A  ainfer_sound_proof / ainfer_exact_single_proof: the abstract evaluator is sound for the
           concrete semantics on the whole core language (calls included, via PART B), and exact
           when no conditional expression can be reached. *)
From JV Require Import Model.C02_MiniInfer.

(* ------------------------------------------------------------------ reflection helpers *)
Lemma memN_In : forall x l, memN x l = true <-> In x l.
Proof.
  induction l as [|y r IH]; cbn [memN In].
  - split; [discriminate | tauto].
  - rewrite orb_true_iff, IH, N.eqb_eq. split; intros [H|H]; auto.
Qed.

Lemma memN_false : forall x l, memN x l = false <-> ~ In x l.
Proof.
  intros x l. rewrite <- memN_In. destruct (memN x l); split; congruence.
Qed.

Lemma nodupb_NoDup : forall l, nodupb l = true <-> NoDup l.
Proof.
  induction l as [|y r IH]; cbn [nodupb].
  - split; [constructor | reflexivity].
  - rewrite andb_true_iff, negb_true_iff, memN_false, IH. split.
    + intros [H1 H2]. constructor; assumption.
    + intros H. inversion H; subst. split; assumption.
Qed.

(* ================================================================== PART C: mro *)
Lemma add_new_nodup : forall l acc, NoDup (acc ++ l) -> add_new acc l = acc ++ l.
Proof.
  induction l as [|c r IH]; intros acc H; cbn [add_new].
  - rewrite app_nil_r. reflexivity.
  - assert (Hc : memN c acc = false).
    { apply memN_false. intros Hin. apply NoDup_remove_2 in H. apply H.
      apply in_or_app. left. exact Hin. }
    rewrite Hc. rewrite IH.
    + rewrite <- app_assoc. reflexivity.
    + rewrite <- app_assoc. exact H.
Qed.

Lemma c3_merge_single : forall l f, NoDup l -> length l <= f -> c3_merge f [l] = Some l.
Proof.
  induction l as [|x t IH]; intros f Hnd Hlen.
  - destruct f; reflexivity.
  - destruct f as [|f]; [cbn in Hlen; lia|].
    cbn [c3_merge filter nonempty find_head in_tail existsb].
    inversion Hnd as [|? ? Hx Ht]; subst.
    apply memN_false in Hx. rewrite Hx. cbn [orb].
    cbn [drop_head map]. rewrite N.eqb_refl.
    rewrite IH; [reflexivity | assumption | cbn in Hlen; lia].
Qed.

Lemma c3_merge_single_nil : forall l f, NoDup l -> length l <= f -> c3_merge f [l; []] = Some l.
Proof.
  intros l f Hnd Hlen. destruct l as [|x t].
  - destruct f; reflexivity.
  - rewrite <- (c3_merge_single (x :: t) f Hnd Hlen).
    destruct f; reflexivity.
Qed.

Definition Inv (seen : list N) (tbl : list (N * list N)) : Prop :=
  forall b, In b seen ->
    exists m', lookup b tbl = Some (b :: m') /\ NoDup (b :: m') /\ (forall x, In x (b :: m') -> In x seen).

Lemma Inv_step : forall seen tbl c m,
  Inv seen tbl -> ~ In c seen -> NoDup (c :: m) -> (forall x, In x m -> In x seen) ->
  Inv (c :: seen) ((c, c :: m) :: tbl).
Proof.
  intros seen tbl c m HI Hc Hnd Hm b Hb.
  cbn [lookup]. destruct (N.eqb_spec b c) as [->|Hne].
  - exists m. split; [reflexivity|]. split; [assumption|].
    intros x [Hx|Hx]; [left; assumption | right; apply Hm; assumption].
  - destruct Hb as [Hb|Hb]; [congruence|].
    destruct (HI b Hb) as [m' [H1 [H2 H3]]].
    exists m'. split; [assumption|]. split; [assumption|].
    intros x Hx. right. apply H3. assumption.
Qed.

Lemma mro_step : forall seen tbl c,
  Inv seen tbl -> ~ In (c_id c) seen ->
  match c_bases c with [] => true | [b] => memN b seen | _ => false end = true ->
  exists m, jedi_mro_of tbl c = c_id c :: m /\ c3_mro_of tbl c = Some (c_id c :: m) /\
            NoDup (c_id c :: m) /\ (forall x, In x m -> In x seen).
Proof.
  intros seen tbl c HI Hc Hb.
  unfold jedi_mro_of, c3_mro_of.
  destruct (c_bases c) as [|b [|b2 bs]]; [| |discriminate].
  - exists []. cbn. repeat split; try tauto. constructor; [tauto | constructor].
  - apply memN_In in Hb. destruct (HI b Hb) as [m' [H1 [H2 H3]]].
    exists (b :: m').
    assert (Hnd : NoDup (c_id c :: b :: m')).
    { constructor; [|assumption]. intros Hin. apply Hc. apply H3. assumption. }
    split; [|split; [|split]].
    + cbn [fold_left]. rewrite H1. cbn [or_nil].
      apply (add_new_nodup (b :: m') [c_id c]). exact Hnd.
    + cbn [omap]. rewrite H1. cbn [app].
      cbn [c3_merge filter nonempty find_head in_tail existsb memN].
      inversion H2 as [|? ? Hx Ht]; subst.
      apply memN_false in Hx. rewrite Hx. cbn [orb].
      cbn [drop_head map]. rewrite N.eqb_refl.
      rewrite c3_merge_single_nil; [reflexivity | assumption |].
      cbn [concat]. rewrite !app_length. cbn [length]. lia.
    + exact Hnd.
    + exact H3.
Qed.

Lemma mro_tables : forall h seen tbl,
  Inv seen tbl -> single_inh seen h = true -> c3_table tbl h = Some (jedi_table tbl h).
Proof.
  induction h as [|c r IH]; intros seen tbl HI Hs.
  - reflexivity.
  - cbn [single_inh] in Hs. apply andb_true_iff in Hs. destruct Hs as [Hs H3].
    apply andb_true_iff in Hs. destruct Hs as [H1 H2].
    apply negb_true_iff in H1. apply memN_false in H1.
    destruct (mro_step seen tbl c HI H1 H2) as [m [Hj [Hc [Hnd Hm]]]].
    cbn [c3_table jedi_table]. rewrite Hc, Hj.
    apply (IH (c_id c :: seen)); [|assumption].
    apply Inv_step; assumption.
Qed.

(* ================================================================== PART B: binding *)
Lemma lookup_app : forall (V : Type) x (l1 l2 : list (N * V)),
  lookup x (l1 ++ l2) = match lookup x l1 with Some v => Some v | None => lookup x l2 end.
Proof.
  induction l1 as [|[y v] r IH]; intros l2; cbn [app lookup]; [reflexivity|].
  destruct (N.eqb x y); [reflexivity | apply IH].
Qed.

Lemma lookup_None : forall (V : Type) x (l : list (N * V)), lookup x l = None <-> ~ In x (map fst l).
Proof.
  induction l as [|[y v] r IH]; cbn [lookup map fst In].
  - tauto.
  - destruct (N.eqb_spec x y) as [->|Hne].
    + split; [discriminate | tauto].
    + rewrite IH. split; [intros H [H1|H1]; [congruence | tauto] | tauto].
Qed.

Lemma NoDup_app_inv : forall (T : Type) (l1 l2 : list T),
  NoDup (l1 ++ l2) -> NoDup l1 /\ NoDup l2 /\ (forall x, In x l1 -> In x l2 -> False).
Proof.
  induction l1 as [|a l1 IH]; intros l2 H; cbn [app] in H.
  - split; [constructor|]. split; [assumption|]. intros x [].
  - inversion H as [|? ? Ha Hr]; subst. destruct (IH l2 Hr) as [H1 [H2 H3]].
    split; [|split; [assumption|]].
    + constructor; [|assumption]. intros Hin. apply Ha. apply in_or_app. left. assumption.
    + intros x [Hx|Hx] Hx2.
      * subst. apply Ha. apply in_or_app. right. assumption.
      * exact (H3 x Hx Hx2).
Qed.

Lemma existsb_false : forall (T : Type) (f : T -> bool) l, existsb f l = false -> forall x, In x l -> f x = false.
Proof.
  intros T f l H x Hx. destruct (f x) eqn:E; [|reflexivity].
  assert (existsb f l = true) by (apply existsb_exists; exists x; auto). congruence.
Qed.

Definition reg (xd : N * bool) : pspec := (fst xd, PReg, snd xd).
Definition starl (o : option (N * bool)) : list pspec :=
  match o with Some (x, b) => [(x, PStar, b)] | None => [] end.
Definition sstarl (o : option (N * bool)) : list pspec :=
  match o with Some (x, b) => [(x, PStarStar, b)] | None => [] end.

Lemma take_regs_shape : forall ps l r, take_regs ps = (l, r) -> ps = map reg l ++ r.
Proof.
  induction ps as [|[[x k] d] ps IH]; intros l r H; cbn [take_regs] in H.
  - inversion H. reflexivity.
  - destruct k; try (inversion H; reflexivity).
    destruct (take_regs ps) as [l' r'] eqn:E. inversion H; subst.
    cbn [map app reg fst snd]. rewrite (IH l' r eq_refl). reflexivity.
Qed.

Lemma parse_sig_shape : forall ps sg, parse_sig ps = Some sg ->
  exists st ss, ps = map reg (s_regs sg) ++ starl st ++ map reg (s_kwonly sg) ++ sstarl ss /\
                s_star sg = option_map fst st /\ s_sstar sg = option_map fst ss.
Proof.
  intros ps sg H. unfold parse_sig in H.
  destruct (take_regs ps) as [regs r1] eqn:E1. apply take_regs_shape in E1.
  destruct r1 as [|[[x k] b] r2].
  - inversion H; subst. exists None, None. cbn. split; [|split]; reflexivity.
  - destruct k.
    + destruct r2; discriminate.
    + destruct (take_regs r2) as [kwo r3] eqn:E2. apply take_regs_shape in E2.
      destruct r3 as [|[[y k2] b2] r4].
      * inversion H; subst. exists (Some (x, b)), None. cbn. split; [|split]; reflexivity.
      * destruct k2; try (destruct r4; discriminate).
        destruct r4; [|discriminate].
        inversion H; subst. exists (Some (x, b)), (Some (y, b2)). cbn. split; [|split]; reflexivity.
    + destruct r2; [|discriminate].
      inversion H; subst. exists None, (Some (x, b)). cbn. split; [|split]; reflexivity.
Qed.

Lemma map_reg_cons : forall x d rs, map reg ((x, d) :: rs) = (x, PReg, d) :: map reg rs.
Proof. reflexivity. Qed.

Lemma names_reg : forall rs, map ps_name (map reg rs) = map fst rs.
Proof. intros rs. rewrite map_map. apply map_ext. reflexivity. Qed.

Lemma names_shape : forall regs st kwo ss,
  map ps_name (map reg regs ++ starl st ++ map reg kwo ++ sstarl ss) =
  map fst regs ++ map fst (opt_list st) ++ map fst kwo ++ map fst (opt_list ss).
Proof.
  intros. rewrite !map_app, !names_reg.
  destruct st as [[x b]|]; destruct ss as [[y b']|]; reflexivity.
Qed.

Lemma star_names_reg : forall rs, star_names (map reg rs) = [].
Proof. induction rs as [|[x d] rs IH]; [reflexivity|]. exact IH. Qed.

Lemma star_names_shape : forall regs st kwo ss,
  star_names (map reg regs ++ starl st ++ map reg kwo ++ sstarl ss) =
  map fst (opt_list st) ++ map fst (opt_list ss).
Proof.
  intros. unfold star_names. rewrite !flat_map_app.
  fold (star_names (map reg regs)). fold (star_names (map reg kwo)).
  rewrite !star_names_reg.
  destruct st as [[x b]|]; destruct ss as [[y b']|]; reflexivity.
Qed.

Section BindProof.
Variable A : Type.
Notation bnd := (binding A).

Definition positem (a : A) : @item A := (None, a).
Definition kwitem (ka : N * A) : @item A := (Some (fst ka), snd ka).

Lemma unpack_items : forall pos kws, unpack pos kws = map positem pos ++ map kwitem kws.
Proof. reflexivity. Qed.

Fixpoint absorb (pd : list N) (kws : list (N * A)) (ku : list (N * bnd)) : list (N * bnd) :=
  match kws with
  | [] => ku
  | (k, a) :: r =>
      if memN k pd
      then (if has k ku then absorb pd r ku else absorb pd r ((k, BArg a) :: ku))
      else absorb pd r ku
  end.

Lemma take_keys_kws : forall pd kws nm ku,
  take_keys pd (map kwitem kws) nm ku =
  (None, [], nm ++ filter (fun ka => negb (memN (fst ka) pd)) kws, absorb pd kws ku).
Proof.
  induction kws as [|[k a] r IH]; intros nm ku; cbn [map kwitem fst snd take_keys filter absorb].
  - rewrite app_nil_r. reflexivity.
  - destruct (memN k pd); cbn [negb].
    + destruct (has k ku); apply IH.
    + rewrite IH. rewrite <- app_assoc. reflexivity.
Qed.

Lemma take_keys_pos : forall pd a r nm ku,
  take_keys pd (positem a :: r) nm ku = (Some a, r, nm, ku).
Proof. reflexivity. Qed.

Lemma lookup_absorb : forall pd kws ku x,
  lookup x (absorb pd kws ku) =
  match lookup x ku with
  | Some b => Some b
  | None => if memN x pd then option_map BArg (lookup x kws) else None
  end.
Proof.
  induction kws as [|[k a] r IH]; intros ku x; cbn [absorb lookup].
  - destruct (lookup x ku); [reflexivity|]. destruct (memN x pd); reflexivity.
  - destruct (memN k pd) eqn:Hk.
    + unfold has. destruct (lookup k ku) eqn:Hl.
      * rewrite IH. destruct (lookup x ku) eqn:Hx; [reflexivity|].
        destruct (N.eqb_spec x k); [subst; congruence | reflexivity].
      * rewrite IH. cbn [lookup]. destruct (N.eqb_spec x k).
        -- subst. rewrite Hl, Hk. reflexivity.
        -- reflexivity.
    + rewrite IH. destruct (lookup x ku); [reflexivity|].
      destruct (N.eqb_spec x k); [subst; rewrite Hk; reflexivity | reflexivity].
Qed.

Lemma absorb_shift : forall pd ps kws nm ku,
  jedi_go pd ps (map kwitem kws) nm ku =
  jedi_go pd ps [] (nm ++ filter (fun ka => negb (memN (fst ka) pd)) kws) (absorb pd kws ku).
Proof.
  intros. destruct ps as [|[[x k] d] ps']; [reflexivity|].
  cbn [jedi_go]. rewrite take_keys_kws. cbn [take_keys]. reflexivity.
Qed.

Lemma span_pos_items : forall l kws, span_pos (map positem l ++ map kwitem kws) = (l, map kwitem kws).
Proof.
  induction l as [|a l IH]; intros kws.
  - cbn [map app]. destruct kws as [|[k a] r]; reflexivity.
  - change (span_pos (map positem (a :: l) ++ map kwitem kws))
      with (let '(l0, r') := span_pos (map positem l ++ map kwitem kws) in (a :: l0, r')).
    rewrite IH. reflexivity.
Qed.

Definition zipb (rs : list (N * bool)) (pos : list A) : list (N * bnd) :=
  map (fun ra => (fst (fst ra), BArg (snd ra))) (combine rs pos).

Lemma zipb_cons : forall x d rs a pos, zipb ((x, d) :: rs) (a :: pos) = (x, BArg a) :: zipb rs pos.
Proof. reflexivity. Qed.

Lemma zipb_nil_l : forall pos, zipb [] pos = [].
Proof. reflexivity. Qed.

Lemma zipb_nil_r : forall rs, zipb rs [] = [].
Proof. destruct rs; reflexivity. Qed.

Lemma zipb_names : forall rs pos, map fst (zipb rs pos) = map fst (firstn (length pos) rs).
Proof.
  induction rs as [|[x d] rs IH]; intros pos.
  - rewrite firstn_nil. reflexivity.
  - destruct pos as [|a pos]; [reflexivity|].
    rewrite zipb_cons. cbn [length firstn map fst]. rewrite IH. reflexivity.
Qed.

Lemma phase1 : forall pd rs pos tail it' nm ku,
  NoDup (map fst rs) -> (forall x, In x (map fst rs) -> lookup x ku = None) ->
  jedi_go pd (map reg rs ++ tail) (map positem pos ++ it') nm ku =
  zipb rs pos ++
  jedi_go pd (map reg (skipn (length pos) rs) ++ tail)
             (map positem (skipn (length rs) pos) ++ it') nm (rev (zipb rs pos) ++ ku).
Proof.
  induction rs as [|[x d] rs IH]; intros pos tail it' nm ku Hnd Hku.
  - rewrite skipn_nil. reflexivity.
  - destruct pos as [|a pos].
    + rewrite zipb_nil_r, skipn_nil. reflexivity.
    + inversion Hnd as [|? ? Hx Hnd']; subst.
      rewrite map_reg_cons. cbn [map app]. cbn [jedi_go]. rewrite take_keys_pos. cbv beta iota.
      rewrite (Hku x (or_introl eq_refl)).
      rewrite zipb_cons. cbn [length skipn rev].
      rewrite IH.
      * rewrite <- !app_assoc. reflexivity.
      * assumption.
      * intros x' Hx'. cbn [lookup]. destruct (N.eqb_spec x' x); [subst; contradiction|].
        apply Hku. right. assumption.
Qed.

Lemma bind_regs_split : forall kws rs pos (l : list (N * bnd)), bind_regs rs pos kws = Some l ->
  exists l2, bind_regs (skipn (length pos) rs) [] kws = Some l2 /\ l = zipb rs pos ++ l2.
Proof.
  induction rs as [|[x d] rs IH]; intros pos l H.
  - cbn in H. inversion H. exists []. rewrite skipn_nil. split; reflexivity.
  - destruct pos as [|a pos].
    + exists l. rewrite zipb_nil_r. split; [exact H | reflexivity].
    + cbn [bind_regs] in H. destruct (bind_regs rs pos kws) as [l0|] eqn:E; [|discriminate].
      inversion H; subst. destruct (IH pos l0 E) as [l2 [H1 H2]]. exists l2.
      cbn [length skipn]. split; [exact H1|]. rewrite zipb_cons, H2. reflexivity.
Qed.

Definition Agree (kws : list (N * A)) (ku : list (N * bnd)) (names : list N) : Prop :=
  forall x, In x names -> lookup x ku = option_map BArg (lookup x kws).

Lemma exh_regs : forall pd kws rs l tail nm ku,
  NoDup (map fst rs) -> Agree kws ku (map fst rs) ->
  bind_regs rs [] kws = Some l ->
  exists ku', jedi_go pd (map reg rs ++ tail) [] nm ku = l ++ jedi_go pd tail [] nm ku' /\
              (forall y, ~ In y (map fst rs) -> lookup y ku' = lookup y ku).
Proof.
  induction rs as [|[x d] rs IH]; intros l tail nm ku Hnd Hag Hb.
  - cbn in Hb. inversion Hb. exists ku. split; [reflexivity | auto].
  - cbn [bind_regs] in Hb. rewrite map_reg_cons. cbn [app jedi_go take_keys].
    pose proof (Hag x (or_introl eq_refl)) as Hx.
    inversion Hnd as [|? ? Hnx Hnd']; subst.
    assert (Hag' : Agree kws ku (map fst rs)) by (intros x' Hin; apply Hag; right; assumption).
    destruct (lookup x kws) as [a|] eqn:Ek; cbn [option_map] in Hx; rewrite Hx.
    + destruct (bind_regs rs [] kws) as [l0|] eqn:Eb; [|discriminate]. inversion Hb; subst.
      destruct (IH l0 tail nm ku Hnd' Hag' eq_refl) as [ku' [Hj Hl]].
      exists ku'. split.
      * rewrite Hj. reflexivity.
      * intros y Hy. apply Hl. intro. apply Hy. right. assumption.
    + destruct d; [|discriminate].
      destruct (bind_regs rs [] kws) as [l0|] eqn:Eb; [|discriminate]. inversion Hb; subst.
      assert (Hag2 : Agree kws ((x, BDefault) :: ku) (map fst rs)).
      { intros x' Hin. cbn [lookup]. destruct (N.eqb_spec x' x); [subst; contradiction|].
        apply Hag'. assumption. }
      destruct (IH l0 tail nm _ Hnd' Hag2 eq_refl) as [ku' [Hj Hl]].
      exists ku'. split.
      * rewrite Hj. reflexivity.
      * intros y Hy. rewrite Hl.
        -- cbn [lookup]. destruct (N.eqb_spec y x); [subst; exfalso; apply Hy; left; reflexivity | reflexivity].
        -- intro. apply Hy. right. assumption.
Qed.

Lemma exh_kwo_ss : forall pd kws kwo l2 ss nm ku,
  NoDup (map fst kwo ++ map fst (opt_list ss)) ->
  Agree kws ku (map fst kwo ++ map fst (opt_list ss)) ->
  (forall y, In y (map fst (opt_list ss)) -> lookup y kws = None) ->
  bind_regs kwo [] kws = Some l2 ->
  jedi_go pd (map reg kwo ++ sstarl ss) [] nm ku =
  l2 ++ map (fun y => (y, BKw nm)) (opt_list (option_map fst ss)).
Proof.
  intros pd kws kwo l2 ss nm ku Hnd Hag Hss Hb.
  destruct (NoDup_app_inv _ _ _ Hnd) as [Hnd1 [_ Hdis]].
  assert (Hag1 : Agree kws ku (map fst kwo)) by (intros x Hx; apply Hag; apply in_or_app; left; assumption).
  destruct (exh_regs pd kws kwo l2 (sstarl ss) nm ku Hnd1 Hag1 Hb) as [ku' [Hj Hl]].
  rewrite Hj. f_equal.
  destruct ss as [[y b]|]; [|reflexivity].
  cbn [sstarl jedi_go take_keys opt_list option_map fst map].
  assert (Hy : lookup y ku' = None).
  { rewrite Hl.
    - rewrite (Hag y); [|apply in_or_app; right; left; reflexivity].
      rewrite (Hss y); [reflexivity | left; reflexivity].
    - intro Hin. apply (Hdis y Hin). left. reflexivity. }
  rewrite Hy. reflexivity.
Qed.

Ltac ifd H C :=
  match type of H with (if ?c then _ else _) = _ => destruct c eqn:C; [discriminate|] end.

Lemma lookup_ku1 : forall rs pos y,
  ~ In y (map fst (firstn (length pos) rs)) -> lookup y (rev (zipb rs pos) ++ []) = None.
Proof.
  intros rs pos y H. apply lookup_None. rewrite app_nil_r, map_rev, <- in_rev, zipb_names. exact H.
Qed.

Lemma binding_agrees_sec :
  forall (ps : list pspec) (pos : list A) (kws : list (N * A)) (s : list (N * bnd)),
  (forall k, In k (map fst kws) -> ~ In k (star_names ps)) ->
  py_bind ps pos kws = Some s -> jedi_bind ps pos kws = s.
Proof.
  intros ps pos kws s Hstar Hpy.
  unfold py_bind in Hpy.
  destruct (parse_sig ps) as [sg|] eqn:Hp; [|discriminate].
  cbv zeta in Hpy.
  ifd Hpy C1. ifd Hpy C2. ifd Hpy C3. ifd Hpy C4.
  destruct (bind_regs (s_regs sg) pos kws) as [l1|] eqn:B1; [|discriminate].
  destruct (bind_regs (s_kwonly sg) [] kws) as [l2|] eqn:B2; [|discriminate].
  inversion Hpy; subst s; clear Hpy.
  destruct (parse_sig_shape _ _ Hp) as (st & ss & Hps & Hst & Hss).
  destruct sg as [regs star kwo sstar]. cbn [s_regs s_star s_kwonly s_sstar] in *.
  subst star sstar. clear Hp C4.
  (* python's checks as propositions *)
  apply orb_false_iff in C1. destruct C1 as [C1 _].
  apply negb_false_iff in C1. apply nodupb_NoDup in C1.
  assert (Hpd : map ps_name ps =
                map fst regs ++ map fst (opt_list st) ++ map fst kwo ++ map fst (opt_list ss))
    by (rewrite Hps; apply names_shape).
  rewrite Hpd in C1.
  rewrite Hps, star_names_shape in Hstar.
  assert (C3' : forall k, In k (map fst kws) -> ~ In k (map fst (firstn (length pos) regs))).
  { intros k Hk. apply memN_false. apply (existsb_false _ _ _ C3 k Hk). }
  clear C3.
  destruct (NoDup_app_inv _ _ _ C1) as (NDr & ND2 & D1).
  destruct (NoDup_app_inv _ _ _ ND2) as (NDs & ND3 & D2).
  assert (Hkw_star : forall y, In y (map fst (opt_list st) ++ map fst (opt_list ss)) -> lookup y kws = None).
  { intros y Hy. apply lookup_None. intro Hin. exact (Hstar y Hin Hy). }
  (* the filter of unexpected keywords *)
  assert (Hfilter :
    filter (fun ka => negb (memN (fst ka) (map ps_name ps))) kws =
    filter (fun ka => negb (memN (fst ka)
              (map fst (skipn (length pos) regs) ++ map fst kwo))) kws).
  { apply filter_ext_in. intros [k a] Hka. cbn [fst]. f_equal.
    assert (Hk : In k (map fst kws)) by (apply (in_map fst _ _ Hka)).
    apply eq_iff_eq_true. rewrite !memN_In, Hpd.
    rewrite <- (firstn_skipn (length pos) regs) at 1. rewrite map_app, !in_app_iff.
    split.
    - intros [[H|H]|[H|[H|H]]].
      + exfalso. exact (C3' k Hk H).
      + left. assumption.
      + exfalso. apply (Hstar k Hk). apply in_or_app. left. assumption.
      + right. assumption.
      + exfalso. apply (Hstar k Hk). apply in_or_app. right. assumption.
    - intros [H|H]; [left; right; assumption | right; right; left; assumption]. }
  rewrite <- Hfilter. clear Hfilter.
  unfold jedi_bind. rewrite unpack_items.
  remember (map ps_name ps) as pd eqn:Epd'. clear Epd'. rename Hpd into Epd.
  rewrite Hps.
  rewrite phase1; [|assumption|reflexivity].
  destruct (bind_regs_split kws regs pos l1 B1) as (l1' & B1' & Hl1). subst l1.
  rewrite <- !app_assoc. f_equal.
  set (ku1 := rev (zipb regs pos) ++ []).
  assert (Hku1 : forall y, ~ In y (map fst (firstn (length pos) regs)) -> lookup y ku1 = None)
    by (intros y Hy; apply lookup_ku1; exact Hy).
  assert (Hku1' : forall y, ~ In y (map fst regs) -> lookup y ku1 = None).
  { intros y Hy. apply Hku1. intro Hin. apply Hy.
    rewrite <- (firstn_skipn (length pos) regs), map_app. apply in_or_app. left. assumption. }
  set (nm := filter (fun ka => negb (memN (fst ka) pd)) kws).
  (* every parameter after the regs, once the keywords are absorbed *)
  assert (Hrest : forall ku0 y, In y (map fst (opt_list st) ++ map fst kwo ++ map fst (opt_list ss)) ->
            lookup y ku0 = None -> lookup y (absorb pd kws ku0) = option_map BArg (lookup y kws)).
  { intros ku0 y Hy H0. rewrite lookup_absorb, H0.
    assert (Hm : memN y pd = true).
    { apply memN_In. subst pd. apply in_or_app. right. assumption. }
    rewrite Hm. reflexivity. }
  destruct (le_lt_dec (length pos) (length regs)) as [Hle|Hlt].
  - (* the positional arguments are used up by the regs *)
    rewrite (skipn_all2 pos Hle).
    change (map positem [] ++ map kwitem kws) with (map kwitem kws).
    rewrite absorb_shift. change ([] ++ filter (fun ka => negb (memN (fst ka) pd)) kws) with nm.
    assert (NDsk : NoDup (map fst (skipn (length pos) regs))).
    { rewrite <- (firstn_skipn (length pos) regs), map_app in NDr.
      apply NoDup_app_inv in NDr. tauto. }
    assert (Hag : Agree kws (absorb pd kws ku1) (map fst (skipn (length pos) regs))).
    { intros x Hx. rewrite lookup_absorb.
      rewrite Hku1.
      - assert (Hm : memN x pd = true).
        { apply memN_In. subst pd. apply in_or_app. left.
          rewrite <- (firstn_skipn (length pos) regs), map_app. apply in_or_app. right. assumption. }
        rewrite Hm. reflexivity.
      - rewrite <- (firstn_skipn (length pos) regs), map_app in NDr.
        apply NoDup_app_inv in NDr. destruct NDr as (_ & _ & Hd). intro Hin. exact (Hd x Hin Hx). }
    destruct (exh_regs pd kws _ l1' (starl st ++ map reg kwo ++ sstarl ss) nm _ NDsk Hag B1')
      as (ku3 & Hj & Hl3).
    rewrite Hj. f_equal.
    assert (Hag3 : Agree kws ku3 (map fst (opt_list st) ++ map fst kwo ++ map fst (opt_list ss))).
    { intros y Hy.
      assert (Hny : ~ In y (map fst regs)) by (intro Hin; exact (D1 y Hin Hy)).
      rewrite Hl3.
      - apply Hrest; [assumption|]. apply Hku1'. assumption.
      - intro Hin. apply Hny. rewrite <- (firstn_skipn (length pos) regs), map_app.
        apply in_or_app. right. assumption. }
    destruct st as [[x b]|].
    + cbn [starl app jedi_go take_keys opt_list option_map fst map].
      assert (Hx : lookup x ku3 = None).
      { rewrite (Hag3 x); [|left; reflexivity].
        rewrite (Hkw_star x); [reflexivity | left; reflexivity]. }
      rewrite Hx. f_equal.
      apply (exh_kwo_ss pd kws).
      * exact ND3.
      * intros y Hy. cbn [lookup].
        destruct (N.eqb_spec y x) as [->|Hne].
        -- exfalso. apply (D2 x); [left; reflexivity | assumption].
        -- apply Hag3. right. assumption.
      * intros y Hy. apply Hkw_star. right. assumption.
      * exact B2.
    + cbn [starl app opt_list option_map map].
      apply (exh_kwo_ss pd kws).
      * exact ND3.
      * exact Hag3.
      * intros y Hy. apply Hkw_star. assumption.
      * exact B2.
  - (* more positional arguments than regs: a star parameter takes the rest *)
    destruct st as [[x b]|].
    2:{ cbn [option_map] in C2. apply Nat.ltb_lt in Hlt. rewrite Hlt in C2. discriminate. }
    rewrite (skipn_all2 regs) in * by lia.
    cbn in B1'. inversion B1'; subst l1'. clear B1'.
    destruct (skipn (length regs) pos) as [|a pos2] eqn:Esk.
    { pose proof (skipn_length (length regs) pos) as Hsl. rewrite Esk in Hsl. cbn in Hsl. lia. }
    cbn [map app starl opt_list option_map fst].
    cbn [jedi_go]. rewrite take_keys_pos. cbv beta iota.
    assert (Hx : lookup x ku1 = None).
    { apply Hku1'. intro Hin. apply (D1 x Hin). left. reflexivity. }
    rewrite Hx. rewrite span_pos_items. cbv beta iota. f_equal.
    rewrite absorb_shift. change ([] ++ filter (fun ka => negb (memN (fst ka) pd)) kws) with nm.
    apply (exh_kwo_ss pd kws).
    + exact ND3.
    + intros y Hy. apply Hrest; [right; assumption|].
      cbn [lookup]. destruct (N.eqb_spec y x) as [->|Hne].
      * exfalso. apply (D2 x); [left; reflexivity | assumption].
      * apply Hku1'. intro Hin. apply (D1 y Hin). right. assumption.
    + intros y Hy. apply Hkw_star. right. assumption.
    + exact B2.
Qed.

End BindProof.

Theorem binding_agrees_proof :
  forall (A : Type) (ps : list pspec) (pos : list A) (kws : list (N * A)) (s : list (N * binding A)),
  (forall k, In k (map fst kws) -> ~ In k (star_names ps)) ->
  py_bind ps pos kws = Some s -> jedi_bind ps pos kws = s.
Proof. exact binding_agrees_sec. Qed.

Theorem mro_single_inheritance_proof :
  forall h, single_inh [] h = true -> c3_table [] h = Some (jedi_table [] h).
Proof.
  intros h H. apply (mro_tables h [] []); [|assumption].
  intros b [].
Qed.


(* ================================================================== PART A *)
(* ------------------------------------------------------------------ induction on expressions *)
Section ExprInd.
Variable P : expr -> Prop.
Hypothesis HL : forall l, P (ELit l).
Hypothesis HN : forall c, P (ENew c).
Hypothesis HV : forall x, P (EName x).
Hypothesis HT : forall es, Forall P es -> P (ETuple es).
Hypothesis HI : forall e i, P e -> P (EIndex e i).
Hypothesis HC : forall c e1 e2, P e1 -> P e2 -> P (ETern c e1 e2).
Hypothesis HF : forall f args kws, Forall P args -> Forall (fun ke => P (snd ke)) kws -> P (ECall f args kws).

Fixpoint expr_rect' (e : expr) : P e :=
  match e with
  | ELit l => HL l
  | ENew c => HN c
  | EName x => HV x
  | ETuple es => HT es ((fix go (es : list expr) : Forall P es :=
                           match es with [] => Forall_nil _ | e :: r => Forall_cons _ (expr_rect' e) (go r) end) es)
  | EIndex e i => HI e i (expr_rect' e)
  | ETern c e1 e2 => HC c e1 e2 (expr_rect' e1) (expr_rect' e2)
  | ECall f args kws =>
      HF f args kws
         ((fix go (es : list expr) : Forall P es :=
             match es with [] => Forall_nil _ | e :: r => Forall_cons _ (expr_rect' e) (go r) end) args)
         ((fix go (ks : list (N * expr)) : Forall (fun ke => P (snd ke)) ks :=
             match ks with [] => Forall_nil _ | (k, e) :: r => Forall_cons (k, e) (expr_rect' e) (go r) end) kws)
  end.
End ExprInd.

(* ------------------------------------------------------------------ generic list facts *)
Lemma omap_Forall2 {X Y} (f : X -> option Y) l ys :
  omap f l = Some ys -> Forall2 (fun x y => f x = Some y) l ys.
Proof.
  revert ys; induction l as [|x r IH]; simpl; intros ys H.
  - inversion H; constructor.
  - destruct (f x) eqn:E; [|discriminate]. destruct (omap f r) eqn:E2; [|discriminate].
    inversion H; subst. constructor; auto.
Qed.

Lemma Forall2_nth_error {X Y} (R : X -> Y -> Prop) l l' n x :
  Forall2 R l l' -> nth_error l n = Some x -> exists y, nth_error l' n = Some y /\ R x y.
Proof.
  intros H; revert n; induction H; intros [|n]; simpl; intros E; try discriminate.
  - inversion E; subst; eauto.
  - eauto.
Qed.

Lemma Forall2_length' {X Y} (R : X -> Y -> Prop) l l' : Forall2 R l l' -> length l = length l'.
Proof. induction 1; simpl; auto. Qed.

Lemma py_index_Forall2 {X Y} (R : X -> Y -> Prop) l l' i x :
  Forall2 R l l' -> py_index l i = Some x -> exists y, py_index l' i = Some y /\ R x y.
Proof.
  intros H. unfold py_index. rewrite <- (Forall2_length' _ _ _ H).
  destruct ((0 <=? i)%Z && (i <? Z.of_nat (length l))%Z).
  - apply Forall2_nth_error; auto.
  - destruct ((i <? 0)%Z && (- Z.of_nat (length l) <=? i)%Z); [|discriminate].
    apply Forall2_nth_error; auto.
Qed.

Lemma Forall2_map_r {X Y Z} (R : X -> Z -> Prop) (g : Y -> Z) l l' :
  Forall2 (fun x y => R x (g y)) l l' -> Forall2 R l (map g l').
Proof. induction 1; simpl; constructor; auto. Qed.

Lemma Forall2_omap_map {X Y Z} (f : X -> option Y) (g : X -> Z) (Rel : Y -> Z -> Prop) l ys :
  Forall2 (fun x y => f x = Some y) l ys ->
  (forall x y, In x l -> f x = Some y -> Rel y (g x)) -> Forall2 Rel ys (map g l).
Proof.
  induction 1; simpl; intros Hp; constructor.
  - apply Hp; auto.
  - apply IHForall2. intros; apply Hp; auto.
Qed.

(* ------------------------------------------------------------------ the two abstraction relations *)
Fixpoint vmatch (v : value) (a : aval) : Prop :=
  match v, a with
  | VLit l, ALit l' => l = l'
  | VInst c, AInst c' => c = c'
  | VDict vs, ADict ess =>
      (fix go (vs : list value) (ess : list (list aval)) : Prop :=
         match vs, ess with
         | [], [] => True
         | v :: vs', es :: ess' => (exists a, In a es /\ vmatch v a) /\ go vs' ess'
         | _, _ => False
         end) vs ess
  | VTuple vs, ATuple ess =>
      (fix go (vs : list value) (ess : list (list aval)) : Prop :=
         match vs, ess with
         | [], [] => True
         | v :: vs', es :: ess' => (exists a, In a es /\ vmatch v a) /\ go vs' ess'
         | _, _ => False
         end) vs ess
  | _, _ => False
  end.

(* the set s describes v: some member matches it, entry-wise for tuples *)
Definition vin (v : value) (s : list aval) : Prop := exists a, In a s /\ vmatch v a.

Lemma vmatch_tuple vs ess : vmatch (VTuple vs) (ATuple ess) <-> Forall2 vin vs ess.
Proof.
  revert ess; induction vs as [|v r IH]; intros [|es ess]; simpl.
  - split; auto.
  - split; [tauto|intros H; inversion H].
  - split; [tauto|intros H; inversion H].
  - split.
    + intros [H1 H2]. constructor; [exact H1|]. apply IH. exact H2.
    + intros H. inversion H; subst. split; [assumption|]. apply IH. assumption.
Qed.

Lemma vmatch_dict vs ess : vmatch (VDict vs) (ADict ess) <-> Forall2 vin vs ess.
Proof.
  revert ess; induction vs as [|v r IH]; intros [|es ess]; simpl.
  - split; auto.
  - split; [tauto|intros H; inversion H].
  - split; [tauto|intros H; inversion H].
  - split.
    + intros [H1 H2]. constructor; [exact H1|]. apply IH. exact H2.
    + intros H. inversion H; subst. split; [assumption|]. apply IH. assumption.
Qed.

Lemma vmatch_tag v a : vmatch v a -> atag_of a = tag_of v.
Proof. destruct v, a; simpl; intros H; try contradiction; subst; auto. Qed.

Definition rex (v : value) (s : list aval) : Prop := s = [abs v].

(* what the proofs need of a relation between values and abstract sets *)
Record good (allow_tern : bool) (R : value -> list aval -> Prop) : Prop := {
  g_lit : forall l, R (VLit l) [ALit l];
  g_inst : forall c, R (VInst c) [AInst c];
  g_dict : forall vs ss, Forall2 R vs ss -> R (VDict vs) [ADict ss];
  g_tuple : forall vs ss, Forall2 R vs ss -> R (VTuple vs) [ATuple ss];
  g_index : forall vs s i v, R (VTuple vs) s -> py_index vs i = Some v ->
            R v (flat_map (fun a => match a with
                                    | ATuple ess => jedi_index ess i
                                    | ADict ess => concat ess
                                    | _ => []
                                    end) s);
  g_tern : allow_tern = true -> forall v s1 s2, R v s1 \/ R v s2 -> R v (s1 ++ s2)
}.

Lemma good_vin : good true vin.
Proof.
  split.
  - intros l. exists (ALit l). simpl; auto.
  - intros c. exists (AInst c). simpl; auto.
  - intros vs ss H. exists (ADict ss). split; [left; auto|]. apply vmatch_dict. exact H.
  - intros vs ss H. exists (ATuple ss). split; [left; auto|]. apply vmatch_tuple. exact H.
  - intros vs s i v [a [Ha Hm]] Hi. destruct a; simpl in Hm; try contradiction.
    apply vmatch_tuple in Hm.
    destruct (py_index_Forall2 _ _ _ _ _ Hm Hi) as [es [He [a [Ha2 Hm2]]]].
    exists a. split; [|exact Hm2]. apply in_flat_map. exists (ATuple ess). split; [exact Ha|].
    unfold jedi_index. rewrite He. exact Ha2.
  - intros _ v s1 s2 [[a [Ha Hm]]|[a [Ha Hm]]]; exists a; split; auto; apply in_or_app; auto.
Qed.

Lemma py_index_map {X Y} (g : X -> Y) l i x : py_index l i = Some x -> py_index (map g l) i = Some (g x).
Proof.
  unfold py_index. rewrite map_length.
  destruct ((0 <=? i)%Z && (i <? Z.of_nat (length l))%Z).
  - intros H. rewrite nth_error_map, H. reflexivity.
  - destruct ((i <? 0)%Z && (- Z.of_nat (length l) <=? i)%Z); [|discriminate].
    intros H. rewrite nth_error_map, H. reflexivity.
Qed.

Lemma Forall2_rex_map vs ss : Forall2 rex vs ss -> ss = map (fun v => [abs v]) vs.
Proof. induction 1; simpl; auto. unfold rex in H. subst. reflexivity. Qed.

Lemma good_rex : good false rex.
Proof.
  split; unfold rex; simpl; auto.
  - intros vs ss H. rewrite (Forall2_rex_map _ _ H). reflexivity.
  - intros vs ss H. rewrite (Forall2_rex_map _ _ H). reflexivity.
  - intros vs s i v Hs Hi. subst s. simpl. rewrite app_nil_r.
    unfold jedi_index. rewrite (py_index_map (fun v => [abs v]) _ _ _ Hi). reflexivity.
  - discriminate.
Qed.

(* ------------------------------------------------------------------ expressions *)
Definition okb (allow : bool) (e : expr) : bool := allow || tern_free e.

Definition kwrel (R : value -> list aval -> Prop) (kv : N * value) (ks : N * list aval) : Prop :=
  fst kv = fst ks /\ R (snd kv) (snd ks).

Definition envrel (R : value -> list aval -> Prop) (env : list (N * value)) (aenv : list (N * list aval)) : Prop :=
  forall x v, lookup x env = Some v -> exists s, lookup x aenv = Some s /\ R v s.

Section ExprSound.
Variable allow : bool.
Variable R : value -> list aval -> Prop.
Hypothesis HR : good allow R.
Variable bad : list N.
Variable inp : list bool.
Variable callf : N -> list value -> list (N * value) -> option value.
Variable acallf : N -> list (list aval) -> list (N * list aval) -> list aval.
Variable classes : list N.
Variable env : list (N * value).
Variable aenv : list (N * list aval).
Hypothesis Henv : envrel R env aenv.
Hypothesis Hcall : forall f vs kvs v S KS,
  (forall k, In k (map fst kvs) -> ~ In k bad) ->
  callf f vs kvs = Some v -> Forall2 R vs S -> Forall2 (kwrel R) kvs KS -> R v (acallf f S KS).

Lemma expr_sound : forall e v,
  okb allow e = true -> kw_ok bad e = true ->
  eval_expr inp callf classes env e = Some v -> R v (ainf_expr acallf classes aenv e).
Proof.
  induction e as [l|c|x|es IHes|e i IHe|c e1 e2 IHe1 IHe2|f args kws IHargs IHkws] using expr_rect';
    intros v Hok Hkw Hev; simpl in Hev; simpl.
  - inversion Hev; subst. apply (g_lit _ _ HR).
  - destruct (memN c classes); [|discriminate]. inversion Hev; subst. apply (g_inst _ _ HR).
  - destruct (Henv _ _ Hev) as [s [Hs Hr]]. rewrite Hs. exact Hr.
  - destruct (omap (eval_expr inp callf classes env) es) as [vs|] eqn:E; [|discriminate].
    inversion Hev; subst. apply (g_tuple _ _ HR).
    apply omap_Forall2 in E.
    simpl in Hkw. rewrite forallb_forall in Hkw. rewrite Forall_forall in IHes.
    apply (Forall2_omap_map _ _ _ _ _ E). intros x y Hin Hx.
    apply IHes; auto.
    unfold okb in *. destruct allow; simpl in *; auto. rewrite forallb_forall in Hok. auto.
  - destruct (eval_expr inp callf classes env e) as [u|] eqn:E; [|discriminate].
    destruct u; try discriminate.
    apply (g_index _ _ HR) with (vs := vs); auto.
  - simpl in Hkw. apply andb_true_iff in Hkw. destruct Hkw as [Hk1 Hk2].
    unfold okb in Hok. destruct allow eqn:Ea; simpl in Hok; [|discriminate].
    apply (g_tern _ _ HR); auto.
    destruct (nth c inp false); [left; apply IHe1|right; apply IHe2]; auto.
  - destruct (omap (eval_expr inp callf classes env) args) as [vs|] eqn:E1; [|discriminate].
    destruct (omap (fun ke : N * expr => let '(k, e) := ke in
                      match eval_expr inp callf classes env e with Some v => Some (k, v) | None => None end) kws)
      as [kvs|] eqn:E2; [|discriminate].
    simpl in Hkw. apply andb_true_iff in Hkw. destruct Hkw as [Hk1 Hk2].
    rewrite forallb_forall in Hk1, Hk2.
    rewrite Forall_forall in IHargs, IHkws.
    assert (Hoka : forall e, In e args -> okb allow e = true).
    { intros e He. unfold okb in *. destruct allow; simpl in *; auto.
      apply andb_true_iff in Hok. destruct Hok as [Ho _]. rewrite forallb_forall in Ho. auto. }
    assert (Hokk : forall ke, In ke kws -> okb allow (snd ke) = true).
    { intros ke He. unfold okb in *. destruct allow; simpl in *; auto.
      apply andb_true_iff in Hok. destruct Hok as [_ Ho]. rewrite forallb_forall in Ho.
      specialize (Ho _ He). destruct ke; auto. }
    apply omap_Forall2 in E1. apply omap_Forall2 in E2.
    apply Hcall with (vs := vs) (kvs := kvs); auto.
    + (* keywords are not star names *)
      intros k Hin Hbad.
      assert (Hx : exists ke, In ke kws /\ fst ke = k).
      { clear - E2 Hin. induction E2 as [|[k0 e0] y l l' Hxy E2 IH]; simpl in *; [contradiction|].
        destruct (eval_expr inp callf classes env e0); [|discriminate].
        inversion Hxy; subst. simpl in Hin. destruct Hin as [Hin|Hin].
        - exists (k0, e0). split; auto.
        - destruct (IH Hin) as [ke [Hke Hf]]. exists ke. split; auto. }
      destruct Hx as [[k0 e0] [Hke Hf]]. simpl in Hf. subst k0.
      specialize (Hk2 _ Hke). simpl in Hk2. apply andb_true_iff in Hk2. destruct Hk2 as [Hn _].
      apply negb_true_iff in Hn. apply memN_In in Hbad. congruence.
    + apply (Forall2_omap_map _ _ _ _ _ E1). intros x y Hin Hx. apply IHargs; auto.
    + apply (Forall2_omap_map _ _ _ _ _ E2). intros [k0 e0] y Hin Hx.
      destruct (eval_expr inp callf classes env e0) eqn:Ee; [|discriminate].
      inversion Hx; subst. split; simpl; auto.
      specialize (Hk2 _ Hin). simpl in Hk2. apply andb_true_iff in Hk2. destruct Hk2 as [_ Hk2].
      apply (IHkws (k0, e0) Hin v0 (Hokk (k0, e0) Hin) Hk2 Ee).
Qed.
End ExprSound.

(* ------------------------------------------------------------------ function tables *)
Definition defrel (R : value -> list aval -> Prop) (p : N * pkind * option value) (q : N * pkind * option (list aval)) : Prop :=
  fst p = fst q /\
  match snd p, snd q with
  | None, None => True
  | Some v, Some s => R v s
  | _, _ => False
  end.

Definition frel (allow : bool) (R : value -> list aval -> Prop) (bad : list N) (d : fdef value) (a : fdef (list aval)) : Prop :=
  fd_name d = fd_name a /\ fd_body d = fd_body a /\ fd_classes d = fd_classes a /\
  Forall2 (defrel R) (fd_params d) (fd_params a) /\
  okb allow (fd_body d) = true /\ kw_ok bad (fd_body d) = true /\
  (forall k, In k (star_names (map spec_of (fd_params d))) -> In k bad).

Lemma defrel_specs R ps qs : Forall2 (defrel R) ps qs -> map spec_of ps = map spec_of qs.
Proof.
  induction 1 as [|p q ps qs [Hn Hd] _ IH]; simpl; auto. f_equal; auto.
  destruct p as [[x k] d], q as [[y k'] d']. simpl in *. inversion Hn; subst.
  unfold spec_of; simpl. destruct d, d'; simpl in *; auto; contradiction.
Qed.

Lemma defrel_default R ps qs x v :
  Forall2 (defrel R) ps qs -> default_of x ps = Some v -> exists s, default_of x qs = Some s /\ R v s.
Proof.
  induction 1 as [|p q ps qs [Hn Hd] _ IH]; simpl; [discriminate|].
  destruct p as [[y k] d], q as [[y' k'] d']. simpl in *. inversion Hn; subst.
  destruct (N.eqb x y'); auto.
  intros E. subst d. destruct d'; [|contradiction]. eauto.
Qed.

Lemma lookup_kwrel R kvs KS k v :
  Forall2 (kwrel R) kvs KS -> lookup k kvs = Some v -> exists s, lookup k KS = Some s /\ R v s.
Proof.
  induction 1 as [|[k1 v1] [k2 s2] l l' [Hk Hr] _ IH]; simpl; [discriminate|].
  simpl in Hk, Hr. subst k2. destruct (N.eqb k k1); auto.
  intros E; inversion E; subst. eauto.
Qed.

Lemma kwrel_keys R kvs KS : Forall2 (kwrel R) kvs KS -> map fst kvs = map fst KS.
Proof. induction 1 as [|a b l l' [Hk _] _ IH]; simpl; auto. f_equal; auto. Qed.

Lemma resolve_rel R vs S kvs KS r v :
  Forall2 R vs S -> Forall2 (kwrel R) kvs KS ->
  resolve_ref vs kvs r = Some v -> exists s, resolve_ref S KS r = Some s /\ R v s.
Proof.
  intros H1 H2. destruct r; simpl.
  - apply Forall2_nth_error; auto.
  - apply lookup_kwrel; auto.
Qed.

Lemma lookup_Forall2 R (l : list (N * value)) (l' : list (N * list aval)) :
  Forall2 (kwrel R) l l' -> envrel R l l'.
Proof. intros H x v. apply lookup_kwrel; auto. Qed.

Section CallSound.
Variable allow : bool.
Variable R : value -> list aval -> Prop.
Hypothesis HR : good allow R.
Variable bad : list N.
Variable inp : list bool.

Lemma param_rel ps qs vs S kvs KS xb xv :
  Forall2 (defrel R) ps qs -> Forall2 R vs S -> Forall2 (kwrel R) kvs KS ->
  cparam ps vs kvs xb = Some xv -> kwrel R xv (aparam qs S KS xb).
Proof.
  intros Hp Hv Hk. destruct xb as [x b]. unfold cparam, aparam.
  destruct b as [r| |l|l|].
  - destruct (resolve_ref vs kvs r) eqn:E; [|discriminate]. intros H; inversion H; subst.
    destruct (resolve_rel _ _ _ _ _ _ _ Hv Hk E) as [s [Hs Hr]]. rewrite Hs. split; auto.
  - destruct (default_of x ps) eqn:E; [|discriminate]. intros H; inversion H; subst.
    destruct (defrel_default _ _ _ _ _ Hp E) as [s [Hs Hr]]. rewrite Hs. split; auto.
  - destruct (omap (resolve_ref vs kvs) l) as [ws|] eqn:E; [|discriminate]. intros H; inversion H; subst.
    split; simpl; auto. apply (g_tuple _ _ HR).
    apply omap_Forall2 in E. apply (Forall2_omap_map _ _ _ _ _ E).
    intros r w _ Hr. destruct (resolve_rel _ _ _ _ _ _ _ Hv Hk Hr) as [s [Hs Hr']]. rewrite Hs. exact Hr'.
  - destruct (omap (fun ka : N * aref => resolve_ref vs kvs (snd ka)) l) as [ws|] eqn:E; [|discriminate].
    intros H; inversion H; subst.
    split; simpl; auto. apply (g_dict _ _ HR).
    apply omap_Forall2 in E. apply (Forall2_omap_map _ _ _ _ _ E).
    intros ka w _ Hr. destruct (resolve_rel _ _ _ _ _ _ _ Hv Hk Hr) as [s [Hs Hr']]. rewrite Hs. exact Hr'.
  - discriminate.
Qed.

Lemma call_sound : forall fs afs,
  Forall2 (frel allow R bad) fs afs ->
  forall f vs kvs v S KS,
  (forall k, In k (map fst kvs) -> ~ In k bad) ->
  call inp fs f vs kvs = Some v -> Forall2 R vs S -> Forall2 (kwrel R) kvs KS ->
  R v (acall afs f S KS).
Proof.
  induction 1 as [|d a fs afs Hd Hfs IH]; intros f vs kvs v S KS Hbad Hc Hv Hk; simpl in Hc; [discriminate|].
  destruct Hd as [Hn [Hb [Hcl [Hps [Hok [Hkw Hstar]]]]]].
  simpl. rewrite <- Hn.
  destruct (N.eqb f (fd_name d)); [|eapply IH; eauto].
  destruct (py_bind (map spec_of (fd_params d)) (ref_pos (length vs)) (ref_kws (map fst kvs))) as [bs|] eqn:Eb;
    [|discriminate].
  destruct (omap (cparam (fd_params d) vs kvs) bs) as [penv|] eqn:Ep; [|discriminate].
  assert (Ej : jedi_bind (map spec_of (fd_params a)) (ref_pos (length S)) (ref_kws (map fst KS)) = bs).
  { rewrite <- (defrel_specs _ _ _ Hps), <- (Forall2_length' _ _ _ Hv), <- (kwrel_keys _ _ _ Hk).
    apply binding_agrees_proof; auto.
    intros k Hin Hs. apply (Hbad k).
    - unfold ref_kws in Hin. rewrite map_map in Hin. simpl in Hin. rewrite map_id in Hin. exact Hin.
    - apply Hstar. exact Hs. }
  rewrite Ej, <- Hb, <- Hcl.
  apply (expr_sound allow R HR bad inp (call inp fs) (acall afs) (fd_classes d) penv); auto.
  - apply lookup_Forall2. apply omap_Forall2 in Ep.
    apply (Forall2_omap_map _ _ _ _ _ Ep). intros xb xv _ Hx.
    eapply param_rel; eauto.
Qed.
End CallSound.

(* ------------------------------------------------------------------ program states *)
Definition srel (allow : bool) (R : value -> list aval -> Prop) (bad : list N) (st : cstate) (a : astate) : Prop :=
  envrel R (cs_env st) (as_env a) /\
  Forall2 (frel allow R bad) (cs_funs st) (as_funs a) /\
  cs_classes st = as_classes a.

Definition ok_stmt (allow : bool) (s : stmt) : bool := allow || tern_free_stmt s.

Section RunSound.
Variable allow : bool.
Variable R : value -> list aval -> Prop.
Hypothesis HR : good allow R.
Variable bad : list N.
Variable inp : list bool.

Lemma eval_in_sound st a e v :
  srel allow R bad st a -> okb allow e = true -> kw_ok bad e = true ->
  eval_in inp st e = Some v -> R v (ainf_in a e).
Proof.
  intros [He [Hf Hc]] Hok Hkw Hev. unfold eval_in in Hev. unfold ainf_in. rewrite <- Hc.
  apply (expr_sound allow R HR bad inp (call inp (cs_funs st)) (acall (as_funs a)) (cs_classes st) (cs_env st)); auto.
  intros. eapply call_sound; eauto.
Qed.

Lemma star_names_decl (ps : list pdecl) (ps' : list (N * pkind * option value)) :
  Forall2 (fun (p : pdecl) p' => fst p = fst p') ps ps' ->
  star_names (map spec_of ps') = flat_map (fun p : pdecl => match snd (fst p) with PReg => [] | _ => [fst (fst p)] end) ps.
Proof.
  induction 1 as [|p p' l l' Hp _ IH]; simpl; auto.
  destruct p as [[x k] d], p' as [[x' k'] d']. simpl in *. inversion Hp; subst.
  unfold star_names in *. simpl. rewrite IH. unfold ps_kind, ps_name, spec_of. simpl. reflexivity.
Qed.

Lemma exec_sound st a s st' :
  srel allow R bad st a -> ok_stmt allow s = true -> kw_ok_stmt bad s = true ->
  (forall k, In k (stmt_star_names s) -> In k bad) ->
  exec_stmt inp st s = Some st' -> srel allow R bad st' (aexec_stmt a s).
Proof.
  intros Hs Hok Hkw Hst Hex. destruct s as [x e|f ps body|c]; simpl in Hex.
  - destruct (eval_in inp st e) as [v|] eqn:E; [|discriminate]. inversion Hex; subst; clear Hex.
    assert (Hr : R v (ainf_in a e)).
    { eapply eval_in_sound; eauto. }
    destruct Hs as [He [Hf Hc]]. split; [|split]; simpl; auto.
    intros y w. simpl. destruct (N.eqb y x).
    + intros H; inversion H; subst. eauto.
    + apply He.
  - destruct (omap _ ps) as [ps'|] eqn:E; [|discriminate]. inversion Hex; subst; clear Hex.
    pose proof Hs as [He [Hf Hc]]. split; [|split]; simpl; auto.
    constructor; auto.
    simpl in Hkw. apply andb_true_iff in Hkw. destruct Hkw as [Hkb Hkd]. rewrite forallb_forall in Hkd.
    assert (Hokb : okb allow body = true).
    { unfold ok_stmt, okb in *. destruct allow; simpl in *; auto. apply andb_true_iff in Hok. tauto. }
    assert (Hokd : forall p : pdecl, In p ps -> match snd p with Some e => okb allow e = true | None => True end).
    { intros p Hp. unfold ok_stmt, okb in *. destruct (snd p) eqn:Es; auto. destruct allow; simpl in *; auto.
      apply andb_true_iff in Hok. destruct Hok as [_ Ho]. rewrite forallb_forall in Ho.
      specialize (Ho _ Hp). rewrite Es in Ho. exact Ho. }
    apply omap_Forall2 in E.
    unfold frel; simpl. repeat split; auto.
    + (* parameters and defaults *)
      apply (Forall2_omap_map _ _ _ _ _ E). intros [[x k] d] y Hin Hy.
      destruct d as [e|].
      * destruct (eval_in inp st e) as [v|] eqn:Ee; [|discriminate]. inversion Hy; subst.
        split; simpl; auto. eapply eval_in_sound; eauto.
        -- apply (Hokd _ Hin).
        -- apply (Hkd _ Hin).
      * inversion Hy; subst. split; simpl; auto.
    + (* star names *)
      intros k Hk. apply Hst. simpl.
      rewrite (star_names_decl ps ps') in Hk; auto.
      clear - E. induction E as [|[[x k] d] y l l' Hxy _ IH]; constructor; auto.
      destruct d as [e|]; [destruct (eval_in inp st e); [|discriminate]|]; inversion Hxy; subst; reflexivity.
  - inversion Hex; subst; clear Hex. destruct Hs as [He [Hf Hc]]. split; [|split]; simpl; auto. f_equal; auto.
Qed.

Lemma run_sound p : forall st a st',
  srel allow R bad st a -> forallb (ok_stmt allow) p = true -> forallb (kw_ok_stmt bad) p = true ->
  (forall k, In k (flat_map stmt_star_names p) -> In k bad) ->
  run inp st p = Some st' -> srel allow R bad st' (arun a p).
Proof.
  induction p as [|s r IH]; intros st a st' Hs Hok Hkw Hst Hrun; simpl in *.
  - inversion Hrun; subst. exact Hs.
  - destruct (exec_stmt inp st s) as [st1|] eqn:E; [|discriminate].
    apply andb_true_iff in Hok. apply andb_true_iff in Hkw.
    apply (IH st1 (aexec_stmt a s) st'); try tauto.
    + eapply exec_sound; eauto; try tauto. intros k Hk. apply Hst. apply in_or_app; auto.
    + intros k Hk. apply Hst. apply in_or_app; auto.
Qed.
End RunSound.

Lemma srel_init allow R bad : srel allow R bad cinit ainit.
Proof. split; [|split]; simpl; auto. intros x v H; discriminate. Qed.

Lemma forallb_firstn {X} (f : X -> bool) l n : forallb f l = true -> forallb f (firstn n l) = true.
Proof.
  revert n; induction l as [|x r IH]; intros [|n]; simpl; auto.
  intros H. apply andb_true_iff in H. destruct H as [H1 H2]. rewrite H1. simpl. auto.
Qed.

Lemma In_firstn {X} (x : X) l n : In x (firstn n l) -> In x l.
Proof. revert n; induction l as [|y r IH]; intros [|n]; simpl; auto; try tauto. intros [H|H]; eauto. Qed.

Lemma star_firstn p n k : In k (flat_map stmt_star_names (firstn n p)) -> In k (flat_map stmt_star_names p).
Proof.
  rewrite !in_flat_map. intros [s [Hs Hk]]. exists s. split; auto. eapply In_firstn; eauto.
Qed.

Lemma infer_generic allow R : good allow R ->
  forall p inp i e v,
  kw_ok_prog p e = true -> forallb (ok_stmt allow) (firstn i p) = true -> okb allow e = true ->
  eval p inp i e = Some v -> R v (ainfer p i e).
Proof.
  intros HR p inp i e v Hkw Hok Hoke Hev. unfold eval in Hev. unfold ainfer.
  destruct (run inp cinit (firstn i p)) as [st|] eqn:Er; [|discriminate].
  unfold kw_ok_prog in Hkw. apply andb_true_iff in Hkw. destruct Hkw as [Hk1 Hk2].
  set (bad := flat_map stmt_star_names p) in *.
  assert (Hs : srel allow R bad st (arun ainit (firstn i p))).
  { eapply run_sound; eauto.
    - apply srel_init.
    - apply forallb_firstn; auto.
    - intros k Hk. apply star_firstn in Hk. exact Hk. }
  eapply eval_in_sound; eauto.
Qed.

Lemma ok_true l : forallb (ok_stmt true) l = true.
Proof. induction l; simpl; auto. Qed.

Theorem ainfer_sound_proof : forall p inp i e v,
  kw_ok_prog p e = true -> eval p inp i e = Some v -> In (tag_of v) (ainfer_tags p i e).
Proof.
  intros p inp i e v Hkw Hev.
  destruct (infer_generic true vin good_vin p inp i e v Hkw (ok_true _) eq_refl Hev) as [a [Ha Hm]].
  unfold ainfer_tags. rewrite <- (vmatch_tag _ _ Hm). apply in_map. exact Ha.
Qed.

Theorem ainfer_exact_single_proof : forall p inp i e v,
  kw_ok_prog p e = true ->
  forallb tern_free_stmt (firstn i p) = true -> tern_free e = true ->
  eval p inp i e = Some v -> ainfer p i e = [abs v] /\ ainfer_tags p i e = [tag_of v].
Proof.
  intros p inp i e v Hkw Hp He Hev.
  assert (H : rex v (ainfer p i e)).
  { apply (infer_generic false rex good_rex p inp i e v Hkw); auto. }
  unfold rex in H. split; auto. unfold ainfer_tags. rewrite H. simpl. f_equal.
  destruct v; reflexivity.
Qed.
