(* C10 proofs.  See Props/C10.v for the statements that are claimed. *)
From Coq Require Import List NArith Bool Arith Lia.
From JV Require Import Base.Str Proofs.Str_Proofs Model.C10_Imports.
Import ListNotations.

(* ====================================================================== part 1 *)

(* ---------------------------------------------------------------- strings *)
Lemma strs_eqb_eq a b : strs_eqb a b = true <-> a = b.
Proof.
  revert b; induction a as [|x a IH]; destruct b as [|y b]; simpl; split; intro H; try congruence; auto.
  - apply andb_true_iff in H as [H1 H2]. apply str_eqb_eq in H1. apply IH in H2. congruence.
  - inversion H; subst. apply andb_true_iff; split. apply str_eqb_refl. apply IH; auto.
Qed.

Lemma strs_eqb_refl a : strs_eqb a a = true.
Proof. apply strs_eqb_eq; auto. Qed.

Lemma rpart_app a t :
  rpart (a ++ c_dot :: t) =
  match rpart t with Some (x, y) => Some (a ++ c_dot :: x, y) | None => Some (a, t) end.
Proof.
  induction a as [|c a IH]; simpl.
  - destruct (rpart t) as [[x y]|]; auto.
  - rewrite IH. destruct (rpart t) as [[x y]|]; auto.
Qed.

Lemma rpart_nodot s : mem c_dot s = false -> rpart s = None.
Proof.
  induction s as [|c s IH]; cbn [mem rpart]; auto. intro H. apply orb_false_iff in H as [H1 H2].
  rewrite IH by auto. rewrite N.eqb_sym in H1. rewrite H1. auto.
Qed.

Lemma rpart_length s a b : rpart s = Some (a, b) -> length a + length b + 1 = length s.
Proof.
  revert a b; induction s as [|c s IH]; simpl; intros a b H; try discriminate.
  destruct (rpart s) as [[x y]|] eqn:E.
  - inversion H; subst. simpl. specialize (IH _ _ eq_refl). lia.
  - destruct (N.eqb c c_dot); inversion H; subst; simpl; lia.
Qed.

Definition validb := valid_name.

Lemma valid_nodot s : valid_name s = true -> mem c_dot s = false.
Proof. unfold valid_name. intro H. apply andb_true_iff in H as [_ H]. apply negb_true_iff in H; auto. Qed.

Lemma valid_nonempty s : valid_name s = true -> s <> [].
Proof. unfold valid_name. destruct s; simpl; congruence. Qed.

Lemma join_dot_snoc xs y : xs <> [] -> join_dot (xs ++ [y]) = join_dot xs ++ c_dot :: y.
Proof.
  induction xs as [|x xs IH]; intro H; try congruence.
  destruct xs as [|x' xs].
  - simpl. auto.
  - change (join_dot ((x :: x' :: xs) ++ [y])) with (x ++ c_dot :: join_dot ((x' :: xs) ++ [y])).
    rewrite IH by congruence.
    change (join_dot (x :: x' :: xs)) with (x ++ c_dot :: join_dot (x' :: xs)).
    rewrite <- app_assoc. simpl. auto.
Qed.

Lemma join_dot_app xs ys : xs <> [] -> ys <> [] -> join_dot (xs ++ ys) = join_dot xs ++ c_dot :: join_dot ys.
Proof.
  intros Hx. revert xs Hx. induction ys as [|y ys IH] using rev_ind; intros xs Hx Hy; try congruence.
  destruct ys as [|y' ys'].
  - simpl. apply join_dot_snoc; auto.
  - rewrite app_assoc. rewrite join_dot_snoc.
    2:{ destruct xs; simpl; congruence. }
    rewrite IH by (auto; congruence). rewrite join_dot_snoc by congruence.
    rewrite <- app_assoc. simpl. auto.
Qed.

Lemma join_dot_nonempty xs : xs <> [] -> Forall (fun s => valid_name s = true) xs -> join_dot xs <> [].
Proof.
  destruct xs as [|x xs]; intros H F; try congruence. inversion F; subst.
  apply valid_nonempty in H2. destruct xs; simpl.
  - auto.
  - destruct x; simpl; congruence.
Qed.

Lemma rpart_join_snoc xs y :
  xs <> [] -> valid_name y = true -> rpart (join_dot (xs ++ [y])) = Some (join_dot xs, y).
Proof.
  intros H V. rewrite join_dot_snoc by auto. rewrite rpart_app.
  rewrite rpart_nodot; auto using valid_nodot.
Qed.

(* ------------------------------------------------------------ rsplit / resolve *)
Lemma rsplit_join k : forall base,
  base <> [] -> Forall (fun s => valid_name s = true) base ->
  rsplit_k (join_dot base) k =
  if Nat.ltb k (length base)
  then join_dot (firstn (length base - k) base) :: skipn (length base - k) base
  else base.
Proof.
  induction k as [|k IH]; intros base Hne F.
  - cbn [rsplit_k]. destruct base; try congruence. simpl Nat.ltb.
    rewrite Nat.sub_0_r, firstn_all, skipn_all. auto.
  - destruct (exists_last Hne) as [xs [y E]]. subst base.
    apply Forall_app in F as [Fx Fy]. inversion Fy; subst.
    destruct xs as [|x0 xs0].
    + simpl. rewrite rpart_nodot by auto using valid_nodot. auto.
    + remember (x0 :: xs0) as xs eqn:Exs.
      assert (Hx : xs <> []) by (subst xs; congruence). clear Exs.
      cbn [rsplit_k]. rewrite rpart_join_snoc by auto.
      rewrite IH by auto. rewrite app_length. simpl length.
      replace (Nat.ltb (S k) (length xs + 1)) with (Nat.ltb k (length xs)).
      2:{ destruct (Nat.ltb_spec k (length xs)); destruct (Nat.ltb_spec (S k) (length xs + 1)); auto; lia. }
      destruct (Nat.ltb_spec k (length xs)).
      * replace (length xs + 1 - S k) with (length xs - k) by lia.
        rewrite firstn_app, skipn_app.
        replace (length xs - k - length xs) with 0 by lia. cbn [firstn skipn].
        rewrite app_nil_r. auto.
      * auto.
Qed.

Lemma level_rewrite :
  forall base path level,
  Forall (fun s => valid_name s = true) base ->
  Forall (fun s => valid_name s = true) path ->
  1 <= level <= length base ->
  resolve_name (join_dot path) (join_dot base) level =
  Some (join_dot (firstn (length base - (level - 1)) base ++ path)).
Proof.
  intros base path level Fb Fp [H1 H2].
  destruct level as [|l]; try lia. simpl resolve_name.
  assert (Hne : base <> []) by (destruct base; simpl in *; try lia; congruence).
  pose proof (join_dot_nonempty base Hne Fb) as Hj.
  destruct (join_dot base) eqn:Ej; try congruence. rewrite <- Ej.
  rewrite rsplit_join by auto.
  replace (S l - 1) with l by lia.
  destruct (Nat.ltb_spec l (length base)); try lia.
  simpl length. rewrite skipn_length.
  replace (Nat.ltb (S (length base - (length base - l))) (S l)) with false.
  2:{ symmetry. apply Nat.ltb_ge. lia. }
  simpl hd.
  set (pre := firstn (length base - l) base).
  assert (Hpre : pre <> []).
  { unfold pre. intro E. apply (f_equal (@length _)) in E. rewrite firstn_length in E.
    simpl in E. lia. }
  destruct path as [|p path].
  - simpl. rewrite app_nil_r. auto.
  - rewrite join_dot_app by (auto; congruence).
    pose proof (join_dot_nonempty (p :: path) ltac:(congruence) Fp) as Hp.
    destruct (join_dot (p :: path)); try congruence. auto.
Qed.

Lemma level_beyond :
  forall base path level,
  Forall (fun s => valid_name s = true) base ->
  length base < level ->
  resolve_name (join_dot path) (join_dot base) level = None.
Proof.
  intros base path level Fb H. destruct level as [|l]; try lia. simpl.
  destruct (join_dot base) eqn:Ej; auto. rewrite <- Ej.
  assert (Hne : base <> []) by (destruct base; simpl in *; congruence).
  rewrite rsplit_join by auto.
  destruct (Nat.ltb_spec l (length base)); try lia.
  replace (Nat.ltb (length base) (S l)) with true; auto.
  symmetry. apply Nat.ltb_lt. lia.
Qed.

Lemma mk_importer_valid_level self path level :
  1 <= level <= length (v_package self) ->
  mk_importer self path level =
  {| i_path := firstn (length (v_package self) - (level - 1)) (v_package self) ++ path;
     i_fixed := None; i_possible := true |}.
Proof.
  intros [H1 H2]. destruct level as [|l]; try lia. unfold mk_importer.
  destruct (Nat.leb_spec (S l) (length (v_package self))); try lia.
  replace (S l - 1) with l by lia.
  destruct (Nat.ltb_spec 1 (S l)); auto.
  assert (l = 0) by lia. subst. rewrite Nat.sub_0_r, firstn_all. auto.
Qed.

(* ====================================================================== part 2 *)

(* ------------------------------------------------------------- py_import *)
Lemma py_fuel_irrelevant fs roots : forall f1 f2 name,
  length name < f1 -> length name < f2 ->
  py_import_fuel f1 fs roots name = py_import_fuel f2 fs roots name.
Proof.
  induction f1 as [|f1 IH]; intros f2 name H1 H2; try lia.
  destruct f2 as [|f2]; try lia. cbn [py_import_fuel].
  destruct (rpart name) as [[parent child]|] eqn:E; auto.
  apply rpart_length in E. rewrite (IH f2 parent) by lia. auto.
Qed.

Lemma py_import_single fs roots y :
  valid_name y = true -> py_import fs roots y = find_in fs roots y [].
Proof.
  intro V. unfold py_import. cbn [py_import_fuel]. rewrite rpart_nodot; auto using valid_nodot.
Qed.

Lemma py_import_snoc fs roots xs y :
  xs <> [] -> valid_name y = true ->
  py_import fs roots (join_dot (xs ++ [y])) =
  match search_path (py_import fs roots (join_dot xs)) with
  | Some ps => find_in fs ps y []
  | None => FNone
  end.
Proof.
  intros H V. unfold py_import at 1. cbn [py_import_fuel].
  rewrite rpart_join_snoc by auto.
  unfold py_import.
  rewrite (py_fuel_irrelevant fs roots (length (join_dot (xs ++ [y]))) (S (length (join_dot xs)))); auto.
  rewrite join_dot_snoc by auto. rewrite app_length. simpl. lia.
Qed.

(* --------------------------------------------------------------- the walk *)
(* a cache-free copy of the walk: a proof device for the chain lemmas below *)
Definition import_module0 (fs : node) (sys_path : list path) (names : list str) (parent : option mval)
  : option mval :=
  match parent with
  | None => conv names (find_in fs sys_path (last names []) [])
  | Some pv => match v_path pv with
               | None => None
               | Some ps => conv names (find_in fs ps (last names []) [])
               end
  end.

Fixpoint walk0 (fs : node) (sp : list path) (done todo : list str) (parent : option mval) : option mval :=
  match todo with
  | [] => parent
  | n :: rest => match import_module0 fs sp (done ++ [n]) parent with
                 | None => None
                 | Some v => walk0 fs sp (done ++ [n]) rest (Some v)
                 end
  end.

Section Walk.
Variable fs : node.
Variable roots : list path.

Definition P (names : list str) : option mval := conv names (py_import fs roots (join_dot names)).

Definition coherent (c : cache) : Prop := forall k r, cache_get c k = Some r -> P k = r.

Lemma coherent_add c k : coherent c -> coherent ((k, P k) :: c).
Proof.
  intros H k' r Hk. simpl in Hk. destruct (strs_eqb k' k) eqn:E.
  - apply strs_eqb_eq in E. subst. inversion Hk; auto.
  - apply H; auto.
Qed.

Lemma v_path_conv names f v : conv names f = Some v -> v_path v = search_path f.
Proof.
  destruct f; simpl; intro H; inversion H; subst; simpl; auto.
  unfold dirname. rewrite removelast_last. auto.
Qed.

Lemma step_first n : valid_name n = true -> import_module0 fs roots [n] None = P [n].
Proof. intro V. unfold import_module0, P. simpl join_dot. rewrite py_import_single by auto. auto. Qed.

Lemma step_next done n pv :
  valid_name n = true -> done <> [] -> P done = Some pv ->
  import_module0 fs roots (done ++ [n]) (Some pv) = P (done ++ [n]).
Proof.
  intros V Hd Hp. unfold import_module0, P. rewrite py_import_snoc by auto. rewrite last_last.
  unfold P in Hp. rewrite (v_path_conv _ _ _ Hp).
  destruct (search_path (py_import fs roots (join_dot done))); auto.
Qed.

Lemma import_module_cached c names parent :
  coherent c -> import_module0 fs roots names parent = P names ->
  fst (import_module fs c roots names parent) = P names /\
  coherent (snd (import_module fs c roots names parent)).
Proof.
  intros Hc H0. unfold import_module. destruct (cache_get c names) eqn:E.
  - simpl. split; auto. symmetry. apply Hc; auto.
  - fold (import_module0 fs roots names parent). rewrite H0. simpl. split; auto.
    apply coherent_add; auto.
Qed.

Lemma P_none_extends xs ys :
  xs <> [] -> Forall (fun s => valid_name s = true) ys -> P xs = None -> P (xs ++ ys) = None.
Proof.
  intros Hx. induction ys as [|y ys IH] using rev_ind; intros F Hn.
  - rewrite app_nil_r; auto.
  - apply Forall_app in F as [F1 F2]. inversion F2; subst.
    specialize (IH F1 Hn). rewrite app_assoc. unfold P.
    rewrite py_import_snoc; auto.
    2:{ destruct xs; simpl; congruence. }
    unfold P in IH. destruct (py_import fs roots (join_dot (xs ++ ys))); simpl in *; try discriminate. auto.
Qed.

Definition walk_inv (done : list str) (parent : option mval) : Prop :=
  done = [] /\ parent = None \/ done <> [] /\ parent = P done /\ parent <> None.

Lemma step_any done n parent :
  valid_name n = true -> walk_inv done parent ->
  import_module0 fs roots (done ++ [n]) parent = P (done ++ [n]).
Proof.
  intros V [[Hd Hp]|[Hd [Hp Hs]]]; subst.
  - simpl. apply step_first; auto.
  - destruct (P done) eqn:E; try congruence. apply step_next; auto.
Qed.

Lemma walk0_spec : forall rest done parent,
  Forall (fun s => valid_name s = true) rest -> rest <> [] -> walk_inv done parent ->
  walk0 fs roots done rest parent = P (done ++ rest).
Proof.
  induction rest as [|n rest IH]; intros done parent F Hne Hinv; try congruence.
  inversion F; subst. cbn [walk0]. rewrite (step_any done n parent) by auto.
  assert (Hdn : done ++ [n] <> []) by (destruct done; simpl; congruence).
  replace (done ++ n :: rest) with ((done ++ [n]) ++ rest) by (rewrite <- app_assoc; auto).
  destruct (P (done ++ [n])) eqn:E.
  - destruct rest as [|n' rest'].
    + cbn [walk0]. rewrite app_nil_r. auto.
    + apply IH; auto; try congruence. right. split; auto. split; congruence.
  - symmetry. apply P_none_extends; auto.
Qed.

Lemma walk_spec : forall rest c done parent,
  coherent c ->
  Forall (fun s => valid_name s = true) rest -> rest <> [] -> walk_inv done parent ->
  fst (walk fs c roots done rest parent) = P (done ++ rest) /\
  coherent (snd (walk fs c roots done rest parent)).
Proof.
  induction rest as [|n rest IH]; intros c done parent Hc F Hne Hinv; try congruence.
  inversion F; subst. cbn [walk].
  destruct (import_module_cached c (done ++ [n]) parent Hc (step_any done n parent H1 Hinv)) as [E1 E2].
  destruct (import_module fs c roots (done ++ [n]) parent) as [r c'] eqn:Eim. simpl in E1, E2.
  assert (Hdn : done ++ [n] <> []) by (destruct done; simpl; congruence).
  replace (done ++ n :: rest) with ((done ++ [n]) ++ rest) by (rewrite <- app_assoc; auto).
  destruct r as [v|].
  - destruct rest as [|n' rest'].
    + cbn [walk]. simpl. rewrite app_nil_r. auto.
    + apply IH; auto; try congruence. right. split; auto. split; congruence.
  - simpl. split; auto. symmetry. apply P_none_extends; auto.
Qed.

Theorem walk_agrees_cache c names :
  coherent c -> names <> [] -> Forall (fun s => valid_name s = true) names ->
  fst (import_by_names fs c roots names) = P names /\
  coherent (snd (import_by_names fs c roots names)).
Proof.
  intros Hc Hn F. unfold import_by_names. apply (walk_spec names c [] None); auto. left; auto.
Qed.

Theorem walk0_agrees names :
  names <> [] -> Forall (fun s => valid_name s = true) names ->
  walk0 fs roots [] names None = P names.
Proof. intros Hn F. apply (walk0_spec names [] None); auto. left; auto. Qed.

Lemma coherent_nil : coherent [].
Proof. intros k v H. simpl in H. discriminate. Qed.

End Walk.

Lemma res_of_conv names f : res_of_opt (conv names f) = res_of_found f.
Proof. destruct f; simpl; auto. Qed.

Theorem walk_agrees fs roots names :
  names <> [] -> Forall (fun s => valid_name s = true) names ->
  res_of_opt (fst (import_by_names fs [] roots names)) =
  res_of_found (py_import fs roots (join_dot names)).
Proof.
  intros Hn F. destruct (walk_agrees_cache fs roots [] names (coherent_nil fs roots) Hn F) as [E _].
  rewrite E. unfold P. apply res_of_conv.
Qed.

(* ====================================================================== part 3 *)

(* ------------------------------------------------------- plain components *)
Lemma plain_parts s : plain s = true ->
  s <> [] /\ mem c_slash s = false /\ mem c_dot s = false /\ mem 45%N s = false.
Proof.
  unfold plain. intro H. repeat (apply andb_true_iff in H as [H ?]).
  repeat match goal with H : negb _ = true |- _ => apply negb_true_iff in H end.
  destruct s; simpl in *; try discriminate. repeat split; auto. congruence.
Qed.

Lemma plain_valid s : plain s = true -> valid_name s = true.
Proof.
  intro H. apply plain_parts in H as [H1 [_ [H3 _]]]. unfold valid_name.
  rewrite H3. destruct s; simpl; congruence.
Qed.

Definition slash_led (z : str) : Prop := z = [] \/ exists z', z = c_slash :: z'.

Lemma path_str_led l : slash_led (path_str l).
Proof. destruct l; [left; auto | right; simpl; eauto]. Qed.

Lemma path_str_app a b : path_str (a ++ b) = path_str a ++ path_str b.
Proof. unfold path_str. apply flat_map_app. Qed.

Lemma starts_with_app a b : starts_with (a ++ b) a = true.
Proof. apply starts_with_prefix. exists b; auto. Qed.

Lemma skipn_app_exact {A} (a b : list A) : skipn (length a) (a ++ b) = b.
Proof. induction a; simpl; auto. Qed.

(* one component: c ++ X is a prefix of d ++ Y with the rest empty or slash-led *)
Lemma comp_eq : forall c d X Y,
  mem c_slash c = false -> mem c_slash d = false ->
  slash_led X -> slash_led Y ->
  starts_with (d ++ Y) (c ++ X) = true ->
  slash_led (skipn (length (c ++ X)) (d ++ Y)) ->
  c = d /\ starts_with Y X = true /\ skipn (length (c ++ X)) (d ++ Y) = skipn (length X) Y.
Proof.
  induction c as [|a c IH]; intros d X Y Hc Hd HX HY Hs Hr.
  - destruct d as [|x d].
    + simpl in *. auto.
    + exfalso. cbn [mem] in Hd. apply orb_false_iff in Hd as [Hx Hd].
      simpl app in *. destruct HX as [HX|[X' HX]]; subst X.
      * simpl in Hr. destruct Hr as [Hr|[z Hr]]; try discriminate. inversion Hr; subst.
        unfold c_slash in Hx. rewrite N.eqb_refl in Hx. discriminate.
      * cbn [starts_with] in Hs. apply andb_true_iff in Hs as [Hs _].
        apply N.eqb_eq in Hs. subst x. unfold c_slash in Hx. rewrite N.eqb_refl in Hx. discriminate.
  - cbn [mem] in Hc. apply orb_false_iff in Hc as [Ha Hc].
    destruct d as [|x d].
    + exfalso. simpl app in Hs. destruct HY as [HY|[Y' HY]]; subst Y.
      * simpl in Hs. discriminate.
      * cbn [app starts_with] in Hs. apply andb_true_iff in Hs as [Hs _].
        apply N.eqb_eq in Hs. subst a. unfold c_slash in Ha. rewrite N.eqb_refl in Ha. discriminate.
    + cbn [mem] in Hd. apply orb_false_iff in Hd as [Hx Hd].
      cbn [app starts_with] in Hs. apply andb_true_iff in Hs as [Hs1 Hs2].
      apply N.eqb_eq in Hs1. subst x.
      cbn [app length skipn] in Hr.
      destruct (IH d X Y Hc Hd HX HY Hs2 Hr) as [E [S1 S2]]. subst d.
      split; auto.
Qed.

Lemma prefix_components : forall r m,
  Forall (fun s => plain s = true) r -> Forall (fun s => plain s = true) m ->
  starts_with (path_str m) (path_str r) = true ->
  slash_led (skipn (length (path_str r)) (path_str m)) ->
  exists t, m = r ++ t.
Proof.
  induction r as [|c r IH]; intros m Fr Fm Hs Hr.
  - exists m; auto.
  - inversion Fr as [|? ? Pc Fr']; subst. destruct m as [|d m].
    + simpl in Hs. discriminate.
    + inversion Fm as [|? ? Pd Fm']; subst.
      apply plain_parts in Pc as [_ [Hc _]]. apply plain_parts in Pd as [_ [Hd _]].
      change (path_str (c :: r)) with (c_slash :: c ++ path_str r) in *.
      change (path_str (d :: m)) with (c_slash :: d ++ path_str m) in *.
      cbn [starts_with] in Hs. apply andb_true_iff in Hs as [_ Hs].
      cbn [length skipn] in Hr.
      destruct (comp_eq c d (path_str r) (path_str m) Hc Hd (path_str_led r) (path_str_led m) Hs Hr)
        as [E [S1 S2]]. subst d.
      rewrite S2 in Hr.
      destruct (IH m Fr' Fm' S1 Hr) as [t Ht]. exists t. subst m. auto.
Qed.

Lemma prefix_components_conv r t :
  starts_with (path_str (r ++ t)) (path_str r) = true /\
  skipn (length (path_str r)) (path_str (r ++ t)) = path_str t.
Proof. rewrite path_str_app. split. apply starts_with_app. apply skipn_app_exact. Qed.

(* split on '/' gives the components back *)
Lemma split_comp : forall t c,
  mem c_slash c = false -> Forall (fun s => plain s = true) t ->
  split_on c_slash (c ++ path_str t) = c :: t.
Proof.
  induction t as [|d t IH]; intros c Hc F.
  - simpl. rewrite app_nil_r. induction c as [|a c IHc]; simpl; auto.
    cbn [mem] in Hc. apply orb_false_iff in Hc as [Ha Hc]. rewrite N.eqb_sym in Ha.
    rewrite Ha. rewrite IHc by auto. auto.
  - inversion F as [|? ? Pd F']; subst. apply plain_parts in Pd as [_ [Hd _]].
    induction c as [|a c IHc].
    + change (path_str (d :: t)) with (c_slash :: d ++ path_str t). cbn [app split_on].
      rewrite N.eqb_refl. rewrite IH by auto. auto.
    + cbn [mem] in Hc. apply orb_false_iff in Hc as [Ha Hc]. rewrite N.eqb_sym in Ha.
      cbn [app split_on]. rewrite Ha. rewrite IHc by auto. auto.
Qed.

Lemma strip_stubs_plain c : mem 45%N c = false -> strip_stubs c = c.
Proof.
  intro H. unfold strip_stubs. destruct (starts_with (rev c) s_stubs_rev) eqn:E; auto.
  exfalso. apply starts_with_prefix in E as [z Ez].
  assert (In 45%N (rev c)) by (rewrite Ez; unfold s_stubs_rev; simpl; auto 10).
  apply in_rev in H0. apply mem_In in H0. congruence.
Qed.

Lemma map_strip_plain t : Forall (fun s => plain s = true) t -> map strip_stubs t = t.
Proof.
  induction 1; simpl; auto. apply plain_parts in H as [_ [_ [_ H]]].
  rewrite strip_stubs_plain by auto. congruence.
Qed.

Lemma forallb_nonempty_plain t : Forall (fun s => plain s = true) t -> forallb nonempty t = true.
Proof.
  induction 1; simpl; auto. apply plain_parts in H as [H _]. destruct x; simpl; congruence.
Qed.

Lemma ends_with_slash_path r :
  r <> [] -> Forall (fun s => plain s = true) r -> ends_with_slash (path_str r) = false.
Proof.
  intros Hne F. destruct (exists_last Hne) as [r' [c E]]. subst r.
  apply Forall_app in F as [_ F]. inversion F as [|? ? Pc F']; subst.
  apply plain_parts in Pc as [Hc [Hs _]].
  destruct (exists_last Hc) as [c' [x Ex]]. subst c.
  rewrite path_str_app.
  unfold path_str at 2. cbn [flat_map]. rewrite app_nil_r.
  change (path_str r' ++ c_slash :: c' ++ [x]) with (path_str r' ++ (c_slash :: c') ++ [x]).
  rewrite app_assoc. unfold ends_with_slash. rewrite rev_unit.
  destruct (N.eqb x c_slash) eqn:Ex; auto.
  apply N.eqb_eq in Ex. subst x. exfalso.
  assert (In c_slash (c' ++ [c_slash])) by (apply in_or_app; right; simpl; auto).
  apply mem_In in H. congruence.
Qed.

Lemma proper_prefix_spec r m : proper_prefix r m = true <-> exists t, t <> [] /\ m = r ++ t.
Proof.
  revert m; induction r as [|x r IH]; intros m; destruct m as [|y m]; simpl; split; intro H; try discriminate.
  - destruct H as [t [Ht E]]. destruct t; simpl in *; congruence.
  - exists (y :: m). split; auto. congruence.
  - auto.
  - destruct H as [t [Ht E]]. destruct t; simpl in *; congruence.
  - apply andb_true_iff in H as [H1 H2]. apply str_eqb_eq in H1. apply IH in H2 as [t [Ht E]].
    exists t. split; auto. congruence.
  - destruct H as [t [Ht E]]. inversion E; subst. apply andb_true_iff. split.
    apply str_eqb_refl. apply IH. eauto.
Qed.

(* the candidates of the corrected code on well-formed input: exactly the relative
   component paths from the entries that are proper ancestor folders, in order *)
Lemma candidates_wf : forall roots m,
  Forall (Forall (fun s => plain s = true)) roots -> Forall (fun s => plain s = true) m -> m <> [] ->
  candidates true (path_str m) (map path_str roots) =
  map (fun r => skipn (length r) m) (filter (fun r => proper_prefix r m) roots).
Proof.
  induction roots as [|r roots IH]; intros m Fr Fm Hm; auto.
  inversion Fr as [|? ? H1 Fr']; subst. cbn [map candidates filter]. rewrite IH by auto.
  destruct (starts_with (path_str m) (path_str r)) eqn:Es.
  - set (rest0 := skipn (length (path_str r)) (path_str m)).
    destruct rest0 as [|x rest] eqn:Er.
    + (* m = r *)
      assert (Hl : slash_led (skipn (length (path_str r)) (path_str m))) by (fold rest0; rewrite Er; left; auto).
      destruct (prefix_components r m H1 Fm Es Hl) as [t Ht]. subst m.
      destruct (prefix_components_conv r t) as [_ E2]. fold rest0 in E2. rewrite Er in E2.
      destruct t as [|d t]; try (simpl in E2; discriminate).
      simpl. replace (proper_prefix r (r ++ [])) with false; auto.
      symmetry. apply not_true_iff_false. intro Hp. apply proper_prefix_spec in Hp as [t [Ht E]].
      rewrite app_nil_r in E. apply (f_equal (@length _)) in E. rewrite app_length in E.
      destruct t; simpl in *; try congruence; lia.
    + destruct (N.eqb x c_slash) eqn:Ex.
      * apply N.eqb_eq in Ex. subst x.
        assert (Hl : slash_led (skipn (length (path_str r)) (path_str m))) by (fold rest0; rewrite Er; right; eauto).
        destruct (prefix_components r m H1 Fm Es Hl) as [t Ht]. subst m.
        destruct (prefix_components_conv r t) as [_ E2]. fold rest0 in E2. rewrite Er in E2.
        destruct t as [|d t]; try (simpl in E2; discriminate).
        apply Forall_app in Fm as [_ Ft]. inversion Ft as [|? ? H3 Ft']; subst.
        change (path_str (d :: t)) with (c_slash :: d ++ path_str t) in E2. inversion E2; subst rest.
        cbn [negb andb tl].
        pose proof (plain_parts d H3) as [Hd [Hds _]].
        destruct (d ++ path_str t) eqn:Ed.
        { destruct d; simpl in Ed; try congruence. }
        rewrite <- Ed. rewrite split_comp by auto.
        rewrite forallb_nonempty_plain by auto. rewrite map_strip_plain by auto.
        replace (proper_prefix r (r ++ d :: t)) with true.
        2:{ symmetry. apply proper_prefix_spec. exists (d :: t). split; auto. congruence. }
        cbn [map]. rewrite skipn_app_exact. auto.
      * (* not a folder boundary: skipped, and r is not an ancestor *)
        assert (Hnp : proper_prefix r m = false).
        { apply not_true_iff_false. intro Hp. apply proper_prefix_spec in Hp as [t [Ht E]]. subst m.
          destruct (prefix_components_conv r t) as [_ E2]. fold rest0 in E2. rewrite Er in E2.
          destruct t as [|d t]; try congruence.
          change (path_str (d :: t)) with (c_slash :: d ++ path_str t) in E2. inversion E2; subst.
          unfold c_slash in Ex. rewrite N.eqb_refl in Ex. discriminate. }
        rewrite Hnp.
        destruct r as [|c r].
        { exfalso. simpl in rest0. subst rest0. destruct m as [|d m]; try congruence.
          change (path_str (d :: m)) with (c_slash :: d ++ path_str m) in Er. inversion Er; subst.
          unfold c_slash in Ex. rewrite N.eqb_refl in Ex. discriminate. }
        rewrite ends_with_slash_path by (auto; congruence).
        cbn [negb andb nonempty].
        change (path_str (c :: r)) with (c_slash :: c ++ path_str r). cbn [nonempty andb]. auto.
  - replace (proper_prefix r m) with false; auto.
    symmetry. apply not_true_iff_false. intro Hp. apply proper_prefix_spec in Hp as [t [Ht E]]. subst m.
    destruct (prefix_components_conv r t) as [E1 _]. congruence.
Qed.

(* ====================================================================== part 4 *)

(* ----------------------------------------------------------- shortest *)
Lemma shortest_spec : forall l best,
  let s := shortest best l in
  In s (best :: l) /\ Forall (fun x => length s <= length x) (best :: l).
Proof.
  induction l as [|x l IH]; intros best; simpl.
  - split; auto.
  - destruct (Nat.ltb_spec (length x) (length best)).
    + destruct (IH x) as [I F]. split.
      * simpl in I. destruct I; auto.
      * inversion F; subst. constructor; [lia|]. constructor; auto.
    + destruct (IH best) as [I F]. split.
      * simpl in I. destruct I; auto.
      * inversion F; subst. constructor; auto. constructor; auto. lia.
Qed.

(* ------------------------------------------- suffix removal on  n ++ ".py" *)
Lemma rfind_dot_nodot s i : mem c_dot s = false -> rfind_dot s i = None.
Proof.
  revert i; induction s as [|c s IH]; intros i H; cbn [rfind_dot mem] in *; auto.
  apply orb_false_iff in H as [H1 H2]. rewrite IH by auto. rewrite N.eqb_sym in H1. rewrite H1. auto.
Qed.

Lemma rfind_dot_py n i : mem c_dot n = false -> rfind_dot (n ++ s_py) i = Some (i + length n).
Proof.
  revert i; induction n as [|c n IH]; intros i H.
  - simpl. f_equal. lia.
  - cbn [mem] in H. apply orb_false_iff in H as [H1 H2].
    cbn [app rfind_dot]. rewrite IH by auto. f_equal. simpl. lia.
Qed.

Lemma remove_suffix_py n : plain n = true -> remove_suffix (n ++ s_py) = n.
Proof.
  intro Hp. apply plain_parts in Hp as [Hne [_ [Hd _]]].
  unfold remove_suffix, split_suffix. rewrite rfind_dot_py by auto. simpl plus.
  rewrite app_length. simpl length.
  replace (Nat.ltb 0 (length n)) with true.
  2:{ symmetry. apply Nat.ltb_lt. destruct n; simpl; try congruence; lia. }
  replace (Nat.ltb (length n) (length n + 3 - 1)) with true.
  2:{ symmetry. apply Nat.ltb_lt. lia. }
  cbn [andb]. rewrite firstn_app, firstn_all, Nat.sub_diag. simpl firstn. rewrite app_nil_r.
  rewrite skipn_app, skipn_all, Nat.sub_diag. simpl.
  auto.
Qed.

Lemma plain_not_hidden n : plain n = true -> exists c n', n = c :: n' /\ N.eqb c c_dot = false.
Proof.
  intro Hp. apply plain_parts in Hp as [Hne [_ [Hd _]]]. destruct n as [|c n']; try congruence.
  exists c, n'. split; auto. cbn [mem] in Hd. apply orb_false_iff in Hd as [H _]. rewrite N.eqb_sym. auto.
Qed.

(* the module path jedi strips: folder for __init__.py, else folder/stem *)
Definition stripped (d : path) (n : str) : path := if str_eqb n s_init then d else d ++ [n].

Lemma transform_wf roots d n :
  Forall (Forall (fun s => plain s = true)) roots ->
  Forall (fun s => plain s = true) d -> plain n = true ->
  stripped d n <> [] ->
  transform_path_to_dotted (map path_str roots) (d ++ [n ++ s_py]) =
  match filter (fun r => proper_prefix r (stripped d n)) roots with
  | [] => (None, false)
  | r :: rs => (Some (shortest (skipn (length r) (stripped d n))
                               (map (fun r => skipn (length r) (stripped d n)) rs)),
                str_eqb n s_init)
  end.
Proof.
  intros Fr Fd Pn Hm. unfold transform_path_to_dotted, transform_gen.
  destruct (d ++ [n ++ s_py]) eqn:E. { destruct d; discriminate. }
  rewrite <- E. clear E. rewrite last_last, removelast_last.
  rewrite remove_suffix_py by auto.
  destruct (plain_not_hidden n Pn) as [c [n' [En Hc]]].
  cbv zeta. destruct n as [|c0 n0]; [discriminate|]. inversion En; subst c0 n0.
  cbv beta iota. rewrite Hc.
  set (n := c :: n') in *.
  change (if str_eqb n s_init then d else d ++ [n]) with (stripped d n).
  assert (Fm : Forall (fun s => plain s = true) (stripped d n)).
  { unfold stripped. destruct (str_eqb n s_init); auto. apply Forall_app; split; auto. }
  unfold module_str. destruct (stripped d n) eqn:Em; try congruence. rewrite <- Em in *.
  rewrite candidates_wf by auto.
  destruct (filter (fun r => proper_prefix r (stripped d n)) roots); auto.
Qed.

(* -------------------------------------------------- the chain imports back *)
Lemma find_one_shape fs d n f :
  find_one fs d n = OReg f -> f = FPkg (d ++ [n]) \/ f = FMod (d ++ [n ++ s_py]).
Proof.
  unfold find_one. destruct (lookup fs d) as [[|ch]|]; try discriminate.
  destruct (match assoc n ch with Some (Dir ch2) => is_file (assoc s_init_py ch2) | _ => false end).
  - intro H; inversion H; auto.
  - destruct (is_file (assoc (n ++ s_py) ch)).
    + intro H; inversion H; auto.
    + destruct (is_dir (assoc n ch)); discriminate.
Qed.

Lemma find_in_single fs d n f : find_one fs d n = OReg f -> find_in fs [d] n [] = f.
Proof. intro H. simpl. rewrite H. auto. Qed.

Lemma first_wins_find fs r n f : forall roots acc,
  first_wins fs roots r n = true -> find_one fs r n = OReg f -> find_in fs roots n acc = f.
Proof.
  induction roots as [|r' roots IH]; intros acc Hw Hf; simpl in *; try discriminate.
  destruct (strs_eqb r' r) eqn:E.
  - apply strs_eqb_eq in E. subst r'. rewrite Hf. auto.
  - destruct (find_one fs r' n); try discriminate; auto.
Qed.

Lemma chain_walk fs roots : forall rest done dir is_pkg,
  done <> [] ->
  chain_ok fs dir rest is_pkg = true ->
  walk0 fs roots done rest (Some (VMod (dir ++ [s_init_py]) true done)) =
  Some (VMod (if is_pkg then dir ++ rest ++ [s_init_py]
              else dir ++ removelast rest ++ [last rest [] ++ s_py]) is_pkg (done ++ rest)).
Proof.
  induction rest as [|n rest IH]; intros done dir is_pkg Hd Hc; try discriminate.
  cbn [walk0]. unfold import_module0. cbn [v_path]. unfold dirname. rewrite removelast_last.
  rewrite last_last.
  destruct rest as [|n' rest'].
  - cbn [chain_ok] in Hc. destruct (find_one fs dir n) as [f| |] eqn:Ef; try discriminate.
    destruct (find_one_shape _ _ _ _ Ef) as [E|E]; subst f.
    + destruct is_pkg; try discriminate. rewrite (find_in_single _ _ _ _ Ef). cbn [conv walk0].
      rewrite <- app_assoc. auto.
    + destruct is_pkg; try discriminate. rewrite (find_in_single _ _ _ _ Ef). cbn [conv walk0].
      simpl. auto.
  - cbn [chain_ok] in Hc. destruct (find_one fs dir n) as [f| |] eqn:Ef; try discriminate.
    destruct (find_one_shape _ _ _ _ Ef) as [E|E]; subst f; try discriminate.
    rewrite (find_in_single _ _ _ _ Ef). cbn [conv].
    rewrite (IH (done ++ [n]) (dir ++ [n]) is_pkg); auto.
    2:{ destruct done; simpl; congruence. }
    f_equal. f_equal.
    + destruct is_pkg.
      * rewrite <- !app_assoc. auto.
      * change (removelast (n :: n' :: rest')) with (n :: removelast (n' :: rest')).
        change (last (n :: n' :: rest') []) with (last (n' :: rest') []).
        rewrite <- !app_assoc. auto.
    + rewrite <- app_assoc. auto.
Qed.

Lemma unshadowed_walk fs roots r names is_pkg :
  unshadowed fs roots r names is_pkg = true ->
  walk0 fs roots [] names None =
  Some (VMod (file_of r names is_pkg) is_pkg names).
Proof.
  unfold unshadowed. intro H. apply andb_true_iff in H as [Hw Hc].
  destruct names as [|n rest]; try discriminate.
  cbn [walk0 hd] in *. unfold import_module0. cbn [app last].
  destruct rest as [|n' rest'].
  - cbn [chain_ok] in Hc. destruct (find_one fs r n) as [f| |] eqn:Ef; try discriminate.
    rewrite (first_wins_find _ _ _ _ _ _ Hw Ef).
    destruct (find_one_shape _ _ _ _ Ef) as [E|E]; subst f; destruct is_pkg; try discriminate;
      cbn [conv walk0]; unfold file_of; simpl; auto. rewrite <- app_assoc. auto.
  - cbn [chain_ok] in Hc. destruct (find_one fs r n) as [f| |] eqn:Ef; try discriminate.
    destruct (find_one_shape _ _ _ _ Ef) as [E|E]; subst f; try discriminate.
    rewrite (first_wins_find _ _ _ _ _ _ Hw Ef). cbn [conv].
    rewrite (chain_walk fs roots (n' :: rest') [n] (r ++ [n]) is_pkg); auto; try congruence.
    f_equal. f_equal. unfold file_of. destruct is_pkg.
    + rewrite <- !app_assoc. auto.
    + change (removelast (n :: n' :: rest')) with (n :: removelast (n' :: rest')).
      change (last (n :: n' :: rest') []) with (last (n' :: rest') []).
      rewrite <- !app_assoc. auto.
Qed.

Theorem import_unshadowed fs roots r names is_pkg :
  Forall (fun s => valid_name s = true) names ->
  unshadowed fs roots r names is_pkg = true ->
  res_of_found (py_import fs roots (join_dot names)) = RFile (file_of r names is_pkg).
Proof.
  intros F H.
  assert (Hn : names <> []).
  { intro; subst. unfold unshadowed in H. simpl in H. rewrite andb_false_r in H. discriminate. }
  rewrite <- res_of_conv with (names := names). fold (P fs roots names).
  rewrite <- walk0_agrees by auto. rewrite (unshadowed_walk _ _ _ _ _ H). auto.
Qed.

(* ====================================================================== part 5 *)

Theorem level_rewrite_is_resolve_name self path level :
  Forall (fun s => valid_name s = true) (v_package self) ->
  Forall (fun s => valid_name s = true) path ->
  1 <= level <= length (v_package self) ->
  i_fixed (mk_importer self path level) = None /\
  i_possible (mk_importer self path level) = true /\
  resolve_name (join_dot path) (join_dot (v_package self)) level =
  Some (join_dot (i_path (mk_importer self path level))).
Proof.
  intros Fb Fp H. rewrite mk_importer_valid_level by auto. cbn [i_fixed i_possible i_path].
  repeat split; auto. apply level_rewrite; auto.
Qed.

Theorem level_beyond_top self path level :
  Forall (fun s => valid_name s = true) (v_package self) ->
  length (v_package self) < level ->
  resolve_name (join_dot path) (join_dot (v_package self)) level = None /\
  mk_importer self path level =
  match climb (level - 1) (dirname (v_file self)) with
  | None => {| i_path := path; i_fixed := None; i_possible := false |}
  | Some d => {| i_path := path; i_fixed := Some [d]; i_possible := true |}
  end.
Proof.
  intros Fb H. split. apply level_beyond; auto.
  destruct level as [|l]; try lia. unfold mk_importer.
  destruct (Nat.leb_spec (S l) (length (v_package self))); try lia.
  replace (S l - 1) with l by lia. auto.
Qed.

Lemma Forall_skipn {A} (Pr : A -> Prop) n : forall l, Forall Pr l -> Forall Pr (skipn n l).
Proof. induction n; intros l F; simpl; auto. destruct l; auto. inversion F; auto. Qed.

Theorem dotted_roundtrip fs roots d n names is_pkg :
  Forall (Forall (fun s => plain s = true)) roots ->
  Forall (fun s => plain s = true) d -> plain n = true ->
  (if str_eqb n s_init then d else d ++ [n]) <> [] ->
  transform_path_to_dotted (map path_str roots) (d ++ [n ++ s_py]) = (Some names, is_pkg) ->
  exists r,
    In r roots /\ d ++ [n ++ s_py] = file_of r names is_pkg /\
    (forall r', In r' roots -> proper_prefix r' (if str_eqb n s_init then d else d ++ [n]) = true ->
                length names + length r' <= length (if str_eqb n s_init then d else d ++ [n])) /\
    (unshadowed fs roots r names is_pkg = true ->
     res_of_found (py_import fs roots (join_dot names)) = RFile (d ++ [n ++ s_py])).
Proof.
  intros Fr Fd Pn Hm Ht. fold (stripped d n) in *.
  rewrite transform_wf in Ht by auto.
  destruct (filter (fun r => proper_prefix r (stripped d n)) roots) as [|r0 rs] eqn:Ef; try discriminate.
  inversion Ht; subst names is_pkg. clear Ht.
  remember (stripped d n) as m eqn:Hmd.
  destruct (shortest_spec (map (fun r => skipn (length r) m) rs) (skipn (length r0) m)) as [Hin Hall].
  set (names := shortest (skipn (length r0) m) (map (fun r => skipn (length r) m) rs)) in *.
  change (skipn (length r0) m :: map (fun r => skipn (length r) m) rs)
    with (map (fun r => skipn (length r) m) (r0 :: rs)) in *.
  rewrite <- Ef in *.
  apply in_map_iff in Hin as [r [Er Hr]]. apply filter_In in Hr as [Hr Hp].
  apply proper_prefix_spec in Hp as [t [Ht Em]].
  assert (En : names = t). { rewrite <- Er, Em. apply skipn_app_exact. }
  assert (Fm : Forall (fun s => plain s = true) m).
  { rewrite Hmd. unfold stripped. destruct (str_eqb n s_init); auto. apply Forall_app; split; auto. }
  assert (Ffile : d ++ [n ++ s_py] = file_of r names (str_eqb n s_init)).
  { unfold file_of. rewrite Hmd in Em. unfold stripped in Em. destruct (str_eqb n s_init) eqn:Ei.
    - apply str_eqb_eq in Ei. subst n d. rewrite En. rewrite <- app_assoc. auto.
    - destruct (exists_last Ht) as [t' [n' Et]]. rewrite Et in Em.
      rewrite app_assoc in Em. apply app_inj_tail in Em as [Ed En']. subst d n'.
      rewrite En, Et.
      rewrite removelast_last, last_last. rewrite <- app_assoc. auto. }
  exists r. repeat split; auto.
  - intros r' Hr' Hp'.
    change (if str_eqb n s_init then d else d ++ [n]) with (stripped d n) in Hp' |- *.
    rewrite <- Hmd in Hp' |- *.
    rewrite Forall_forall in Hall.
    assert (Hi : In (skipn (length r') m) (map (fun r => skipn (length r) m) (filter (fun r => proper_prefix r m) roots))).
    { apply in_map_iff. exists r'. split; auto. apply filter_In. auto. }
    apply Hall in Hi. rewrite skipn_length in Hi.
    apply proper_prefix_spec in Hp' as [t' [_ Em']].
    assert (length r' <= length m) by (rewrite Em', app_length; lia). lia.
  - intro Hu. rewrite Ffile. apply import_unshadowed; auto.
    rewrite En. rewrite Em in Fm. apply Forall_app in Fm as [_ Ft].
    eapply Forall_impl; [|apply Ft]. intros a Ha. apply plain_valid; auto.
Qed.

(* --------------------------------------------------------------- witnesses *)
Definition w_foo : str := [102;111;111]%N.
Definition w_ba : str := [98;97]%N.
Definition w_bar : str := [98;97;114]%N.
Definition w_baz_py : str := [98;97;122;46;112;121]%N.

Theorem dotted_refuted_string_prefix :
  exists sys_path module_path,
    transform_string_prefix sys_path module_path = (Some [[114]%N; [98;97;122]%N], false) /\
    transform_path_to_dotted sys_path module_path = (None, false).
Proof.
  exists [ [47;102;111;111;47;98;97]%N ], [w_foo; w_bar; w_baz_py]. split; vm_compute; reflexivity.
Qed.

(* ====================================================================== part 6 *)



Lemma script_cache_coherent fs roots self :
  self_coherent fs roots self -> coherent fs roots (script_cache self).
Proof.
  destruct self as [f p names|]; simpl; intros H k v Hk; try contradiction.
  simpl in Hk. destruct (strs_eqb k names) eqn:E; try discriminate.
  apply strs_eqb_eq in E. inversion Hk; subst. auto.
Qed.

Lemma follow_coherent fs roots c names :
  coherent fs roots c -> names <> [] -> Forall (fun s => valid_name s = true) names ->
  exists c', follow fs c roots {| i_path := names; i_fixed := None; i_possible := true |} = (P fs roots names, c')
             /\ coherent fs roots c'.
Proof.
  intros Hc Hn F. unfold follow. cbn [i_path i_fixed i_possible negb].
  destruct names as [|n names]; try congruence.
  destruct (cache_get c (n :: names)) eqn:E.
  - exists c. split; auto. f_equal. symmetry. apply Hc; auto.
  - destruct (walk_agrees_cache fs roots c (n :: names) Hc Hn F) as [E1 E2].
    exists (snd (import_by_names fs c roots (n :: names))). split; auto.
    rewrite <- E1. apply surjective_pairing.
Qed.

Lemma py_package_importer self :
  py_package (importer_of self) = join_dot (v_package self) \/ (exists a b, self = VNs a b).
Proof. destruct self as [f [|] names|]; simpl; eauto. Qed.

Lemma Forall_firstn {A} (Pr : A -> Prop) n : forall l, Forall Pr l -> Forall Pr (firstn n l).
Proof. induction n; intros l F; simpl; auto. destruct l; auto. inversion F; auto. Qed.



Lemma importer_abs self q extra :
  level_ok self q \/ (q_level q = 0) ->
  (q_level q = 0 \/ 1 <= q_level q <= length (v_package self)) ->
  mk_importer self (q_path q ++ extra) (q_level q) =
  {| i_path := abs_path self q ++ extra; i_fixed := None; i_possible := true |}.
Proof.
  intros _ [H|H]; unfold abs_path.
  - rewrite H. simpl. auto.
  - rewrite mk_importer_valid_level by auto. destruct (q_level q) as [|l]; try lia.
    replace (S l - 1) with l by lia. rewrite app_assoc. auto.
Qed.

Lemma abs_path_props self q :
  Forall (fun s => valid_name s = true) (v_package self) ->
  Forall (fun s => valid_name s = true) (q_path q) ->
  level_ok self q ->
  abs_path self q <> [] /\ Forall (fun s => valid_name s = true) (abs_path self q).
Proof.
  intros Fb Fp [[H0 Hp]|H]; unfold abs_path.
  - rewrite H0. auto.
  - destruct (q_level q) as [|l]; try lia. split.
    + intro E. apply app_eq_nil in E as [E _]. apply (f_equal (@length _)) in E.
      rewrite firstn_length in E. simpl in E. lia.
    + apply Forall_app; split; auto. apply Forall_firstn; auto.
Qed.

Lemma resolve_abs self q f p names :
  self = VMod f p names ->
  Forall (fun s => valid_name s = true) (v_package self) ->
  Forall (fun s => valid_name s = true) (q_path q) ->
  level_ok self q ->
  resolve_name (join_dot (q_path q)) (py_package (importer_of self)) (q_level q) =
  Some (join_dot (abs_path self q)).
Proof.
  intros Es Fb Fp Hl.
  assert (Ep : py_package (importer_of self) = join_dot (v_package self)).
  { subst self. destruct p; simpl; auto. }
  rewrite Ep. unfold abs_path. destruct Hl as [[H0 Hp]|H].
  - rewrite H0. simpl. auto.
  - rewrite level_rewrite by auto. destruct (q_level q) as [|l]; try lia.
    replace (S l - 1) with l by lia. auto.
Qed.

Theorem module_import_agrees goto fs roots self q :
  q_name q = None -> q_probe q = None ->
  self_coherent fs roots self ->
  Forall (fun s => valid_name s = true) (v_package self) ->
  Forall (fun s => valid_name s = true) (q_path q) ->
  level_ok self q ->
  jedi_query goto fs roots self q = py_query fs roots (importer_of self) q.
Proof.
  intros Hn Hp Hs Fb Fp Hl.
  destruct self as [f p names|]; try contradiction.
  set (self := VMod f p names) in *.
  destruct (abs_path_props self q Fb Fp Hl) as [Ane Av].
  unfold jedi_query, py_query. rewrite Hn, Hp.
  rewrite (resolve_abs self q f p names) by auto.
  replace (q_path q) with (q_path q ++ []) at 1 by apply app_nil_r.
  rewrite importer_abs; auto.
  2:{ destruct Hl as [[H0 _]|H]; auto. }
  rewrite app_nil_r.
  destruct (follow_coherent fs roots (script_cache self) (abs_path self q)
              (script_cache_coherent fs roots self Hs) Ane Av) as [c1 [E1 _]].
  rewrite E1. unfold P. destruct (py_import fs roots (join_dot (abs_path self q))); simpl; auto.
Qed.

(* ---- from-import *)
Lemma find_in_acc_nonempty fs x : forall ds acc, acc <> [] -> find_in fs ds x acc <> FNone.
Proof.
  induction ds as [|d ds IH]; intros acc Ha; simpl.
  - destruct acc; congruence.
  - destruct (find_one fs d x) as [f| |] eqn:E.
    + destruct (find_one_shape _ _ _ _ E); subst; congruence.
    + apply IH. destruct acc; simpl; congruence.
    + apply IH; auto.
Qed.

Lemma has_sub_found fs x : forall ps acc, has_sub fs ps x = true -> find_in fs ps x acc <> FNone.
Proof.
  induction ps as [|d ps IH]; intros acc H; simpl in H; try discriminate.
  apply orb_true_iff in H as [H|H].
  - simpl. unfold find_one. destruct (lookup fs d) as [[|ch]|]; try discriminate.
    destruct (match assoc x ch with Some (Dir ch2) => is_file (assoc s_init_py ch2) | _ => false end); try congruence.
    destruct (is_file (assoc (x ++ s_py) ch)); try congruence.
    rewrite orb_false_r in H. rewrite H. apply find_in_acc_nonempty. destruct acc; simpl; congruence.
  - simpl. destruct (find_one fs d x) as [f| |] eqn:E.
    + destruct (find_one_shape _ _ _ _ E); subst; congruence.
    + apply find_in_acc_nonempty. destruct acc; simpl; congruence.
    + apply IH; auto.
Qed.

Lemma split_on_nodot s : mem c_dot s = false -> split_on c_dot s = [s].
Proof.
  induction s as [|a s IH]; cbn [mem split_on]; auto. intro H. apply orb_false_iff in H as [Ha Hs].
  rewrite N.eqb_sym in Ha. rewrite Ha. rewrite IH; auto.
Qed.

Lemma split_on_dot_app x s : mem c_dot x = false -> split_on c_dot (x ++ c_dot :: s) = x :: split_on c_dot s.
Proof.
  induction x as [|a x IH]; intro H.
  - simpl. auto.
  - cbn [mem] in H. apply orb_false_iff in H as [Ha Hx]. rewrite N.eqb_sym in Ha.
    cbn [app split_on]. rewrite Ha. rewrite IH by auto. auto.
Qed.

Lemma split_on_join xs :
  xs <> [] -> Forall (fun s => valid_name s = true) xs -> split_on c_dot (join_dot xs) = xs.
Proof.
  induction xs as [|x xs IH]; intros Hn F; try congruence. inversion F; subst.
  destruct xs as [|y xs].
  - simpl. apply split_on_nodot. apply valid_nodot; auto.
  - change (join_dot (x :: y :: xs)) with (x ++ c_dot :: join_dot (y :: xs)).
    rewrite split_on_dot_app by (apply valid_nodot; auto). rewrite IH; auto. congruence.
Qed.

Lemma P_snoc fs roots xs x v :
  xs <> [] -> valid_name x = true -> P fs roots xs = Some v ->
  P fs roots (xs ++ [x]) =
  match v_path v with
  | Some ps => conv (xs ++ [x]) (find_in fs ps x [])
  | None => None
  end.
Proof.
  intros Hx V Hp. unfold P in *. rewrite py_import_snoc by auto.
  rewrite (v_path_conv _ _ _ Hp). destruct (search_path (py_import fs roots (join_dot xs))); auto.
Qed.

Theorem from_import_agrees goto fs roots self q x :
  q_name q = Some x -> q_probe q = None ->
  self_coherent fs roots self ->
  Forall (fun s => valid_name s = true) (v_package self) ->
  Forall (fun s => valid_name s = true) (q_path q) ->
  valid_name x = true ->
  level_ok self q ->
  py_already_imported (importer_of self) (abs_path self q ++ [x]) = false ->
  found_file (py_import fs roots (join_dot (abs_path self q))) <> v_file self ->
  v_file self <> [] ->
  jedi_query goto fs roots self q = py_query fs roots (importer_of self) q.
Proof.
  intros Hn Hp Hs Fb Fp Vx Hl Hanc Hnotself Hfile.
  destruct self as [f p names|]; try contradiction.
  set (self := VMod f p names) in *.
  destruct (abs_path_props self q Fb Fp Hl) as [Ane Av].
  assert (Hc := script_cache_coherent fs roots self Hs).
  assert (Hlev : q_level q = 0 \/ 1 <= q_level q <= length (v_package self)).
  { destruct Hl as [[H0 _]|H]; auto. }
  unfold jedi_query, py_query. rewrite Hn, Hp.
  rewrite (resolve_abs self q f p names) by auto.
  rewrite split_on_join by auto. rewrite Hanc.
  replace (q_path q) with (q_path q ++ []) at 1 by apply app_nil_r.
  rewrite !importer_abs by auto. rewrite app_nil_r.
  set (A := abs_path self q) in *.
  assert (Av' : Forall (fun s => valid_name s = true) (A ++ [x])).
  { apply Forall_app; split; auto. }
  assert (Ane' : A ++ [x] <> []) by (destruct A; simpl; congruence).
  destruct (follow_coherent fs roots (script_cache self) A Hc Ane Av) as [c1 [E1 Hc1]].
  rewrite E1. rewrite <- join_dot_snoc by auto.
  (* whatever cache the fallback / sub-module import starts from, it yields P (A ++ [x]) *)
  assert (Hfb : forall c, coherent fs roots c ->
            fst (follow fs c roots {| i_path := A ++ [x]; i_fixed := None; i_possible := true |})
            = P fs roots (A ++ [x])).
  { intros c Hcc. destruct (follow_coherent fs roots c (A ++ [x]) Hcc Ane' Av') as [c' [E _]].
    rewrite E. auto. }
  assert (Hres : res_of_opt (P fs roots (A ++ [x])) = res_of_found (py_import fs roots (join_dot (A ++ [x])))).
  { unfold P. apply res_of_conv. }
  assert (Hsubf : forall v, v_package v = A -> forall c, sub_follow fs c roots v x =
            follow fs c roots {| i_path := A ++ [x]; i_fixed := None; i_possible := true |}).
  { intros v Hv c. unfold sub_follow. rewrite mk_importer_valid_level.
    2:{ rewrite Hv. destruct A; simpl; try congruence. lia. }
    rewrite Hv. replace (length A - (1 - 1)) with (length A) by lia. rewrite firstn_all. auto. }
  unfold P at 1. destruct (py_import fs roots (join_dot A)) as [file|d|ds|] eqn:Ef; cbn [conv]; auto.
  - (* a plain module: attribute or nothing *)
    cbn [found_file] in Hnotself. change (v_file self) with f in *. cbn [v_file].
    replace (strs_eqb file f) with false.
    2:{ symmetry. apply not_true_iff_false. intro E. apply strs_eqb_eq in E. auto. }
    cbn [andb].
    unfold getattr. cbn [v_path found_attrs found_file search_path].
    destruct (assoc x (file_attrs fs file)); auto.
        rewrite Hfb by auto.
    assert (HP : P fs roots A = Some (VMod file false A)) by (unfold P; rewrite Ef; auto).
    rewrite (P_snoc fs roots A x _ Ane Vx HP). cbn [v_path]. auto.
  - (* a regular package *)
    assert (HP : P fs roots A = Some (VMod (d ++ [s_init_py]) true A)) by (unfold P; rewrite Ef; auto).
    cbn [found_file] in Hnotself. change (v_file self) with f in *. cbn [v_file].
    replace (strs_eqb (d ++ [s_init_py]) f) with false.
    2:{ symmetry. apply not_true_iff_false. intro E. apply strs_eqb_eq in E. auto. }
    cbn [andb].
    unfold getattr. cbn [v_path found_attrs found_file search_path].
    destruct (assoc x (file_attrs fs (d ++ [s_init_py]))); auto.
    rewrite (Hsubf (VMod (d ++ [s_init_py]) true A) eq_refl).
    destruct (has_sub fs [dirname (d ++ [s_init_py])] x) eqn:Hsub.
    + pose proof (P_snoc fs roots A x _ Ane Vx HP) as Hx. cbn [v_path] in Hx.
      pose proof (has_sub_found fs x _ [] Hsub) as Hf.
      assert (Hsome : exists v', P fs roots (A ++ [x]) = Some v').
      { rewrite Hx. destruct (find_in fs [dirname (d ++ [s_init_py])] x []); try congruence; cbn [conv]; eauto. }
      destruct Hsome as [v' Hv].
      destruct (follow_coherent fs roots c1 (A ++ [x]) Hc1 Ane' Av') as [c2 [E2 _]].
      rewrite E2, Hv. rewrite <- Hres, Hv. auto.
    + rewrite Hfb by auto. auto.
  - (* a namespace package *)
    assert (HP : P fs roots A = Some (VNs A ds)) by (unfold P; rewrite Ef; auto).
    change (v_file self) with f in *. cbn [v_file]. replace (strs_eqb [] f) with false.
    2:{ symmetry. apply not_true_iff_false. intro E. apply strs_eqb_eq in E. auto. }
    cbn [andb].
    unfold getattr. cbn [v_path found_attrs found_file search_path assoc].
    rewrite (Hsubf (VNs A ds) eq_refl).
    destruct (has_sub fs ds x) eqn:Hsub.
    + pose proof (P_snoc fs roots A x _ Ane Vx HP) as Hx. cbn [v_path] in Hx.
      pose proof (has_sub_found fs x _ [] Hsub) as Hf.
      assert (Hsome : exists v', P fs roots (A ++ [x]) = Some v').
      { rewrite Hx. destruct (find_in fs ds x []); try congruence; cbn [conv]; eauto. }
      destruct Hsome as [v' Hv].
      destruct (follow_coherent fs roots c1 (A ++ [x]) Hc1 Ane' Av') as [c2 [E2 _]].
      rewrite E2, Hv. rewrite <- Hres, Hv. auto.
    + rewrite Hfb by auto. auto.
Qed.

(* ====================================================================== part 7 *)

Theorem star_import_agrees goto fs roots self q x :
  q_probe q = Some x ->
  self_coherent fs roots self ->
  Forall (fun s => valid_name s = true) (v_package self) ->
  Forall (fun s => valid_name s = true) (q_path q) ->
  level_ok self q ->
  (forall ds, py_import fs roots (join_dot (abs_path self q)) <> FNs ds) ->
  py_already_imported (importer_of self) (abs_path self q ++ [x]) = false ->
  jedi_query goto fs roots self q = py_query fs roots (importer_of self) q.
Proof.
  intros Hp Hs Fb Fp Hl Hns Hanc.
  destruct self as [f p names|]; try contradiction.
  set (self := VMod f p names) in *.
  destruct (abs_path_props self q Fb Fp Hl) as [Ane Av].
  assert (Hc := script_cache_coherent fs roots self Hs).
  assert (Hlev : q_level q = 0 \/ 1 <= q_level q <= length (v_package self)).
  { destruct Hl as [[H0 _]|H]; auto. }
  unfold jedi_query, py_query. rewrite Hp.
  rewrite (resolve_abs self q f p names) by auto.
  rewrite split_on_join by auto. rewrite Hanc.
  replace (q_path q) with (q_path q ++ []) at 1 by apply app_nil_r.
  rewrite importer_abs by auto. rewrite app_nil_r.
  destruct (follow_coherent fs roots (script_cache self) (abs_path self q) Hc Ane Av) as [c1 [E1 _]].
  rewrite E1.
  unfold P. destruct (py_import fs roots (join_dot (abs_path self q))) as [file|d|ds|] eqn:Ef;
    cbn [conv found_attrs found_file]; auto.
  exfalso. apply (Hns ds). auto.
Qed.

(* ----------------------------------------------- witnesses for the excluded shapes *)
Definition n_ (c : N) : str := [c].
Definition w_r : str := [114]%N.       Definition w_r1 : str := [114;49]%N.   Definition w_r2 : str := [114;50]%N.
Definition w_a : str := [97]%N.        Definition w_b : str := [98]%N.        Definition w_m : str := [109]%N.
Definition w_p : str := [112]%N.       Definition w_x : str := [120]%N.       Definition w_s : str := [115]%N.
Definition py_ (s : str) : str := s ++ s_py.

(* `from ns import *` with ns a namespace package *)
Definition fs_star : node :=
  Dir [(w_r, Dir [(w_a, Dir [(py_ w_b, File [])]); (py_ w_s, File [])])].

Theorem star_namespace_refuted :
  exists fs roots file q,
    let self := script_module roots file in
    self_coherent fs roots self /\ level_ok self q /\
    jedi_query false fs roots self q <> py_query fs roots (importer_of self) q.
Proof.
  exists fs_star, [[w_r]], [w_r; py_ w_s],
         {| q_level := 0; q_path := [w_a]; q_name := None; q_probe := Some w_b; q_alias := false |}.
  split; [vm_compute; reflexivity|]. split; [left; split; [reflexivity|discriminate]|].
  vm_compute. discriminate.
Qed.

(* the analysed file is shadowed by an earlier sys.path entry *)
Definition fs_shadow : node :=
  Dir [(w_r1, Dir [(py_ w_a, File [])]); (w_r2, Dir [(py_ w_a, File [])])].

Theorem shadowed_self_refuted :
  exists fs roots file q,
    let self := script_module roots file in
    ~ self_coherent fs roots self /\
    jedi_query false fs roots self q = RFile file /\
    py_query fs roots None q = RFile [w_r1; py_ w_a] /\
    py_query fs roots (importer_of self) q = RFile [w_r1; py_ w_a].
Proof.
  exists fs_shadow, [[w_r1]; [w_r2]], [w_r2; py_ w_a],
         {| q_level := 0; q_path := [w_a]; q_name := None; q_probe := None; q_alias := false |}.
  split; [vm_compute; discriminate|]. repeat split; vm_compute; reflexivity.
Qed.

(* pkg/__init__.py binds x, pkg/x is an already imported ancestor of the importing module *)
Definition fs_anc : node :=
  Dir [(w_r, Dir [(w_p, Dir [(s_init_py, File [(w_x, true)]);
                             (w_x, Dir [(s_init_py, File []); (py_ w_m, File [])])])])].

Theorem ancestor_attribute_refuted :
  exists fs roots file q x,
    let self := script_module roots file in
    self_coherent fs roots self /\ level_ok self q /\ q_name q = Some x /\
    py_already_imported (importer_of self) (abs_path self q ++ [x]) = true /\
    jedi_query false fs roots self q <> py_query fs roots (importer_of self) q.
Proof.
  exists fs_anc, [[w_r]], [w_r; w_p; w_x; py_ w_m],
         {| q_level := 0; q_path := [w_p]; q_name := Some w_x; q_probe := None; q_alias := false |}, w_x.
  split; [vm_compute; reflexivity|]. split; [left; split; [reflexivity|discriminate]|].
  split; [reflexivity|]. split; [vm_compute; reflexivity|]. vm_compute. discriminate.
Qed.

(* non-vacuity of dotted_roundtrip and the agreement theorems *)
Example roundtrip_example :
  transform_path_to_dotted (map path_str [[w_r]]) [w_r; w_p; w_x; py_ w_m] = (Some [w_p; w_x; w_m], false) /\
  unshadowed fs_anc [[w_r]] [w_r] [w_p; w_x; w_m] false = true /\
  py_import fs_anc [[w_r]] (join_dot [w_p; w_x; w_m]) = FMod [w_r; w_p; w_x; py_ w_m].
Proof. repeat split; vm_compute; reflexivity. Qed.

Example relative_example :
  let self := script_module [[w_r]] [w_r; w_p; w_x; py_ w_m] in
  let q := {| q_level := 2; q_path := []; q_name := Some w_x; q_probe := None; q_alias := false |} in
  jedi_query true fs_anc [[w_r]] self q = RAttr [w_r; w_p; s_init_py] w_x true /\
  py_query fs_anc [[w_r]] (importer_of self) {| q_level := 1; q_path := []; q_name := Some w_m; q_probe := None; q_alias := false |}
  = RFile [w_r; w_p; w_x; py_ w_m].
Proof. split; vm_compute; reflexivity. Qed.
