From Coq Require Import List NArith Bool Arith Lia.
From JV Require Import Base.Str Proofs.Str_Proofs Model.C07_Refactor.
Import ListNotations.


(* ============================================================ 1. refactorer *)

Lemma tree_ind' : forall (P : tree -> Prop),
  (forall p v, P (Leaf p v)) ->
  (forall cs, Forall P cs -> P (Node cs)) ->
  forall t, P t.
Proof.
  intros P HL HN. fix IH 1. intros [p v|cs].
  - apply HL.
  - apply HN. induction cs as [|c r IHr]; constructor.
    + apply IH.
    + exact IHr.
Qed.

(* unfolding lemmas: the inline fixes are the top-level list functions *)

Lemma get_code_node : forall cs, get_code (Node cs) = get_code_list cs.
Proof.
  induction cs as [|c r IH]; [reflexivity|].
  cbn [get_code_list]. rewrite <- IH. reflexivity.
Qed.

Lemma refactor_go : forall m cs i,
  (fix go (cs : list tree) (i : nat) {struct cs} : str :=
     match cs with
     | [] => []
     | c :: r => refactor c (sub i m) ++ go r (S i)
     end) cs i = refactor_list cs i m.
Proof.
  intros m. induction cs as [|c r IH]; intros i; [reflexivity|].
  cbn [refactor_list]. rewrite <- IH. reflexivity.
Qed.

Lemma refactor_node : forall cs m,
  refactor (Node cs) m =
  match root_of m with Some s => s | None => refactor_list cs 0 m end.
Proof. intros cs m. rewrite <- refactor_go. reflexivity. Qed.

Lemma refactor_leaf : forall p v m,
  refactor (Leaf p v) m = match root_of m with Some s => s | None => p ++ v end.
Proof. reflexivity. Qed.

Lemma pieces_go : forall m here cs i,
  (fix go (cs : list tree) (i : nat) {struct cs} : list piece :=
     match cs with
     | [] => []
     | c :: r => pieces c (sub i m) (i :: here) ++ go r (S i)
     end) cs i = pieces_list cs i m here.
Proof.
  intros m here. induction cs as [|c r IH]; intros i; [reflexivity|].
  cbn [pieces_list]. rewrite <- IH. reflexivity.
Qed.

Lemma pieces_node : forall cs m here,
  pieces (Node cs) m here =
  match root_of m with
  | Some s => [Repl (rev here) (get_code (Node cs)) s]
  | None => pieces_list cs 0 m here
  end.
Proof. intros cs m here. rewrite <- pieces_go. reflexivity. Qed.

Lemma pieces_leaf : forall p v m here,
  pieces (Leaf p v) m here =
  match root_of m with
  | Some s => [Repl (rev here) (p ++ v) s]
  | None => [Keep (p ++ v)]
  end.
Proof. reflexivity. Qed.

(* ---- refactor_empty *)

Lemma sub_nil : forall i, sub i [] = [].
Proof. reflexivity. Qed.

Lemma refactor_empty : forall t, refactor t [] = get_code t.
Proof.
  induction t as [p v|cs IH] using tree_ind'.
  - reflexivity.
  - rewrite refactor_node, get_code_node. cbn [root_of].
    generalize 0 as i. induction IH as [|c r Hc Hr IHr]; intros i; [reflexivity|].
    cbn [refactor_list get_code_list]. rewrite sub_nil, Hc, IHr. reflexivity.
Qed.

(* ---- facts about the maps *)

Lemma kpath_eqb_eq : forall a b, kpath_eqb a b = true <-> a = b.
Proof.
  induction a as [|x a IH]; intros [|y b]; cbn [kpath_eqb]; split; intro H;
    try congruence; auto.
  - apply andb_true_iff in H. destruct H as [H1 H2].
    apply Nat.eqb_eq in H1. apply IH in H2. congruence.
  - inversion H; subst. rewrite Nat.eqb_refl. cbn [andb]. apply IH. reflexivity.
Qed.

Lemma kpath_eqb_refl : forall a, kpath_eqb a a = true.
Proof. intros a. apply kpath_eqb_eq. reflexivity. Qed.

Lemma in_sub : forall i m k s, In (k, s) (sub i m) <-> In (i :: k, s) m.
Proof.
  intros i m k s. induction m as [|[[|j p] s'] r IH]; cbn [sub].
  - split; intros [].
  - rewrite IH. split; intro H.
    + right. exact H.
    + destruct H as [H|H]; [discriminate|exact H].
  - destruct (Nat.eqb i j) eqn:E.
    + apply Nat.eqb_eq in E. subst j. cbn [In]. rewrite IH. split; intros [H|H].
      * left. inversion H; subst. reflexivity.
      * right. exact H.
      * left. inversion H; subst. reflexivity.
      * right. exact H.
    + apply Nat.eqb_neq in E. rewrite IH. split; intro H.
      * right. exact H.
      * destruct H as [H|H]; [|exact H]. inversion H; subst. contradiction.
Qed.

Lemma lookup_sub : forall i m k, lookup (sub i m) k = lookup m (i :: k).
Proof.
  intros i m k. induction m as [|[[|j p] s'] r IH]; cbn [sub lookup kpath_eqb].
  - reflexivity.
  - exact IH.
  - rewrite (Nat.eqb_sym j i). destruct (Nat.eqb i j) eqn:E; cbn [andb].
    + cbn [lookup]. rewrite IH. reflexivity.
    + exact IH.
Qed.

Lemma root_of_lookup : forall m, root_of m = lookup m [].
Proof.
  induction m as [|[[|j p] s] r IH]; cbn [root_of lookup kpath_eqb]; auto.
Qed.

Lemma lookup_in : forall m k s, lookup m k = Some s -> In (k, s) m.
Proof.
  induction m as [|[k' s'] r IH]; intros k s H; cbn [lookup] in H; [discriminate|].
  destruct (kpath_eqb k' k) eqn:E.
  - apply kpath_eqb_eq in E. inversion H; subst. left. reflexivity.
  - right. apply IH. exact H.
Qed.

Lemma in_lookup : forall m k s, NoDup (map fst m) -> In (k, s) m -> lookup m k = Some s.
Proof.
  induction m as [|[k' s'] r IH]; intros k s ND Hin; [destruct Hin|].
  cbn [map fst] in ND. inversion ND as [|x l Hnin ND']; subst.
  cbn [lookup]. destruct Hin as [E|Hin].
  - inversion E; subst. rewrite kpath_eqb_refl. reflexivity.
  - destruct (kpath_eqb k' k) eqn:E.
    + apply kpath_eqb_eq in E. subst k'. exfalso. apply Hnin.
      apply in_map_iff. exists (k, s). split; [reflexivity|exact Hin].
    + apply IH; assumption.
Qed.

Lemma root_none_nonempty : forall m k s, root_of m = None -> In (k, s) m -> k <> [].
Proof.
  induction m as [|[[|j p] s'] r IH]; intros k s H Hin; cbn [root_of] in H.
  - destruct Hin.
  - discriminate.
  - destruct Hin as [E|Hin].
    + inversion E; subst. discriminate.
    + eapply IH; eassumption.
Qed.

Lemma nodup_sub : forall i m, NoDup (map fst m) -> NoDup (map fst (sub i m)).
Proof.
  intros i. induction m as [|[[|j p] s'] r IH]; intros ND; cbn [sub].
  - constructor.
  - cbn [map fst] in ND. inversion ND; subst. apply IH. assumption.
  - cbn [map fst] in ND. inversion ND as [|x l Hnin ND']; subst.
    destruct (Nat.eqb i j) eqn:E; [|apply IH; assumption].
    apply Nat.eqb_eq in E. subst j. cbn [map fst]. constructor; [|apply IH; assumption].
    intros Hin. apply Hnin. apply in_map_iff in Hin. destruct Hin as [[k s] [Ek Hin]].
    cbn [fst] in Ek. subst k. apply in_sub in Hin.
    apply in_map_iff. exists (i :: p, s). split; [reflexivity|exact Hin].
Qed.

Definition antichain (m : nmap) : Prop :=
  forall k1 s1 k2 s2, In (k1, s1) m -> In (k2, s2) m -> proper_prefix k1 k2 = false.
Definition keys_valid (t : tree) (m : nmap) : Prop :=
  forall k s, In (k, s) m -> subtree t k <> None.

Lemma antichain_sub : forall i m, antichain m -> antichain (sub i m).
Proof.
  intros i m H k1 s1 k2 s2 H1 H2. apply in_sub in H1. apply in_sub in H2.
  pose proof (H _ _ _ _ H1 H2) as E. cbn [proper_prefix] in E.
  rewrite Nat.eqb_refl in E. exact E.
Qed.

Lemma keys_valid_sub : forall cs i c m, keys_valid (Node cs) m -> nth_error cs i = Some c ->
  keys_valid c (sub i m).
Proof.
  intros cs i c m H Hn k s Hin. apply in_sub in Hin. apply H in Hin.
  cbn [subtree] in Hin. rewrite Hn in Hin. exact Hin.
Qed.

Lemma root_some_all : forall m s0 k s, antichain m -> NoDup (map fst m) ->
  root_of m = Some s0 -> In (k, s) m -> k = [] /\ s = s0.
Proof.
  intros m s0 k s HA ND HR Hin.
  rewrite root_of_lookup in HR. pose proof (lookup_in _ _ _ HR) as H0.
  pose proof (HA _ _ _ _ H0 Hin) as E.
  destruct k as [|j k]; [|cbn [proper_prefix] in E; discriminate].
  split; [reflexivity|].
  apply (in_lookup _ _ _ ND) in Hin. congruence.
Qed.

(* ---- pieces: orig / new *)

Lemma orig_of_app : forall a b, orig_of (a ++ b) = orig_of a ++ orig_of b.
Proof. intros a b. unfold orig_of. rewrite map_app, concat_app. reflexivity. Qed.

Lemma new_of_app : forall a b, new_of (a ++ b) = new_of a ++ new_of b.
Proof. intros a b. unfold new_of. rewrite map_app, concat_app. reflexivity. Qed.

Lemma pieces_orig : forall t m here, orig_of (pieces t m here) = get_code t.
Proof.
  induction t as [p v|cs IH] using tree_ind'; intros m here.
  - rewrite pieces_leaf. destruct (root_of m); cbn; apply app_nil_r.
  - rewrite pieces_node. destruct (root_of m) as [s|].
    + cbv [orig_of]. cbn [map orig_of_piece concat]. apply app_nil_r.
    + rewrite get_code_node. generalize 0 as i.
      induction IH as [|c r Hc Hr IHr]; intros i; [reflexivity|].
      cbn [pieces_list get_code_list]. rewrite orig_of_app, Hc, IHr. reflexivity.
Qed.

Lemma pieces_new : forall t m here, new_of (pieces t m here) = refactor t m.
Proof.
  induction t as [p v|cs IH] using tree_ind'; intros m here.
  - rewrite pieces_leaf, refactor_leaf. destruct (root_of m); cbn; apply app_nil_r.
  - rewrite pieces_node, refactor_node. destruct (root_of m) as [s|].
    + cbv [new_of]. cbn [map new_of_piece concat]. apply app_nil_r.
    + generalize 0 as i.
      induction IH as [|c r Hc Hr IHr]; intros i; [reflexivity|].
      cbn [pieces_list refactor_list]. rewrite new_of_app, Hc, IHr. reflexivity.
Qed.

(* ---- pieces: every replacement is a mapped, outermost node *)

Definition repl_ok (t : tree) : Prop :=
  forall m here kk o n, In (Repl kk o n) (pieces t m here) ->
  exists k t', kk = rev here ++ k /\ subtree t k = Some t' /\ get_code t' = o /\
               lookup m k = Some n /\
               (forall k' s', In (k', s') m -> proper_prefix k' k = false).

Lemma proper_prefix_nil_r : forall k, proper_prefix k [] = false.
Proof. intros [|x k]; reflexivity. Qed.

Lemma repl_ok_root : forall t m here s kk o n, root_of m = Some s ->
  In (Repl kk o n) [Repl (rev here) (get_code t) s] ->
  exists k t', kk = rev here ++ k /\ subtree t k = Some t' /\ get_code t' = o /\
               lookup m k = Some n /\
               (forall k' s', In (k', s') m -> proper_prefix k' k = false).
Proof.
  intros t m here s kk o n HR Hin. destruct Hin as [E|[]]. inversion E; subst.
  exists [], t. split; [symmetry; apply app_nil_r|]. split; [reflexivity|].
  split; [reflexivity|]. split; [rewrite <- root_of_lookup; exact HR|].
  intros k' s' _. apply proper_prefix_nil_r.
Qed.

Lemma repl_ok_list : forall cs, Forall repl_ok cs ->
  forall i m here kk o n, In (Repl kk o n) (pieces_list cs i m here) ->
  exists j c k t', nth_error cs j = Some c /\ kk = rev here ++ (i + j) :: k /\
     subtree c k = Some t' /\ get_code t' = o /\
     lookup (sub (i + j) m) k = Some n /\
     (forall k' s', In (k', s') (sub (i + j) m) -> proper_prefix k' k = false).
Proof.
  intros cs H. induction H as [|c r Hc Hr IHr]; intros i m here kk o n Hin.
  - destruct Hin.
  - cbn [pieces_list] in Hin. apply in_app_or in Hin. destruct Hin as [Hin|Hin].
    + apply Hc in Hin. destruct Hin as [k [t' [E [H1 [H2 [H3 H4]]]]]].
      exists 0, c, k, t'. rewrite Nat.add_0_r. split; [reflexivity|].
      split; [|auto]. rewrite E. cbn [rev]. rewrite <- app_assoc. reflexivity.
    + apply IHr in Hin. destruct Hin as [j [c' [k [t' [E0 [E [H1 [H2 [H3 H4]]]]]]]]].
      exists (S j), c', k, t'. replace (i + S j) with (S i + j) by lia.
      split; [exact E0|]. auto.
Qed.

Lemma pieces_repl_ok : forall t, repl_ok t.
Proof.
  induction t as [p v|cs IH] using tree_ind'; intros m here kk o n Hin.
  - rewrite pieces_leaf in Hin. destruct (root_of m) as [s|] eqn:HR.
    + apply (repl_ok_root (Leaf p v) m here s); assumption.
    + destruct Hin as [E|[]]. discriminate.
  - rewrite pieces_node in Hin. destruct (root_of m) as [s|] eqn:HR.
    + apply (repl_ok_root (Node cs) m here s); assumption.
    + apply (repl_ok_list cs IH) in Hin.
      destruct Hin as [j [c [k [t' [E0 [E [H1 [H2 [H3 H4]]]]]]]]].
      cbn [Nat.add] in *.
      exists (j :: k), t'. split; [exact E|]. split.
      { cbn [subtree]. rewrite E0. exact H1. }
      split; [exact H2|]. split.
      { rewrite <- lookup_sub. exact H3. }
      intros k' s' Hk. destruct k' as [|j' k''].
      { exfalso. exact (root_none_nonempty _ _ _ HR Hk eq_refl). }
      cbn [proper_prefix]. destruct (Nat.eqb j' j) eqn:Ej; [|reflexivity].
      apply Nat.eqb_eq in Ej. subst j'. cbn [andb].
      apply (H4 k'' s'). apply in_sub. exact Hk.
Qed.

(* ---- pieces: every key of an antichain map is replaced *)

Lemma pieces_list_in : forall cs j c, nth_error cs j = Some c ->
  forall i m here x, In x (pieces c (sub (i + j) m) ((i + j) :: here)) ->
  In x (pieces_list cs i m here).
Proof.
  induction cs as [|c0 r IH]; intros j c Hn i m here x Hin.
  - destruct j; discriminate.
  - cbn [pieces_list]. apply in_or_app. destruct j as [|j].
    + cbn [nth_error] in Hn. inversion Hn; subst. rewrite Nat.add_0_r in Hin.
      left. exact Hin.
    + cbn [nth_error] in Hn. right. apply (IH j c Hn).
      replace (S i + j) with (i + S j) by lia. exact Hin.
Qed.

Definition all_repl (t : tree) : Prop :=
  forall m here, antichain m -> NoDup (map fst m) -> keys_valid t m ->
  forall k s, In (k, s) m -> exists o, In (Repl (rev here ++ k) o s) (pieces t m here).

Lemma all_repl_root : forall t m here s0, root_of m = Some s0 ->
  antichain m -> NoDup (map fst m) ->
  forall k s, In (k, s) m ->
  exists o, In (Repl (rev here ++ k) o s) [Repl (rev here) (get_code t) s0].
Proof.
  intros t m here s0 HR HA ND k s Hin.
  destruct (root_some_all m s0 k s HA ND HR Hin) as [-> ->].
  exists (get_code t). left. rewrite app_nil_r. reflexivity.
Qed.

Lemma pieces_all_repl : forall t, all_repl t.
Proof.
  induction t as [p v|cs IH] using tree_ind'; intros m here HA ND KV k s Hin.
  - rewrite pieces_leaf. destruct (root_of m) as [s0|] eqn:HR.
    + apply (all_repl_root (Leaf p v) m here s0); assumption.
    + exfalso. pose proof (KV _ _ Hin) as Hv.
      destruct k as [|i k]; [|apply Hv; reflexivity].
      exact (root_none_nonempty _ _ _ HR Hin eq_refl).
  - rewrite pieces_node. destruct (root_of m) as [s0|] eqn:HR.
    + apply (all_repl_root (Node cs) m here s0); assumption.
    + destruct k as [|i k].
      { exfalso. exact (root_none_nonempty _ _ _ HR Hin eq_refl). }
      pose proof (KV _ _ Hin) as Hv. cbn [subtree] in Hv.
      destruct (nth_error cs i) as [c|] eqn:Hn; [|congruence].
      assert (Hc : all_repl c).
      { rewrite Forall_forall in IH. apply IH. eapply nth_error_In. exact Hn. }
      destruct (Hc (sub i m) (i :: here) (antichain_sub i m HA) (nodup_sub i m ND)
                   (keys_valid_sub cs i c m KV Hn) k s) as [o Ho].
      { apply in_sub. exact Hin. }
      exists o. apply (pieces_list_in cs i c Hn 0 m here). cbn [Nat.add].
      cbn [rev] in Ho. rewrite <- app_assoc in Ho. exact Ho.
Qed.

Lemma refactor_outside_untouched : forall t m,
  orig_of (pieces t m []) = get_code t /\
  new_of (pieces t m []) = refactor t m /\
  (forall k o n, In (Repl k o n) (pieces t m []) ->
      (exists t', subtree t k = Some t' /\ get_code t' = o) /\
      lookup m k = Some n /\
      (forall k' s', In (k', s') m -> proper_prefix k' k = false)) /\
  (antichain m -> NoDup (map fst m) -> keys_valid t m ->
     forall k s, In (k, s) m -> exists o, In (Repl k o s) (pieces t m [])).
Proof.
  intros t m. split; [apply pieces_orig|]. split; [apply pieces_new|]. split.
  - intros k o n Hin. apply pieces_repl_ok in Hin.
    destruct Hin as [k0 [t' [E [H1 [H2 [H3 H4]]]]]]. cbn [rev app] in E. subst k0.
    split; [exists t'; auto|]. auto.
  - intros HA ND KV k s Hin.
    destruct (pieces_all_repl t m [] HA ND KV k s Hin) as [o Ho].
    exists o. exact Ho.
Qed.

(* ================================================================ 2. lines *)

Lemma split_aux_concat_n : forall n s, length s <= n ->
  forall cur, concat (split_aux cur s) = rev cur ++ s.
Proof.
  induction n as [|n IH]; intros s Hn cur.
  - destruct s as [|c r]; [|cbn [length] in Hn; lia].
    cbn. reflexivity.
  - destruct s as [|c r]; [cbn; reflexivity|].
    cbn [length] in Hn.
    cbn [split_aux]. destruct (N.eqb c 10) eqn:E10.
    + cbn [concat]. rewrite IH by lia. cbn [rev app]. rewrite <- app_assoc. reflexivity.
    + destruct (N.eqb c 13) eqn:E13.
      * destruct r as [|d r'].
        -- cbn [concat]. rewrite IH by lia. cbn [rev app]. rewrite <- app_assoc. reflexivity.
        -- cbn [length] in Hn. destruct (N.eqb d 10) eqn:Ed.
           ++ cbn [concat]. rewrite IH by lia. cbn [rev app].
              rewrite <- !app_assoc. reflexivity.
           ++ cbn [concat]. rewrite IH by (cbn [length]; lia). cbn [rev app].
              rewrite <- app_assoc. reflexivity.
      * rewrite IH by lia. cbn [rev]. rewrite <- app_assoc. reflexivity.
Qed.

Lemma split_lines_concat : forall s, concat (split_lines s) = s.
Proof.
  intros s. unfold split_lines.
  rewrite (split_aux_concat_n (length s) s (le_n _) []). reflexivity.
Qed.

Lemma split_aux_nonempty : forall s cur, split_aux cur s <> [].
Proof.
  induction s as [|c r IH]; intros cur; cbn [split_aux]; [discriminate|].
  destruct (N.eqb c 10); [discriminate|].
  destruct (N.eqb c 13).
  - destruct r as [|d r']; [discriminate|]. destruct (N.eqb d 10); discriminate.
  - apply IH.
Qed.

Lemma split_lines_nonempty : forall s, split_lines s <> [].
Proof. intros s. apply split_aux_nonempty. Qed.

Lemma fix_last_concat : forall ls,
  concat (fix_last ls) =
  match last ls [] with [] => concat ls | _ :: _ => concat ls ++ [10%N] end.
Proof.
  induction ls as [|l r IH]; [reflexivity|].
  destruct r as [|l2 r2].
  - cbn [fix_last last]. destruct l as [|x l]; cbn [concat]; rewrite ?app_nil_r; reflexivity.
  - change (fix_last (l :: l2 :: r2)) with (l :: fix_last (l2 :: r2)).
    change (last (l :: l2 :: r2) []) with (last (l2 :: r2) []).
    change (concat (l :: fix_last (l2 :: r2))) with (l ++ concat (fix_last (l2 :: r2))).
    change (concat (l :: l2 :: r2)) with (l ++ concat (l2 :: r2)).
    rewrite IH. destruct (last (l2 :: r2) []); [reflexivity|].
    rewrite app_assoc. reflexivity.
Qed.

Lemma preamble_concat : forall s,
  concat (preamble s) = match last (split_lines s) [] with [] => s | _ :: _ => s ++ [10%N] end.
Proof.
  intros s. unfold preamble. rewrite fix_last_concat. rewrite split_lines_concat. reflexivity.
Qed.

(* ================================================= 3. unified diff applier *)

Lemma run_body_rejects : forall l o b old, str_eqb l o = false ->
  run_body (HCtx l :: b) (o :: old) = None /\ run_body (HDel l :: b) (o :: old) = None.
Proof. intros l o b old H. cbn [run_body]. rewrite H. split; reflexivity. Qed.

Lemma HunkRel_len : forall b o n, HunkRel b o n ->
  length o = count_old b /\ length n = count_new b.
Proof.
  induction 1 as [|l b o n H [IH1 IH2]|l b o n H [IH1 IH2]|l b o n H [IH1 IH2]];
    cbn [length count_old count_new]; split; lia.
Qed.

Lemma run_body_sound : forall b old nseg rest, run_body b old = Some (nseg, rest) ->
  exists oseg, old = oseg ++ rest /\ HunkRel b oseg nseg /\
               length oseg = count_old b /\ length nseg = count_new b.
Proof.
  assert (G : forall b old nseg rest, run_body b old = Some (nseg, rest) ->
              exists oseg, old = oseg ++ rest /\ HunkRel b oseg nseg).
  { induction b as [|hl b IH]; intros old nseg rest H.
    - cbn [run_body] in H. inversion H; subst. exists []. split; [reflexivity|constructor].
    - destruct hl as [l|l|l]; cbn [run_body] in H.
      + destruct old as [|o old']; [discriminate|].
        destruct (str_eqb l o) eqn:E; [|discriminate].
        destruct (run_body b old') as [[n r]|] eqn:R; [|discriminate].
        inversion H; subst. apply str_eqb_eq in E. subst o.
        destruct (IH _ _ _ R) as [oseg [-> HR]].
        exists (l :: oseg). split; [reflexivity|constructor; assumption].
      + destruct old as [|o old']; [discriminate|].
        destruct (str_eqb l o) eqn:E; [|discriminate].
        apply str_eqb_eq in E. subst o.
        destruct (IH _ _ _ H) as [oseg [-> HR]].
        exists (l :: oseg). split; [reflexivity|constructor; assumption].
      + destruct (run_body b old) as [[n r]|] eqn:R; [|discriminate].
        inversion H; subst.
        destruct (IH _ _ _ R) as [oseg [-> HR]].
        exists oseg. split; [reflexivity|constructor; assumption]. }
  intros b old nseg rest H. destruct (G _ _ _ _ H) as [oseg [E HR]].
  exists oseg. destruct (HunkRel_len _ _ _ HR) as [L1 L2]. auto.
Qed.

Lemma run_body_complete : forall b oseg nseg rest, HunkRel b oseg nseg ->
  run_body b (oseg ++ rest) = Some (nseg, rest).
Proof.
  intros b oseg nseg rest H. induction H as [|l b o n H IH|l b o n H IH|l b o n H IH].
  - reflexivity.
  - cbn [run_body app]. rewrite str_eqb_refl. rewrite IH. reflexivity.
  - cbn [run_body app]. rewrite str_eqb_refl. exact IH.
  - cbn [run_body]. rewrite IH. reflexivity.
Qed.

Lemma skipn_len_app : forall (A : Type) (a b : list A), skipn (length a) (a ++ b) = b.
Proof. induction a as [|x a IH]; intros b; [reflexivity|]. cbn. apply IH. Qed.

Lemma firstn_len_app : forall (A : Type) (a b : list A), firstn (length a) (a ++ b) = a.
Proof. induction a as [|x a IH]; intros b; [reflexivity|]. cbn. f_equal. apply IH. Qed.

Lemma hunk_wf_spec : forall h, hunk_wf h = true <->
  (count_old (h_body h) = h_ol h /\ count_new (h_body h) = h_nl h /\
   (h_ol h = 0 \/ 1 <= h_os h) /\ (h_nl h = 0 \/ 1 <= h_ns h)).
Proof.
  intros h. unfold hunk_wf.
  rewrite !andb_true_iff, !orb_true_iff, !Nat.eqb_eq, !Nat.leb_le. tauto.
Qed.

Lemma apply_from_sound : forall hs opos npos old new,
  apply_from opos npos hs old = Some new -> Transforms opos npos hs old new.
Proof.
  induction hs as [|h hs IH]; intros opos npos old new H.
  - cbn [apply_from] in H. inversion H; subst. constructor.
  - cbn [apply_from] in H.
    destruct (hunk_wf h) eqn:W; [|discriminate].
    apply hunk_wf_spec in W. destruct W as [W1 [W2 [W3 W4]]].
    remember (start0 (h_os h) (h_ol h)) as s0 eqn:Es0.
    remember (s0 - opos) as k eqn:Ek.
    destruct (Nat.ltb s0 opos) eqn:L1; [discriminate|].
    destruct (Nat.ltb (length old) k) eqn:L2; [discriminate|].
    destruct (Nat.eqb (start0 (h_ns h) (h_nl h)) (npos + k)) eqn:E3; cbn [negb] in H; [|discriminate].
    destruct (run_body (h_body h) (skipn k old)) as [[nseg rest]|] eqn:R; [|discriminate].
    destruct (apply_from (s0 + h_ol h) (npos + k + h_nl h) hs rest) as [out|] eqn:A; [|discriminate].
    inversion H; subst new; clear H.
    apply Nat.ltb_ge in L1. apply Nat.ltb_ge in L2. apply Nat.eqb_eq in E3.
    apply run_body_sound in R. destruct R as [oseg [Hsk [HR [Lo Ln]]]].
    apply IH in A.
    assert (Hold : old = firstn k old ++ oseg ++ rest).
    { rewrite <- Hsk. symmetry. apply firstn_skipn. }
    assert (Hlen : length (firstn k old) = k) by (apply firstn_length_le; lia).
    revert Hold Hlen. generalize (firstn k old) as pre. intros pre Hold Hlen.
    clear Hsk L2. subst old.
    apply T_hunk; try assumption; try lia.
    replace (opos + length pre + length oseg) with (s0 + h_ol h) by lia.
    replace (npos + length pre + length nseg) with (npos + k + h_nl h) by lia.
    exact A.
Qed.

Lemma apply_from_complete : forall opos npos hs old new,
  Transforms opos npos hs old new -> apply_from opos npos hs old = Some new.
Proof.
  intros opos npos hs old new H.
  induction H as [|opos npos h hs pre oseg nseg orest nrest Ho Hn Hop Hnp HR Lo Ln HT IH].
  - reflexivity.
  - destruct (HunkRel_len _ _ _ HR) as [Co Cn].
    assert (W : hunk_wf h = true).
    { apply hunk_wf_spec. repeat split; try assumption; congruence. }
    cbn [apply_from]. rewrite W.
    rewrite <- Hop, <- Hnp.
    replace (Nat.ltb (opos + length pre) opos) with false
      by (symmetry; apply Nat.ltb_ge; lia).
    replace (opos + length pre - opos) with (length pre) by lia.
    replace (Nat.ltb (length (pre ++ oseg ++ orest)) (length pre)) with false
      by (symmetry; apply Nat.ltb_ge; rewrite app_length; lia).
    rewrite Nat.eqb_refl. cbn [negb].
    rewrite skipn_len_app, firstn_len_app.
    rewrite (run_body_complete _ _ _ orest HR).
    rewrite <- Lo, <- Ln. rewrite IH. reflexivity.
Qed.

Lemma apply_udiff_sound : forall old hs new,
  apply_udiff old hs = Some new -> Transforms 0 0 hs old new.
Proof. intros old hs new H. apply apply_from_sound. exact H. Qed.

Lemma apply_udiff_complete : forall old hs new,
  Transforms 0 0 hs old new -> apply_udiff old hs = Some new.
Proof. intros old hs new H. apply apply_from_complete. exact H. Qed.

Lemma transforms_functional : forall hs old n1 n2,
  Transforms 0 0 hs old n1 -> Transforms 0 0 hs old n2 -> n1 = n2.
Proof.
  intros hs old n1 n2 H1 H2.
  apply apply_udiff_complete in H1. apply apply_udiff_complete in H2. congruence.
Qed.

Lemma lines_eqb_eq : forall a b, lines_eqb a b = true -> a = b.
Proof.
  induction a as [|x a IH]; intros [|y b] H; cbn [lines_eqb] in H; try discriminate; [reflexivity|].
  apply andb_true_iff in H. destruct H as [H1 H2].
  apply str_eqb_eq in H1. apply IH in H2. congruence.
Qed.

Lemma diff_ok_sound : forall old_code new_code hs, diff_ok old_code new_code hs = true ->
  Transforms 0 0 hs (preamble old_code) (preamble new_code).
Proof.
  intros old_code new_code hs H. unfold diff_ok in H.
  destruct (apply_udiff (preamble old_code) hs) as [out|] eqn:A; [|discriminate].
  apply lines_eqb_eq in H. subst out. apply apply_udiff_sound. exact A.
Qed.

(* ========================================================= 4. path algebra *)

(* the string-prefix rule used before fix 7b0370f *)
Lemma calc_to_path_str_no_prefix : forall p rs,
  (forall f t, In (f, t) rs -> starts_with p f = false) -> calc_to_path_str p rs = p.
Proof.
  intros p rs. induction rs as [|[f t] r IH]; intros H; [reflexivity|].
  cbn [calc_to_path_str]. rewrite (H f t (or_introl eq_refl)).
  apply IH. intros f' t' Hin. apply (H f' t'). right. exact Hin.
Qed.

Lemma calc_to_path_str_single : forall p f t,
  calc_to_path_str p [(f, t)] <> p <-> (starts_with p f = true /\ f <> t).
Proof.
  intros p f t. cbn [calc_to_path_str]. destruct (starts_with p f) eqn:S.
  - apply starts_with_prefix in S. destruct S as [r Hr]. subst p.
    rewrite skipn_len_app. split.
    + intros H. split; [reflexivity|]. intros E. apply H. rewrite E. reflexivity.
    + intros [_ H] E. apply app_inv_tail in E. apply H. symmetry. exact E.
  - split.
    + intros H. exfalso. apply H. reflexivity.
    + intros [H _]. discriminate.
Qed.

(* ========================================================== 5. file system *)

Lemma cpath_eqb_eq : forall a b, cpath_eqb a b = true <-> a = b.
Proof.
  induction a as [|x a IH]; intros [|y b]; cbn [cpath_eqb]; split; intro H;
    try congruence; auto.
  - apply andb_true_iff in H. destruct H as [H1 H2].
    apply str_eqb_eq in H1. apply IH in H2. congruence.
  - inversion H; subst. rewrite str_eqb_refl. cbn [andb]. apply IH. reflexivity.
Qed.

Lemma cpath_eqb_refl : forall a, cpath_eqb a a = true.
Proof. intros a. apply cpath_eqb_eq. reflexivity. Qed.

Lemma cpath_eqb_neq : forall a b, a <> b -> cpath_eqb a b = false.
Proof.
  intros a b H. destruct (cpath_eqb a b) eqn:E; [|reflexivity].
  apply cpath_eqb_eq in E. contradiction.
Qed.

Lemma cpath_eqb_sym : forall a b, cpath_eqb a b = cpath_eqb b a.
Proof.
  intros a b. destruct (cpath_eqb a b) eqn:E.
  - apply cpath_eqb_eq in E. subst. symmetry. apply cpath_eqb_refl.
  - destruct (cpath_eqb b a) eqn:E2; [|reflexivity].
    apply cpath_eqb_eq in E2. subst. rewrite cpath_eqb_refl in E. discriminate.
Qed.

Lemma is_prefix_split : forall f p, is_prefix f p = true -> p = f ++ skipn (length f) p.
Proof.
  induction f as [|x f IH]; intros p H; [reflexivity|].
  destruct p as [|y p]; cbn [is_prefix] in H; [discriminate|].
  apply andb_true_iff in H. destruct H as [H1 H2].
  apply str_eqb_eq in H1. subst y. cbn [length skipn app]. f_equal. apply IH. exact H2.
Qed.

Lemma is_prefix_app : forall f r, is_prefix f (f ++ r) = true.
Proof.
  induction f as [|x f IH]; intros r; [reflexivity|].
  cbn [app is_prefix]. rewrite str_eqb_refl. cbn [andb]. apply IH.
Qed.

Lemma render_app : forall a b, render (a ++ b) = render a ++ render b.
Proof.
  induction a as [|x a IH]; intros b; [reflexivity|].
  cbn [app render]. rewrite IH. rewrite <- app_assoc. reflexivity.
Qed.

Lemma fs_lookup_in : forall s p, fs_lookup s p <> None -> exists c, In (p, c) s.
Proof.
  induction s as [|[q d] r IH]; intros p H; cbn [fs_lookup] in H; [congruence|].
  destruct (cpath_eqb q p) eqn:E.
  - apply cpath_eqb_eq in E. subst. exists d. left. reflexivity.
  - destruct (IH p H) as [c Hc]. exists c. right. exact Hc.
Qed.

Lemma write_id_notin : forall p c r, ~ In p (map fst r) ->
  map (fun e : cpath * N => (fst e, if cpath_eqb (fst e) p then c else snd e)) r = r.
Proof.
  intros p c. induction r as [|[q d] r IH]; intros H; [reflexivity|].
  cbn [map fst snd]. cbn [map fst In] in H.
  rewrite cpath_eqb_neq by (intros E; apply H; left; exact E).
  rewrite IH by (intros Hin; apply H; right; exact Hin). reflexivity.
Qed.

Lemma write_map : forall p c s, NoDup (map fst s) -> fs_lookup s p <> None ->
  write p c s = map (fun e : cpath * N => (fst e, if cpath_eqb (fst e) p then c else snd e)) s.
Proof.
  intros p c. induction s as [|[q d] r IH]; intros ND H.
  - cbn [fs_lookup] in H. congruence.
  - cbn [map fst] in ND. inversion ND as [|x l Hnin ND']; subst.
    cbn [write map fst snd]. cbn [fs_lookup] in H.
    destruct (cpath_eqb q p) eqn:E.
    + apply cpath_eqb_eq in E. subst q. rewrite write_id_notin by assumption. reflexivity.
    + rewrite IH by assumption. reflexivity.
Qed.

Lemma fs_lookup_map_keys : forall (g : cpath * N -> N) s p, fs_lookup s p <> None ->
  fs_lookup (map (fun e => (fst e, g e)) s) p <> None.
Proof.
  intros g. induction s as [|[q d] r IH]; intros p H; cbn [fs_lookup map fst] in *; [congruence|].
  destruct (cpath_eqb q p); [discriminate|]. apply IH. exact H.
Qed.

Lemma map_fst_keys : forall (g : cpath * N -> N) (s : fs),
  map fst (map (fun e => (fst e, g e)) s) = map fst s.
Proof. intros g s. rewrite map_map. apply map_ext. intros a. reflexivity. Qed.

Lemma fold_write : forall changed s, NoDup (map fst s) ->
  (forall p c, In (p, c) changed -> fs_lookup s p <> None) ->
  fold_left (fun s pc => write (fst pc) (snd pc) s) changed s =
  map (fun e => (fst e, new_content changed (fst e) (snd e))) s.
Proof.
  induction changed as [|[q d] r IH]; intros s ND H.
  - cbn [fold_left new_content]. symmetry. etransitivity; [|apply map_id].
    apply map_ext. intros [a b]. reflexivity.
  - cbn [fold_left fst snd]. rewrite write_map; [|assumption|apply (H q d); left; reflexivity].
    rewrite IH.
    + rewrite map_map. apply map_ext. intros [a b]. cbn [fst snd new_content].
      rewrite (cpath_eqb_sym a q). reflexivity.
    + rewrite map_fst_keys. assumption.
    + intros p c Hin. apply fs_lookup_map_keys. apply (H p c). right. exact Hin.
Qed.

Lemma fold_move : forall renames s,
  fold_left (fun s ft => move (fst ft) (snd ft) s) renames s =
  map (fun e => (final_path renames (fst e), snd e)) s.
Proof.
  induction renames as [|[f t] r IH]; intros s.
  - cbn [fold_left]. symmetry. etransitivity; [|apply map_id].
    apply map_ext. intros [a b]. reflexivity.
  - cbn [fold_left fst snd]. rewrite IH. unfold move. rewrite map_map.
    apply map_ext. intros [a b]. reflexivity.
Qed.

Lemma apply_effect : forall changed renames s,
  NoDup (map fst s) ->
  (forall p c, In (p, c) changed -> fs_lookup s p <> None) ->
  apply_fs changed renames s =
  map (fun e => (final_path renames (fst e), new_content changed (fst e) (snd e))) s.
Proof.
  intros changed renames s ND H. unfold apply_fs.
  rewrite fold_write by assumption. rewrite fold_move. rewrite map_map.
  apply map_ext. intros [a b]. reflexivity.
Qed.

Lemma new_content_notin : forall changed p c, ~ In p (map fst changed) ->
  new_content changed p c = c.
Proof.
  induction changed as [|[q d] r IH]; intros p c H; [reflexivity|].
  cbn [new_content]. cbn [map fst In] in H.
  rewrite cpath_eqb_neq by (intros E; apply H; left; exact E).
  apply IH. intros Hin. apply H. right. exact Hin.
Qed.

Lemma new_content_in : forall changed p c c0, NoDup (map fst changed) -> In (p, c) changed ->
  new_content changed p c0 = c.
Proof.
  induction changed as [|[q d] r IH]; intros p c c0 ND Hin; [destruct Hin|].
  cbn [map fst] in ND. inversion ND as [|x l Hnin ND']; subst.
  cbn [new_content]. destruct Hin as [E|Hin].
  - inversion E; subst. rewrite cpath_eqb_refl. apply new_content_notin. exact Hnin.
  - apply IH; assumption.
Qed.

Lemma final_path_id : forall renames p,
  (forall f t, In (f, t) renames -> is_prefix f p = false) -> final_path renames p = p.
Proof.
  induction renames as [|[f t] r IH]; intros p H; [reflexivity|].
  unfold final_path. cbn [fold_left fst snd]. unfold move_path at 2.
  rewrite (H f t (or_introl eq_refl)).
  apply IH. intros f' t' Hin. apply (H f' t'). right. exact Hin.
Qed.

Lemma apply_effect_changed : forall changed renames s p c,
  NoDup (map fst s) ->
  (forall p c, In (p, c) changed -> fs_lookup s p <> None) ->
  NoDup (map fst changed) -> In (p, c) changed ->
  In (final_path renames p, c) (apply_fs changed renames s).
Proof.
  intros changed renames s p c ND H NDc Hin.
  rewrite apply_effect by assumption.
  destruct (fs_lookup_in s p (H p c Hin)) as [c0 Hc0].
  apply in_map_iff. exists (p, c0). split; [|assumption].
  cbn [fst snd]. f_equal. apply new_content_in; assumption.
Qed.

Lemma apply_effect_untouched : forall changed renames s p c,
  NoDup (map fst s) ->
  (forall p c, In (p, c) changed -> fs_lookup s p <> None) ->
  In (p, c) s -> ~ In p (map fst changed) ->
  (forall f t, In (f, t) renames -> is_prefix f p = false) ->
  In (p, c) (apply_fs changed renames s).
Proof.
  intros changed renames s p c ND H Hin Hn Hr.
  rewrite apply_effect by assumption.
  apply in_map_iff. exists (p, c). split; [|assumption].
  cbn [fst snd]. rewrite final_path_id by assumption.
  rewrite new_content_notin by assumption. reflexivity.
Qed.

Lemma old_rule_agrees_single : forall p f t,
  (starts_with (render p) (render f) = true -> is_prefix f p = true) ->
  calc_to_path_str (render p) [(render f, render t)] = render (final_path [(f, t)] p).
Proof.
  intros p f t H. cbn [calc_to_path_str]. unfold final_path. cbn [fold_left fst snd].
  unfold move_path.
  destruct (starts_with (render p) (render f)) eqn:S.
  - rewrite (H eq_refl). pose proof (is_prefix_split f p (H eq_refl)) as Hp.
    rewrite render_app. f_equal.
    rewrite Hp at 1. rewrite render_app. apply skipn_len_app.
  - destruct (is_prefix f p) eqn:P; [|reflexivity].
    exfalso. apply is_prefix_split in P.
    assert (S' : starts_with (render p) (render f) = true).
    { apply starts_with_prefix. exists (render (skipn (length f) p)).
      rewrite <- render_app. rewrite <- P. reflexivity. }
    congruence.
Qed.

Lemma old_rule_refuted : exists p f t,
  calc_to_path_str (render p) [(render f, render t)] <> render (final_path [(f, t)] p).
Proof.
  exists [[112;107;103;50]; [97]]%N, [[112;107;103]]%N, [[110;101;119]]%N.
  intro H. vm_compute in H. discriminate.
Qed.

(* ============================= 6. the current rule (component-wise) and apply *)

Lemma calc_to_path_final : forall rs p, calc_to_path p rs = final_path rs p.
Proof.
  induction rs as [|[f t] r IH]; intros p; [reflexivity|].
  cbn [calc_to_path]. unfold final_path. cbn [fold_left fst snd]. unfold move_path.
  destruct (is_prefix f p); apply IH.
Qed.

Lemma calc_to_path_no_prefix : forall p rs,
  (forall f t, In (f, t) rs -> is_prefix f p = false) -> calc_to_path p rs = p.
Proof.
  intros p rs. induction rs as [|[f t] r IH]; intros H; [reflexivity|].
  cbn [calc_to_path]. rewrite (H f t (or_introl eq_refl)).
  apply IH. intros f' t' Hin. apply (H f' t'). right. exact Hin.
Qed.

Lemma calc_to_path_single : forall p f t,
  calc_to_path p [(f, t)] <> p <-> (is_prefix f p = true /\ f <> t).
Proof.
  intros p f t. cbn [calc_to_path]. destruct (is_prefix f p) eqn:S.
  - pose proof (is_prefix_split _ _ S) as Hp. split.
    + intros H. split; [reflexivity|]. intros E. apply H. subst t. symmetry. exact Hp.
    + intros [_ H] E. rewrite Hp in E at 2. apply app_inv_tail in E. apply H. symmetry. exact E.
  - split.
    + intros H. exfalso. apply H. reflexivity.
    + intros [H _]. discriminate.
Qed.

Lemma changed_files_match : forall changes renames,
  map (fun e => fst (fst e)) (get_changed_files changes renames) = map fst changes /\
  (forall p to m, In (Some p, to, m) (get_changed_files changes renames) ->
      to = Some (final_path renames p) /\ In (Some p, m) changes) /\
  (forall p m, In (Some p, m) changes ->
      (forall f t, In (f, t) renames -> is_prefix f p = false) ->
      In (Some p, Some p, m) (get_changed_files changes renames)).
Proof.
  intros changes renames. unfold get_changed_files. split; [|split].
  - rewrite map_map. apply map_ext. intros a. reflexivity.
  - intros p to m H. apply in_map_iff in H. destruct H as [[op mm] [E Hin]].
    cbn [fst snd] in E. inversion E; subst. rewrite calc_to_path_final.
    split; [reflexivity|assumption].
  - intros p m Hin Hn. apply in_map_iff. exists (Some p, m). split; [|assumption].
    cbn [fst snd]. rewrite calc_to_path_no_prefix by assumption. reflexivity.
Qed.

Lemma strip_paths_none : forall changed c, In (None, c) changed -> strip_paths changed = None.
Proof.
  induction changed as [|[[p|] d] r IH]; intros c H; [destruct H| |reflexivity].
  destruct H as [H|H]; [discriminate|]. cbn [strip_paths]. rewrite (IH c H). reflexivity.
Qed.

Lemma strip_paths_some : forall changed,
  (forall c, ~ In (None, c) changed) ->
  exists ch, strip_paths changed = Some ch /\ map (fun e => (Some (fst e), snd e)) ch = changed.
Proof.
  induction changed as [|[[p|] d] r IH]; intros H.
  - exists []. split; reflexivity.
  - destruct IH as [ch [E1 E2]].
    + intros c Hc. apply (H c). right. exact Hc.
    + exists ((p, d) :: ch). cbn [strip_paths]. rewrite E1. split; [reflexivity|].
      cbn [map fst snd]. rewrite E2. reflexivity.
  - exfalso. apply (H d). left. reflexivity.
Qed.

(* a path-less buffer among the changed files: refused, nothing is written *)
Lemma apply_pathless_refused : forall changed renames s c,
  In (None, c) changed -> apply_refactoring changed renames s = None.
Proof.
  intros changed renames s c H. unfold apply_refactoring. rewrite (strip_paths_none _ _ H). reflexivity.
Qed.

Lemma apply_refactoring_effect : forall changed renames s,
  (forall c, ~ In (None, c) changed) ->
  exists ch, map (fun e => (Some (fst e), snd e)) ch = changed /\
             apply_refactoring changed renames s = Some (apply_fs ch renames s).
Proof.
  intros changed renames s H. destruct (strip_paths_some changed H) as [ch [E1 E2]].
  exists ch. split; [exact E2|]. unfold apply_refactoring. rewrite E1. reflexivity.
Qed.
