(* C09 proofs: freshness of every answer under strictly monotone time (for histories of any length,
   any number of processes and restarts), every stale answer of the model is explained by one of the
   classifier flags, the per-Script module cache, and the computed refutations. *)
From JV Require Import Model.C09_DiskCache.

(* ------------------------------------------------------------------ equality tests *)
Lemma dir_eqb_eq : forall a b, dir_eqb a b = true <-> a = b.
Proof.
  induction a as [|x a IH]; destruct b as [|y b]; simpl; split; intro H; try congruence; try reflexivity.
  - apply andb_true_iff in H. destruct H as [H1 H2]. apply N.eqb_eq in H1. apply IH in H2. congruence.
  - inversion H; subst. rewrite N.eqb_refl. simpl. apply IH. reflexivity.
Qed.

Lemma dir_eqb_refl : forall a, dir_eqb a a = true.
Proof. intro a. apply dir_eqb_eq. reflexivity. Qed.

Lemma dir_eqb_neq : forall a b, dir_eqb a b = false <-> a <> b.
Proof.
  intros a b. split; intro H.
  - intro E. apply dir_eqb_eq in E. congruence.
  - destruct (dir_eqb a b) eqn:E; [apply dir_eqb_eq in E; contradiction | reflexivity].
Qed.

Lemma ext_eqb_eq : forall a b, ext_eqb a b = true <-> a = b.
Proof. destruct a, b; simpl; split; congruence. Qed.

Lemma key_eqb_eq : forall a b, key_eqb a b = true <-> a = b.
Proof.
  intros [[d1 n1] e1] [[d2 n2] e2]. unfold key_eqb. split; intro H.
  - apply andb_true_iff in H. destruct H as [H H3]. apply andb_true_iff in H. destruct H as [H1 H2].
    apply dir_eqb_eq in H1. apply N.eqb_eq in H2. apply ext_eqb_eq in H3. congruence.
  - inversion H; subst. rewrite dir_eqb_refl, N.eqb_refl. simpl. apply ext_eqb_eq. reflexivity.
Qed.

Lemma key_eqb_refl : forall a, key_eqb a a = true.
Proof. intro a. apply key_eqb_eq. reflexivity. Qed.

Lemma key_eqb_neq : forall a b, key_eqb a b = false <-> a <> b.
Proof.
  intros a b. split; intro H.
  - intro E. apply key_eqb_eq in E. congruence.
  - destruct (key_eqb a b) eqn:E; [apply key_eqb_eq in E; contradiction | reflexivity].
Qed.

Lemma upd_key_same : forall V (m : key -> V) k v, upd_key m k v k = v.
Proof. intros. unfold upd_key. rewrite key_eqb_refl. reflexivity. Qed.
Lemma upd_key_other : forall V (m : key -> V) k k' v, k <> k' -> upd_key m k v k' = m k'.
Proof. intros. unfold upd_key. apply key_eqb_neq in H. rewrite H. reflexivity. Qed.
Lemma upd_dir_same : forall V (m : dir -> V) k v, upd_dir m k v k = v.
Proof. intros. unfold upd_dir. rewrite dir_eqb_refl. reflexivity. Qed.
Lemma upd_dir_other : forall V (m : dir -> V) k k' v, k <> k' -> upd_dir m k v k' = m k'.
Proof. intros. unfold upd_dir. apply dir_eqb_neq in H. rewrite H. reflexivity. Qed.
Lemma upd_pid_same : forall V (m : pid -> V) k v, upd_pid m k v k = v.
Proof. intros. unfold upd_pid. rewrite N.eqb_refl. reflexivity. Qed.
Lemma upd_pid_other : forall V (m : pid -> V) k k' v, k <> k' -> upd_pid m k v k' = m k'.
Proof. intros. unfold upd_pid. apply N.eqb_neq in H. rewrite H. reflexivity. Qed.

Lemma key_dec : forall a b : key, a = b \/ a <> b.
Proof. intros. destruct (key_eqb a b) eqn:E; [left; apply key_eqb_eq | right; apply key_eqb_neq]; exact E. Qed.
Lemma dir_dec : forall a b : dir, a = b \/ a <> b.
Proof. intros. destruct (dir_eqb a b) eqn:E; [left; apply dir_eqb_eq | right; apply dir_eqb_neq]; exact E. Qed.
Lemma pid_dec : forall a b : pid, a = b \/ a <> b.
Proof. intros. destruct (N.eqb a b) eqn:E; [left; apply N.eqb_eq | right; apply N.eqb_neq]; exact E. Qed.

Lemma snapshot_time : forall fs d, l_time (snapshot fs d) = dirs fs d.
Proof. intros. unfold snapshot. destruct (dirs fs d); reflexivity. Qed.

Lemma otime_eqb_eq : forall a b, otime_eqb a b = true <-> a = b.
Proof.
  destruct a, b; simpl; split; intro H; try congruence; try reflexivity.
  - apply N.eqb_eq in H. congruence.
  - inversion H. apply N.eqb_refl.
Qed.

Lemma kind_eqb_eq : forall a b, kind_eqb a b = true <-> a = b.
Proof. destruct a, b; simpl; split; congruence. Qed.

(* ------------------------------------------------------------------ local facts (any state) *)
Lemma load_local : forall p tq k s oc fl s',
  load p tq k s = (oc, fl, s') ->
  s_fs s' = s_fs s /\ (fl = [] -> oc = content_of (s_fs s) k).
Proof.
  intros p tq k s oc fl s' H. unfold load in H. unfold content_of.
  destruct (files (s_fs s) k) as [[pt c]|] eqn:Ef.
  2:{ inversion H; subst. split; reflexivity. }
  destruct (s_mem s p k) as [[ct cc]|] eqn:Em.
  - destruct (N.leb pt ct).
    + destruct (N.eqb cc c) eqn:Ec; inversion H; subst; split; try reflexivity.
      * intros _. apply N.eqb_eq in Ec. congruence.
      * intro X. discriminate.
    + destruct (N.eqb cc c) eqn:Ec; inversion H; subst; split; try reflexivity.
      intros _. apply N.eqb_eq in Ec. congruence.
  - destruct (s_pk s k) as [[pkt [ct cc]]|] eqn:Ep.
    + destruct (N.ltb pkt pt).
      * inversion H; subst. split; reflexivity.
      * destruct (N.eqb cc c) eqn:Ec; inversion H; subst; split; try reflexivity.
        -- intros _. apply N.eqb_eq in Ec. congruence.
        -- intro X. discriminate.
    + inversion H; subst. split; reflexivity.
Qed.

Lemma refresh_fs : forall p d s l s1, refresh p d s = (l, s1) -> s_fs s1 = s_fs s.
Proof.
  intros p d s l s1 H. unfold refresh in H.
  destruct (s_dc s p d) as [l0|].
  - destruct (otime_eqb (l_time l0) (l_time (snapshot (s_fs s) d))); inversion H; subst; reflexivity.
  - inversion H; subst; reflexivity.
Qed.

Lemma app_nil3 : forall A (a b c : list A), a ++ b ++ c = [] -> a = [] /\ b = [] /\ c = [].
Proof.
  intros A a b c H. apply app_eq_nil in H. destruct H as [H1 H2]. apply app_eq_nil in H2. tauto.
Qed.

Lemma step_local : forall p tq d n s r fl s',
  step p tq d n s = (r, fl, s') ->
  s_fs s' = s_fs s /\ (fl = [] -> r = fresh_step (s_fs s) d n).
Proof.
  intros p tq d n s r fl s' H. unfold step in H.
  destruct (refresh p d s) as [l s1] eqn:Er.
  pose proof (refresh_fs _ _ _ _ _ Er) as F1.
  set (k := find l (s_fs s1) d n) in *.
  destruct (match py_key k d n with Some pk => load p tq pk s1 | None => (None, [], s1) end)
    as [[py fl1] s2] eqn:E1.
  destruct (load p tq (stub_key k d n) s2) as [[stb fl2] s3] eqn:E2.
  inversion H; subst r fl s'. clear H.
  assert (F2 : s_fs s2 = s_fs s1 /\ (fl1 = [] -> py = match py_key k d n with Some pk => content_of (s_fs s1) pk | None => None end)).
  { destruct (py_key k d n) as [pk|].
    - apply load_local in E1. exact E1.
    - inversion E1; subst. split; reflexivity. }
  destruct F2 as [F2 G2].
  apply load_local in E2. destruct E2 as [F3 G3].
  split. { congruence. }
  intro Hnil. apply app_nil3 in Hnil. destruct Hnil as [H0 [H1 H2]].
  destruct (kind_eqb k (find (snapshot (s_fs s1) d) (s_fs s1) d n)) eqn:Ek; [|discriminate].
  apply kind_eqb_eq in Ek.
  unfold fresh_step. rewrite <- F1. rewrite <- Ek.
  rewrite (G2 H1). rewrite (G3 H2). rewrite F2. reflexivity.
Qed.

Definition mc_ok (fs : fsT) (mc : mcT) : Prop :=
  forall pre n r fl, mc_get mc (pre ++ [n]) = Some (r, fl) -> fl = [] -> r = fresh_step fs pre n.

Lemma mc_ok_add : forall fs mc pre n r fl,
  mc_ok fs mc -> (fl = [] -> r = fresh_step fs pre n) -> mc_ok fs ((pre ++ [n], (r, fl)) :: mc).
Proof.
  intros fs mc pre n r fl Hmc Hr pre' n' r' fl' Hg Hnil. simpl in Hg.
  destruct (dir_eqb (pre ++ [n]) (pre' ++ [n'])) eqn:E.
  - apply dir_eqb_eq in E. apply app_inj_tail in E. destruct E; subst. inversion Hg; subst. auto.
  - eapply Hmc; eauto.
Qed.

Lemma import_local : forall p tq ch pre mc s r fl mc' s',
  import_from p tq pre ch mc s = (r, fl, mc', s') ->
  mc_ok (s_fs s) mc ->
  s_fs s' = s_fs s /\ mc_ok (s_fs s) mc' /\ (fl = [] -> r = fresh_from (s_fs s) pre ch).
Proof.
  induction ch as [|n rest IH]; intros pre mc s r fl mc' s' H Hmc.
  - simpl in H. inversion H; subst. split; [reflexivity|]. split; [assumption|]. reflexivity.
  - simpl in H.
    destruct (match mc_get mc (pre ++ [n]) with
              | Some (r, fl) => (r, fl, mc, s)
              | None => let '(r, fl, s1) := step p tq pre n s in (r, fl, (pre ++ [n], (r, fl)) :: mc, s1)
              end) as [[[r1 fl1] mc1] s1] eqn:E1.
    assert (A : s_fs s1 = s_fs s /\ mc_ok (s_fs s) mc1 /\ (fl1 = [] -> r1 = fresh_step (s_fs s) pre n)).
    { destruct (mc_get mc (pre ++ [n])) as [[r0 fl0]|] eqn:Eg.
      - inversion E1; subst. split; [reflexivity|]. split; [assumption|]. intro. eapply Hmc; eauto.
      - destruct (step p tq pre n s) as [[r0 fl0] s0] eqn:Es. inversion E1; subst.
        apply step_local in Es. destruct Es as [F G]. split; [assumption|]. split; [|assumption].
        apply mc_ok_add; assumption. }
    destruct A as [F1 [M1 G1]].
    destruct rest as [|m rest'].
    + inversion H; subst. split; [assumption|]. split; [assumption|]. simpl. assumption.
    + destruct (is_container r1) eqn:Ec.
      * destruct (import_from p tq (pre ++ [n]) (m :: rest') mc1 s1) as [[[r2 fl2] mc2] s2] eqn:E2.
        inversion H; subst. rewrite <- F1 in M1.
        apply IH in E2; [|assumption]. destruct E2 as [F2 [M2 G2]].
        rewrite F1 in *. split; [assumption|]. split; [assumption|].
        intro Hnil. apply app_eq_nil in Hnil. destruct Hnil as [N1 N2].
        change (fresh_from (s_fs s) pre (n :: m :: rest')) with
          (if is_container (fresh_step (s_fs s) pre n) then fresh_from (s_fs s) (pre ++ [n]) (m :: rest') else none_res).
        rewrite <- (G1 N1). rewrite Ec. apply G2. assumption.
      * inversion H; subst. split; [assumption|]. split; [assumption|].
        intro Hnil.
        change (fresh_from (s_fs s) pre (n :: m :: rest')) with
          (if is_container (fresh_step (s_fs s) pre n) then fresh_from (s_fs s) (pre ++ [n]) (m :: rest') else none_res).
        rewrite <- (G1 Hnil). rewrite Ec. reflexivity.
Qed.

(* outputs explained: no flag -> the specified answer *)
Definition explained (fs : fsT) (ch : list name) (x : res * list flag) : Prop :=
  snd x = [] -> fst x = fresh_import fs ch.

Lemma query_local : forall p tq chs mc s out mc' s',
  query_mc p tq chs mc s = (out, mc', s') ->
  mc_ok (s_fs s) mc ->
  s_fs s' = s_fs s /\ mc_ok (s_fs s) mc' /\ Forall2 (explained (s_fs s)) chs out.
Proof.
  induction chs as [|ch r IH]; intros mc s out mc' s' H Hmc.
  - simpl in H. inversion H; subst. split; [reflexivity|]. split; [assumption|]. constructor.
  - simpl in H.
    destruct (import_from p tq [] ch mc s) as [[[x fl] mc1] s1] eqn:E1.
    destruct (query_mc p tq r mc1 s1) as [[out2 mc2] s2] eqn:E2.
    inversion H; subst.
    apply import_local in E1; [|assumption]. destruct E1 as [F1 [M1 G1]].
    rewrite <- F1 in M1. apply IH in E2; [|assumption]. destruct E2 as [F2 [M2 G2]].
    rewrite F1 in *. split; [assumption|]. split; [assumption|].
    constructor; [|assumption]. unfold explained. simpl. exact G1.
Qed.

Ltac splits := repeat match goal with |- _ /\ _ => split end.

(* ------------------------------------------------------------------ Valid / Bounded under cache updates *)
Lemma Valid_set_mem : forall s p k ct cc,
  Valid s -> (forall pt c, files (s_fs s) k = Some (pt, c) -> (pt <= ct)%N -> cc = c) ->
  Valid (set_mem s p k (ct, cc)).
Proof.
  intros s p k ct cc [M [P [D D2]]] H. unfold Valid, set_mem; simpl. repeat split; try assumption.
  - intros p' k' ct' cc' pt c Hm Hf Hle. unfold upd_pid in Hm.
    destruct (N.eqb p p') eqn:Ep.
    + apply N.eqb_eq in Ep. subst p'. unfold upd_key in Hm. destruct (key_eqb k k') eqn:Ek.
      * apply key_eqb_eq in Ek. subst k'. inversion Hm; subst. eapply H; eauto.
      * eapply M; eauto.
    + eapply M; eauto.
  - apply (D p0 d l H0 H1).
  - apply (D p0 d l H0 H1).
  - apply (D2 p0 d l H0 H1).
  - apply (D2 p0 d l H0 H1).
Qed.

Lemma Valid_set_pk : forall s k pkt ct cc,
  Valid s -> (forall pt c, files (s_fs s) k = Some (pt, c) -> (pt <= pkt)%N -> cc = c) ->
  Valid (set_pk s k (pkt, (ct, cc))).
Proof.
  intros s k pkt ct cc [M [P [D D2]]] H. unfold Valid, set_pk; simpl. repeat split; try assumption.
  - intros k' pkt' ct' cc' pt c Hp Hf Hle. unfold upd_key in Hp. destruct (key_eqb k k') eqn:Ek.
    + apply key_eqb_eq in Ek. subst k'. inversion Hp; subst. eapply H; eauto.
    + eapply P; eauto.
  - apply (D p d l H0 H1).
  - apply (D p d l H0 H1).
  - apply (D2 p d l H0 H1).
  - apply (D2 p d l H0 H1).
Qed.

Lemma Valid_set_dc : forall s p d l,
  Valid s ->
  (l_time l = dirs (s_fs s) d -> listing_agrees l (s_fs s) d) ->
  (l_time l = None -> (forall n e, l_file l n e = false) /\ (forall n, l_dir l n = false)) ->
  Valid (set_dc s p d l).
Proof.
  intros s p d l [M [P [D D2]]] H1 H2. unfold Valid, set_dc; simpl.
  split; [assumption|]. split; [assumption|]. split.
  - intros p' d' l' Hd Ht. unfold upd_pid in Hd. destruct (N.eqb p p') eqn:Ep.
    + unfold upd_dir in Hd. destruct (dir_eqb d d') eqn:Ed.
      * apply dir_eqb_eq in Ed. subst d'. inversion Hd; subst. auto.
      * apply N.eqb_eq in Ep. subst. eapply D; eauto.
    + eapply D; eauto.
  - intros p' d' l' Hd Ht. unfold upd_pid in Hd. destruct (N.eqb p p') eqn:Ep.
    + unfold upd_dir in Hd. destruct (dir_eqb d d') eqn:Ed.
      * inversion Hd; subst. auto.
      * apply N.eqb_eq in Ep. subst. eapply D2; eauto.
    + eapply D2; eauto.
Qed.

Lemma Bounded_set_mem : forall hw s p k ct cc,
  Bounded hw s -> (ct <= hw)%N -> Bounded hw (set_mem s p k (ct, cc)).
Proof.
  intros hw s p k ct cc [B1 [B2 [B3 [B4 B5]]]] H. unfold Bounded, set_mem; simpl.
  split; [assumption|]. split; [assumption|]. split; [|split; assumption].
  intros p' k' ct' cc' Hm. unfold upd_pid in Hm. destruct (N.eqb p p') eqn:Ep.
  - apply N.eqb_eq in Ep. subst. unfold upd_key in Hm. destruct (key_eqb k k').
    + inversion Hm; subst. assumption.
    + eapply B3; eauto.
  - eapply B3; eauto.
Qed.

Lemma Bounded_set_pk : forall hw s k pkt ct cc,
  Bounded hw s -> (pkt <= hw)%N -> (ct <= hw)%N -> Bounded hw (set_pk s k (pkt, (ct, cc))).
Proof.
  intros hw s k pkt ct cc [B1 [B2 [B3 [B4 B5]]]] H1 H2. unfold Bounded, set_pk; simpl.
  split; [assumption|]. split; [assumption|]. split; [assumption|]. split; [|assumption].
  intros k' pkt' ct' cc' Hp. unfold upd_key in Hp. destruct (key_eqb k k').
  - inversion Hp; subst. split; assumption.
  - eapply B4; eauto.
Qed.

Lemma Bounded_set_dc : forall hw s p d l,
  Bounded hw s -> (forall t, l_time l = Some t -> (t <= hw)%N) -> Bounded hw (set_dc s p d l).
Proof.
  intros hw s p d l [B1 [B2 [B3 [B4 B5]]]] H. unfold Bounded, set_dc; simpl.
  split; [assumption|]. split; [assumption|]. split; [assumption|]. split; [assumption|].
  intros p' d' l' t Hd Ht. unfold upd_pid in Hd. destruct (N.eqb p p') eqn:Ep.
  - apply N.eqb_eq in Ep. subst. unfold upd_dir in Hd. destruct (dir_eqb d d').
    + inversion Hd; subst. auto.
    + eapply B5; eauto.
  - eapply B5; eauto.
Qed.

Lemma Bounded_mono : forall hw hw' s, Bounded hw s -> (hw <= hw')%N -> Bounded hw' s.
Proof.
  intros hw hw' s [B1 [B2 [B3 [B4 B5]]]] H. unfold Bounded. repeat split; intros.
  - apply B1 in H0. lia.
  - apply B2 in H0. lia.
  - apply B3 in H0. lia.
  - apply B4 in H0. lia.
  - apply B4 in H0. lia.
  - eapply B5 in H0; eauto. lia.
Qed.

(* ------------------------------------------------------------------ with valid caches no classifier fires *)
Lemma load_valid : forall p tq k s oc fl s',
  Valid s -> load p tq k s = (oc, fl, s') -> fl = [] /\ Valid s'.
Proof.
  intros p tq k s oc fl s' V H. unfold load in H.
  destruct (files (s_fs s) k) as [[pt c]|] eqn:Ef.
  2:{ inversion H; subst. auto. }
  assert (Vsaved : Valid (set_pk (set_mem s p k (pt, c)) k (tq, (pt, c)))).
  { apply Valid_set_pk.
    - apply Valid_set_mem; [assumption|]. intros pt' c' Hf _. congruence.
    - simpl. intros pt' c' Hf _. congruence. }
  destruct (s_mem s p k) as [[ct cc]|] eqn:Em.
  - destruct (N.leb pt ct) eqn:El.
    + apply N.leb_le in El. assert (cc = c). { destruct V as [M V']. eapply M; eauto. } subst cc.
      rewrite N.eqb_refl in H. inversion H; subst. auto.
    + destruct (N.eqb cc c) eqn:Ec; inversion H; subst; auto.
  - destruct (s_pk s k) as [[pkt [ct cc]]|] eqn:Ep.
    + destruct (N.ltb pkt pt) eqn:El.
      * inversion H; subst. auto.
      * apply N.ltb_ge in El. assert (cc = c). { destruct V as [_ [P _]]. eapply P; eauto. } subst cc.
        rewrite N.eqb_refl in H. inversion H; subst. split; [reflexivity|].
        apply Valid_set_mem; [assumption|]. intros pt' c' Hf _. congruence.
    + inversion H; subst. auto.
Qed.

Lemma load_bounded : forall hw p tq k s oc fl s',
  Bounded hw s -> (tq <= hw)%N -> load p tq k s = (oc, fl, s') -> Bounded hw s'.
Proof.
  intros hw p tq k s oc fl s' B Htq H. unfold load in H.
  destruct (files (s_fs s) k) as [[pt c]|] eqn:Ef.
  2:{ inversion H; subst. auto. }
  assert (Hpt : (pt <= hw)%N). { destruct B as [B1 _]. eapply B1; eauto. }
  assert (Bsaved : Bounded hw (set_pk (set_mem s p k (pt, c)) k (tq, (pt, c)))).
  { apply Bounded_set_pk; try assumption. apply Bounded_set_mem; assumption. }
  destruct (s_mem s p k) as [[ct cc]|] eqn:Em.
  - destruct (N.leb pt ct); [inversion H; subst; auto|].
    destruct (N.eqb cc c); inversion H; subst; auto.
  - destruct (s_pk s k) as [[pkt [ct cc]]|] eqn:Ep.
    + destruct (N.ltb pkt pt); inversion H; subst; auto.
      apply Bounded_set_mem; [assumption|]. destruct B as [_ [_ [_ [B4 _]]]]. eapply B4; eauto.
    + inversion H; subst. auto.
Qed.

Lemma find_agrees : forall l fs d n, listing_agrees l fs d -> find l fs d n = find (snapshot fs d) fs d n.
Proof. intros l fs d n [Hf Hd]. unfold find. rewrite Hf, Hd. reflexivity. Qed.

Lemma refresh_valid : forall p d s l s1,
  Valid s -> refresh p d s = (l, s1) -> listing_agrees l (s_fs s) d /\ Valid s1.
Proof.
  intros p d s l s1 V H. unfold refresh in H.
  assert (Vnew : Valid (set_dc s p d (snapshot (s_fs s) d))).
  { apply Valid_set_dc; [assumption| |].
    - intros _. split; reflexivity.
    - intro Ht. rewrite snapshot_time in Ht. unfold snapshot. rewrite Ht. simpl. split; reflexivity. }
  destruct (s_dc s p d) as [l0|] eqn:Ed.
  - destruct (otime_eqb (l_time l0) (l_time (snapshot (s_fs s) d))) eqn:Et.
    + inversion H; subst. apply otime_eqb_eq in Et. rewrite snapshot_time in Et.
      split; [|assumption]. destruct V as [_ [_ [D _]]]. eapply D; eauto.
    + inversion H; subst. split; [split; reflexivity|assumption].
  - inversion H; subst. split; [split; reflexivity|assumption].
Qed.

Lemma refresh_bounded : forall hw p d s l s1,
  Bounded hw s -> refresh p d s = (l, s1) -> Bounded hw s1.
Proof.
  intros hw p d s l s1 B H. unfold refresh in H.
  assert (Bnew : Bounded hw (set_dc s p d (snapshot (s_fs s) d))).
  { apply Bounded_set_dc; [assumption|]. intros t Ht. rewrite snapshot_time in Ht.
    destruct B as [_ [B2 _]]. eapply B2; eauto. }
  destruct (s_dc s p d) as [l0|] eqn:Ed.
  - destruct (otime_eqb (l_time l0) (l_time (snapshot (s_fs s) d))); inversion H; subst; assumption.
  - inversion H; subst. assumption.
Qed.

Lemma step_valid : forall p tq d n s r fl s',
  Valid s -> step p tq d n s = (r, fl, s') -> fl = [] /\ Valid s'.
Proof.
  intros p tq d n s r fl s' V H. unfold step in H.
  destruct (refresh p d s) as [l s1] eqn:Er.
  pose proof (refresh_fs _ _ _ _ _ Er) as F1.
  destruct (refresh_valid _ _ _ _ _ V Er) as [A V1].
  set (k := find l (s_fs s1) d n) in *.
  destruct (match py_key k d n with Some pk => load p tq pk s1 | None => (None, [], s1) end)
    as [[py fl1] s2] eqn:E1.
  destruct (load p tq (stub_key k d n) s2) as [[stb fl2] s3] eqn:E2.
  inversion H; subst r fl s'. clear H.
  assert (X : fl1 = [] /\ Valid s2).
  { destruct (py_key k d n) as [pk|].
    - eapply load_valid; eauto.
    - inversion E1; subst. auto. }
  destruct X as [N1 V2].
  destruct (load_valid _ _ _ _ _ _ _ V2 E2) as [N2 V3].
  subst fl1 fl2. split; [|assumption].
  assert (Ek : kind_eqb k (find (snapshot (s_fs s1) d) (s_fs s1) d n) = true).
  { apply kind_eqb_eq. unfold k. rewrite F1. apply find_agrees. assumption. }
  rewrite Ek. reflexivity.
Qed.

Lemma step_bounded : forall hw p tq d n s r fl s',
  Bounded hw s -> (tq <= hw)%N -> step p tq d n s = (r, fl, s') -> Bounded hw s'.
Proof.
  intros hw p tq d n s r fl s' B Htq H. unfold step in H.
  destruct (refresh p d s) as [l s1] eqn:Er.
  pose proof (refresh_bounded hw _ _ _ _ _ B Er) as B1.
  set (k := find l (s_fs s1) d n) in *.
  destruct (match py_key k d n with Some pk => load p tq pk s1 | None => (None, [], s1) end)
    as [[py fl1] s2] eqn:E1.
  destruct (load p tq (stub_key k d n) s2) as [[stb fl2] s3] eqn:E2.
  inversion H; subst r fl s'. clear H.
  assert (B2 : Bounded hw s2).
  { destruct (py_key k d n) as [pk|].
    - eapply load_bounded; eauto.
    - inversion E1; subst. auto. }
  eapply load_bounded; eauto.
Qed.

Lemma mc_fresh_ok : forall fs mc, mc_fresh fs mc -> mc_ok fs mc.
Proof. intros fs mc H pre n r fl Hg _. apply H in Hg. tauto. Qed.

Lemma mc_fresh_add : forall fs mc pre n,
  mc_fresh fs mc -> mc_fresh fs ((pre ++ [n], (fresh_step fs pre n, [])) :: mc).
Proof.
  intros fs mc pre n Hmc pre' n' r' fl' Hg. simpl in Hg.
  destruct (dir_eqb (pre ++ [n]) (pre' ++ [n'])) eqn:E.
  - apply dir_eqb_eq in E. apply app_inj_tail in E. destruct E; subst. inversion Hg; subst. auto.
  - eapply Hmc; eauto.
Qed.

Lemma import_valid : forall p tq ch pre mc s r fl mc' s',
  Valid s -> mc_fresh (s_fs s) mc ->
  import_from p tq pre ch mc s = (r, fl, mc', s') ->
  fl = [] /\ r = fresh_from (s_fs s) pre ch /\ mc_fresh (s_fs s) mc' /\ Valid s' /\ s_fs s' = s_fs s.
Proof.
  intros p tq. induction ch as [|n rest IH]; intros pre mc s r fl mc' s' V Hmc H.
  - simpl in H. inversion H; subst. splits; auto.
  - simpl in H.
    destruct (match mc_get mc (pre ++ [n]) with
              | Some (r, fl) => (r, fl, mc, s)
              | None => let '(r, fl, s1) := step p tq pre n s in (r, fl, (pre ++ [n], (r, fl)) :: mc, s1)
              end) as [[[r1 fl1] mc1] s1] eqn:E1.
    assert (A : fl1 = [] /\ r1 = fresh_step (s_fs s) pre n /\ mc_fresh (s_fs s) mc1 /\
                Valid s1 /\ s_fs s1 = s_fs s).
    { destruct (mc_get mc (pre ++ [n])) as [[r0 fl0]|] eqn:Eg.
      - inversion E1; subst. apply Hmc in Eg. destruct Eg. splits; auto.
      - destruct (step p tq pre n s) as [[r0 fl0] s0] eqn:Es. inversion E1; subst.
        destruct (step_valid _ _ _ _ _ _ _ _ V Es) as [N0 V0].
        apply step_local in Es. destruct Es as [F G]. subst fl1.
        rewrite (G eq_refl). splits; auto. apply mc_fresh_add. assumption. }
    destruct A as [N1 [R1 [M1 [V1 F1]]]]. subst fl1.
    destruct rest as [|m rest'].
    + inversion H; subst. splits; auto.
    + change (fresh_from (s_fs s) pre (n :: m :: rest')) with
        (if is_container (fresh_step (s_fs s) pre n) then fresh_from (s_fs s) (pre ++ [n]) (m :: rest') else none_res).
      rewrite <- R1.
      destruct (is_container r1) eqn:Ec.
      * destruct (import_from p tq (pre ++ [n]) (m :: rest') mc1 s1) as [[[r2 fl2] mc2] s2] eqn:E2.
        inversion H; subst. rewrite <- F1 in M1.
        destruct (IH _ _ _ _ _ _ _ V1 M1 E2) as [N2 [R2 [M2 [V2 F2]]]].
        rewrite F1 in *. subst. splits; auto.
      * inversion H; subst. splits; auto.
Qed.

Lemma import_bounded : forall hw p tq ch pre mc s r fl mc' s',
  Bounded hw s -> (tq <= hw)%N ->
  import_from p tq pre ch mc s = (r, fl, mc', s') -> Bounded hw s'.
Proof.
  intros hw p tq. induction ch as [|n rest IH]; intros pre mc s r fl mc' s' B Htq H.
  - simpl in H. inversion H; subst. assumption.
  - simpl in H.
    destruct (match mc_get mc (pre ++ [n]) with
              | Some (r, fl) => (r, fl, mc, s)
              | None => let '(r, fl, s1) := step p tq pre n s in (r, fl, (pre ++ [n], (r, fl)) :: mc, s1)
              end) as [[[r1 fl1] mc1] s1] eqn:E1.
    assert (B1 : Bounded hw s1).
    { destruct (mc_get mc (pre ++ [n])) as [[r0 fl0]|] eqn:Eg.
      - inversion E1; subst. assumption.
      - destruct (step p tq pre n s) as [[r0 fl0] s0] eqn:Es. inversion E1; subst.
        eapply step_bounded; eauto. }
    destruct rest as [|m rest'].
    + inversion H; subst. assumption.
    + destruct (is_container r1).
      * destruct (import_from p tq (pre ++ [n]) (m :: rest') mc1 s1) as [[[r2 fl2] mc2] s2] eqn:E2.
        inversion H; subst. eapply IH; eauto.
      * inversion H; subst. assumption.
Qed.

Lemma query_valid : forall p tq chs mc s out mc' s',
  Valid s -> mc_fresh (s_fs s) mc ->
  query_mc p tq chs mc s = (out, mc', s') ->
  out = map (fun ch => (fresh_import (s_fs s) ch, @nil flag)) chs /\ Valid s' /\ s_fs s' = s_fs s.
Proof.
  intros p tq. induction chs as [|ch r IH]; intros mc s out mc' s' V Hmc H.
  - simpl in H. inversion H; subst. auto.
  - simpl in H.
    destruct (import_from p tq [] ch mc s) as [[[x fl] mc1] s1] eqn:E1.
    destruct (query_mc p tq r mc1 s1) as [[out2 mc2] s2] eqn:E2.
    inversion H; subst.
    destruct (import_valid _ _ _ _ _ _ _ _ _ _ V Hmc E1) as [N1 [R1 [M1 [V1 F1]]]].
    rewrite <- F1 in M1.
    destruct (IH _ _ _ _ _ V1 M1 E2) as [O2 [V2 F2]].
    rewrite F1 in *. subst. simpl. unfold fresh_import. auto.
Qed.

Lemma query_bounded : forall hw p tq chs mc s out mc' s',
  Bounded hw s -> (tq <= hw)%N ->
  query_mc p tq chs mc s = (out, mc', s') -> Bounded hw s'.
Proof.
  intros hw p tq. induction chs as [|ch r IH]; intros mc s out mc' s' B Htq H.
  - simpl in H. inversion H; subst. assumption.
  - simpl in H.
    destruct (import_from p tq [] ch mc s) as [[[x fl] mc1] s1] eqn:E1.
    destruct (query_mc p tq r mc1 s1) as [[out2 mc2] s2] eqn:E2.
    inversion H; subst.
    eapply IH; [| |exact E2]; [|assumption]. eapply import_bounded; eauto.
Qed.

Definition stamps (o : op) : list time :=
  match o with
  | OWrite _ _ tf td => [tf; td]
  | ODelete _ td => [td]
  | OMkDir _ _ ts td => [ts; td]
  | ORmDir _ _ td => [td]
  | _ => []
  end.

Definition same_dir (fs fs' : fsT) (d : dir) : Prop :=
  dirs fs' d = dirs fs d /\
  (forall n e, is_some (files fs' (d, n, e)) = is_some (files fs (d, n, e))) /\
  (forall n, is_some (dirs fs' (d ++ [n])) = is_some (dirs fs (d ++ [n]))).

Lemma app_snoc_neq : forall (d : dir) n, d ++ [n] <> d.
Proof.
  intros d n H. assert (L : length (d ++ [n]) = length d) by congruence.
  rewrite app_length in L. simpl in L. lia.
Qed.

Lemma is_prefix_nil_r : forall p, is_prefix p [] = true -> p = [].
Proof. destruct p; simpl; congruence. Qed.

Lemma is_prefix_snoc : forall sub d n,
  is_prefix sub (d ++ [n]) = true -> is_prefix sub d = true \/ sub = d ++ [n].
Proof.
  induction sub as [|x sub IH]; intros d n H.
  - left. reflexivity.
  - destruct d as [|y d]; simpl in H.
    + apply andb_true_iff in H. destruct H as [H1 H2]. apply N.eqb_eq in H1. apply is_prefix_nil_r in H2.
      subst. right. reflexivity.
    + apply andb_true_iff in H. destruct H as [H1 H2]. apply IH in H2. destruct H2 as [H2|H2].
      * left. simpl. rewrite H1, H2. reflexivity.
      * right. apply N.eqb_eq in H1. subst. reflexivity.
Qed.

Lemma touch_dir_is_some : forall ds d0 td d, is_some (touch_dir ds d0 td d) = is_some (ds d).
Proof.
  intros. unfold touch_dir. destruct (ds d0) eqn:E; [|reflexivity].
  unfold upd_dir. destruct (dir_eqb d0 d) eqn:Ed; [|reflexivity].
  apply dir_eqb_eq in Ed. subst. rewrite E. reflexivity.
Qed.

Lemma touch_dir_other : forall ds d0 td d, d <> d0 -> touch_dir ds d0 td d = ds d.
Proof.
  intros. unfold touch_dir. destruct (ds d0); [|reflexivity]. apply upd_dir_other. congruence.
Qed.

Lemma touch_dir_self : forall ds d0 td, touch_dir ds d0 td d0 = match ds d0 with Some _ => Some td | None => None end.
Proof.
  intros. unfold touch_dir. destruct (ds d0) eqn:E; [apply upd_dir_same | assumption].
Qed.

Lemma touch_dir_val : forall ds d0 td d t, touch_dir ds d0 td d = Some t -> ds d = Some t \/ t = td.
Proof.
  intros ds d0 td d t H. destruct (dir_dec d d0) as [E|E].
  - subst. rewrite touch_dir_self in H. destruct (ds d0); [inversion H; auto | discriminate].
  - rewrite touch_dir_other in H by assumption. auto.
Qed.

(* how a mutation changes what is known about files, directories and listings *)
Lemma apply_files : forall fs o k t c,
  files (fs_apply fs o) k = Some (t, c) -> files fs k = Some (t, c) \/ In t (stamps o).
Proof.
  intros fs o k t c H. destruct o as [[[d0 n0] e0] c0 tf td | [[d0 n0] e0] td | d0 n0 ts td | d0 n0 td | p | p tq chs];
    simpl in *; auto.
  - destruct (dirs fs d0); [|auto]. simpl in H. unfold upd_key in H.
    destruct (key_eqb (d0, n0, e0) k); [inversion H; auto | auto].
  - destruct (files fs (d0, n0, e0)); [|auto]. simpl in H. unfold upd_key in H.
    destruct (key_eqb (d0, n0, e0) k); [discriminate | auto].
  - destruct (dirs fs d0); [|auto]. destruct (dirs fs (d0 ++ [n0])); auto.
  - destruct (dirs fs (d0 ++ [n0])); [|auto]. simpl in H. destruct k as [[kd kn] ke].
    destruct (is_prefix (d0 ++ [n0]) kd); [discriminate | auto].
Qed.

Lemma apply_dirs : forall fs o d t,
  dirs (fs_apply fs o) d = Some t -> dirs fs d = Some t \/ In t (stamps o).
Proof.
  intros fs o d t H. destruct o as [[[d0 n0] e0] c0 tf td | [[d0 n0] e0] td | d0 n0 ts td | d0 n0 td | p | p tq chs];
    simpl in *; auto.
  - destruct (dirs fs d0) eqn:E0; [|auto]. simpl in H. destruct (files fs (d0, n0, e0)); [auto|].
    unfold upd_dir in H. destruct (dir_eqb d0 d); [inversion H; auto | auto].
  - destruct (files fs (d0, n0, e0)); [|auto]. simpl in H. apply touch_dir_val in H. destruct H as [H|H]; [auto | right; left; congruence].
  - destruct (dirs fs d0) eqn:E0; [|auto]. destruct (dirs fs (d0 ++ [n0])) eqn:E1; [auto|]. simpl in H.
    unfold upd_dir in H. destruct (dir_eqb (d0 ++ [n0]) d); [inversion H; auto|].
    destruct (dir_eqb d0 d); [inversion H; auto | auto].
  - destruct (dirs fs (d0 ++ [n0])); [|auto]. simpl in H.
    destruct (is_prefix (d0 ++ [n0]) d); [discriminate|]. apply touch_dir_val in H. destruct H as [H|H]; [auto | right; left; congruence].
Qed.

Lemma same_dir_refl : forall fs d, same_dir fs fs d.
Proof. intros. unfold same_dir. auto. Qed.

Lemma apply_tri : forall fs o d,
  same_dir fs (fs_apply fs o) d \/
  (exists t, dirs (fs_apply fs o) d = Some t /\ In t (stamps o)) \/
  dirs (fs_apply fs o) d = None.
Proof.
  intros fs o d. destruct o as [[[d0 n0] e0] c0 tf td | [[d0 n0] e0] td | d0 n0 ts td | d0 n0 td | p | p tq chs];
    simpl; try (left; apply same_dir_refl).
  - (* OWrite *)
    destruct (dirs fs d0) as [t0|] eqn:E0; [|left; apply same_dir_refl].
    destruct (files fs (d0, n0, e0)) as [v|] eqn:Ef.
    + left. unfold same_dir; simpl. splits; auto.
      intros n e. unfold upd_key. destruct (key_eqb (d0, n0, e0) (d, n, e)) eqn:Ek; [|reflexivity].
      apply key_eqb_eq in Ek. inversion Ek; subst. rewrite Ef. reflexivity.
    + destruct (dir_dec d d0) as [E|E].
      * subst. right. left. exists td. simpl. rewrite upd_dir_same. auto.
      * left. unfold same_dir; simpl. splits.
        -- apply upd_dir_other. congruence.
        -- intros n e. rewrite upd_key_other; [reflexivity|]. intro X. inversion X. congruence.
        -- intro n. unfold upd_dir. destruct (dir_eqb d0 (d ++ [n])) eqn:Ed; [|reflexivity].
           apply dir_eqb_eq in Ed. rewrite <- Ed. rewrite E0. reflexivity.
  - (* ODelete *)
    destruct (files fs (d0, n0, e0)) as [v|] eqn:Ef; [|left; apply same_dir_refl]. simpl.
    destruct (dir_dec d d0) as [E|E].
    + subst. rewrite touch_dir_self. destruct (dirs fs d0); [right; left; exists td; auto | right; right; reflexivity].
    + left. unfold same_dir; simpl. splits.
      * apply touch_dir_other. assumption.
      * intros n e. rewrite upd_key_other; [reflexivity|]. intro X. inversion X. congruence.
      * intro n. apply touch_dir_is_some.
  - (* OMkDir *)
    destruct (dirs fs d0) as [t0|] eqn:E0; [|left; apply same_dir_refl].
    destruct (dirs fs (d0 ++ [n0])) as [t1|] eqn:E1; [left; apply same_dir_refl|]. simpl.
    destruct (dir_dec d (d0 ++ [n0])) as [E|E].
    + subst. right. left. exists ts. rewrite upd_dir_same. auto.
    + destruct (dir_dec d d0) as [E'|E'].
      * subst. right. left. exists td. rewrite upd_dir_other by congruence. rewrite upd_dir_same. auto.
      * left. unfold same_dir; simpl. splits.
        -- rewrite upd_dir_other by congruence. apply upd_dir_other. congruence.
        -- auto.
        -- intro n. unfold upd_dir. destruct (dir_eqb (d0 ++ [n0]) (d ++ [n])) eqn:Ed.
           ++ apply dir_eqb_eq in Ed. apply app_inj_tail in Ed. destruct Ed. congruence.
           ++ destruct (dir_eqb d0 (d ++ [n])) eqn:Ed2; [|reflexivity].
              apply dir_eqb_eq in Ed2. rewrite <- Ed2. rewrite E0. reflexivity.
  - (* ORmDir *)
    destruct (dirs fs (d0 ++ [n0])) as [t1|] eqn:E1; [|left; apply same_dir_refl]. simpl.
    destruct (is_prefix (d0 ++ [n0]) d) eqn:Ep; [right; right; reflexivity|].
    destruct (dir_dec d d0) as [E|E].
    + subst. rewrite touch_dir_self. destruct (dirs fs d0); [right; left; exists td; auto | right; right; reflexivity].
    + left. unfold same_dir; simpl. rewrite Ep. splits.
      * apply touch_dir_other. assumption.
      * auto.
      * intro n. destruct (is_prefix (d0 ++ [n0]) (d ++ [n])) eqn:Ep2.
        -- apply is_prefix_snoc in Ep2. destruct Ep2 as [X|X]; [congruence|].
           apply app_inj_tail in X. destruct X. congruence.
        -- apply touch_dir_is_some.
Qed.

Lemma agrees_same_dir : forall l fs fs' d,
  same_dir fs fs' d -> listing_agrees l fs d -> listing_agrees l fs' d.
Proof.
  intros l fs fs' d [S1 [S2 S3]] [A1 A2]. unfold listing_agrees, snapshot in *. rewrite S1.
  destruct (dirs fs d); simpl in *; split; intros; rewrite ?A1, ?A2; auto.
Qed.

Lemma Valid_mut : forall hw s o,
  Valid s -> Bounded hw s -> (forall t, In t (stamps o) -> (hw < t)%N) ->
  Valid (with_fs s (fs_apply (s_fs s) o)).
Proof.
  intros hw s o [M [P [D D2]]] [B1 [B2 [B3 [B4 B5]]]] Hs. unfold Valid, with_fs; simpl. splits.
  - intros p k ct cc pt c Hm Hf Hle. apply apply_files in Hf. destruct Hf as [Hf|Hf].
    + eapply M; eauto.
    + apply Hs in Hf. apply B3 in Hm. lia.
  - intros k pkt ct cc pt c Hp Hf Hle. apply apply_files in Hf. destruct Hf as [Hf|Hf].
    + eapply P; eauto.
    + apply Hs in Hf. apply B4 in Hp. lia.
  - intros p d l Hd Ht. destruct (apply_tri (s_fs s) o d) as [S|[[t [S1 S2]]|S]].
    + eapply agrees_same_dir; eauto. eapply D; eauto. destruct S as [S1 _]. congruence.
    + rewrite S1 in Ht. apply Hs in S2. eapply B5 in Hd; eauto. lia.
    + rewrite S in Ht. destruct (D2 _ _ _ Hd Ht) as [X1 X2].
      unfold listing_agrees, snapshot. rewrite S. simpl. split; auto.
  - assumption.
Qed.

Lemma Bounded_mut : forall hw hw' s o,
  Bounded hw s -> (hw <= hw')%N -> (forall t, In t (stamps o) -> (t <= hw')%N) ->
  Bounded hw' (with_fs s (fs_apply (s_fs s) o)).
Proof.
  intros hw hw' s o [B1 [B2 [B3 [B4 B5]]]] Hle Hs. unfold Bounded, with_fs; simpl. splits.
  - intros k t c Hf. apply apply_files in Hf. destruct Hf as [Hf|Hf]; [apply B1 in Hf; lia | auto].
  - intros d t Hd. apply apply_dirs in Hd. destruct Hd as [Hd|Hd]; [apply B2 in Hd; lia | auto].
  - intros p k ct cc Hm. apply B3 in Hm. lia.
  - intros k pkt ct cc Hp. apply B4 in Hp. lia.
  - intros p d l t Hd Ht. eapply B5 in Hd; eauto. lia.
Qed.

Lemma Valid_new_proc : forall s p, Valid s -> Valid (new_proc s p).
Proof.
  intros s p [M [P [D D2]]]. unfold Valid, new_proc; simpl. splits; auto.
  - intros p' k ct cc pt c Hm. unfold upd_pid in Hm. destruct (N.eqb p p'); [discriminate|]. eapply M; eauto.
  - intros p' d l Hd. unfold upd_pid in Hd. destruct (N.eqb p p'); [discriminate|]. eapply D; eauto.
  - intros p' d l Hd. unfold upd_pid in Hd. destruct (N.eqb p p'); [discriminate|]. eapply D2; eauto.
Qed.

Lemma Bounded_new_proc : forall hw s p, Bounded hw s -> Bounded hw (new_proc s p).
Proof.
  intros hw s p [B1 [B2 [B3 [B4 B5]]]]. unfold Bounded, new_proc; simpl. splits; auto.
  - intros p' k ct cc Hm. unfold upd_pid in Hm. destruct (N.eqb p p'); [discriminate|]. eapply B3; eauto.
  - intros p' d l t Hd. unfold upd_pid in Hd. destruct (N.eqb p p'); [discriminate|]. eapply B5; eauto.
Qed.

Lemma Valid_cold : forall fs, Valid (cold fs).
Proof. intro fs. unfold Valid, cold; simpl. splits; intros; discriminate. Qed.

Lemma Bounded_init : forall t0, Bounded t0 (init_st t0).
Proof.
  intro t0. unfold Bounded, init_st, cold, init_fs; simpl. splits; intros; try discriminate.
  destruct d; [inversion H; lia | discriminate].
Qed.

Lemma mc_fresh_nil : forall fs, mc_fresh fs [].
Proof. intros fs pre n r fl H. simpl in H. discriminate. Qed.

(* ------------------------------------------------------------------ main theorem *)
Lemma run_spec : forall h s hw,
  Valid s -> Bounded hw s -> monotone hw h = true ->
  run s h = spec_run (s_fs s) h.
Proof.
  induction h as [|o r IH]; intros s hw V B Hm; [reflexivity|].
  destruct o as [k c tf td | k td | d n ts td | d n td | p | p tq chs].
  - simpl in Hm. apply andb_true_iff in Hm. destruct Hm as [Hm H3]. apply andb_true_iff in Hm. destruct Hm as [H1 H2].
    apply N.ltb_lt in H1, H2.
    change (run s (OWrite k c tf td :: r)) with
      ([] :: run (with_fs s (fs_apply (s_fs s) (OWrite k c tf td))) r).
    change (spec_run (s_fs s) (OWrite k c tf td :: r)) with
      ([] :: spec_run (s_fs (with_fs s (fs_apply (s_fs s) (OWrite k c tf td)))) r).
    f_equal. apply (IH _ (N.max tf td)); [| |assumption].
    + apply (Valid_mut hw); auto. simpl. intros t [X|[X|[]]]; subst; assumption.
    + apply (Bounded_mut hw); auto; [lia|]. simpl. intros t [X|[X|[]]]; subst; lia.
  - simpl in Hm. apply andb_true_iff in Hm. destruct Hm as [H1 H3]. apply N.ltb_lt in H1.
    change (run s (ODelete k td :: r)) with ([] :: run (with_fs s (fs_apply (s_fs s) (ODelete k td))) r).
    change (spec_run (s_fs s) (ODelete k td :: r)) with ([] :: spec_run (s_fs (with_fs s (fs_apply (s_fs s) (ODelete k td)))) r).
    f_equal. apply (IH _ td); [| |assumption].
    + apply (Valid_mut hw); auto. simpl. intros t [X|[]]; subst; assumption.
    + apply (Bounded_mut hw); auto; [lia|]. simpl. intros t [X|[]]; subst; lia.
  - simpl in Hm. apply andb_true_iff in Hm. destruct Hm as [Hm H3]. apply andb_true_iff in Hm. destruct Hm as [H1 H2].
    apply N.ltb_lt in H1, H2.
    change (run s (OMkDir d n ts td :: r)) with ([] :: run (with_fs s (fs_apply (s_fs s) (OMkDir d n ts td))) r).
    change (spec_run (s_fs s) (OMkDir d n ts td :: r)) with ([] :: spec_run (s_fs (with_fs s (fs_apply (s_fs s) (OMkDir d n ts td)))) r).
    f_equal. apply (IH _ (N.max ts td)); [| |assumption].
    + apply (Valid_mut hw); auto. simpl. intros t [X|[X|[]]]; subst; assumption.
    + apply (Bounded_mut hw); auto; [lia|]. simpl. intros t [X|[X|[]]]; subst; lia.
  - simpl in Hm. apply andb_true_iff in Hm. destruct Hm as [H1 H3]. apply N.ltb_lt in H1.
    change (run s (ORmDir d n td :: r)) with ([] :: run (with_fs s (fs_apply (s_fs s) (ORmDir d n td))) r).
    change (spec_run (s_fs s) (ORmDir d n td :: r)) with ([] :: spec_run (s_fs (with_fs s (fs_apply (s_fs s) (ORmDir d n td)))) r).
    f_equal. apply (IH _ td); [| |assumption].
    + apply (Valid_mut hw); auto. simpl. intros t [X|[]]; subst; assumption.
    + apply (Bounded_mut hw); auto; [lia|]. simpl. intros t [X|[]]; subst; lia.
  - simpl in Hm.
    change (run s (ONewProc p :: r)) with ([] :: run (new_proc s p) r).
    change (spec_run (s_fs s) (ONewProc p :: r)) with ([] :: spec_run (s_fs (new_proc s p)) r).
    f_equal. apply (IH _ hw); [apply Valid_new_proc | apply Bounded_new_proc | ]; assumption.
  - simpl in Hm. simpl.
    destruct (query_mc p tq chs [] s) as [[out mc1] s1] eqn:Eq.
    assert (B' : Bounded (N.max hw tq) s) by (eapply Bounded_mono; eauto; lia).
    assert (Htq : (tq <= N.max hw tq)%N) by lia.
    destruct (query_valid _ _ _ _ _ _ _ _ V (mc_fresh_nil _) Eq) as [O [V1 F1]].
    pose proof (query_bounded _ _ _ _ _ _ _ _ _ B' Htq Eq) as B1.
    subst out. f_equal. rewrite <- F1. apply (IH _ (N.max hw tq)); assumption.
Qed.

Lemma fresh_under_monotone_time_any : forall s hw h,
  Valid s -> Bounded hw s -> monotone hw h = true -> run s h = spec_run (s_fs s) h.
Proof. intros. eapply run_spec; eauto. Qed.

Lemma fresh_under_monotone_time : forall t0 h,
  monotone t0 h = true -> run (init_st t0) h = spec_run (init_fs t0) h.
Proof.
  intros t0 h H. apply (run_spec h (init_st t0) t0); [apply Valid_cold | apply Bounded_init | assumption].
Qed.

Lemma empty_cache_run_is_fresh : forall fs p tq chs,
  snd (exec (cold fs) (OQuery p tq chs)) = map (fun ch => (fresh_import fs ch, @nil flag)) chs.
Proof.
  intros fs p tq chs. simpl.
  destruct (query_mc p tq chs [] (cold fs)) as [[out mc1] s1] eqn:Eq.
  destruct (query_valid _ _ _ _ _ _ _ _ (Valid_cold fs) (mc_fresh_nil _) Eq) as [O _]. exact O.
Qed.

Lemma module_cache_per_script : forall s p tq chs mc0,
  Valid s -> mc_fresh (s_fs s) mc0 ->
  fst (fst (query_mc p tq chs mc0 s)) = map (fun ch => (fresh_import (s_fs s) ch, @nil flag)) chs.
Proof.
  intros s p tq chs mc0 V M.
  destruct (query_mc p tq chs mc0 s) as [[out mc1] s1] eqn:Eq.
  destruct (query_valid _ _ _ _ _ _ _ _ V M Eq) as [O _]. exact O.
Qed.

Definition explained2 (x f : res * list flag) : Prop := snd x = [] -> fst x = fst f.

Lemma Forall2_map_r : forall A B C (P : B -> C -> Prop) (f : A -> C) (Q : A -> B -> Prop) l1 l2,
  Forall2 Q l1 l2 -> (forall a b, Q a b -> P b (f a)) -> Forall2 P l2 (map f l1).
Proof. intros A B C P f Q l1 l2 H HP. induction H; simpl; constructor; auto. Qed.

Lemma mc_ok_nil : forall fs, mc_ok fs [].
Proof. intros fs pre n r fl H. simpl in H. discriminate. Qed.

Lemma stale_only_when_classified : forall h s,
  Forall2 (Forall2 explained2) (run s h) (spec_run (s_fs s) h).
Proof.
  induction h as [|o r IH]; intro s; [constructor|].
  destruct o as [k c tf td | k td | d n ts td | d n td | p | p tq chs].
  - change (run s (OWrite k c tf td :: r)) with ([] :: run (with_fs s (fs_apply (s_fs s) (OWrite k c tf td))) r).
    change (spec_run (s_fs s) (OWrite k c tf td :: r)) with ([] :: spec_run (s_fs (with_fs s (fs_apply (s_fs s) (OWrite k c tf td)))) r).
    constructor; [constructor | apply IH].
  - change (run s (ODelete k td :: r)) with ([] :: run (with_fs s (fs_apply (s_fs s) (ODelete k td))) r).
    change (spec_run (s_fs s) (ODelete k td :: r)) with ([] :: spec_run (s_fs (with_fs s (fs_apply (s_fs s) (ODelete k td)))) r).
    constructor; [constructor | apply IH].
  - change (run s (OMkDir d n ts td :: r)) with ([] :: run (with_fs s (fs_apply (s_fs s) (OMkDir d n ts td))) r).
    change (spec_run (s_fs s) (OMkDir d n ts td :: r)) with ([] :: spec_run (s_fs (with_fs s (fs_apply (s_fs s) (OMkDir d n ts td)))) r).
    constructor; [constructor | apply IH].
  - change (run s (ORmDir d n td :: r)) with ([] :: run (with_fs s (fs_apply (s_fs s) (ORmDir d n td))) r).
    change (spec_run (s_fs s) (ORmDir d n td :: r)) with ([] :: spec_run (s_fs (with_fs s (fs_apply (s_fs s) (ORmDir d n td)))) r).
    constructor; [constructor | apply IH].
  - change (run s (ONewProc p :: r)) with ([] :: run (new_proc s p) r).
    change (spec_run (s_fs s) (ONewProc p :: r)) with ([] :: spec_run (s_fs (new_proc s p)) r).
    constructor; [constructor | apply IH].
  - simpl. destruct (query_mc p tq chs [] s) as [[out mc1] s1] eqn:Eq.
    destruct (query_local _ _ _ _ _ _ _ _ Eq (mc_ok_nil _)) as [F [_ G]].
    constructor.
    + eapply Forall2_map_r; [exact G|]. intros a b Hab. unfold explained2, explained in *. simpl. exact Hab.
    + rewrite <- F. apply IH.
Qed.

(* ------------------------------------------------------------------ refutations (computed) *)
Local Open Scope N_scope.
Definition m1 : key := ([], 1, Py).
Definition w_same_mtime : list op :=
  [OWrite m1 10 5 5; OQuery 0 6 [[1]]; OWrite m1 11 5 5; OQuery 0 7 [[1]]].
Definition w_dir_unchanged : list op :=
  [OQuery 0 2 [[1]]; OWrite m1 10 9 1; OQuery 0 10 [[1]]].
Definition w_not_after_pickle : list op :=
  [OWrite m1 10 5 5; OQuery 0 100 [[1]]; OWrite m1 11 50 5; ONewProc 1; OQuery 1 101 [[1]]; OQuery 0 102 [[1]]].
Definition w_shared_mc : list op :=
  [OWrite m1 10 5 5; OQuery 0 6 [[1]]; OWrite m1 11 8 9; OQuery 0 10 [[1]]].

Lemma stale_without_monotone_refuted :
  (run (init_st 1) w_same_mtime = [[]; [((KMod, Some 10, None), [])]; []; [((KMod, Some 10, None), [F_MEM])]]
   /\ spec_run (init_fs 1) w_same_mtime = [[]; [((KMod, Some 10, None), [])]; []; [((KMod, Some 11, None), [])]])
  /\ (run (init_st 1) w_dir_unchanged = [[(none_res, [])]; []; [(none_res, [F_DIR])]]
   /\ spec_run (init_fs 1) w_dir_unchanged = [[(none_res, [])]; []; [((KMod, Some 10, None), [])]])
  /\ (run (init_st 1) w_not_after_pickle =
        [[]; [((KMod, Some 10, None), [])]; []; []; [((KMod, Some 10, None), [F_PK_BETWEEN])]; [((KMod, Some 11, None), [])]]
   /\ spec_run (init_fs 1) w_not_after_pickle =
        [[]; [((KMod, Some 10, None), [])]; []; []; [((KMod, Some 11, None), [])]; [((KMod, Some 11, None), [])]]).
Proof. vm_compute. repeat split. Qed.

Lemma shared_module_cache_refuted :
  monotone 1 w_shared_mc = true /\
  run (init_st 1) w_shared_mc = spec_run (init_fs 1) w_shared_mc /\
  run_shared_mc (init_st 1) (fun _ => []) w_shared_mc <> spec_run (init_fs 1) w_shared_mc.
Proof.
  split; [vm_compute; reflexivity|]. split; [vm_compute; reflexivity|].
  intro H. vm_compute in H. discriminate H.
Qed.
