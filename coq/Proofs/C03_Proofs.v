From JV Require Import Model.C03_Resolve.

(* a chain is well formed when its last frame, and only that one, is the module *)
Fixpoint wf_chain (c : chain) : bool :=
  match c with
  | [] => false
  | f :: rest =>
      match rest with
      | [] => match f_kind f with Module => true | _ => false end
      | _ :: _ => match f_kind f with Module => false | _ => wf_chain rest end
      end
  end.

Lemma wf_module_last f rest : wf_chain (f :: rest) = true -> f_kind f = Module -> rest = [].
Proof. destruct rest; simpl; auto. intros H E. rewrite E in H. discriminate. Qed.

Lemma wf_tail f g rest : wf_chain (f :: g :: rest) = true -> wf_chain (g :: rest) = true.
Proof. simpl. destruct (f_kind f); auto; discriminate. Qed.

Lemma last_such_some p l d : last_such p l = Some d -> In d l /\ p d = true.
Proof.
  revert d; induction l as [|o r IH]; simpl; intros d H; [discriminate|].
  destruct (last_such p r) as [o'|] eqn:E.
  - inversion H; subst. destruct (IH d eq_refl). auto.
  - destruct (p o) eqn:Ep; inversion H; subst. auto.
Qed.

Lemma last_such_exists p l : existsb p l = true -> exists d, last_such p l = Some d.
Proof.
  induction l as [|o r IH]; simpl; [discriminate|].
  intro H. destruct (last_such p r) as [o'|] eqn:E; [eauto|].
  destruct (p o) eqn:Ep; [eauto|]. simpl in H. destruct (IH H) as [d Hd]. discriminate.
Qed.

(* nothing visible after the one found *)
Lemma last_such_last p l d :
  last_such p l = Some d -> exists pre post, l = pre ++ d :: post /\ forallb (fun o => negb (p o)) post = true.
Proof.
  revert d; induction l as [|o r IH]; simpl; intros d H; [discriminate|].
  destruct (last_such p r) as [o'|] eqn:E.
  - inversion H; subst. destruct (IH d eq_refl) as [pre [post [-> Hp]]].
    exists (o :: pre), post. auto.
  - destruct (p o) eqn:Ep; inversion H; subst.
    exists [], r. split; [reflexivity|].
    clear -E. induction r as [|a r IH]; simpl; auto.
    simpl in E. destruct (last_such p r); [discriminate|]. destruct (p a); [discriminate|]. simpl. auto.
Qed.

Lemma visible_bind x lim o : visible x lim o = true -> is Bind x o = true.
Proof. unfold visible. intro H. apply andb_true_iff in H. tauto. Qed.

Lemma is_name r x o : is r x o = true -> o_name o = x /\ o_role o = r.
Proof.
  unfold is. intro H. apply andb_true_iff in H as [H1 H2]. apply N.eqb_eq in H2. split; auto.
  destruct (o_role o), r; simpl in H1; congruence.
Qed.

Lemma existsb_weaken {A} (p q : A -> bool) l :
  (forall a, p a = true -> q a = true) -> existsb p l = true -> existsb q l = true.
Proof.
  intros Hpq. induction l as [|a l IH]; simpl; auto. intro H. apply orb_true_iff in H as [H|H].
  - rewrite (Hpq a H). reflexivity.
  - rewrite (IH H). apply orb_true_r.
Qed.

Lemma not_bound_no_find x lim f : bound x f = false -> ctx_find x lim f = None.
Proof.
  unfold ctx_find, bound. intro H.
  destruct (last_such _ (f_occs f)) as [d|] eqn:E; [|reflexivity].
  apply last_such_some in E as [Hin Hv]. apply visible_bind in Hv.
  assert (existsb (is Bind x) (f_occs f) = true) by (apply existsb_exists; eauto). congruence.
Qed.

Section X.
Variable x : N.
Variable gd : bool.

Definition NoD (c : chain) : Prop := forallb (no_decl x) c = true.

Lemma NoD_cons f rest : NoD (f :: rest) -> declg x f = false /\ decln x f = false /\ NoD rest.
Proof.
  unfold NoD. simpl. intro H. apply andb_true_iff in H as [H1 H2].
  unfold no_decl in H1. apply andb_true_iff in H1 as [Ha Hb].
  apply negb_true_iff in Ha, Hb. auto.
Qed.

Lemma efb_cons f rest :
  NoD (f :: rest) ->
  efb x (f :: rest) = if funclike (f_kind f) && bound x f then Some (length (f :: rest)) else efb x rest.
Proof.
  intro H. apply NoD_cons in H as [Hg [Hn _]]. cbn [efb]. rewrite Hg, Hn. simpl negb.
  rewrite !andb_true_r, andb_false_r. reflexivity.
Qed.

(* what jedi found: a binding occurrence of x in the frame at depth dep, or (module level)
   only `global x` statements *)
Definition found_ok (c : chain) (dep : nat) (od : option occ) : Prop :=
  match od with
  | Some d => exists pre f rest, c = pre ++ f :: rest /\ length (f :: rest) = dep /\
                                 In d (f_occs f) /\ is Bind x d = true
  | None => dep = 1
  end.

Lemma found_ok_cons f c dep od : found_ok c dep od -> found_ok (f :: c) dep od.
Proof.
  destruct od as [d|]; simpl; auto.
  intros [pre [g [rest [-> H]]]]. exists (f :: pre), g, rest. auto.
Qed.

Lemma found_here f rest d :
  In d (f_occs f) -> is Bind x d = true -> found_ok (f :: rest) (length (f :: rest)) (Some d).
Proof. intros. exists [], f, rest. auto. Qed.

Lemma ctx_find_in lim f d : ctx_find x lim f = Some d -> In d (f_occs f) /\ is Bind x d = true.
Proof.
  unfold ctx_find. intro H. apply last_such_some in H as [H1 H2]. apply visible_bind in H2. auto.
Qed.

(* the walk beyond the scope of the use *)
Lemma tail_walk c :
  forall lim skip dep od,
  wf_chain c = true -> NoD c -> frag_walk x c lim false skip = true ->
  jedi_find x gd c lim skip = Some (dep, od) ->
  dep = or_module (efb x c) /\ found_ok c dep od.
Proof.
  induction c as [|f rest IH]; intros lim skip dep od Hwf Hnd Hfr Hj; [discriminate|].
  pose proof (efb_cons f rest Hnd) as Hefb.
  destruct (NoD_cons _ _ Hnd) as [_ [_ Hnd']].
  assert (Hwf' : rest <> [] -> wf_chain rest = true).
  { destruct rest as [|g r]; [congruence|]. intros _. eapply wf_tail; eauto. }
  cbn [jedi_find frag_walk] in Hj, Hfr.
  destruct (f_kind f) eqn:Ek.
  - (* Module *)
    pose proof (wf_module_last _ _ Hwf Ek) as ->.
    rewrite Hefb. simpl funclike. simpl andb. simpl efb. simpl or_module.
    assert (Hj' : match ctx_find x lim f with
                  | Some d => Some (1, Some d) | None => if gd then Some (1, None) else None end = Some (dep, od))
      by (destruct skip; exact Hj).
    destruct (ctx_find x lim f) as [d|] eqn:Ec.
    + inversion Hj'; subst. split; [reflexivity|]. apply ctx_find_in in Ec as [H1 H2].
      apply (found_here f [] d H1 H2).
    + destruct gd; inversion Hj'; subst. split; reflexivity.
  - (* Def *)
    assert (Hj' : match ctx_find x lim f with
                  | Some d => Some (length (f :: rest), Some d) | None => jedi_find x gd rest None true end = Some (dep, od))
      by (destruct skip; exact Hj).
    assert (Hfr' : (if bound x f then existsb (visible x lim) (f_occs f) else frag_walk x rest None false true) = true)
      by (destruct skip; exact Hfr).
    rewrite Hefb. simpl funclike. simpl andb.
    destruct (bound x f) eqn:Eb.
    + apply last_such_exists in Hfr' as [d Hd].
      unfold ctx_find in Hj'. rewrite Ek in Hj'. rewrite Hd in Hj'. inversion Hj'; subst.
      split; [reflexivity|]. apply last_such_some in Hd as [H1 H2]. apply visible_bind in H2.
      apply found_here; assumption.
    + rewrite (not_bound_no_find x lim f Eb) in Hj'.
      destruct rest as [|g r]; [discriminate|].
      destruct (IH None true dep od (Hwf' ltac:(discriminate)) Hnd' Hfr' Hj') as [H1 H2].
      split; [exact H1 | apply found_ok_cons; exact H2].
  - (* Lam *)
    assert (Hj' : match ctx_find x lim f with
                  | Some d => Some (length (f :: rest), Some d) | None => jedi_find x gd rest None true end = Some (dep, od))
      by (destruct skip; exact Hj).
    assert (Hfr' : (if bound x f then existsb (visible x lim) (f_occs f) else frag_walk x rest None false true) = true)
      by (destruct skip; exact Hfr).
    rewrite Hefb. simpl funclike. simpl andb.
    destruct (bound x f) eqn:Eb.
    + apply last_such_exists in Hfr' as [d Hd].
      unfold ctx_find in Hj'. rewrite Ek in Hj'. rewrite Hd in Hj'. inversion Hj'; subst.
      split; [reflexivity|]. apply last_such_some in Hd as [H1 H2]. apply visible_bind in H2.
      apply found_here; assumption.
    + rewrite (not_bound_no_find x lim f Eb) in Hj'.
      destruct rest as [|g r]; [discriminate|].
      destruct (IH None true dep od (Hwf' ltac:(discriminate)) Hnd' Hfr' Hj') as [H1 H2].
      split; [exact H1 | apply found_ok_cons; exact H2].
  - (* Comp *)
    assert (Hj' : match ctx_find x lim f with
                  | Some d => Some (length (f :: rest), Some d) | None => jedi_find x gd rest lim false end = Some (dep, od))
      by (destruct skip; exact Hj).
    assert (Hfr' : (if bound x f then true else frag_walk x rest lim false false) = true)
      by (destruct skip; exact Hfr).
    rewrite Hefb. simpl funclike. simpl andb.
    destruct (bound x f) eqn:Eb.
    + assert (He : existsb (visible x None) (f_occs f) = true).
      { unfold bound in Eb. eapply existsb_weaken; [|exact Eb]. intros a Ha. unfold visible. rewrite Ha. reflexivity. }
      apply last_such_exists in He as [d Hd].
      unfold ctx_find in Hj'. rewrite Ek in Hj'. rewrite Hd in Hj'. inversion Hj'; subst.
      split; [reflexivity|]. apply last_such_some in Hd as [H1 H2]. apply visible_bind in H2.
      apply found_here; assumption.
    + rewrite (not_bound_no_find x lim f Eb) in Hj'.
      destruct rest as [|g r]; [discriminate|].
      destruct (IH lim false dep od (Hwf' ltac:(discriminate)) Hnd' Hfr' Hj') as [H1 H2].
      split; [exact H1 | apply found_ok_cons; exact H2].
  - (* Class *)
    rewrite Hefb. simpl funclike. simpl andb.
    destruct skip.
    + destruct rest as [|g r]; [discriminate|].
      destruct (IH lim true dep od (Hwf' ltac:(discriminate)) Hnd' Hfr Hj) as [H1 H2].
      split; [exact H1 | apply found_ok_cons; exact H2].
    + apply andb_true_iff in Hfr as [Hb Hfr']. apply negb_true_iff in Hb.
      rewrite (not_bound_no_find x lim f Hb) in Hj.
      destruct rest as [|g r]; [discriminate|].
      destruct (IH lim false dep od (Hwf' ltac:(discriminate)) Hnd' Hfr' Hj) as [H1 H2].
      split; [exact H1 | apply found_ok_cons; exact H2].
Qed.

End X.

(* the scope written by a binding found in frame f of the chain *)
Lemma bind_scope_found x c pre f rest d :
  wf_chain c = true -> NoD x c -> c = pre ++ f :: rest ->
  is Bind x d = true ->
  bind_scope (f :: rest) d = Some (length (f :: rest)).
Proof.
  intros Hwf Hnd -> Hb. apply is_name in Hb as [Hn _].
  assert (Hnd' : NoD x (f :: rest)).
  { unfold NoD in *. rewrite forallb_app in Hnd. apply andb_true_iff in Hnd. tauto. }
  assert (Hwf' : wf_chain (f :: rest) = true).
  { clear -Hwf. induction pre as [|a pre IH]; [exact Hwf|]. apply IH.
    destruct pre as [|b pre']; simpl app in *; eapply wf_tail; eauto. }
  apply NoD_cons in Hnd' as [Hg [Hn' _]].
  unfold bind_scope. rewrite Hn. rewrite Hg, Hn'.
  destruct (f_kind f) eqn:Ek; try reflexivity.
  rewrite (wf_module_last _ _ Hwf' Ek). reflexivity.
Qed.

(* ---- main statement ---- *)

Definition result_ok (c : chain) (u : occ) (dep : nat) (od : option occ) : Prop :=
  match od with
  | Some d => o_name d = o_name u /\ o_role d = Bind /\
              exists pre f rest, c = pre ++ f :: rest /\ length (f :: rest) = dep /\
                                 In d (f_occs f) /\ bind_scope (f :: rest) d = Some dep
  | None => dep = 1
  end.

Lemma found_ok_result c u dep od :
  wf_chain c = true -> NoD (o_name u) c -> found_ok (o_name u) c dep od -> result_ok c u dep od.
Proof.
  intros Hwf Hnd. destruct od as [d|]; simpl; auto.
  intros [pre [f [rest [Hc [Hl [Hin Hb]]]]]].
  destruct (is_name _ _ _ Hb) as [Hn Hr]. split; [exact Hn|]. split; [exact Hr|].
  exists pre, f, rest. split; [exact Hc|]. split; [exact Hl|]. split; [exact Hin|].
  rewrite <- Hl. eapply bind_scope_found; eauto.
Qed.

Lemma goto_in_python_scope c u gd dep od :
  wf_chain c = true -> in_fragment c u = true ->
  jedi_find (o_name u) gd c (Some (o_id u)) false = Some (dep, od) ->
  py_scope c u = Some dep /\ result_ok c u dep od.
Proof.
  intros Hwf Hfrag Hj. unfold in_fragment in Hfrag. apply andb_true_iff in Hfrag as [Hnd Hfr].
  set (x := o_name u) in *.
  destruct c as [|f rest]; [discriminate|].
  assert (Hres : forall dep od, found_ok x (f :: rest) dep od -> result_ok (f :: rest) u dep od)
    by (intros; apply found_ok_result; assumption).
  destruct (NoD_cons x _ _ Hnd) as [Hg [Hn Hnd']].
  assert (Hwf' : rest <> [] -> wf_chain rest = true).
  { destruct rest as [|g r]; [congruence|]. intros _. eapply wf_tail; eauto. }
  unfold py_scope. fold x. rewrite Hg, Hn.
  cbn [jedi_find frag_walk] in Hj, Hfr.
  destruct (f_kind f) eqn:Ek; simpl funclike; cbv iota.
  - (* Module *)
    pose proof (wf_module_last _ _ Hwf Ek) as ->.
    destruct (ctx_find x (Some (o_id u)) f) as [d|] eqn:Ec.
    + inversion Hj; subst. split; [reflexivity|]. apply Hres.
      apply ctx_find_in in Ec as [H1 H2]. apply (found_here x f [] d H1 H2).
    + destruct gd; inversion Hj; subst. split; [reflexivity|]. reflexivity.
  - (* Def *)
    destruct (bound x f) eqn:Eb.
    + apply last_such_exists in Hfr as [d Hd].
      unfold ctx_find in Hj. rewrite Ek in Hj. rewrite Hd in Hj. inversion Hj; subst.
      split; [reflexivity|]. apply Hres. apply last_such_some in Hd as [H1 H2]. apply visible_bind in H2.
      apply found_here; assumption.
    + rewrite (not_bound_no_find x _ f Eb) in Hj.
      destruct rest as [|g r]; [discriminate|].
      destruct (tail_walk x gd (g :: r) None true dep od (Hwf' ltac:(discriminate)) Hnd' Hfr Hj) as [H1 H2].
      split; [rewrite H1; reflexivity | apply Hres, found_ok_cons; exact H2].
  - (* Lam *)
    destruct (bound x f) eqn:Eb.
    + apply last_such_exists in Hfr as [d Hd].
      unfold ctx_find in Hj. rewrite Ek in Hj. rewrite Hd in Hj. inversion Hj; subst.
      split; [reflexivity|]. apply Hres. apply last_such_some in Hd as [H1 H2]. apply visible_bind in H2.
      apply found_here; assumption.
    + rewrite (not_bound_no_find x _ f Eb) in Hj.
      destruct rest as [|g r]; [discriminate|].
      destruct (tail_walk x gd (g :: r) None true dep od (Hwf' ltac:(discriminate)) Hnd' Hfr Hj) as [H1 H2].
      split; [rewrite H1; reflexivity | apply Hres, found_ok_cons; exact H2].
  - (* Comp *)
    destruct (bound x f) eqn:Eb.
    + assert (He : existsb (visible x None) (f_occs f) = true).
      { unfold bound in Eb. eapply existsb_weaken; [|exact Eb]. intros a Ha. unfold visible. rewrite Ha. reflexivity. }
      apply last_such_exists in He as [d Hd].
      unfold ctx_find in Hj. rewrite Ek in Hj. rewrite Hd in Hj. inversion Hj; subst.
      split; [reflexivity|]. apply Hres. apply last_such_some in Hd as [H1 H2]. apply visible_bind in H2.
      apply found_here; assumption.
    + rewrite (not_bound_no_find x _ f Eb) in Hj.
      destruct rest as [|g r]; [discriminate|].
      destruct (tail_walk x gd (g :: r) _ false dep od (Hwf' ltac:(discriminate)) Hnd' Hfr Hj) as [H1 H2].
      split; [rewrite H1; reflexivity | apply Hres, found_ok_cons; exact H2].
  - (* Class: the class body that contains the use *)
    destruct (bound x f) eqn:Eb.
    + assert (Hbb : bound_before x (o_id u) f = true) by exact Hfr.
      rewrite Hbb.
      apply last_such_exists in Hfr as [d Hd].
      unfold ctx_find in Hj. rewrite Ek in Hj. rewrite Hd in Hj. inversion Hj; subst.
      split; [reflexivity|]. apply Hres. apply last_such_some in Hd as [H1 H2]. apply visible_bind in H2.
      apply found_here; assumption.
    + rewrite (not_bound_no_find x _ f Eb) in Hj.
      destruct rest as [|g r]; [discriminate|].
      destruct (tail_walk x gd (g :: r) _ false dep od (Hwf' ltac:(discriminate)) Hnd' Hfr Hj) as [H1 H2].
      split; [rewrite H1; reflexivity | apply Hres, found_ok_cons; exact H2].
Qed.

(* ---- the list Script.goto returns ---- *)

Lemma insert_occ_in e d l : In e (insert_occ d l) <-> e = d \/ In e l.
Proof.
  induction l as [|a r IH]; simpl; [intuition|].
  destruct (N.leb (o_id d) (o_id a)); simpl; [intuition|]. rewrite IH. intuition.
Qed.

Lemma global_decls_in x p e : In e (global_decls x p) -> o_name e = x /\ o_role e = DeclG.
Proof. unfold global_decls. intro H. apply filter_In in H as [_ H]. apply is_name in H. exact H. Qed.

(* every definition goto returns for a use inside the fragment is a `global` statement for the
   name or a binding of the name that writes the very scope Python reads at that use *)
Lemma goto_list_in_python_scope p c u e :
  wf_chain c = true -> in_fragment c u = true ->
  In e (jedi_goto p c u) ->
  o_name e = o_name u /\
  (o_role e = DeclG \/
   (o_role e = Bind /\ exists pre f rest, c = pre ++ f :: rest /\ In e (f_occs f) /\
                                         bind_scope (f :: rest) e = py_scope c u)).
Proof.
  intros Hwf Hfrag Hin. unfold jedi_goto in Hin.
  destruct (jedi_find (o_name u) _ c (Some (o_id u)) false) as [[dep od]|] eqn:Ej; [|contradiction].
  destruct (goto_in_python_scope c u _ dep od Hwf Hfrag Ej) as [Hpy Hres].
  assert (Hbase : forall e, In e (if Nat.eqb dep 1 then global_decls (o_name u) p else []) ->
                            o_name e = o_name u /\ o_role e = DeclG).
  { intros e0 H0. destruct (Nat.eqb dep 1); [apply global_decls_in in H0; exact H0 | contradiction]. }
  destruct od as [d|].
  - apply insert_occ_in in Hin as [->|Hin].
    + destruct Hres as [Hn [Hr [pre [f [rest [Hc [Hl [Hi Hb]]]]]]]].
      split; [exact Hn|]. right. split; [exact Hr|]. exists pre, f, rest.
      split; [exact Hc|]. split; [exact Hi|]. rewrite Hpy. exact Hb.
    + destruct (Hbase e Hin). auto.
  - destruct (Hbase e Hin). auto.
Qed.

(* inside the fragment a function-local (or class-local) variable Python reads is always found *)
Lemma goto_finds_local c u gd :
  wf_chain c = true -> in_fragment c u = true ->
  (exists f rest, c = f :: rest /\ f_kind f <> Module /\ bound (o_name u) f = true) ->
  exists d, jedi_find (o_name u) gd c (Some (o_id u)) false = Some (length c, Some d) /\
            py_scope c u = Some (length c).
Proof.
  intros Hwf Hfrag [f [rest [-> [Hk Hb]]]].
  assert (Hf := Hfrag). unfold in_fragment in Hf. apply andb_true_iff in Hf as [Hnd Hfr].
  cbn [frag_walk] in Hfr. cbn [jedi_find].
  assert (Hfind : forall lim, existsb (visible (o_name u) lim) (f_occs f) = true ->
                  f_kind f <> Comp -> exists d, ctx_find (o_name u) lim f = Some d).
  { intros lim He Hc. apply last_such_exists in He as [d Hd]. exists d. unfold ctx_find.
    destruct (f_kind f); try exact Hd. congruence. }
  destruct (f_kind f) eqn:Ek; try congruence; rewrite Hb in Hfr.
  - destruct (Hfind _ Hfr ltac:(discriminate)) as [d Hd]. rewrite Hd. exists d. split; [reflexivity|].
    destruct (goto_in_python_scope (f :: rest) u gd (length (f :: rest)) (Some d) Hwf Hfrag) as [H _]; [|exact H].
    cbn [jedi_find]. rewrite Ek, Hd. reflexivity.
  - destruct (Hfind _ Hfr ltac:(discriminate)) as [d Hd]. rewrite Hd. exists d. split; [reflexivity|].
    destruct (goto_in_python_scope (f :: rest) u gd (length (f :: rest)) (Some d) Hwf Hfrag) as [H _]; [|exact H].
    cbn [jedi_find]. rewrite Ek, Hd. reflexivity.
  - assert (He : existsb (visible (o_name u) None) (f_occs f) = true).
    { unfold bound in Hb. eapply existsb_weaken; [|exact Hb]. intros a Ha. unfold visible. rewrite Ha. reflexivity. }
    apply last_such_exists in He as [d Hd].
    assert (Hc : ctx_find (o_name u) (Some (o_id u)) f = Some d) by (unfold ctx_find; rewrite Ek; exact Hd).
    rewrite Hc. exists d. split; [reflexivity|].
    destruct (goto_in_python_scope (f :: rest) u gd (length (f :: rest)) (Some d) Hwf Hfrag) as [H _]; [|exact H].
    cbn [jedi_find]. rewrite Ek, Hc. reflexivity.
  - destruct (Hfind _ Hfr ltac:(discriminate)) as [d Hd]. rewrite Hd. exists d. split; [reflexivity|].
    destruct (goto_in_python_scope (f :: rest) u gd (length (f :: rest)) (Some d) Hwf Hfrag) as [H _]; [|exact H].
    cbn [jedi_find]. rewrite Ek, Hd. reflexivity.
Qed.

(* straight-line clause: when the scope of the use (not a comprehension) has a binding of the
   name before the use, goto returns exactly the textually last such binding -- the assignment
   whose value straight-line code observes -- plus, at module level, the file's `global` statements *)
Lemma goto_exact_last_before p f rest u :
  f_kind f <> Comp ->
  bound_before (o_name u) (o_id u) f = true ->
  exists d pre post,
    f_occs f = pre ++ d :: post /\
    is Bind (o_name u) d = true /\ N.ltb (o_id d) (o_id u) = true /\
    forallb (fun o => negb (is Bind (o_name u) o && N.ltb (o_id o) (o_id u))) post = true /\
    jedi_goto p (f :: rest) u =
      insert_occ d (if Nat.eqb (length (f :: rest)) 1 then global_decls (o_name u) p else []).
Proof.
  intros Hk Hb.
  assert (He : existsb (visible (o_name u) (Some (o_id u))) (f_occs f) = true) by exact Hb.
  apply last_such_exists in He as [d Hd].
  destruct (last_such_last _ _ _ Hd) as [pre [post [Hsplit Hpost]]].
  destruct (last_such_some _ _ _ Hd) as [_ Hv]. unfold visible in Hv. apply andb_true_iff in Hv as [Hv1 Hv2].
  exists d, pre, post. split; [exact Hsplit|]. split; [exact Hv1|]. split; [exact Hv2|]. split; [exact Hpost|].
  unfold jedi_goto. cbn [jedi_find].
  assert (Hc : ctx_find (o_name u) (Some (o_id u)) f = Some d).
  { unfold ctx_find. destruct (f_kind f); try exact Hd. congruence. }
  destruct (f_kind f) eqn:Ek; try congruence; rewrite Hc; reflexivity.
Qed.

(* ---- programs ---- *)

Fixpoint no_module_sub (it : item) : bool :=
  match it with
  | Occ _ => true
  | Sub k _ b => match k with Module => false | _ => forallb no_module_sub b end
  end.

Section ItemInd.
Variable P : item -> Prop.
Hypothesis HO : forall o, P (Occ o).
Hypothesis HS : forall k sid b, Forall P b -> P (Sub k sid b).
Fixpoint item_ind_nested (it : item) : P it :=
  match it with
  | Occ o => HO o
  | Sub k sid b =>
      HS k sid b ((fix G (l : list item) : Forall P l :=
                     match l with
                     | [] => Forall_nil P
                     | x :: r => Forall_cons x (item_ind_nested x) (G r)
                     end) b)
  end.
End ItemInd.

Lemma collect_wf it : forall c,
  no_module_sub it = true -> wf_chain c = true ->
  forall o c', In (o, c') (collect c it) -> wf_chain c' = true.
Proof.
  induction it as [o0|k sid b IH] using item_ind_nested; intros c Hn Hwf o c' Hin.
  - simpl in Hin. destruct Hin as [H|[]]. inversion H; subst. exact Hwf.
  - simpl in Hin, Hn. destruct k; try discriminate;
    (apply in_flat_map in Hin as [x [Hx Hin]];
     rewrite Forall_forall in IH; eapply (IH x Hx); [| |exact Hin];
     [rewrite forallb_forall in Hn; apply Hn; exact Hx |
      destruct c as [|g r]; [discriminate|]; simpl; exact Hwf]).
Qed.

Lemma occs_of_wf p o c :
  forallb no_module_sub p = true -> In (o, c) (occs_of p) -> wf_chain c = true.
Proof.
  intros Hn Hin. unfold occs_of in Hin. apply in_flat_map in Hin as [x [Hx Hin]].
  eapply collect_wf; [| |exact Hin].
  - rewrite forallb_forall in Hn. apply Hn. exact Hx.
  - reflexivity.
Qed.

Lemma program_goto_in_python_scope p u c e :
  forallb no_module_sub p = true ->
  In (u, c) (occs_of p) -> in_fragment c u = true ->
  In e (jedi_goto p c u) ->
  o_name e = o_name u /\
  (o_role e = DeclG \/
   (o_role e = Bind /\ exists pre f rest, c = pre ++ f :: rest /\ In e (f_occs f) /\
                                         bind_scope (f :: rest) e = py_scope c u)).
Proof.
  intros Hn Hin Hf He. eapply goto_list_in_python_scope; eauto. eapply occs_of_wf; eauto.
Qed.
