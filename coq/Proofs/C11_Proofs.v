(* C11 proofs: kinds, to_string round trip, index = preferred binding target,
   soundness/completeness w.r.t. the relational Target specification, starred arguments,
   refutations, docstring assembly. *)
From JV Require Import Base.Str Model.C11_Signature Proofs.Str_Proofs.

(* ===================== part 1 ===================== *)

(* ---------- generic find_idx facts ---------- *)
Lemma find_idx_ext f g i ps :
  (forall j p, f j p = g j p) -> find_idx f i ps = find_idx g i ps.
Proof.
  intros H. revert i. induction ps as [|p r IH]; intros i; simpl; auto.
  rewrite H. destruct (g i p); auto.
Qed.

Lemma find_idx_ext_in f g i ps :
  (forall k p, nth_error ps k = Some p -> f (i + k) p = g (i + k) p) ->
  find_idx f i ps = find_idx g i ps.
Proof.
  revert i. induction ps as [|p r IH]; intros i H; simpl; auto.
  generalize (H 0 p eq_refl). rewrite Nat.add_0_r. intros ->.
  destruct (g i p); auto. apply IH. intros k q Hk.
  replace (S i + k) with (i + S k) by lia. apply H. exact Hk.
Qed.

Lemma find_idx_Some f i ps j :
  find_idx f i ps = Some j ->
  i <= j /\ exists p, nth_error ps (j - i) = Some p /\ f j p = true /\
  (forall k q, k < j - i -> nth_error ps k = Some q -> f (i + k) q = false).
Proof.
  revert i. induction ps as [|p r IH]; intros i; simpl; [discriminate|].
  destruct (f i p) eqn:E.
  - intros [= <-]. split; [lia|]. exists p. rewrite Nat.sub_diag. simpl. repeat split; auto.
    intros k q Hk. lia.
  - intros H. apply IH in H. destruct H as [Hle [q [Hn [Hf Hall]]]].
    split; [lia|]. exists q. replace (j - i) with (S (j - S i)) by lia. simpl.
    repeat split; auto. intros k q' Hk Hq. destruct k as [|k].
    + simpl in Hq. injection Hq as <-. rewrite Nat.add_0_r. exact E.
    + simpl in Hq. replace (i + S k) with (S i + k) by lia. apply Hall; [lia|exact Hq].
Qed.

Lemma find_idx_None f i ps :
  find_idx f i ps = None -> forall k q, nth_error ps k = Some q -> f (i + k) q = false.
Proof.
  revert i. induction ps as [|p r IH]; intros i; simpl.
  - intros _ k q H. destruct k; discriminate.
  - destruct (f i p) eqn:E; [discriminate|]. intros H k q Hq. destruct k as [|k]; simpl in Hq.
    + injection Hq as <-. rewrite Nat.add_0_r. exact E.
    + replace (i + S k) with (S i + k) by lia. eapply IH; eauto.
Qed.

Lemma find_idx_first f i ps k q :
  nth_error ps k = Some q -> f (i + k) q = true ->
  (forall k' q', k' < k -> nth_error ps k' = Some q' -> f (i + k') q' = false) ->
  find_idx f i ps = Some (i + k).
Proof.
  revert i k. induction ps as [|p r IH]; intros i k Hq Hf Hall.
  - destruct k; discriminate.
  - simpl. destruct k as [|k]; simpl in Hq.
    + injection Hq as <-. rewrite Nat.add_0_r in *. rewrite Hf. reflexivity.
    + assert (E : f i p = false).
      { generalize (Hall 0 p). rewrite Nat.add_0_r. intros H0. apply H0; [lia|reflexivity]. }
      rewrite E.
      replace (i + S k) with (S i + k) by lia. apply IH; auto.
      * replace (S i + k) with (i + S k) by lia. exact Hf.
      * intros k' q' Hlt Hq'. replace (S i + k') with (i + S k') by lia. apply Hall; [lia|exact Hq'].
Qed.

(* ===================== part 2 ===================== *)

(* ---------- the first loop ---------- *)
Lemma scan_args_spec args : forall used pc,
  snd (scan_args args used pc) = pc + n_pos args /\
  forall name, used_mem name (fst (scan_args args used pc)) =
               used_mem name (used_keys args) || used_mem name used.
Proof.
  unfold n_pos, used_keys, before.
  induction args as [|a r IH]; intros used pc.
  - simpl. split; [lia|reflexivity].
  - destruct r as [|b r'].
    + simpl. split; [lia|reflexivity].
    + change (scan_args (a :: b :: r') used pc) with
        (if negb (N.eqb (a_stars a) 0) then scan_args (b :: r') used pc
         else if a_eq a then scan_args (b :: r') (a_key a :: used) pc
         else scan_args (b :: r') used (S pc)).
      change (removelast (a :: b :: r')) with (a :: removelast (b :: r')).
      cbn [filter]. unfold is_pos_arg at 1, is_kw_arg at 1.
      destruct (N.eqb (a_stars a) 0) eqn:Es; cbn [negb andb].
      * destruct (a_eq a) eqn:Ee; cbn [negb].
        -- destruct (IH (a_key a :: used) pc) as [H1 H2]. split.
           ++ rewrite H1. reflexivity.
           ++ intros name. rewrite H2. cbn [map used_mem].
              generalize (used_mem name (map a_key (filter is_kw_arg (removelast (b :: r'))))).
              generalize (opt_str_eqb (Some name) (a_key a)). generalize (used_mem name used).
              intros [] [] []; reflexivity.
        -- destruct (IH used (S pc)) as [H1 H2]. split.
           ++ rewrite H1. cbn [length]. lia.
           ++ exact H2.
      * exact (IH used pc).
Qed.

Lemma args_split (args : list arg) : args <> [] -> args = before args ++ [cursor args].
Proof. intros H. unfold before, cursor. apply app_removelast_last. exact H. Qed.

Lemma star_free_app a b : star_free (a ++ b) = star_free a && star_free b.
Proof. unfold star_free. apply forallb_app. Qed.

Lemma is_kwarg_star_free args :
  args <> [] -> star_free args = true ->
  is_kwarg_of args = kw_before args || a_eq (cursor args).
Proof.
  intros Hne Hsf. unfold kw_before. rewrite (args_split args Hne) at 1.
  unfold is_kwarg_of. rewrite existsb_app. cbn [existsb]. rewrite orb_false_r.
  rewrite (args_split args Hne) in Hsf. rewrite star_free_app in Hsf.
  apply andb_true_iff in Hsf. destruct Hsf as [Hb Hc].
  f_equal.
  - clear Hc. induction (before args) as [|x r IH]; [reflexivity|].
    cbn [existsb]. unfold star_free in Hb. cbn [forallb] in Hb.
    apply andb_true_iff in Hb. destruct Hb as [Hx Hr]. apply andb_true_iff in Hx. destruct Hx as [Hx _].
    apply N.eqb_eq in Hx. rewrite Hx. cbn. rewrite orb_false_r. f_equal. apply IH. exact Hr.
  - unfold star_free in Hc. cbn [forallb] in Hc. rewrite andb_true_r in Hc.
    apply andb_true_iff in Hc. destruct Hc as [Hx _]. apply N.eqb_eq in Hx. rewrite Hx.
    cbn. apply orb_false_r.
Qed.

Lemma cursor_star_free args :
  args <> [] -> star_free args = true ->
  a_stars (cursor args) = 0%N /\ (a_eq (cursor args) = true -> exists k, a_key (cursor args) = Some k).
Proof.
  intros Hne Hsf. rewrite (args_split args Hne) in Hsf. rewrite star_free_app in Hsf.
  apply andb_true_iff in Hsf. destruct Hsf as [_ Hc]. unfold star_free in Hc. cbn [forallb] in Hc.
  rewrite andb_true_r in Hc. apply andb_true_iff in Hc. destruct Hc as [Hx Hk].
  apply N.eqb_eq in Hx. split; [exact Hx|]. intros He. rewrite He in Hk.
  destruct (a_key (cursor args)); [eauto|discriminate].
Qed.

(* ---------- the second loop under wf ---------- *)
Definition posc (pc i : nat) (p : param) : bool :=
  kind_eqb (pkind p) VP || (is_positional_kind (pkind p) && Nat.eqb i pc).
Definition vkc (p : param) : bool := kind_eqb (pkind p) VK.

Lemma wf_from_ge m ps : wf_from m ps = true -> 3 <= m ->
  forall k q, nth_error ps k = Some q -> pkind q = KO \/ pkind q = VK.
Proof.
  revert m. induction ps as [|p r IH]; intros m H Hm k q Hq.
  - destruct k; discriminate.
  - simpl in H. apply andb_true_iff in H. destruct H as [H1 H2]. apply Nat.leb_le in H1.
    destruct k as [|k]; simpl in Hq.
    + injection Hq as <-. destruct (pkind p); simpl in H1; auto; lia.
    + eapply IH; [exact H2| |exact Hq]. destruct (pkind p); simpl in *; lia.
Qed.

Lemma wf_from_vk_last m p r : wf_from m (p :: r) = true -> pkind p = VK -> r = [].
Proof.
  cbn [wf_from]. intros H Hk. rewrite Hk in H. apply andb_true_iff in H. destruct H as [_ H].
  destruct r as [|q r']; auto. cbn [wf_from phase] in H. apply andb_true_iff in H. destruct H as [H _].
  apply Nat.leb_le in H. destruct (pkind q); cbn [phase] in H; lia.
Qed.

Lemma kw_loop g m ps : forall i, wf_from m ps = true ->
  find_idx (fun j p => g j p || vkc p) i ps =
  match find_idx g i ps with Some j => Some j | None => find_idx (fun _ p => vkc p) i ps end.
Proof.
  revert m. induction ps as [|p r IH]; intros m i H; [reflexivity|].
  cbn [find_idx]. destruct (g i p) eqn:Eg; [reflexivity|]. cbn [orb].
  destruct (vkc p) eqn:Ev.
  - unfold vkc in Ev. assert (pkind p = VK) by (destruct (pkind p); simpl in Ev; congruence).
    rewrite (wf_from_vk_last _ _ _ H H0). reflexivity.
  - simpl in H. apply andb_true_iff in H. destruct H as [_ H]. eapply IH. exact H.
Qed.

Lemma pos_loop_tail X pc m ps : wf_from m ps = true -> 3 <= m -> forall i n,
  pos_slot ps i n = None /\
  find_idx (fun j p => posc pc j p || X j p) i ps = find_idx X i ps.
Proof.
  intros H Hm i n. split.
  - revert m H Hm i n. induction ps as [|p r IH]; intros m H Hm i n; [reflexivity|].
    pose proof (wf_from_ge _ _ H Hm 0 p eq_refl) as Hk.
    simpl in H. apply andb_true_iff in H. destruct H as [H1 H2]. apply Nat.leb_le in H1.
    simpl. destruct Hk as [Hk|Hk]; rewrite Hk in *; (eapply IH; [exact H2|simpl in *; lia]).
  - apply find_idx_ext_in. intros k p Hp.
    destruct (wf_from_ge _ _ H Hm k p Hp) as [Hk|Hk]; unfold posc; rewrite Hk; reflexivity.
Qed.

Lemma pos_loop X pc ps : forall m i n, wf_from m ps = true -> i + n = pc ->
  (forall j p, j < pc -> is_positional_kind (pkind p) = true -> X j p = false) ->
  find_idx (fun j p => posc pc j p || X j p) i ps =
  match pos_slot ps i n with Some s => Some s | None => find_idx X i ps end.
Proof.
  induction ps as [|p r IH]; intros m i n H Hin HX; [reflexivity|].
  cbn [find_idx pos_slot].
  pose proof H as H'. simpl in H'. apply andb_true_iff in H'. destruct H' as [H1 H2].
  destruct (pkind p) eqn:Hk.
  1,2: unfold posc at 1; rewrite Hk; cbn [kind_eqb is_positional_kind orb andb];
       destruct n as [|n'];
       [ replace (Nat.eqb i pc) with true by (symmetry; apply Nat.eqb_eq; lia); reflexivity
       | replace (Nat.eqb i pc) with false by (symmetry; apply Nat.eqb_neq; lia);
         rewrite (HX i p) by (try lia; rewrite Hk; reflexivity); cbn [orb];
         eapply IH; [exact H2|lia|exact HX] ].
  - unfold posc at 1. rewrite Hk. reflexivity.
  - unfold posc at 1. rewrite Hk. cbn [kind_eqb is_positional_kind orb andb].
    destruct (pos_loop_tail X pc 3 r H2 (le_n 3) (S i) n) as [-> ->]. reflexivity.
  - unfold posc at 1. rewrite Hk. cbn [kind_eqb is_positional_kind orb andb].
    destruct (pos_loop_tail X pc 5 r H2 ltac:(lia) (S i) n) as [-> ->]. reflexivity.
Qed.

(* ===================== part 3 ===================== *)

Definition kwm (used : list (option str)) (pc : nat) (m : str -> bool) (i : nat) (p : param) : bool :=
  kw_capable used pc i p && m (pname p).

Lemma find_idx_false i ps : find_idx (fun _ _ => false) i ps = None.
Proof. revert i. induction ps; intros; simpl; auto. Qed.

Lemma index_step_some isk used pc cur k i p :
  a_stars cur = 0%N -> a_key cur = Some k ->
  index_step isk used pc cur i p =
  (negb isk && posc pc i p) ||
  (kwm used pc (fun s => if a_eq cur then str_eqb s k else starts_with s k) i p || vkc p).
Proof.
  intros Hs Hk. unfold index_step, posc, kwm, kw_capable, vkc. rewrite Hs, Hk.
  cbn [N.eqb negb orb andb].
  destruct isk, (pkind p); cbn [negb andb orb kind_eqb is_positional_kind]; try reflexivity;
    rewrite ?orb_false_r, ?andb_true_r; try reflexivity.
Qed.

Lemma index_step_none isk used pc cur i p :
  a_stars cur = 0%N -> a_key cur = None ->
  index_step isk used pc cur i p = negb isk && posc pc i p.
Proof.
  intros Hs Hk. unfold index_step, posc. rewrite Hs, Hk. cbn [N.eqb negb orb andb].
  destruct isk, (pkind p); cbn [negb andb orb kind_eqb is_positional_kind]; try reflexivity;
    rewrite ?orb_false_r; reflexivity.
Qed.

Lemma kwm_used_ext used used' pc m i p :
  (forall name, used_mem name used = used_mem name used') ->
  kwm used pc m i p = kwm used' pc m i p.
Proof. intros H. unfold kwm, kw_capable. rewrite H. reflexivity. Qed.

Lemma index_step_used_ext isk used used' pc cur i p :
  (forall name, used_mem name used = used_mem name used') ->
  index_step isk used pc cur i p = index_step isk used' pc cur i p.
Proof. intros H. unfold index_step. rewrite H. reflexivity. Qed.

Lemma kwm_below pc used m j p :
  j < pc -> is_positional_kind (pkind p) = true -> kwm used pc m j p || vkc p = false.
Proof.
  intros Hj Hp. unfold kwm, kw_capable, vkc.
  destruct (pkind p); try discriminate; cbn [kind_eqb orb andb].
  - rewrite andb_false_r. reflexivity.
  - replace (Nat.leb pc j) with false by (symmetry; apply Nat.leb_gt; lia).
    rewrite andb_false_r. reflexivity.
Qed.

Theorem index_is_preferred ps args :
  wf ps = true -> args <> [] -> star_free args = true ->
  calc_index ps args = preferred ps args.
Proof.
  intros Hwf Hne Hsf. unfold calc_index.
  destruct args as [|a0 ar]; [congruence|]. set (args := a0 :: ar) in *.
  destruct (scan_args args [] 0) as [used pc] eqn:Escan.
  destruct (scan_args_spec args [] 0) as [Hpc Hused]. rewrite Escan in Hpc, Hused.
  cbn [fst snd] in Hpc, Hused. cbn [Nat.add] in Hpc. subst pc.
  assert (Hu : forall name, used_mem name used = used_mem name (used_keys args)).
  { intros name. rewrite Hused. cbn [used_mem]. apply orb_false_r. }
  clear Hused Escan.
  rewrite (find_idx_ext _ (index_step (is_kwarg_of args) (used_keys args) (n_pos args) (last args no_arg)))
    by (intros; apply index_step_used_ext; exact Hu).
  rewrite (is_kwarg_star_free args Hne Hsf).
  destruct (cursor_star_free args Hne Hsf) as [Hs Hk].
  unfold preferred. fold (cursor args). unfold wf in Hwf.
  destruct (a_eq (cursor args)) eqn:He.
  - destruct (Hk eq_refl) as [k Hkey]. rewrite Hkey. rewrite orb_true_r.
    rewrite (find_idx_ext _ _ 0 ps (fun i p => index_step_some true _ _ _ k i p Hs Hkey)).
    rewrite He. cbn [negb andb orb]. unfold kw_search. apply (kw_loop _ 0 ps 0 Hwf).
  - rewrite orb_false_r. destruct (a_key (cursor args)) as [k|] eqn:Hkey.
    + rewrite (find_idx_ext _ _ 0 ps (fun i p => index_step_some _ _ _ _ k i p Hs Hkey)).
      rewrite He. destruct (kw_before args); cbn [negb andb orb].
      * unfold kw_search. apply (kw_loop _ 0 ps 0 Hwf).
      * etransitivity.
        { apply (pos_loop (fun j p => kwm (used_keys args) (n_pos args) (fun s => if false then str_eqb s k else starts_with s k) j p || vkc p)
                   (n_pos args) ps 0 0 (n_pos args) Hwf eq_refl).
          intros; apply kwm_below; assumption. }
        destruct (pos_slot ps 0 (n_pos args)); [reflexivity|].
        unfold kw_search. apply (kw_loop _ 0 ps 0 Hwf).
    + rewrite (find_idx_ext _ _ 0 ps (fun i p => index_step_none _ _ _ _ i p Hs Hkey)).
      destruct (kw_before args); cbn [negb andb].
      * apply find_idx_false.
      * rewrite (find_idx_ext _ (fun j p => posc (n_pos args) j p || (fun _ _ => false) j p))
          by (intros; symmetry; apply orb_false_r).
        etransitivity.
        { apply (pos_loop (fun _ _ => false) (n_pos args) ps 0 0 (n_pos args) Hwf eq_refl). reflexivity. }
        rewrite find_idx_false. reflexivity.
Qed.

(* the scanner never yields an empty list; for completeness: *)
Lemma index_no_args ps :
  wf ps = true -> calc_index ps [] = preferred ps [(0%N, Some [], false)].
Proof.
  intros H. rewrite <- index_is_preferred by (auto; discriminate).
  destruct ps as [|p r]; [reflexivity|].
  unfold calc_index. cbn [scan_args last find_idx]. unfold index_step, is_kwarg_of.
  cbn [existsb a_eq a_stars a_key fst snd orb negb andb N.eqb used_mem starts_with Nat.eqb Nat.leb].
  destruct (pkind p); reflexivity.
Qed.

(* ===================== part 4 ===================== *)

Definition posp (p : param) : bool := is_positional_kind (pkind p).

Lemma wf_decomp ps : forall m, wf_from m ps = true ->
  exists pos tail, ps = pos ++ tail /\ forallb posp pos = true /\ wf_from 2 tail = true.
Proof.
  induction ps as [|p r IH]; intros m H.
  - exists [], []. auto.
  - pose proof H as H'. cbn [wf_from] in H'. apply andb_true_iff in H'. destruct H' as [H1 H2].
    destruct (posp p) eqn:Hp.
    + destruct (IH _ H2) as [pos [tail [E [F W]]]]. exists (p :: pos), tail.
      rewrite E. cbn [forallb]. rewrite Hp, F. auto.
    + exists [], (p :: r). repeat split; auto. cbn [wf_from]. rewrite H2.
      unfold posp in Hp. destruct (pkind p); try discriminate; reflexivity.
Qed.

Lemma tail_shape tail : wf_from 2 tail = true ->
  tail = [] \/ (exists p r, tail = p :: r /\ pkind p = VP /\ wf_from 3 r = true) \/
  (wf_from 3 tail = true /\ tail <> []).
Proof.
  destruct tail as [|p r]; auto. intros H. right. cbn [wf_from] in H.
  apply andb_true_iff in H. destruct H as [H1 H2]. apply Nat.leb_le in H1.
  destruct (pkind p) eqn:Hk; cbn [phase] in *; try lia.
  - left. exists p, r. auto.
  - right. split; [|discriminate]. cbn [wf_from]. rewrite Hk. exact H2.
  - right. split; [|discriminate]. cbn [wf_from]. rewrite Hk. exact H2.
Qed.

Lemma tail_kinds tail : wf_from 2 tail = true -> forall k q, nth_error tail k = Some q ->
  posp q = false /\ (pkind q = VP -> k = 0).
Proof.
  intros H k q Hq. destruct (tail_shape tail H) as [->|[[p [r [-> [Hk W]]]]|[W _]]].
  - destruct k; discriminate.
  - destruct k as [|k]; simpl in Hq.
    + injection Hq as <-. unfold posp. rewrite Hk. auto.
    + destruct (wf_from_ge _ _ W (le_n 3) k q Hq) as [E|E]; unfold posp; rewrite E; split; auto; discriminate.
  - destruct (wf_from_ge _ _ W (le_n 3) k q Hq) as [E|E]; unfold posp; rewrite E; split; auto; discriminate.
Qed.

Lemma pos_slot_app pos tail : forallb posp pos = true -> forall i n,
  pos_slot (pos ++ tail) i n =
  if Nat.ltb n (length pos) then Some (i + n) else pos_slot tail (i + length pos) (n - length pos).
Proof.
  induction pos as [|p r IH]; intros F i n.
  - cbn. rewrite Nat.add_0_r, Nat.sub_0_r. reflexivity.
  - cbn [forallb] in F. apply andb_true_iff in F. destruct F as [Fp Fr].
    cbn [app pos_slot length]. unfold posp in Fp.
    destruct (pkind p); try discriminate.
    all: destruct n as [|n']; [cbn; rewrite Nat.add_0_r; reflexivity|];
         rewrite (IH Fr (S i) n');
         change (Nat.ltb (S n') (S (length r))) with (Nat.ltb n' (length r));
         destruct (Nat.ltb n' (length r)); f_equal; try lia;
         replace (S i + length r) with (i + S (length r)) by lia; reflexivity.
Qed.

Lemma pos_slot_tail tail : wf_from 2 tail = true -> forall j n,
  pos_slot tail j n = match tail with
                      | p :: _ => if kind_eqb (pkind p) VP then Some j else None
                      | [] => None
                      end.
Proof.
  intros H j n. destruct (tail_shape tail H) as [->|[[p [r [-> [Hk W]]]]|[W Hne]]].
  - reflexivity.
  - cbn [pos_slot]. rewrite Hk. reflexivity.
  - destruct (pos_loop_tail (fun _ _ => false) 0 3 tail W (le_n 3) j n) as [-> _].
    destruct tail as [|p r]; [congruence|].
    destruct (wf_from_ge _ _ W (le_n 3) 0 p eq_refl) as [E|E]; rewrite E; reflexivity.
Qed.

Lemma filter_posp_all pos : forallb posp pos = true -> filter posp pos = pos.
Proof.
  induction pos as [|p r IH]; auto. cbn. intros H. apply andb_true_iff in H. destruct H as [-> H].
  f_equal. auto.
Qed.

Lemma filter_posp_tail tail : wf_from 2 tail = true -> forall k, filter posp (firstn k tail) = [].
Proof.
  intros H k. revert tail H. induction k as [|k IH]; intros tail H; [reflexivity|].
  destruct tail as [|p r]; [reflexivity|]. cbn [firstn filter].
  destruct (tail_kinds _ H 0 p eq_refl) as [-> _].
  destruct (tail_shape _ H) as [E|[[p' [r' [E [Hk W]]]]|[W _]]]; try discriminate.
  - injection E as <- <-. apply IH. destruct r as [|q r']; auto.
    cbn [wf_from] in *. apply andb_true_iff in W. destruct W as [W1 W2].
    rewrite W2. apply Nat.leb_le in W1. rewrite andb_true_r. apply Nat.leb_le. lia.
  - apply IH. cbn [wf_from] in W. apply andb_true_iff in W. destruct W as [W1 W2].
    destruct r as [|q r']; auto. apply Nat.leb_le in W1.
    cbn [wf_from] in *. apply andb_true_iff in W2. destruct W2 as [W3 W4]. rewrite W4.
    rewrite andb_true_r. apply Nat.leb_le. apply Nat.leb_le in W3.
    destruct (pkind p); cbn [phase] in *; lia.
Qed.

Lemma rank_app pos tail k : forallb posp pos = true -> wf_from 2 tail = true ->
  rank (pos ++ tail) k = Nat.min k (length pos).
Proof.
  intros F W. unfold rank. fold posp. rewrite firstn_app, filter_app, app_length.
  rewrite (filter_posp_tail tail W). cbn [length]. rewrite Nat.add_0_r.
  rewrite filter_posp_all.
  - rewrite firstn_length. reflexivity.
  - clear -F. revert k. induction pos as [|p r IH]; intros k; destruct k; auto.
    cbn [firstn forallb] in *. apply andb_true_iff in F. destruct F as [-> F]. cbn. auto.
Qed.

Lemma n_positional_app pos tail : forallb posp pos = true -> wf_from 2 tail = true ->
  n_positional (pos ++ tail) = length pos.
Proof.
  intros F W. unfold n_positional. fold posp. rewrite filter_app, app_length.
  rewrite (filter_posp_all pos F).
  generalize (filter_posp_tail tail W (length tail)). rewrite firstn_all. intros ->. cbn. lia.
Qed.

Lemma nth_pos_kind pos tail i p : forallb posp pos = true -> wf_from 2 tail = true ->
  nth_error (pos ++ tail) i = Some p ->
  (posp p = true /\ i < length pos) \/ (posp p = false /\ length pos <= i /\ nth_error tail (i - length pos) = Some p).
Proof.
  intros F W H. destruct (Nat.lt_ge_cases i (length pos)) as [L|L].
  - left. rewrite nth_error_app1 in H by exact L. split; auto.
    rewrite forallb_forall in F. apply F. eapply nth_error_In; eauto.
  - right. rewrite nth_error_app2 in H by exact L. split; [|auto].
    apply (tail_kinds _ W _ _ H).
Qed.

(* pos_slot is the rank-based slot under wf *)
Lemma pos_slot_sound ps n i : wf ps = true -> pos_slot ps 0 n = Some i ->
  exists p, nth_error ps i = Some p /\
    ((posp p = true /\ rank ps i = n) \/ (pkind p = VP /\ n_positional ps <= n)).
Proof.
  intros Hwf H. destruct (wf_decomp ps 0 Hwf) as [pos [tail [-> [F W]]]].
  rewrite (pos_slot_app pos tail F) in H. cbn [Nat.add] in H.
  destruct (Nat.ltb n (length pos)) eqn:L.
  - apply Nat.ltb_lt in L. injection H as <-.
    destruct (nth_error pos n) as [p|] eqn:Hp; [|apply nth_error_None in Hp; lia].
    exists p. split; [rewrite nth_error_app1; auto|]. left. split.
    + rewrite forallb_forall in F. apply F. eapply nth_error_In; eauto.
    + rewrite rank_app by auto. lia.
  - apply Nat.ltb_ge in L. rewrite (pos_slot_tail tail W) in H.
    destruct tail as [|p r]; [discriminate|]. destruct (kind_eqb (pkind p) VP) eqn:E; [|discriminate].
    injection H as <-. exists p. split.
    + rewrite nth_error_app2 by lia. rewrite Nat.sub_diag. reflexivity.
    + right. split; [destruct (pkind p); try discriminate; reflexivity|].
      rewrite n_positional_app by auto. exact L.
Qed.

Lemma pos_slot_complete_pos ps n i p : wf ps = true -> nth_error ps i = Some p ->
  posp p = true -> rank ps i = n -> pos_slot ps 0 n = Some i.
Proof.
  intros Hwf Hn Hp Hr. destruct (wf_decomp ps 0 Hwf) as [pos [tail [-> [F W]]]].
  destruct (nth_pos_kind pos tail i p F W Hn) as [[_ L]|[C _]]; [|congruence].
  rewrite rank_app in Hr by auto. rewrite (pos_slot_app pos tail F).
  replace (Nat.ltb n (length pos)) with true by (symmetry; apply Nat.ltb_lt; lia).
  f_equal. lia.
Qed.

Lemma pos_slot_complete_vp ps n i p : wf ps = true -> nth_error ps i = Some p ->
  pkind p = VP -> n_positional ps <= n -> pos_slot ps 0 n = Some i.
Proof.
  intros Hwf Hn Hp Hr. destruct (wf_decomp ps 0 Hwf) as [pos [tail [-> [F W]]]].
  destruct (nth_pos_kind pos tail i p F W Hn) as [[C _]|[_ [L Ht]]].
  { unfold posp in C. rewrite Hp in C. discriminate. }
  rewrite n_positional_app in Hr by auto. rewrite (pos_slot_app pos tail F).
  replace (Nat.ltb n (length pos)) with false by (symmetry; apply Nat.ltb_ge; lia).
  rewrite (pos_slot_tail tail W).
  destruct (tail_kinds tail W _ _ Ht) as [_ Z]. specialize (Z Hp).
  rewrite Z in Ht. destruct tail as [|q r]; [discriminate|]. injection Ht as ->.
  rewrite Hp. cbn [kind_eqb Nat.add]. f_equal. lia.
Qed.

Lemma filter_len_le {A} (f : A -> bool) l : length (filter f l) <= length l.
Proof. induction l as [|x r IH]; cbn; [lia|]. destruct (f x); cbn; lia. Qed.

Lemma rank_le ps i : rank ps i <= i.
Proof.
  unfold rank. etransitivity; [apply filter_len_le|]. apply firstn_le_length.
Qed.

Lemma rank_positional ps i p : wf ps = true -> nth_error ps i = Some p -> posp p = true -> rank ps i = i.
Proof.
  intros Hwf Hn Hp. destruct (wf_decomp ps 0 Hwf) as [pos [tail [-> [F W]]]].
  destruct (nth_pos_kind pos tail i p F W Hn) as [[_ L]|[C _]]; [|congruence].
  rewrite rank_app by auto. lia.
Qed.

(* ===================== part 5 ===================== *)

Lemma kwcap_sound ps args i p : wf ps = true -> nth_error ps i = Some p ->
  kw_capable (used_keys args) (n_pos args) i p = true -> KwCapable ps args i p.
Proof.
  intros Hwf Hn H. unfold kw_capable in H. apply andb_true_iff in H. destruct H as [H1 H2].
  split; [exact Hn|]. split; [destruct (used_mem (pname p) (used_keys args)); auto; discriminate|].
  apply orb_true_iff in H2. destruct H2 as [H2|H2].
  - left. destruct (pkind p); try discriminate; reflexivity.
  - right. apply andb_true_iff in H2. destruct H2 as [H2 H3].
    assert (pkind p = PK) by (destruct (pkind p); try discriminate; reflexivity).
    split; auto. apply Nat.leb_le in H3.
    rewrite (rank_positional ps i p Hwf Hn); auto. unfold posp. rewrite H. reflexivity.
Qed.

Lemma kwcap_complete ps args i p : KwCapable ps args i p ->
  kw_capable (used_keys args) (n_pos args) i p = true.
Proof.
  intros [Hn [Hu Hk]]. unfold kw_capable. rewrite Hu. cbn [negb andb].
  destruct Hk as [->|[-> Hr]]; [reflexivity|]. cbn [kind_eqb orb andb].
  apply Nat.leb_le. pose proof (rank_le ps i). lia.
Qed.

Lemma cursor_eta (a : arg) : a = (a_stars a, a_key a, a_eq a).
Proof. destruct a as [[s k] e]. reflexivity. Qed.

Lemma kind_eqb_eq a b : kind_eqb a b = true <-> a = b.
Proof. destruct a, b; cbn; split; congruence. Qed.

Lemma preferred_sound ps args i :
  wf ps = true -> a_stars (cursor args) = 0%N -> rebinding ps args = false ->
  preferred ps args = Some i -> Target ps args i.
Proof.
  intros Hwf Hs Hreb H. unfold preferred in H.
  destruct (a_eq (cursor args)) eqn:He.
  - destruct (a_key (cursor args)) as [name|] eqn:Hk; [|discriminate].
    assert (Hc : cursor args = (0%N, Some name, true)).
    { rewrite (cursor_eta (cursor args)), Hs, Hk, He. reflexivity. }
    unfold rebinding in Hreb. rewrite He, Hk in Hreb. cbn [andb] in Hreb.
    apply orb_false_iff in Hreb. destruct Hreb as [Hu Hr].
    unfold kw_search in H.
    destruct (find_idx (fun i p => kw_capable (used_keys args) (n_pos args) i p && str_eqb (pname p) name) 0 ps) as [j|] eqn:Ef.
    + injection H as <-. apply find_idx_Some in Ef. destruct Ef as [_ [p [Hn [Hf _]]]].
      rewrite Nat.sub_0_r in Hn. apply andb_true_iff in Hf. destruct Hf as [Hc1 Hc2].
      apply str_eqb_eq in Hc2. eapply T_keyword; eauto. apply kwcap_sound; auto.
    + apply find_idx_Some in H. destruct H as [_ [p [Hn [Hf _]]]]. rewrite Nat.sub_0_r in Hn.
      apply kind_eqb_eq in Hf. eapply T_var_keyword; eauto.
      intros j q Hq Hname.
      destruct (pkind q) eqn:Hkq; auto; exfalso.
      * (* PK named name: must be capable (no rebinding), so the search would have found it *)
        pose proof (find_idx_None _ _ _ Ef j q Hq) as Hnf. cbn [Nat.add] in Hnf.
        destruct (find_idx (fun i0 p0 => str_eqb (pname p0) name && (kind_eqb (pkind p0) PK || kind_eqb (pkind p0) KO)
                   && negb (kw_capable (used_keys args) (n_pos args) i0 p0)) 0 ps) eqn:Er; [discriminate|].
        pose proof (find_idx_None _ _ _ Er j q Hq) as Hnr. cbn [Nat.add] in Hnr.
        rewrite Hkq in Hnr. rewrite Hname, str_eqb_refl in *. cbn [kind_eqb orb andb] in Hnr.
        rewrite andb_true_r in Hnf. rewrite Hnf in Hnr. discriminate.
      * pose proof (find_idx_None _ _ _ Ef j q Hq) as Hnf. cbn [Nat.add] in Hnf.
        destruct (find_idx (fun i0 p0 => str_eqb (pname p0) name && (kind_eqb (pkind p0) PK || kind_eqb (pkind p0) KO)
                   && negb (kw_capable (used_keys args) (n_pos args) i0 p0)) 0 ps) eqn:Er; [discriminate|].
        pose proof (find_idx_None _ _ _ Er j q Hq) as Hnr. cbn [Nat.add] in Hnr.
        rewrite Hkq in Hnr. rewrite Hname, str_eqb_refl in *. cbn [kind_eqb orb andb] in Hnr.
        rewrite andb_true_r in Hnf. rewrite Hnf in Hnr. discriminate.
  - destruct (if kw_before args then None else pos_slot ps 0 (n_pos args)) as [s|] eqn:Eps.
    + injection H as <-. destruct (kw_before args) eqn:Hkb; [discriminate|].
      destruct (pos_slot_sound ps _ _ Hwf Eps) as [p [Hn [[Hp Hr]|[Hp Hr]]]].
      * eapply T_positional; eauto.
      * eapply T_var_positional; eauto.
    + destruct (a_key (cursor args)) as [pre|] eqn:Hk; [|discriminate].
      assert (Hc : cursor args = (0%N, Some pre, false)).
      { rewrite (cursor_eta (cursor args)), Hs, Hk, He. reflexivity. }
      unfold kw_search in H.
      destruct (find_idx (fun i p => kw_capable (used_keys args) (n_pos args) i p && starts_with (pname p) pre) 0 ps) as [j|] eqn:Ef.
      * injection H as <-. apply find_idx_Some in Ef. destruct Ef as [_ [p [Hn [Hf _]]]].
        rewrite Nat.sub_0_r in Hn. apply andb_true_iff in Hf. destruct Hf as [Hc1 Hc2].
        eapply T_keyword_prefix; eauto. apply kwcap_sound; auto.
      * apply find_idx_Some in H. destruct H as [_ [p [Hn [Hf _]]]]. rewrite Nat.sub_0_r in Hn.
        apply kind_eqb_eq in Hf. eapply T_var_keyword_prefix; eauto.
Qed.

Lemma find_idx_not_None f ps k q :
  nth_error ps k = Some q -> f k q = true -> find_idx f 0 ps <> None.
Proof.
  intros Hq Hf C. pose proof (find_idx_None _ _ _ C k q Hq). cbn [Nat.add] in H. congruence.
Qed.

Lemma preferred_complete ps args :
  wf ps = true -> preferred ps args = None -> forall i, ~ Target ps args i.
Proof.
  intros Hwf H i T. unfold preferred in H.
  inversion T as [i' p He Hkb Hn Hp Hr | i' p He Hkb Hn Hp Hr | i' p name Hc Hcap Hname
                 | i' p pre Hc Hcap Hsw | i' p pre Hc Hn Hk | i' p name Hc Hn Hk Hu Hall]; subst i'.
  - rewrite He, Hkb in H. rewrite (pos_slot_complete_pos ps _ i p Hwf Hn Hp Hr) in H. discriminate.
  - rewrite He, Hkb in H. rewrite (pos_slot_complete_vp ps _ i p Hwf Hn Hp Hr) in H. discriminate.
  - rewrite Hc in H. cbn [a_eq a_key fst snd] in H. unfold kw_search in H.
    destruct (find_idx (fun i0 p0 => kw_capable (used_keys args) (n_pos args) i0 p0 && str_eqb (pname p0) name) 0 ps) eqn:Ef; [discriminate|].
    eapply find_idx_not_None; [| |exact Ef]. { apply Hcap. }
    cbn beta. rewrite (kwcap_complete _ _ _ _ Hcap), Hname, str_eqb_refl. reflexivity.
  - rewrite Hc in H. cbn [a_eq a_key fst snd] in H.
    destruct (if kw_before args then None else pos_slot ps 0 (n_pos args)); [discriminate|].
    unfold kw_search in H.
    destruct (find_idx (fun i0 p0 => kw_capable (used_keys args) (n_pos args) i0 p0 && starts_with (pname p0) pre) 0 ps) eqn:Ef; [discriminate|].
    eapply find_idx_not_None; [| |exact Ef]. { apply Hcap. }
    cbn beta. rewrite (kwcap_complete _ _ _ _ Hcap), Hsw. reflexivity.
  - rewrite Hc in H. cbn [a_eq a_key fst snd] in H.
    destruct (if kw_before args then None else pos_slot ps 0 (n_pos args)); [discriminate|].
    unfold kw_search in H.
    destruct (find_idx (fun i0 p0 => kw_capable (used_keys args) (n_pos args) i0 p0 && starts_with (pname p0) pre) 0 ps); [discriminate|].
    eapply find_idx_not_None; [exact Hn| |exact H]. cbn beta. rewrite Hk. reflexivity.
  - rewrite Hc in H. cbn [a_eq a_key fst snd] in H. unfold kw_search in H.
    destruct (find_idx (fun i0 p0 => kw_capable (used_keys args) (n_pos args) i0 p0 && str_eqb (pname p0) name) 0 ps); [discriminate|].
    eapply find_idx_not_None; [exact Hn| |exact H]. cbn beta. rewrite Hk. reflexivity.
Qed.

Theorem index_sound ps args i :
  wf ps = true -> args <> [] -> star_free args = true -> rebinding ps args = false ->
  calc_index ps args = Some i -> Target ps args i.
Proof.
  intros Hwf Hne Hsf Hreb H. rewrite index_is_preferred in H by auto.
  apply preferred_sound; auto. apply (cursor_star_free args Hne Hsf).
Qed.

Theorem index_complete ps args :
  wf ps = true -> args <> [] -> star_free args = true ->
  calc_index ps args = None -> forall i, ~ Target ps args i.
Proof.
  intros Hwf Hne Hsf H. rewrite index_is_preferred in H by auto.
  apply preferred_complete; auto.
Qed.

Theorem index_positional_exact ps args i p :
  wf ps = true -> args <> [] -> star_free args = true ->
  a_eq (cursor args) = false -> kw_before args = false ->
  nth_error ps i = Some p ->
  (is_positional_kind (pkind p) = true /\ rank ps i = n_pos args) \/
  (pkind p = VP /\ n_positional ps <= n_pos args) ->
  calc_index ps args = Some i.
Proof.
  intros Hwf Hne Hsf He Hkb Hn Hc. rewrite index_is_preferred by auto.
  unfold preferred. rewrite He, Hkb.
  destruct Hc as [[Hp Hr]|[Hp Hr]].
  - rewrite (pos_slot_complete_pos ps _ i p Hwf Hn Hp Hr). reflexivity.
  - rewrite (pos_slot_complete_vp ps _ i p Hwf Hn Hp Hr). reflexivity.
Qed.

(* ===================== part 6 ===================== *)

Lemma before_snoc b (c : arg) : before (b ++ [c]) = b.
Proof. unfold before. apply removelast_last. Qed.
Lemma cursor_snoc b (c : arg) : cursor (b ++ [c]) = c.
Proof. unfold cursor. apply last_last. Qed.
Lemma snoc_ne {A} (b : list A) c : b ++ [c] <> [].
Proof. destruct b; discriminate. Qed.

(* calc_index in terms of the specification-side quantities, for any argument list *)
Lemma calc_index_unfold ps args : args <> [] ->
  calc_index ps args =
  find_idx (index_step (is_kwarg_of args) (used_keys args) (n_pos args) (cursor args)) 0 ps.
Proof.
  intros Hne. unfold calc_index. destruct args as [|a0 ar]; [congruence|]. set (args := a0 :: ar) in *.
  destruct (scan_args args [] 0) as [used pc] eqn:Escan.
  destruct (scan_args_spec args [] 0) as [Hpc Hused]. rewrite Escan in Hpc, Hused.
  cbn [fst snd Nat.add] in Hpc, Hused. subst pc.
  apply find_idx_ext. intros. apply index_step_used_ext. intros name. rewrite Hused.
  cbn [used_mem]. apply orb_false_r.
Qed.

Definition not_single_star (a : arg) : bool := negb (N.eqb (a_stars a) 1).

(* `*x` arguments in front of the cursor are treated as if they were empty *)
Theorem index_starred_as_empty b cur ps :
  forallb (fun a => N.eqb (a_stars a) 0 || negb (a_eq a)) b = true ->
  calc_index ps (b ++ [cur]) = calc_index ps (filter not_single_star b ++ [cur]).
Proof.
  intros Hb. rewrite !calc_index_unfold by apply snoc_ne.
  unfold n_pos, used_keys. rewrite !before_snoc, !cursor_snoc.
  assert (E1 : filter is_pos_arg (filter not_single_star b) = filter is_pos_arg b).
  { clear Hb. induction b as [|a r IH]; [reflexivity|]. cbn [filter]. unfold not_single_star at 1, is_pos_arg at 2.
    destruct (N.eqb (a_stars a) 1) eqn:E; cbn [negb].
    - apply N.eqb_eq in E. rewrite E. cbn [N.eqb andb]. exact IH.
    - cbn [filter]. fold (is_pos_arg a). destruct (is_pos_arg a); rewrite IH; reflexivity. }
  assert (E2 : filter is_kw_arg (filter not_single_star b) = filter is_kw_arg b).
  { clear Hb E1. induction b as [|a r IH]; [reflexivity|]. cbn [filter]. unfold not_single_star at 1, is_kw_arg at 2.
    destruct (N.eqb (a_stars a) 1) eqn:E; cbn [negb].
    - apply N.eqb_eq in E. rewrite E. cbn [N.eqb andb]. exact IH.
    - cbn [filter]. fold (is_kw_arg a). destruct (is_kw_arg a); rewrite IH; reflexivity. }
  assert (E3 : is_kwarg_of (filter not_single_star b ++ [cur]) = is_kwarg_of (b ++ [cur])).
  { clear E1 E2. unfold is_kwarg_of. rewrite !existsb_app. f_equal. induction b as [|a r IH]; [reflexivity|].
    cbn [forallb] in Hb. apply andb_true_iff in Hb. destruct Hb as [Ha Hr].
    cbn [filter existsb]. unfold not_single_star at 1.
    destruct (N.eqb (a_stars a) 1) eqn:E; cbn [negb existsb].
    - apply N.eqb_eq in E. rewrite E in *. rewrite (IH Hr).
      destruct (a_eq a); [discriminate|reflexivity].
    - rewrite (IH Hr). reflexivity. }
  rewrite E1, E2, E3. reflexivity.
Qed.

Lemma is_kwarg_no_kw b cur :
  star_free b = true -> existsb a_eq b = false ->
  is_kwarg_of (b ++ [cur]) = a_eq cur || N.eqb (a_stars cur) 2.
Proof.
  intros Hsf Hk. unfold is_kwarg_of. rewrite existsb_app. cbn [existsb]. rewrite orb_false_r.
  replace (existsb (fun a => a_eq a || N.eqb (a_stars a) 2) b) with false; [reflexivity|].
  symmetry. induction b as [|a r IH]; [reflexivity|].
  unfold star_free in Hsf. cbn [forallb existsb] in *.
  apply andb_true_iff in Hsf. destruct Hsf as [Ha Hr]. apply andb_true_iff in Ha. destruct Ha as [Ha _].
  apply orb_false_iff in Hk. destruct Hk as [Hk1 Hk2]. apply N.eqb_eq in Ha.
  rewrite Hk1, Ha. cbn. apply IH; auto.
Qed.

(* a `*` argument under the cursor goes to the next positional slot *)
Theorem index_cursor_star b key ps :
  wf ps = true -> star_free b = true -> existsb a_eq b = false ->
  calc_index ps (b ++ [(1%N, key, false)]) = pos_slot ps 0 (length (filter is_pos_arg b)).
Proof.
  intros Hwf Hsf Hk. rewrite calc_index_unfold by apply snoc_ne.
  rewrite is_kwarg_no_kw by auto. unfold n_pos. rewrite before_snoc, cursor_snoc.
  cbn [a_eq a_stars fst snd N.eqb orb].
  set (pc := length (filter is_pos_arg b)).
  rewrite (find_idx_ext _ (fun j p => posc pc j p || (fun _ _ => false) j p)).
  - etransitivity. { apply (pos_loop (fun _ _ => false) pc ps 0 0 pc Hwf eq_refl). reflexivity. }
    rewrite find_idx_false. destruct (pos_slot ps 0 pc); reflexivity.
  - intros j p. unfold index_step, posc. cbn [a_stars a_key a_eq fst snd N.eqb negb orb andb].
    destruct key; cbn [negb andb orb]; destruct (pkind p); cbn [kind_eqb is_positional_kind orb andb]; 
      rewrite ?orb_false_r; reflexivity.
Qed.

(* a `**` argument under the cursor goes to the first unused keyword-capable parameter, else **kwargs *)
Theorem index_cursor_double_star b key ps :
  wf ps = true ->
  calc_index ps (b ++ [(2%N, key, false)]) =
  kw_search ps (used_keys (b ++ [(2%N, key, false)])) (n_pos (b ++ [(2%N, key, false)])) (fun _ => true).
Proof.
  intros Hwf. rewrite calc_index_unfold by apply snoc_ne.
  set (args := b ++ [(2%N, key, false)]).
  assert (Hk : is_kwarg_of args = true).
  { unfold is_kwarg_of, args. rewrite existsb_app. cbn. apply orb_true_r. }
  rewrite Hk. unfold args at 3. rewrite cursor_snoc.
  rewrite (find_idx_ext _ (fun j p => kwm (used_keys args) (n_pos args) (fun _ => true) j p || vkc p)).
  - unfold kw_search. apply (kw_loop _ 0 ps 0 Hwf).
  - intros j p. unfold index_step, kwm, kw_capable, vkc.
    cbn [a_stars a_key a_eq fst snd N.eqb negb orb andb].
    destruct key; cbn [negb andb orb]; rewrite ?andb_true_r; reflexivity.
Qed.

Definition s_a : str := [97]%N.
Definition s_b : str := [98]%N.
Definition s_x : str := [120]%N.
Definition s_kw : str := [107; 119]%N.

(* call `f( *x, |` with def f(a, b): jedi answers a; if x has one element Python binds to b *)
Theorem index_starred_exact_refuted :
  exists ps star_args expanded i j,
    wf ps = true /\
    calc_index ps star_args = Some i /\
    Target ps expanded j /\ ~ Target ps expanded i /\ star_free expanded = true.
Proof.
  exists [mkParam s_a PK; mkParam s_b PK],
         [(1%N, Some s_x, false); (0%N, Some [], false)],
         [(0%N, None, false); (0%N, Some [], false)], 0, 1.
  split; [reflexivity|]. split; [reflexivity|]. split; [|split; [|reflexivity]].
  - eapply T_positional with (p := mkParam s_b PK); reflexivity.
  - intros T. inversion T as [i' p He Hkb Hn Hp Hr | i' p He Hkb Hn Hp Hr | i' p name Hc Hcap Hname
                 | i' p pre Hc Hcap Hsw | i' p pre Hc Hn Hk | i' p name Hc Hn Hk Hu Hall].
    + cbv in Hr. discriminate.
    + cbv in Hn. injection Hn as <-. discriminate.
    + cbv in Hc. discriminate.
    + destruct Hcap as [Hn [_ [Hk|[_ Hr]]]]; cbv in Hn; injection Hn as <-; [discriminate|]. cbv in Hr. lia.
    + cbv in Hn. injection Hn as <-. discriminate.
    + cbv in Hc. discriminate.
Qed.

(* `f(1, a=|` with def f(a, **kw): jedi answers kw; Python raises "multiple values for argument 'a'" *)
Theorem index_rebinding_refuted :
  exists ps args i,
    wf ps = true /\ star_free args = true /\ args <> [] /\
    calc_index ps args = Some i /\ ~ Target ps args i.
Proof.
  exists [mkParam s_a PK; mkParam s_kw VK], [(0%N, Some [], false); (0%N, Some s_a, true)], 1.
  split; [reflexivity|]. split; [reflexivity|]. split; [discriminate|]. split; [reflexivity|].
  intros T. inversion T as [i' p He Hkb Hn Hp Hr | i' p He Hkb Hn Hp Hr | i' p name Hc Hcap Hname
                 | i' p pre Hc Hcap Hsw | i' p pre Hc Hn Hk | i' p name Hc Hn Hk Hu Hall].
  - cbv in He. discriminate.
  - cbv in He. discriminate.
  - destruct Hcap as [Hn [_ [Hk|[Hk _]]]]; cbv in Hn; injection Hn as <-; discriminate.
  - cbv in Hc. discriminate.
  - cbv in Hc. discriminate.
  - cbv in Hc. injection Hc as <-.
    destruct (Hall 0 (mkParam s_a PK) eq_refl eq_refl) as [C|[C|C]]; discriminate.
Qed.

(* the hypotheses of the index theorems are satisfiable, and the answer is not trivial *)
Example index_nonvacuous :
  let ps := [mkParam s_a PO; mkParam s_b PK; mkParam s_x KO; mkParam s_kw VK] in
  let args := [(0%N, Some [], false); (0%N, Some s_x, false)] in
  wf ps = true /\ args <> [] /\ star_free args = true /\ rebinding ps args = false /\
  calc_index ps args = Some 1.
Proof. cbv. repeat split; discriminate. Qed.

(* ===================== part 7 ===================== *)

Definition is_slash (c : child) : bool := match c with CSlash => true | _ => false end.
Definition is_starish (c : child) : bool :=
  match c with CStar => true | CParam sc _ => negb (N.eqb sc 0) | _ => false end.
Definition is_starvp (c : child) : bool :=
  match c with CStar => true | CParam sc _ => N.eqb sc 1 | _ => false end.
Definition is_vkish (c : child) : bool :=
  match c with CParam sc _ => negb (N.eqb sc 0) && negb (N.eqb sc 1) | _ => false end.
Definition is_param (c : child) : bool := match c with CParam _ _ => true | _ => false end.
Definition n_params (cs : list child) : nat := length (filter is_param cs).

(* ---- gk_scan characterised ---- *)
Lemma gk_after post : forall self idx,
  gk_scan post self idx true = if existsb is_slash post then PO else PK.
Proof.
  induction post as [|c r IH]; intros; [reflexivity|].
  cbn [gk_scan existsb]. destruct c; cbn [is_slash orb]; auto.
Qed.

Lemma gk_pre pre name post : forall idx,
  gk_scan (pre ++ CParam 0 name :: post) (idx + length pre) idx false =
  if existsb is_starish pre then KO
  else if existsb is_slash post then PO else PK.
Proof.
  induction pre as [|c r IH]; intros idx.
  - cbn [app length gk_scan existsb N.eqb negb]. rewrite Nat.add_0_r, Nat.eqb_refl. apply gk_after.
  - cbn [app length gk_scan existsb]. replace (idx + S (length r)) with (S idx + length r) by lia.
    destruct c as [sc n| | |]; cbn [is_starish orb].
    + destruct (N.eqb sc 0); cbn [negb orb]; [|reflexivity].
      replace (Nat.eqb idx (S idx + length r)) with false by (symmetry; apply Nat.eqb_neq; lia).
      apply IH.
    + reflexivity.
    + apply IH.
    + apply IH.
Qed.

(* ---- grammar facts ---- *)
Definition past0 (st : vstate) : bool := match st with V0 _ => false | _ => true end.

Lemma no_slash_later st cs : past0 st = true -> vrun st cs = true -> existsb is_slash cs = false.
Proof.
  revert st. induction cs as [|c r IH]; intros st Hp H; [reflexivity|].
  cbn [existsb]. destruct c as [sc n| | |]; cbn [is_slash orb].
  - destruct st; try discriminate; cbn [vrun] in H.
    + destruct (N.eqb sc 0); [eapply IH; [|exact H]; reflexivity|].
      destruct (N.eqb sc 1); [eapply IH; [|exact H]; reflexivity|].
      destruct (N.eqb sc 2); [eapply IH; [|exact H]; reflexivity|discriminate].
    + destruct (N.eqb sc 0); [eapply IH; [|exact H]; reflexivity|discriminate].
    + destruct (N.eqb sc 0); [eapply IH; [|exact H]; reflexivity|].
      destruct (N.eqb sc 2); [eapply IH; [|exact H]; reflexivity|discriminate].
  - destruct st; try discriminate; cbn [vrun] in H; eapply IH; [|exact H]; reflexivity.
  - destruct st; discriminate.
  - cbn [vrun] in H. eapply IH; eauto.
Qed.

Lemma slash_once cs : forall st done post, vrun st cs = true -> cs = done ++ post ->
  existsb is_slash done = true -> existsb is_slash post = false.
Proof.
  induction cs as [|c r IH]; intros st done post H E Hd.
  - destruct done; [discriminate|discriminate].
  - destruct done as [|d done']; [discriminate|]. cbn [app] in E. injection E as <- Er.
    cbn [existsb] in Hd. destruct c as [sc n| | |]; cbn [is_slash orb] in Hd.
    + destruct st; cbn [vrun] in H; try discriminate.
      * destruct (N.eqb sc 0); [eapply IH; eauto|].
        destruct (N.eqb sc 1); [eapply IH; eauto|].
        destruct (N.eqb sc 2); [eapply IH; eauto|discriminate].
      * destruct (N.eqb sc 0); [eapply IH; eauto|].
        destruct (N.eqb sc 1); [eapply IH; eauto|].
        destruct (N.eqb sc 2); [eapply IH; eauto|discriminate].
      * destruct (N.eqb sc 0); [eapply IH; eauto|discriminate].
      * destruct (N.eqb sc 0); [eapply IH; eauto|].
        destruct (N.eqb sc 2); [eapply IH; eauto|discriminate].
    + destruct st; cbn [vrun] in H; try discriminate; eapply IH; eauto.
    + destruct st; cbn [vrun] in H; try discriminate. destruct n; [discriminate|].
      pose proof (no_slash_later V1 r eq_refl H) as Hn. rewrite Er in Hn.
      rewrite existsb_app in Hn. apply orb_false_iff in Hn. apply Hn.
    + cbn [vrun] in H. eapply IH; eauto.
Qed.

Lemma v4_no_param cs : vrun V4 cs = true -> existsb is_param cs = false.
Proof.
  induction cs as [|c r IH]; [reflexivity|]. destruct c; cbn [vrun existsb is_param orb]; try discriminate. exact IH.
Qed.

Lemma vk_last done : forall st sc name post,
  vrun st (done ++ CParam sc name :: post) = true -> existsb is_vkish done = false.
Proof.
  induction done as [|c r IH]; intros st sc name post H; [reflexivity|].
  cbn [app existsb] in *. destruct c as [sc' n'| | |]; cbn [is_vkish orb].
  - destruct st; cbn [vrun] in H; try discriminate.
    + destruct (N.eqb sc' 0); [cbn; eapply IH; eauto|].
      destruct (N.eqb sc' 1); [cbn; eapply IH; eauto|].
      destruct (N.eqb sc' 2); [|discriminate].
      apply v4_no_param in H. rewrite existsb_app in H. cbn in H. rewrite orb_true_r in H. discriminate.
    + destruct (N.eqb sc' 0); [cbn; eapply IH; eauto|].
      destruct (N.eqb sc' 1); [cbn; eapply IH; eauto|].
      destruct (N.eqb sc' 2); [|discriminate].
      apply v4_no_param in H. rewrite existsb_app in H. cbn in H. rewrite orb_true_r in H. discriminate.
    + destruct (N.eqb sc' 0); [cbn; eapply IH; eauto|discriminate].
    + destruct (N.eqb sc' 0); [cbn; eapply IH; eauto|].
      destruct (N.eqb sc' 2); [|discriminate].
      apply v4_no_param in H. rewrite existsb_app in H. cbn in H. rewrite orb_true_r in H. discriminate.
  - destruct st; cbn [vrun] in H; try discriminate; eapply IH; eauto.
  - destruct st; cbn [vrun] in H; try discriminate. destruct n; [discriminate|]. eapply IH; eauto.
  - cbn [vrun] in H. eapply IH; eauto.
Qed.

(* ---- n_before_slash characterised ---- *)
Lemma nbs_no_slash cs : forall n, existsb is_slash cs = false -> n_before_slash cs n = 0.
Proof.
  induction cs as [|c r IH]; intros n H; [reflexivity|].
  cbn [existsb] in H. apply orb_false_iff in H. destruct H as [Hc Hr].
  destruct c; cbn [n_before_slash]; try discriminate; auto.
Qed.

Lemma nbs_app done post : forall n, existsb is_slash done = false ->
  n_before_slash (done ++ post) n = n_before_slash post (n + n_params done).
Proof.
  unfold n_params. induction done as [|c r IH]; intros n H.
  - cbn. rewrite Nat.add_0_r. reflexivity.
  - cbn [existsb] in H. apply orb_false_iff in H. destruct H as [Hc Hr].
    destruct c; cbn [app n_before_slash filter is_param length]; try discriminate; rewrite IH by auto; f_equal; lia.
Qed.

Lemma nbs_ge post : forall n, existsb is_slash post = true -> n <= n_before_slash post n.
Proof.
  induction post as [|c r IH]; intros n H; [discriminate|].
  cbn [existsb] in H. destruct c; cbn [n_before_slash is_slash orb] in *; auto.
  specialize (IH (S n) H). lia.
Qed.

Lemma starish_split c : is_starish c = is_starvp c || is_vkish c.
Proof.
  destruct c as [sc n| | |]; cbn; auto.
  destruct (N.eqb sc 0) eqn:E0, (N.eqb sc 1) eqn:E1; cbn; auto.
  apply N.eqb_eq in E0, E1. congruence.
Qed.

Lemma existsb_starish cs : existsb is_vkish cs = false -> existsb is_starish cs = existsb is_starvp cs.
Proof.
  induction cs as [|c r IH]; [reflexivity|]. cbn [existsb]. intros H. apply orb_false_iff in H.
  destruct H as [Hc Hr]. rewrite starish_split, Hc, orb_false_r, IH; auto.
Qed.

(* the kind Python gives to the parameter that follows `done` *)
Definition py_kind_at (all done : list child) (sc : N) : kind :=
  if N.eqb sc 1 then VP else if N.eqb sc 2 then VK
  else if existsb is_starvp done then KO
  else if Nat.ltb (n_params done) (n_before_slash all 0) then PO else PK.

Lemma get_kind_at done sc name post :
  let all := done ++ CParam sc name :: post in
  valid_children all = true -> starts_with name dunder = false ->
  get_kind all (length done) = py_kind_at all done sc.
Proof.
  intros all Hv Hd. unfold get_kind, py_kind_at.
  unfold all at 1. rewrite nth_error_app2 by lia. rewrite Nat.sub_diag. cbn [nth_error].
  destruct (N.eqb sc 1) eqn:E1; [reflexivity|]. destruct (N.eqb sc 2) eqn:E2; [reflexivity|].
  rewrite Hd.
  assert (Hsc : sc = 0%N).
  { unfold valid_children, all in Hv.
    assert (G : forall st, vrun st (done ++ CParam sc name :: post) = true -> sc = 0%N).
    { clear -E1 E2. induction done as [|c r IH]; intros st H.
      - cbn [app vrun] in H. destruct st; cbn [vrun] in H; rewrite ?E1, ?E2 in H;
          destruct (N.eqb sc 0) eqn:E0; try discriminate; apply N.eqb_eq in E0; exact E0.
      - cbn [app] in H. destruct c as [sc' n'| | |]; destruct st; cbn [vrun] in H; try discriminate;
          try (eapply IH; exact H).
        + destruct (N.eqb sc' 0); [eapply IH; exact H|]. destruct (N.eqb sc' 1); [eapply IH; exact H|].
          destruct (N.eqb sc' 2); [eapply IH; exact H|discriminate].
        + destruct (N.eqb sc' 0); [eapply IH; exact H|]. destruct (N.eqb sc' 1); [eapply IH; exact H|].
          destruct (N.eqb sc' 2); [eapply IH; exact H|discriminate].
        + destruct (N.eqb sc' 0); [eapply IH; exact H|discriminate].
        + destruct (N.eqb sc' 0); [eapply IH; exact H|]. destruct (N.eqb sc' 2); [eapply IH; exact H|discriminate].
        + destruct n; [discriminate|]. eapply IH; exact H. }
    eapply G; exact Hv. }
  subst sc. unfold all at 1.
  generalize (gk_pre done name post 0). cbn [Nat.add]. intros ->.
  pose proof (vk_last done _ _ _ _ Hv) as Hvk. rewrite (existsb_starish done Hvk).
  destruct (existsb is_starvp done); [reflexivity|].
  destruct (existsb is_slash post) eqn:Hsp.
  - (* a slash follows: no slash before, so the parameter is before the first slash *)
    assert (Hsd : existsb is_slash done = false).
    { destruct (existsb is_slash done) eqn:Hsd; auto.
      pose proof (slash_once all (V0 0) done (CParam 0 name :: post) Hv eq_refl Hsd) as C.
      cbn [existsb is_slash orb] in C. congruence. }
    unfold all. rewrite (nbs_app done _ 0 Hsd). cbn [Nat.add n_before_slash].
    pose proof (nbs_ge post (S (n_params done)) Hsp).
    replace (Nat.ltb (n_params done) (n_before_slash post (S (n_params done)))) with true; [reflexivity|].
    symmetry. apply Nat.ltb_lt. lia.
  - destruct (existsb is_slash done) eqn:Hsd.
    + (* the first slash is in `done` *)
      assert (Hle : n_before_slash all 0 <= n_params done).
      { unfold all. clear -Hsd.
        assert (G : forall n, n_before_slash (done ++ CParam 0 name :: post) n <= n + n_params done).
        { induction done as [|c r IH]; intros n; [discriminate|].
          cbn [existsb] in Hsd. unfold n_params in *.
          destruct c; cbn [app n_before_slash filter is_param length is_slash orb] in *;
            try (specialize (IH Hsd (S n)); lia); try (specialize (IH Hsd n); lia); lia. }
        specialize (G 0). lia. }
      replace (Nat.ltb (n_params done) (n_before_slash all 0)) with false; [reflexivity|].
      symmetry. apply Nat.ltb_ge. exact Hle.
    + unfold all. rewrite nbs_no_slash; [reflexivity|].
      rewrite existsb_app. cbn [existsb is_slash orb]. rewrite Hsd, Hsp. reflexivity.
Qed.

Lemma no_dunder_app a b : no_dunder (a ++ b) = no_dunder a && no_dunder b.
Proof.
  induction a as [|c r IH]; [reflexivity|]. destruct c; cbn [app no_dunder]; rewrite ?IH, ?andb_assoc; reflexivity.
Qed.

Lemma public_name_plain name : starts_with name dunder = false -> public_name name = name.
Proof. unfold public_name. intros ->. reflexivity. Qed.

Lemma sig_go all : valid_children all = true -> no_dunder all = true ->
  forall cs done, all = done ++ cs ->
  jedi_sig_go all cs (length done) =
  py_go cs (n_params done) (n_before_slash all 0) (existsb is_starvp done).
Proof.
  intros Hv Hnd. induction cs as [|c r IH]; intros done E; [reflexivity|].
  assert (E' : all = (done ++ [c]) ++ r) by (rewrite <- app_assoc; exact E).
  specialize (IH (done ++ [c]) E'). rewrite app_length in IH. cbn [length] in IH.
  replace (length done + 1) with (S (length done)) in IH by lia.
  unfold n_params in *. rewrite filter_app, app_length, existsb_app in IH. cbn [existsb filter] in IH.
  destruct c as [sc name| | |]; cbn [jedi_sig_go py_go is_param is_starvp length] in *.
  - assert (Hd : starts_with name dunder = false).
    { rewrite E, no_dunder_app in Hnd. apply andb_true_iff in Hnd. destruct Hnd as [_ Hnd].
      cbn [no_dunder] in Hnd. apply andb_true_iff in Hnd. destruct Hnd as [Hnd _].
      destruct (starts_with name dunder); [discriminate|reflexivity]. }
    rewrite public_name_plain by exact Hd. rewrite IH. f_equal.
    + f_equal. rewrite E in *. rewrite (get_kind_at done sc name r Hv Hd). unfold py_kind_at, n_params.
      reflexivity.
    + rewrite orb_false_r. f_equal. lia.
  - rewrite IH. rewrite Nat.add_0_r, orb_true_r. reflexivity.
  - rewrite IH. rewrite Nat.add_0_r, !orb_false_r. reflexivity.
  - rewrite IH. rewrite Nat.add_0_r, !orb_false_r. reflexivity.
Qed.

Theorem get_kind_is_python_kind cs :
  valid_children cs = true -> no_dunder cs = true -> jedi_sig cs = py_sig cs.
Proof.
  intros Hv Hnd. unfold jedi_sig, py_sig. exact (sig_go cs Hv Hnd cs [] eq_refl).
Qed.

Definition s_dx : str := [95; 95; 120]%N.

(* def f(__x): Python says positional-or-keyword `__x`; jedi says positional-only `x` *)
Theorem get_kind_dunder_refuted :
  exists cs, valid_children cs = true /\ jedi_sig cs <> py_sig cs /\
             py_sig cs = [mkParam s_dx PK] /\ jedi_sig cs = [mkParam [120]%N PO].
Proof.
  exists [COther; CParam 0 s_dx; COther]. cbv. repeat split; congruence.
Qed.

(* ===================== part 8 ===================== *)

Definition isPO (p : param) : bool := kind_eqb (pkind p) PO.

Lemma wf_po_decomp ps : forall m, wf_from m ps = true ->
  exists po rest, ps = po ++ rest /\ forallb isPO po = true /\ wf_from 1 rest = true.
Proof.
  induction ps as [|p r IH]; intros m H.
  - exists [], []. auto.
  - pose proof H as H'. cbn [wf_from] in H'. apply andb_true_iff in H'. destruct H' as [H1 H2].
    destruct (isPO p) eqn:Hp.
    + destruct (IH _ H2) as [po [rest [E [F W]]]]. exists (p :: po), rest.
      rewrite E. cbn [forallb]. rewrite Hp, F. auto.
    + exists [], (p :: r). repeat split; auto. cbn [wf_from]. rewrite H2.
      unfold isPO in Hp. destruct (pkind p); try discriminate; reflexivity.
Qed.

Lemma param_eta p : mkParam (pname p) (pkind p) = p.
Proof. destruct p; reflexivity. Qed.

(* the PO prefix *)
Lemma ts_go_po po rest : forallb isPO po = true ->
  (forall x, In x rest -> isPO x = false) -> forall ip,
  ts_go pkind ip false (po ++ rest) =
  map TParam po ++ (if ip || negb (match po with [] => true | _ => false end) then [TSlash] else [])
  ++ ts_go pkind false false rest.
Proof.
  intros F R. induction po as [|p r IH]; intros ip.
  - cbn [app map]. rewrite orb_false_r. destruct rest as [|x rest'].
    + cbn. destruct ip; reflexivity.
    + cbn [ts_go]. pose proof (R x (or_introl eq_refl)) as Hx. unfold isPO in Hx. rewrite Hx.
      cbn [negb orb andb]. rewrite orb_false_r, andb_true_r. destruct ip; reflexivity.
  - cbn [forallb] in F. apply andb_true_iff in F. destruct F as [Fp Fr]. unfold isPO in Fp.
    assert (Hk : pkind p = PO) by (destruct (pkind p); try discriminate; reflexivity).
    cbn [app ts_go map]. rewrite Hk. cbn [kind_eqb negb andb orb]. rewrite orb_true_r. cbn [andb app negb].
    rewrite (IH Fr true). reflexivity.
Qed.

Lemma wf_from_phase m ps : wf_from m ps = true -> forall x, In x ps -> m <= phase (pkind x).
Proof.
  revert m. induction ps as [|p r IH]; intros m H x Hx; [destruct Hx|].
  cbn [wf_from] in H. apply andb_true_iff in H. destruct H as [H1 H2]. apply Nat.leb_le in H1.
  destruct Hx as [<-|Hx]; [exact H1|]. specialize (IH _ H2 x Hx).
  destruct (pkind p); cbn [phase] in *; lia.
Qed.

(* after the PO prefix: jedi's markers and Python's reading run in lock step *)
Lemma roundtrip_rest rest : forall m kw idx npo,
  wf_from m rest = true -> 1 <= m -> (kw = true -> 3 <= m) -> npo <= idx ->
  py_go (map item_child (ts_go pkind false kw rest)) idx npo kw = rest /\
  existsb is_slash (map item_child (ts_go pkind false kw rest)) = false.
Proof.
  induction rest as [|p r IH]; intros m kw idx npo H Hm Hkw Hidx; [split; reflexivity|].
  cbn [wf_from] in H. apply andb_true_iff in H. destruct H as [H1 H2]. apply Nat.leb_le in H1.
  cbn [ts_go]. destruct (pkind p) eqn:Hk; cbn [phase] in H1, H2; cbn [kind_eqb orb andb negb app].
  - lia.
  - (* PK *)
    assert (kw = false) by (destruct kw; auto; specialize (Hkw eq_refl); lia). subst kw.
    cbn [map item_child py_go existsb is_slash orb]. rewrite Hk. cbn [stars_of N.eqb].
    replace (Nat.ltb idx npo) with false by (symmetry; apply Nat.ltb_ge; lia).
    destruct (IH 1 false (S idx) npo H2 (le_n 1) ltac:(discriminate) ltac:(lia)) as [E1 E2].
    cbn [orb]. rewrite E1, E2. rewrite <- Hk, param_eta. auto.
  - (* VP *)
    cbn [map item_child py_go existsb is_slash orb]. rewrite Hk. cbn [stars_of N.eqb].
    destruct (IH 3 true (S idx) npo H2 ltac:(lia) ltac:(lia) ltac:(lia)) as [E1 E2].
    rewrite orb_true_r. rewrite E1, E2. rewrite <- Hk, param_eta. auto.
  - (* KO *)
    destruct (IH 3 true (S idx) npo H2 ltac:(lia) ltac:(lia) ltac:(lia)) as [E1 E2].
    destruct kw; cbn [negb app map item_child py_go existsb is_slash orb]; rewrite Hk; cbn [stars_of N.eqb orb];
      rewrite E1, E2; rewrite <- Hk, param_eta; auto.
  - (* VK *)
    assert (r = []).
    { destruct r as [|q r']; auto. cbn [wf_from] in H2. apply andb_true_iff in H2. destruct H2 as [C _].
      apply Nat.leb_le in C. destruct (pkind q); cbn [phase] in C; lia. }
    subst r. cbn [ts_go map item_child py_go existsb is_slash orb]. rewrite Hk. cbn [stars_of N.eqb].
    rewrite <- Hk, param_eta. auto.
Qed.

Lemma py_go_po po : forallb isPO po = true -> forall idx npo tailcs,
  idx + length po <= npo ->
  py_go (map item_child (map TParam po) ++ tailcs) idx npo false =
  po ++ py_go tailcs (idx + length po) npo false.
Proof.
  induction po as [|p r IH]; intros F idx npo tailcs Hn.
  - cbn. rewrite Nat.add_0_r. reflexivity.
  - cbn [forallb] in F. apply andb_true_iff in F. destruct F as [Fp Fr]. unfold isPO in Fp.
    assert (Hk : pkind p = PO) by (destruct (pkind p); try discriminate; reflexivity).
    cbn [map item_child app py_go length] in *. rewrite Hk. cbn [stars_of N.eqb orb].
    replace (Nat.ltb idx npo) with true by (symmetry; apply Nat.ltb_lt; lia).
    rewrite (IH Fr (S idx) npo tailcs) by lia. rewrite <- Hk, param_eta.
    cbn [app]. replace (S idx + length r) with (idx + S (length r)) by lia. reflexivity.
Qed.

Lemma nbs_po po : forallb isPO po = true -> forall n tailcs,
  n_before_slash (map item_child (map TParam po) ++ tailcs) n = n_before_slash tailcs (n + length po).
Proof.
  induction po as [|p r IH]; intros F n tailcs.
  - cbn. rewrite Nat.add_0_r. reflexivity.
  - cbn [forallb] in F. apply andb_true_iff in F. destruct F as [_ Fr].
    cbn [map item_child app n_before_slash length]. rewrite (IH Fr). f_equal. lia.
Qed.

Theorem to_string_roundtrip ps : wf ps = true -> py_sig (to_string_children ps) = ps.
Proof.
  intros Hwf. destruct (wf_po_decomp ps 0 Hwf) as [po [rest [-> [F W]]]].
  assert (R : forall x, In x rest -> isPO x = false).
  { intros x Hx. pose proof (wf_from_phase 1 rest W x Hx). unfold isPO. destruct (pkind x); cbn [phase] in *; auto; lia. }
  unfold to_string_children, ts_items. rewrite (ts_go_po po rest F R false). cbn [orb].
  rewrite !map_app. unfold py_sig.
  destruct (roundtrip_rest rest 1 false (length po) (length po) W (le_n 1) ltac:(discriminate) (le_n _)) as [E1 E2].
  destruct po as [|p0 po'].
  - cbn [negb map app length] in *. rewrite (nbs_no_slash _ 0 E2).
    destruct (roundtrip_rest rest 1 false 0 0 W (le_n 1) ltac:(discriminate) (le_n _)) as [E3 _]. exact E3.
  - cbn [negb]. set (po := p0 :: po') in *.
    rewrite (nbs_po po F 0). cbn [map item_child app n_before_slash Nat.add].
    rewrite (py_go_po po F 0 (length po)) by (cbn; lia). cbn [Nat.add py_go]. rewrite E1. reflexivity.
Qed.

(* and the rendered list is a syntactically valid parameter list *)
Definition st_of (kw : bool) (st : vstate) : Prop :=
  if kw then st = V3 else (st = V1 \/ exists n, st = V0 n).

Lemma valid_rest rest : forall m kw st,
  wf_from m rest = true -> 1 <= m -> (kw = true -> 3 <= m) -> st_of kw st ->
  vrun st (map item_child (ts_go pkind false kw rest)) = true.
Proof.
  induction rest as [|p r IH]; intros m kw st H Hm Hkw Hst.
  - cbn. destruct kw; cbn in Hst; [subst; reflexivity|]. destruct Hst as [->|[n ->]]; reflexivity.
  - cbn [wf_from] in H. apply andb_true_iff in H. destruct H as [H1 H2]. apply Nat.leb_le in H1.
    cbn [ts_go]. destruct (pkind p) eqn:Hk; cbn [phase] in H1, H2; cbn [kind_eqb orb andb negb app].
    + lia.
    + assert (kw = false) by (destruct kw; auto; specialize (Hkw eq_refl); lia). subst kw.
      cbn [map item_child]. rewrite Hk. cbn [stars_of]. cbn in Hst.
      destruct Hst as [->|[n ->]]; cbn [vrun N.eqb]; (eapply IH; [exact H2|lia|discriminate|]); cbn; eauto.
    + cbn [map item_child]. rewrite Hk. cbn [stars_of].
      assert (G : vrun V3 (map item_child (ts_go pkind false true r)) = true)
        by (eapply IH; [exact H2|lia|lia|reflexivity]).
      destruct kw; cbn in Hst.
      * exfalso. specialize (Hkw eq_refl). lia.
      * destruct Hst as [->|[n ->]]; cbn [vrun N.eqb]; exact G.
    + assert (G : vrun V3 (map item_child (ts_go pkind false true r)) = true)
        by (eapply IH; [exact H2|lia|lia|reflexivity]).
      destruct kw; cbn [negb app map item_child]; rewrite Hk; cbn [stars_of]; cbn in Hst.
      * subst st. cbn [vrun N.eqb]. exact G.
      * destruct Hst as [->|[n ->]]; cbn [vrun N.eqb]; exact G.
    + assert (r = []).
      { destruct r as [|q r']; auto. cbn [wf_from] in H2. apply andb_true_iff in H2. destruct H2 as [C _].
        apply Nat.leb_le in C. destruct (pkind q); cbn [phase] in C; lia. }
      subst r. cbn [ts_go map item_child]. rewrite Hk. cbn [stars_of].
      destruct kw; cbn in Hst.
      * subst st. reflexivity.
      * destruct Hst as [->|[n ->]]; reflexivity.
Qed.

Lemma vrun_po po : forallb isPO po = true -> forall n tailcs,
  vrun (V0 n) (map item_child (map TParam po) ++ tailcs) = vrun (V0 (n + length po)) tailcs.
Proof.
  induction po as [|p r IH]; intros F n tailcs.
  - cbn. rewrite Nat.add_0_r. reflexivity.
  - cbn [forallb] in F. apply andb_true_iff in F. destruct F as [Fp Fr]. unfold isPO in Fp.
    assert (Hk : pkind p = PO) by (destruct (pkind p); try discriminate; reflexivity).
    cbn [map item_child app length]. rewrite Hk. cbn [stars_of vrun N.eqb]. rewrite (IH Fr). f_equal. f_equal. lia.
Qed.

Theorem to_string_valid ps : wf ps = true -> valid_children (to_string_children ps) = true.
Proof.
  intros Hwf. destruct (wf_po_decomp ps 0 Hwf) as [po [rest [-> [F W]]]].
  assert (R : forall x, In x rest -> isPO x = false).
  { intros x Hx. pose proof (wf_from_phase 1 rest W x Hx). unfold isPO. destruct (pkind x); cbn [phase] in *; auto; lia. }
  unfold to_string_children, ts_items, valid_children. rewrite (ts_go_po po rest F R false). cbn [orb].
  rewrite !map_app. rewrite (vrun_po po F 0). cbn [Nat.add].
  destruct po as [|p0 po'].
  - cbn [negb map app length]. eapply valid_rest; [exact W|lia|discriminate|]. cbn. eauto.
  - cbn [negb map item_child app length vrun]. eapply valid_rest; [exact W|lia|discriminate|]. cbn. eauto.
Qed.

(* ---- docstring ---- *)
Theorem docstring_assembly sig doc :
  docstring sig doc true = doc /\
  (sig <> [] -> doc <> [] -> docstring sig doc false = sig ++ [10; 10]%N ++ doc) /\
  (doc = [] -> docstring sig doc false = sig) /\
  (sig = [] -> docstring sig doc false = doc) /\
  (exists sep, docstring sig doc false = sig ++ sep ++ doc).
Proof.
  split; [reflexivity|]. split; [|split; [|split]].
  - intros Hs Hd. unfold docstring. destruct sig, doc; try congruence; reflexivity.
  - intros ->. unfold docstring. destruct sig; cbn; rewrite ?app_nil_r; reflexivity.
  - intros ->. unfold docstring. reflexivity.
  - unfold docstring. destruct sig, doc; cbn [negb is_empty andb];
      [exists []|exists []|exists []|exists [10;10]%N]; reflexivity.
Qed.
