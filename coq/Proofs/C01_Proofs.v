From JV Require Import Base.Str Proofs.Str_Proofs Model.C01_Validate.
Local Open Scope Z_scope.

Lemma split_go_concat n : forall s cur, (length s <= n)%nat -> concat (split_go s cur) = rev cur ++ s.
Proof.
  induction n as [|n IH]; intros s cur Hl.
  - destruct s; [|simpl in Hl; lia]. simpl. rewrite !app_nil_r. reflexivity.
  - destruct s as [|c r]; [simpl; rewrite !app_nil_r; reflexivity|].
    simpl in Hl. cbn [split_go].
    destruct (N.eqb c 13) eqn:E13.
    + apply N.eqb_eq in E13. subst c. destruct r as [|d r'].
      * simpl. rewrite ?app_nil_r, <- ?app_assoc. reflexivity.
      * destruct (N.eqb d 10) eqn:E10.
        -- apply N.eqb_eq in E10. subst d. cbn [concat]. rewrite IH by (simpl in *; lia).
           simpl rev. rewrite <- !app_assoc. reflexivity.
        -- cbn [concat]. rewrite IH by (simpl in *; lia). simpl rev. rewrite <- !app_assoc. reflexivity.
    + destruct (N.eqb c 10) eqn:E10.
      * apply N.eqb_eq in E10. subst c. cbn [concat]. rewrite IH by lia. simpl rev. rewrite <- !app_assoc. reflexivity.
      * rewrite IH by lia. simpl rev. rewrite <- app_assoc. reflexivity.
Qed.

Lemma join_split s : concat (split_lines s) = s.
Proof. unfold split_lines. rewrite (split_go_concat (length s)); auto. Qed.

Lemma split_go_nonempty s : forall cur, split_go s cur <> [].
Proof.
  induction s as [|c r IH]; intros cur; cbn [split_go]; [discriminate|].
  destruct (N.eqb c 13).
  - destruct r as [|d r']; [discriminate|]. destruct (N.eqb d 10); discriminate.
  - destruct (N.eqb c 10); [discriminate|apply IH].
Qed.

Lemma split_lines_nonempty s : (length (split_lines s) >= 1)%nat.
Proof. unfold split_lines. pose proof (split_go_nonempty s []). destruct (split_go s []); [congruence|simpl; lia]. Qed.

Lemma starts_with_length s p : starts_with s p = true -> (length p <= length s)%nat.
Proof.
  revert s; induction p as [|c p IH]; intros s H; simpl; [lia|].
  destruct s as [|d s]; simpl in H; [discriminate|]. apply andb_true_iff in H as [_ H]. apply IH in H. simpl. lia.
Qed.

Lemma ends_with_length s suf : ends_with s suf = true -> (length suf <= length s)%nat.
Proof. unfold ends_with. intro H. apply starts_with_length in H. rewrite !rev_length in H. exact H. Qed.

Lemma stripped_len_bounds line : 0 <= stripped_len line <= Z.of_nat (length line).
Proof.
  unfold stripped_len.
  destruct (ends_with line [13; 10]%N) eqn:E1; [apply ends_with_length in E1; simpl in E1; lia|].
  destruct (ends_with line [10]%N) eqn:E2; [apply ends_with_length in E2; simpl in E2; lia|]. lia.
Qed.

(* exactly the positions inside the text are accepted; everything else is ValueError *)
Lemma validate_accept_iff lines l c l' c' :
  validate lines (Some l) (Some c) = Accept l' c' <->
  l' = l /\ c' = c /\ 1 <= l <= Z.of_nat (length lines) /\
  0 <= c <= stripped_len (nth (Z.to_nat (l - 1)) lines []).
Proof.
  unfold validate.
  destruct ((0 <? l) && (l <=? Z.of_nat (length lines))) eqn:E1; simpl negb; cbv iota.
  - apply andb_true_iff in E1 as [Ea Eb]. apply Z.ltb_lt in Ea. apply Z.leb_le in Eb.
    destruct ((0 <=? c) && (c <=? stripped_len (nth (Z.to_nat (l - 1)) lines []))) eqn:E2; simpl negb; cbv iota.
    + apply andb_true_iff in E2 as [Ec Ed]. apply Z.leb_le in Ec, Ed.
      split; [intro H; inversion H; subst; repeat split; lia | intros [-> [-> _]]; reflexivity].
    + split; [discriminate|]. intros [_ [_ [_ H]]].
      apply andb_false_iff in E2 as [E|E]; [apply Z.leb_gt in E | apply Z.leb_gt in E]; lia.
  - split; [discriminate|]. intros [_ [_ [H _]]].
    apply andb_false_iff in E1 as [E|E]; [apply Z.ltb_ge in E | apply Z.leb_gt in E]; lia.
Qed.

Lemma validate_reject_iff lines l c :
  validate lines (Some l) (Some c) = ValueError <->
  ~ (1 <= l <= Z.of_nat (length lines) /\ 0 <= c <= stripped_len (nth (Z.to_nat (l - 1)) lines [])).
Proof.
  split.
  - intros H [H1 H2].
    assert (validate lines (Some l) (Some c) = Accept l c) by (apply validate_accept_iff; auto).
    congruence.
  - intro H. destruct (validate lines (Some l) (Some c)) as [l' c'|] eqn:E; [|reflexivity].
    apply validate_accept_iff in E. tauto.
Qed.

(* an accepted position indexes an existing line and a column within it: the slices taken
   downstream (lines[l-1][:c]) are in range *)
Lemma validate_safe lines line col l c :
  validate lines line col = Accept l c ->
  1 <= l <= Z.of_nat (length lines) /\ 0 <= c <= Z.of_nat (length (nth (Z.to_nat (l - 1)) lines [])).
Proof.
  unfold validate.
  set (l0 := match line with None => Z.max (Z.of_nat (length lines)) 1 | Some l1 => l1 end).
  destruct ((0 <? l0) && (l0 <=? Z.of_nat (length lines))) eqn:E1; simpl negb; cbv iota; [|discriminate].
  apply andb_true_iff in E1 as [Ea Eb]. apply Z.ltb_lt in Ea. apply Z.leb_le in Eb.
  set (len := stripped_len (nth (Z.to_nat (l0 - 1)) lines [])).
  set (c0 := match col with None => len | Some c1 => c1 end).
  destruct ((0 <=? c0) && (c0 <=? len)) eqn:E2; simpl negb; cbv iota; [|discriminate].
  apply andb_true_iff in E2 as [Ec Ed]. apply Z.leb_le in Ec, Ed.
  intro H. inversion H; subst l c.
  pose proof (stripped_len_bounds (nth (Z.to_nat (l0 - 1)) lines [])). fold len in H0. lia.
Qed.

(* the defaults (end of the last line) are always inside any text, even the empty one *)
Lemma validate_defaults_accept s : exists l c, validate_text s None None = Accept l c.
Proof.
  unfold validate_text, validate.
  pose proof (split_lines_nonempty s) as Hn.
  set (lines := split_lines s) in *.
  assert (E : Z.max (Z.of_nat (length lines)) 1 = Z.of_nat (length lines)) by lia. rewrite E.
  assert (E1 : (0 <? Z.of_nat (length lines)) && (Z.of_nat (length lines) <=? Z.of_nat (length lines)) = true).
  { apply andb_true_iff. split; [apply Z.ltb_lt; lia | apply Z.leb_le; lia]. }
  rewrite E1. simpl negb. cbv iota.
  pose proof (stripped_len_bounds (nth (Z.to_nat (Z.of_nat (length lines) - 1)) lines [])) as Hb.
  set (len := stripped_len _) in *.
  assert (E2 : (0 <=? len) && (len <=? len) = true).
  { apply andb_true_iff. split; apply Z.leb_le; lia. }
  rewrite E2. simpl. eauto.
Qed.
