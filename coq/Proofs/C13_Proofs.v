(* C13: proofs about the object-graph model of attribute lookup (Model/C13_Getattr.v). *)
From Coq Require Import List NArith Bool Arith Lia.
From JV Require Import Base.Str Proofs.Str_Proofs Model.C13_Getattr.
Import ListNotations.

(* ---- auxiliary definitions ---- *)

(* no class that appears in an MRO has a metaclass that shadows __dict__ *)
Definition no_meta_shadow (h : heap) : Prop :=
  forall k e, In e (mro_of h k) -> shadowed_dict h (type_of h e) = None.

Definition no_meta_shadow_b (h : heap) : bool :=
  forallb (fun k => forallb (fun e => negb (is_some (shadowed_dict h (type_of h e)))) (mro_of h k))
          (seq 0 (length h)).

(* the builtin descriptor types of ALLOWED_DESCRIPTOR_ACCESS are what they are: their MRO starts
   with themselves and their __get__ is not written in Python *)
Definition builtin_descr_wf (h : heap) : Prop :=
  forall T, kind_in (kind_of h T) allowed_descriptor_kinds = true ->
            (exists r, mro_of h T = T :: r) /\ user_hook h T s_get = false.

Definition builtin_descr_wf_b (h : heap) : bool :=
  forallb (fun T =>
             if kind_in (kind_of h T) allowed_descriptor_kinds
             then match mro_of h T with T' :: _ => Nat.eqb T' T | [] => false end
                  && negb (user_hook h T s_get)
             else true)
          (seq 0 (length h)).

(* looking n up on the metaclass of class o runs no Python-level __get__ / property getter *)
Definition meta_harmless (h : heap) (o : id) (n : str) : Prop :=
  match type_lookup h (type_of h o) n with
  | Some m => existsb descr_hook (snd (call_get h m (Some o) (type_of h o))) = false
  | None => True
  end.

Definition meta_no_get (h : heap) (o : id) (n : str) : Prop :=
  match type_lookup h (type_of h o) n with
  | Some m => has_get h m = false
  | None => True
  end.

(* ---- boolean versions are sound ---- *)

Lemma get_overflow h k : length h <= k -> get h k = dummy.
Proof. intro H. unfold get. apply nth_overflow. exact H. Qed.

Lemma mro_of_overflow h k : length h <= k -> mro_of h k = [].
Proof. intro H. unfold mro_of, get_cls. rewrite get_overflow by exact H. reflexivity. Qed.

Lemma kind_of_overflow h k : length h <= k -> kind_of h k = KOther.
Proof. intro H. unfold kind_of, get_cls. rewrite get_overflow by exact H. reflexivity. Qed.

Lemma no_meta_shadow_b_sound h : no_meta_shadow_b h = true -> no_meta_shadow h.
Proof.
  intros Hb k e He.
  destruct (Nat.lt_ge_cases k (length h)) as [Hlt|Hge].
  - unfold no_meta_shadow_b in Hb. rewrite forallb_forall in Hb.
    specialize (Hb k). rewrite in_seq in Hb.
    assert (Hk : 0 <= k < 0 + length h) by lia.
    specialize (Hb Hk). rewrite forallb_forall in Hb. specialize (Hb e He).
    destruct (shadowed_dict h (type_of h e)); [discriminate|reflexivity].
  - rewrite mro_of_overflow in He by exact Hge. contradiction.
Qed.

Lemma builtin_descr_wf_b_sound h : builtin_descr_wf_b h = true -> builtin_descr_wf h.
Proof.
  intros Hb T HT.
  destruct (Nat.lt_ge_cases T (length h)) as [Hlt|Hge].
  - unfold builtin_descr_wf_b in Hb. rewrite forallb_forall in Hb.
    specialize (Hb T). rewrite in_seq in Hb.
    assert (Hk : 0 <= T < 0 + length h) by lia.
    specialize (Hb Hk). rewrite HT in Hb.
    apply andb_true_iff in Hb as [H1 H2].
    split.
    + destruct (mro_of h T) as [|T' r]; [discriminate|].
      apply Nat.eqb_eq in H1. subst T'. exists r. reflexivity.
    + destruct (user_hook h T s_get); [discriminate|reflexivity].
  - rewrite kind_of_overflow in HT by exact Hge. discriminate.
Qed.

(* ---- key lemma: induction over the MRO list ---- *)

Lemma check_class_mro_lookup : forall h mro n,
  (forall e, In e mro -> shadowed_dict h (type_of h e) = None) ->
  check_class_mro h mro n = lookup_mro h mro n.
Proof.
  intros h mro n. induction mro as [|e r IH]; intros H; [reflexivity|].
  cbn [check_class_mro lookup_mro].
  rewrite (H e (or_introl eq_refl)).
  rewrite IH; [reflexivity|]. intros e' He'. apply H. right. exact He'.
Qed.

Lemma check_class_lookup : forall h k n, no_meta_shadow h -> check_class h k n = type_lookup h k n.
Proof.
  intros h k n H. unfold check_class, type_lookup. apply check_class_mro_lookup.
  intros e He. exact (H k e He).
Qed.

Lemma safe_hasattr_spec h v nm :
  no_meta_shadow h -> safe_hasattr h v nm = is_some (type_lookup h (type_of h v) nm).
Proof. intro H. unfold safe_hasattr. rewrite check_class_lookup by exact H. reflexivity. Qed.

Lemma safe_hasattr_get h v : no_meta_shadow h -> safe_hasattr h v s_get = has_get h v.
Proof. intro H. unfold has_get. apply safe_hasattr_spec. exact H. Qed.

Lemma safe_is_data_spec h v : no_meta_shadow h -> safe_is_data h v = is_data h v.
Proof.
  intro H. unfold safe_is_data, is_data. rewrite !safe_hasattr_spec by exact H. reflexivity.
Qed.

(* ---- hooks ---- *)

Lemma existsb_descr_hook_getattr hs :
  existsb descr_hook (hs ++ [HGetattr]) = existsb descr_hook hs.
Proof. rewrite existsb_app. cbn. rewrite orb_false_r. reflexivity. Qed.

(* the __getattr__ fallback of getattr adds no descriptor hook *)
Lemma py_getattr_wrap h o n :
  user_hook h (type_of h o) s_getattribute = false ->
  existsb descr_hook
    (snd (if is_type h o then type_getattribute h o n else obj_getattribute h o n)) = false ->
  existsb descr_hook (snd (py_getattr h o n)) = false.
Proof.
  intros Hga H. unfold py_getattr. rewrite Hga.
  destruct (if is_type h o then type_getattribute h o n else obj_getattribute h o n) as [r hs].
  cbn [snd] in H.
  destruct r; cbn [snd]; try exact H.
  destruct (user_hook h (type_of h o) s_getattr); cbn [snd]; [|exact H].
  rewrite existsb_descr_hook_getattr. exact H.
Qed.

Lemma py_getattr_val h o n v :
  user_hook h (type_of h o) s_getattribute = false ->
  (if is_type h o then type_getattribute h o n else obj_getattribute h o n) = (RVal v, []) ->
  py_getattr h o n = (RVal v, []).
Proof. intros Hga H. unfold py_getattr. rewrite Hga, H. reflexivity. Qed.

(* __get__ of an object whose exact type is in ALLOWED_DESCRIPTOR_ACCESS is builtin code *)
Lemma call_get_allowed_harmless h a inst owner :
  builtin_descr_wf h -> allowed_descr_type h a = true ->
  existsb descr_hook (snd (call_get h a inst owner)) = false.
Proof.
  intros Hwf Hal. unfold allowed_descr_type in Hal.
  destruct (Hwf _ Hal) as [[r Hr] Hu].
  unfold call_get. unfold user_hook in Hu.
  destruct (type_lookup h (type_of h a) s_get) as [g|]; [|reflexivity].
  rewrite Hu, Hr. cbn [first_builtin_kind].
  destruct (kind_of h (type_of h a)); try discriminate Hal;
    destruct inst; try reflexivity;
    destruct (o_pay (get h a)); try reflexivity;
    match goal with |- context [assoc ?d ?s] => destruct (assoc d s); reflexivity end.
Qed.

(* ---- T1: instances ---- *)

Lemma static_no_descriptor_run :
  forall h o n a,
  no_meta_shadow h ->
  is_type h o = false ->
  user_hook h (type_of h o) s_getattribute = false ->
  getattr_static h o n = Some (a, false) ->
  snd (py_getattr h o n) = [] /\
  (dict_consulted h (type_of h o) = true -> fst (py_getattr h o n) = RVal a).
Proof.
  intros h o n a Hns Hty Hga Hst.
  unfold getattr_static in Hst. rewrite Hty in Hst.
  rewrite check_class_lookup in Hst by exact Hns.
  unfold py_getattr. rewrite Hga, Hty.
  unfold obj_getattribute.
  unfold check_instance in Hst. fold (inst_lookup h o n) in Hst.
  destruct (type_lookup h (type_of h o) n) as [k|] eqn:Ek.
  - rewrite safe_hasattr_get, safe_is_data_spec in Hst by exact Hns.
    destruct (dict_consulted h (type_of h o)) eqn:Edc.
    + destruct (inst_lookup h o n) as [i|] eqn:Ei.
      * destruct (has_get h k && is_data h k); [discriminate|].
        inversion Hst; subst. split; [reflexivity|intros _; reflexivity].
      * injection Hst as Ha Hg; subst a. rewrite Hg. rewrite andb_false_l.
        split; [reflexivity|intros _; reflexivity].
    + injection Hst as Ha Hg; subst a. rewrite Hg. rewrite andb_false_l.
      split; [|discriminate].
      destruct (inst_lookup h o n); reflexivity.
  - destruct (dict_consulted h (type_of h o)) eqn:Edc.
    + destruct (inst_lookup h o n) as [i|] eqn:Ei; [|discriminate].
      inversion Hst; subst. split; [reflexivity|intros _; reflexivity].
    + discriminate.
Qed.

(* ---- T1 for class objects ---- *)

Lemma static_no_descriptor_run_types :
  forall h o n a,
  no_meta_shadow h ->
  is_type h o = true ->
  user_hook h (type_of h o) s_getattribute = false ->
  getattr_static h o n = Some (a, false) ->
  meta_harmless h o n ->
  existsb descr_hook (snd (py_getattr h o n)) = false /\
  (meta_no_get h o n -> py_getattr h o n = (RVal a, [])).
Proof.
  intros h o n a Hns Hty Hga Hst Hmh.
  unfold getattr_static in Hst. rewrite Hty in Hst.
  rewrite !check_class_lookup in Hst by exact Hns.
  unfold meta_harmless in Hmh. unfold meta_no_get.
  split.
  - apply py_getattr_wrap; [exact Hga|]. rewrite Hty.
    unfold type_getattribute.
    destruct (type_lookup h (type_of h o) n) as [m|] eqn:Em.
    + destruct (has_get h m && is_data h m); [exact Hmh|].
      destruct (type_lookup h o n) as [k|] eqn:Ek.
      * rewrite safe_hasattr_get in Hst by exact Hns.
        injection Hst as Ha Hg; subst a. rewrite Hg. reflexivity.
      * destruct (has_get h m); [exact Hmh|reflexivity].
    + destruct (type_lookup h o n) as [k|] eqn:Ek; [|discriminate].
      rewrite safe_hasattr_get in Hst by exact Hns.
      injection Hst as Ha Hg; subst a. rewrite Hg. reflexivity.
  - intros Hng. apply py_getattr_val; [exact Hga|]. rewrite Hty.
    unfold type_getattribute.
    destruct (type_lookup h (type_of h o) n) as [m|] eqn:Em.
    + rewrite Hng. rewrite andb_false_l.
      destruct (type_lookup h o n) as [k|] eqn:Ek.
      * rewrite safe_hasattr_get in Hst by exact Hns.
        injection Hst as Ha Hg; subst a. rewrite Hg. reflexivity.
      * inversion Hst; subst. reflexivity.
    + destruct (type_lookup h o n) as [k|] eqn:Ek; [|discriminate].
      rewrite safe_hasattr_get in Hst by exact Hns.
      injection Hst as Ha Hg; subst a. rewrite Hg. reflexivity.
Qed.

(* ---- T1, second half ---- *)

Lemma safe_filter_empty_for_descriptors :
  forall h o n a is_instance check_has annot_values in_dir c,
  getattr_static h o n = Some (a, true) ->
  allowed_descr_type h a = false ->
  snd (is_allowed_getattr h o n true) = [] /\
  (In c (filter_get false is_instance check_has (fst (is_allowed_getattr h o n true)) annot_values in_dir) ->
   (c = NEmpty \/ c = NAnnot) /\ name_infer_hooks h o n c = []).
Proof.
  intros h o n a ii ch av ind c Hst Hal.
  unfold is_allowed_getattr. rewrite Hst, Hal. cbn [andb negb].
  assert (E : forall ann, In c (filter_get false ii ch (true, true, ann) av ind) ->
              (c = NEmpty \/ c = NAnnot) /\ name_infer_hooks h o n c = []).
  { intros ann Hin. unfold filter_get in Hin.
    destruct (ann && av).
    - destruct Hin as [<-|[]]. split; [right; reflexivity|reflexivity].
    - cbn [negb andb orb] in Hin. rewrite andb_false_r in Hin.
      destruct Hin as [<-|[]]. split; [left; reflexivity|reflexivity]. }
  destruct (isinstance_property h a).
  - destruct (o_pay (get h a)) as [|[] []| | |]; cbn [fst snd]; (split; [reflexivity|apply E]).
  - cbn [fst snd]. split; [reflexivity|apply E].
Qed.

(* ---- composition ---- *)

Lemma snd_is_allowed_getattr_safe h o n : snd (is_allowed_getattr h o n true) = [].
Proof.
  unfold is_allowed_getattr.
  destruct (getattr_static h o n) as [[a g]|]; [|reflexivity].
  destruct (g && negb (allowed_descr_type h a)); [|reflexivity].
  destruct (isinstance_property h a); [|reflexivity].
  destruct (o_pay (get h a)) as [|[] []| | |]; reflexivity.
Qed.

(* a get-descriptor of an allowed builtin type: getattr runs only builtin __get__ code *)
Lemma allowed_descriptor_getattr_harmless h o n a :
  no_meta_shadow h -> builtin_descr_wf h ->
  user_hook h (type_of h o) s_getattribute = false ->
  (is_type h o = true -> meta_harmless h o n) ->
  getattr_static h o n = Some (a, true) ->
  allowed_descr_type h a = true ->
  existsb descr_hook (snd (py_getattr h o n)) = false.
Proof.
  intros Hns Hwf Hga Hmh Hst Hal.
  apply py_getattr_wrap; [exact Hga|].
  unfold getattr_static in Hst.
  rewrite !check_class_lookup in Hst by exact Hns.
  destruct (is_type h o) eqn:Hty.
  - specialize (Hmh eq_refl). unfold meta_harmless in Hmh.
    unfold type_getattribute.
    destruct (type_lookup h o n) as [k|] eqn:Ek.
    + rewrite safe_hasattr_get in Hst by exact Hns.
      injection Hst as Ha Hg; subst a. rewrite Hg.
      destruct (type_lookup h (type_of h o) n) as [m|] eqn:Em.
      * destruct (has_get h m && is_data h m); [exact Hmh|].
        apply call_get_allowed_harmless; assumption.
      * apply call_get_allowed_harmless; assumption.
    + destruct (type_lookup h (type_of h o) n) as [m|]; discriminate.
  - unfold obj_getattribute.
    unfold check_instance in Hst. fold (inst_lookup h o n) in Hst.
    destruct (type_lookup h (type_of h o) n) as [k|] eqn:Ek.
    + rewrite safe_hasattr_get, safe_is_data_spec in Hst by exact Hns.
      assert (Hk : existsb descr_hook (snd (call_get h k (Some o) (type_of h o))) = false
                   \/ (a = k -> False)).
      { destruct (Nat.eq_dec a k) as [->|Hne]; [left|right; exact Hne].
        apply call_get_allowed_harmless; assumption. }
      destruct (has_get h k && is_data h k) eqn:Ed.
      * destruct (if dict_consulted h (type_of h o) then inst_lookup h o n else None);
          inversion Hst; subst; apply call_get_allowed_harmless; assumption.
      * destruct (inst_lookup h o n) as [i|] eqn:Ei; [reflexivity|].
        destruct (has_get h k) eqn:Eg; [|reflexivity].
        destruct (dict_consulted h (type_of h o));
          inversion Hst; subst; apply call_get_allowed_harmless; assumption.
    + destruct (if dict_consulted h (type_of h o) then inst_lookup h o n else None); discriminate.
Qed.

Lemma safe_filter_runs_no_descriptor :
  forall h o n is_instance check_has annot_values in_dir c,
  no_meta_shadow h -> builtin_descr_wf h ->
  user_hook h (type_of h o) s_getattribute = false ->
  (is_type h o = true -> meta_harmless h o n) ->
  snd (is_allowed_getattr h o n true) = [] /\
  (In c (filter_get false is_instance check_has (fst (is_allowed_getattr h o n true)) annot_values in_dir) ->
   existsb descr_hook (name_infer_hooks h o n c) = false).
Proof.
  intros h o n ii ch av ind c Hns Hwf Hga Hmh.
  split; [apply snd_is_allowed_getattr_safe|].
  intros Hin.
  destruct c as [|isd|]; [reflexivity| |reflexivity].
  cbn [name_infer_hooks].
  unfold is_allowed_getattr in Hin.
  destruct (getattr_static h o n) as [[a g]|] eqn:Hst.
  - destruct (g && negb (allowed_descr_type h a)) eqn:Eg.
    + exfalso.
      assert (E : forall ann, ~ In (NReal isd) (filter_get false ii ch (true, true, ann) av ind)).
      { intros ann Hc. unfold filter_get in Hc.
        destruct (ann && av); [destruct Hc as [Hc|[]]; discriminate|].
        cbn [negb andb orb] in Hc. rewrite andb_false_r in Hc.
        destruct Hc as [Hc|[]]; discriminate. }
      destruct (isinstance_property h a).
      * destruct (o_pay (get h a)) as [|[] []| | |]; cbn [fst] in Hin; exact (E _ Hin).
      * cbn [fst] in Hin. exact (E _ Hin).
    + destruct g.
      * cbn [andb] in Eg. apply negb_false_iff in Eg.
        eapply allowed_descriptor_getattr_harmless; eassumption.
      * destruct (is_type h o) eqn:Hty.
        -- eapply static_no_descriptor_run_types; try eassumption. apply Hmh. reflexivity.
        -- destruct (static_no_descriptor_run h o n a Hns Hty Hga Hst) as [Hs _].
           rewrite Hs. reflexivity.
  - exfalso. cbn [fst] in Hin. unfold filter_get in Hin.
    cbn [andb negb orb] in Hin.
    destruct (ch && true); [contradiction|].
    destruct Hin as [Hc|[]]; discriminate.
Qed.

(* ---- T2 ---- *)

Lemma safe_items_builtin_only :
  forall h o allow_unsafe has_iter_attr ret_annot a,
  In a (compiled_simple_getitem h o false ++ mixed_simple_getitem h o allow_unsafe
        ++ iter_list h o has_iter_attr ret_annot) ->
  access_target a = o /\ allowed_getitem_type h o = true.
Proof.
  intros h o au hi ra a Hin.
  unfold mixed_simple_getitem, compiled_simple_getitem, iter_list in Hin.
  destruct (allowed_getitem_type h o) eqn:E.
  - split; [|reflexivity].
    cbn [negb andb] in Hin. rewrite andb_false_r in Hin.
    repeat (apply in_app_or in Hin; destruct Hin as [Hin|Hin]).
    + destruct Hin as [<-|[]]. reflexivity.
    + destruct Hin as [<-|[]]. reflexivity.
    + destruct (negb hi); [contradiction|]. destruct ra; [contradiction|].
      destruct Hin as [<-|[]]. reflexivity.
  - exfalso. cbn [negb andb app] in Hin.
    destruct (negb hi); [contradiction|]. destruct ra; contradiction.
Qed.

(* ---- T3 ---- *)

Lemma filter_get_values_single au ii info av :
  exists c, filter_get au ii false info av true = [c].
Proof.
  destruct info as [[has isd] ann]. unfold filter_get.
  destruct (ann && av); [eexists; reflexivity|].
  cbn [andb negb]. rewrite andb_false_r.
  destruct ((isd || negb has) && negb au); eexists; reflexivity.
Qed.

Lemma values_cover_dir :
  forall h o dirs allow_unsafe is_instance annot_values,
  map fst (filter_values h o dirs allow_unsafe is_instance annot_values) = dirs /\
  (forall n, In n dirs -> exists c, In (n, c) (filter_values h o dirs allow_unsafe is_instance annot_values)).
Proof.
  intros h o dirs au ii av. unfold filter_values. split.
  - induction dirs as [|n r IH]; [reflexivity|].
    cbn [flat_map]. rewrite map_app, IH.
    destruct (filter_get_values_single au ii (fst (is_allowed_getattr h o n true)) (av n)) as [c ->].
    reflexivity.
  - intros n Hn.
    destruct (filter_get_values_single au ii (fst (is_allowed_getattr h o n true)) (av n)) as [c Hc].
    exists c. apply in_flat_map. exists n. split; [exact Hn|].
    rewrite Hc. left. reflexivity.
Qed.

Lemma assoc_In_keys d n v : assoc d n = Some v -> In n (keys d).
Proof.
  induction d as [|[k w] r IH]; [discriminate|].
  cbn [assoc keys map fst]. destruct (str_eqb k n) eqn:E.
  - intros _. left. apply str_eqb_eq. exact E.
  - intros H. right. apply IH. exact H.
Qed.

Lemma check_class_mro_In_keys h mro n v :
  check_class_mro h mro n = Some v ->
  In n (flat_map (fun e => keys (cdict_of h e)) mro).
Proof.
  induction mro as [|e r IH]; [discriminate|].
  cbn [check_class_mro flat_map]. intros H. apply in_or_app.
  destruct (shadowed_dict h (type_of h e)); [right; apply IH; exact H|].
  destruct (assoc (cdict_of h e) n) eqn:E.
  - left. eapply assoc_In_keys. exact E.
  - right. apply IH. exact H.
Qed.

Lemma static_found_in_dir :
  forall h o n r,
  is_type h o = false -> getattr_static h o n = Some r -> In n (py_dir h o).
Proof.
  intros h o n r Hty Hst. unfold getattr_static in Hst. unfold py_dir.
  rewrite Hty in *. apply in_or_app.
  destruct (check_class h (type_of h o) n) as [k|] eqn:Ek.
  - right. unfold check_class in Ek. eapply check_class_mro_In_keys. exact Ek.
  - left.
    destruct (dict_consulted h (type_of h o)); [|discriminate].
    unfold check_instance in Hst.
    destruct (o_dict (get h o)) as [d|]; [|discriminate].
    destruct (assoc d n) eqn:E; [|discriminate].
    eapply assoc_In_keys. exact E.
Qed.

(* ---- closed witnesses ---- *)

Definition cls_obj (meta : id) (k : ckind) (mro : list id) (d : list (str * id)) : obj :=
  mkObj meta None [] (Some (mkCls k mro d)) PNone.

Definition n_mp : str := [109;112]%N.            (* mp *)
Definition n_x : str := [120]%N.                 (* x *)
Definition n_plain : str := [112;108;97;105;110]%N.  (* plain *)
Definition n_prop : str := [112;114;111;112]%N.  (* prop *)
Definition n_meth : str := [109;101;116;104]%N.  (* meth *)
Definition n_iv : str := [105;118]%N.            (* iv *)

(* 0 object  1 type  2 property  3 wrapper_descriptor  4 a wrapper descriptor
   5 class M(type): mp = property(...)   6 that property object   7 class A(metaclass=M) *)
Definition heap_meta_prop : heap :=
  [ cls_obj 1 KObject [0] [];
    cls_obj 1 KType [1;0] [];
    cls_obj 1 KProperty [2;0] [(s_get, 4); (s_set, 4); (s_delete, 4)];
    cls_obj 1 KWrapperDescr [3;0] [(s_get, 4)];
    mkObj 3 None [] None PNone;
    cls_obj 1 KUser [5;1;0] [(n_mp, 6)];
    mkObj 2 None [] None (PProp true false);
    cls_obj 5 KUser [7;0] [] ].

Lemma static_no_descriptor_run_types_refuted :
  exists h o n a p,
    no_meta_shadow h /\ builtin_descr_wf h /\ is_type h o = true /\
    user_hook h (type_of h o) s_getattribute = false /\
    getattr_static h o n = Some (a, false) /\
    py_getattr h o n = (RHook, [HPropGet p]).
Proof.
  exists heap_meta_prop, 7, n_mp, 6, 6.
  split; [apply no_meta_shadow_b_sound; vm_compute; reflexivity|].
  split; [apply builtin_descr_wf_b_sound; vm_compute; reflexivity|].
  repeat split; vm_compute; reflexivity.
Qed.

(* 0 object  1 type  2 property  3 wrapper_descriptor  4 a wrapper descriptor
   5 class M(type): __dict__ = <9>     6 class B: x = <9>
   7 class A(B, metaclass=M): x = property(...)   8 that property object
   9 a plain object()   10 an instance of A *)
Definition heap_meta_shadow : heap :=
  [ cls_obj 1 KObject [0] [];
    cls_obj 1 KType [1;0] [];
    cls_obj 1 KProperty [2;0] [(s_get, 4); (s_set, 4); (s_delete, 4)];
    cls_obj 1 KWrapperDescr [3;0] [(s_get, 4)];
    mkObj 3 None [] None PNone;
    cls_obj 1 KUser [5;1;0] [(s_dict, 9)];
    cls_obj 1 KUser [6;0] [(n_x, 9)];
    cls_obj 5 KUser [7;6;0] [(n_x, 8)];
    mkObj 2 None [] None (PProp true false);
    mkObj 0 None [] None PNone;
    mkObj 7 (Some []) [] None PNone ].

Lemma static_no_descriptor_run_needs_no_meta_shadow :
  exists h o n a p,
    is_type h o = false /\ user_hook h (type_of h o) s_getattribute = false /\
    getattr_static h o n = Some (a, false) /\
    py_getattr h o n = (RHook, [HPropGet p]).
Proof.
  exists heap_meta_shadow, 10, n_x, 9, 8.
  repeat split; vm_compute; reflexivity.
Qed.

(* 0 object  1 type  2 function  3 a function  4 class C: __iter__/__bool__ = <3>  5 a C() *)
Definition heap_user_iter : heap :=
  [ cls_obj 1 KObject [0] [];
    cls_obj 1 KType [1;0] [];
    cls_obj 1 KFunction [2;0] [];
    mkObj 2 None [] None PNone;
    cls_obj 1 KUser [4;0] [(s_iter, 3); (s_bool, 3)];
    mkObj 4 (Some []) [] None PNone ].

Lemma safe_iteration_probe_refuted :
  exists h o has_iter_attr ret_annot a,
    In a (compiled_py_iter h o has_iter_attr ret_annot) /\
    allowed_getitem_type h (access_target a) = false /\
    user_hook h (type_of h (access_target a)) s_iter = true.
Proof.
  exists heap_user_iter, 5, true, false, (AIterCall 5).
  split; [left; reflexivity|]. split; vm_compute; reflexivity.
Qed.

Lemma safe_truth_value_refuted :
  exists h o a,
    In a (compiled_py_bool h o) /\
    allowed_getitem_type h (access_target a) = false /\
    user_truth_hook h (access_target a) = true.
Proof.
  exists heap_user_iter, 5, (ABool 5).
  split; [left; reflexivity|]. split; vm_compute; reflexivity.
Qed.

(* a list subclass with a Python-level __iter__: 0 object 1 type 2 function 3 a function
   4 list 5 class L(list) with __iter__ 6 an L() *)
Definition heap_list_subclass : heap :=
  [ cls_obj 1 KObject [0] [];
    cls_obj 1 KType [1;0] [];
    cls_obj 1 KFunction [2;0] [];
    mkObj 2 None [] None PNone;
    cls_obj 1 KList [4;0] [];
    cls_obj 1 KUser [5;4;0] [(s_iter, 3)];
    mkObj 5 (Some []) [] None PNone ].

(* py__getitem__all_values iterates over instances of SUBCLASSES of list/tuple/dict *)
Lemma safe_getitem_all_values_refuted :
  exists h o a,
    In a (getitem_all_values h o) /\
    allowed_getitem_type h (access_target a) = false /\
    user_hook h (type_of h (access_target a)) s_iter = true.
Proof.
  exists heap_list_subclass, 6, (AIterate 6).
  split; [left; reflexivity|]. split; vm_compute; reflexivity.
Qed.

(* ... while for exact builtin containers it stays within the allowed types *)
Lemma getitem_all_values_exact :
  forall h o a,
    kind_in (kind_of h (type_of h o)) [KDict; KList; KTuple] = true ->
    In a (getitem_all_values h o) -> allowed_getitem_type h (access_target a) = true.
Proof.
  intros h o a Hk Hin. unfold getitem_all_values in Hin.
  destruct (isinstance_kinds h o [KDict; KList; KTuple]); [|contradiction].
  destruct Hin as [<-|[]]. cbn [access_target]. unfold allowed_getitem_type.
  destruct (kind_of h (type_of h o)); cbn in Hk |- *; try discriminate; reflexivity.
Qed.

(* ---- the heap of the non-vacuity examples ----
   0 object  1 type  2 function  3 property  4 wrapper_descriptor  5 a wrapper descriptor
   6 class C: plain = <7>; prop = property(...) <8>; def meth <9>
   7 a plain object()  8 the property  9 the function  10 C() with __dict__ = {'iv': <7>} *)
Definition ex_heap : heap :=
  [ cls_obj 1 KObject [0] [];
    cls_obj 1 KType [1;0] [];
    cls_obj 1 KFunction [2;0] [(s_get, 5)];
    cls_obj 1 KProperty [3;0] [(s_get, 5); (s_set, 5); (s_delete, 5)];
    cls_obj 1 KWrapperDescr [4;0] [(s_get, 5)];
    mkObj 4 None [] None PNone;
    cls_obj 1 KUser [6;0] [(n_plain, 7); (n_prop, 8); (n_meth, 9)];
    mkObj 0 None [] None PNone;
    mkObj 3 None [] None (PProp true false);
    mkObj 2 None [] None PNone;
    mkObj 6 (Some [(n_iv, 7)]) [] None PNone ].

Lemma ex_heap_hypotheses :
  no_meta_shadow ex_heap /\ builtin_descr_wf ex_heap /\
  is_type ex_heap 10 = false /\ is_type ex_heap 6 = true /\
  user_hook ex_heap (type_of ex_heap 10) s_getattribute = false /\
  user_hook ex_heap (type_of ex_heap 6) s_getattribute = false /\
  meta_harmless ex_heap 6 n_plain /\ meta_no_get ex_heap 6 n_plain /\
  meta_harmless ex_heap 6 n_meth.
Proof.
  split; [apply no_meta_shadow_b_sound; vm_compute; reflexivity|].
  split; [apply builtin_descr_wf_b_sound; vm_compute; reflexivity|].
  repeat split; vm_compute; reflexivity.
Qed.
