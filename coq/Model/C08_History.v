(* C08: cache coherence of jedi across the editing history of a buffer, as a state machine.

   Transcribes the KEYS and LIFETIMES of every store that outlives one Script:
     parso/cache.py            parser_cache[grammar][path or None] : _NodeCacheItem(node, lines)
     parso/grammar.py          Grammar._parse: diff_cache branch (old_lines == lines -> same item;
                               otherwise DiffParser.update + try_to_save_module -> NEW item)
     jedi/api/__init__.py      Script.__init__: parse(cache=False, diff_cache=fast_parser);
                               cache.clear_time_caches()
     jedi/inference/filters.py _definition_name_cache (WeakKeyDictionary on the cache item),
                               _get_definition_names (parso_cache_node None -> no cache)
     jedi/parser_utils.py      _get_parent_scope_cache / get_cached_parent_scope, get_parso_cache_node
     jedi/cache.py             signature_time_cache, clear_time_caches, memoize_method
     jedi/api/helpers.py       cache_signatures (key; path None -> key None -> not cached)
     jedi/inference/cache.py   memoisation on InferenceState.memoize_cache (one per Script)

   The parser and the engine are abstract: `parse` is a function of the text, `reparse` is the
   incremental parser (old tree, old text, new text), `derive`/`sig_of` are functions of the tree.
   Three deliberately WRONG variants are selectable through `config` (derived caches keyed by
   path, signature key compared textually, memo shared between Scripts); the theorems are about
   the real configuration and refute the property for the wrong ones.

   Definitions only; everything computes. *)
From Coq Require Export List NArith Bool.
Export ListNotations.
Local Open Scope N_scope.

(* what the derived caches (definition names, parent scopes) are keyed on *)
Inductive keying :=
| ByVersion    (* the parso cache item, replaced on every re-parse (the code) *)
| ByPath.      (* WRONG variant: the path of the module *)

(* how keys of the signature time cache compare *)
Inductive sigkeying :=
| SigAsCoded   (* the code: the middle component of the key is the result of re.match(r'.*\(', whole):
                  an re.Match object (equal only to itself) when `whole` contains a bracket, and
                  None when it does not - which, because `whole` starts one line too late, is the
                  case whenever the cursor is on a later line than the bracket and no other bracket
                  lies in between.  QSig 0 b stands for the None case, QSig a b (a > 0) for a Match *)
| SigTextual.  (* the intended key (path, text before the bracket, bracket position) *)

Inductive memoing :=
| MemoPerScript  (* the code: InferenceState.memoize_cache = {} in every Script *)
| MemoShared.    (* WRONG variant: memo that survives the Script (class attribute / module dict) *)

Record config := mkConfig {
  cf_keying : keying;
  cf_sig : sigkeying;
  cf_memo : memoing;
  cf_validity : N        (* settings.call_signatures_validity in clock units *)
}.

(* clock unit = 0.5 s, call_signatures_validity = 3.0 s *)
Definition real_config := mkConfig ByVersion SigAsCoded MemoPerScript 6.

(* A question.  QD c a : derived datum of kind c (0 = definition names of name a,
   1 = parent scope of node a);  QSig a b : signatures for the call whose text before the
   bracket is a and whose bracket sits at b. *)
Inductive query := QD (c a : N) | QSig (a b : N).

Definition query_eqb (p q : query) : bool :=
  match p, q with
  | QD c a, QD c' a' => N.eqb c c' && N.eqb a a'
  | QSig a b, QSig a' b' => N.eqb a a' && N.eqb b b'
  | _, _ => false
  end.

Definition is_QD (q : query) : bool := match q with QD _ _ => true | _ => false end.

(* association lists with N keys *)
Fixpoint nlookup {A} (k : N) (l : list (N * A)) : option A :=
  match l with
  | [] => None
  | (k', v) :: r => if N.eqb k k' then Some v else nlookup k r
  end.

Fixpoint nremove {A} (k : N) (l : list (N * A)) : list (N * A) :=
  match l with
  | [] => []
  | (k', v) :: r => if N.eqb k k' then nremove k r else (k', v) :: nremove k r
  end.

Definition nset {A} (k : N) (v : A) (l : list (N * A)) : list (N * A) := (k, v) :: nremove k l.

Definition dkey_eqb (x y : N * N * N) : bool :=
  let '(a, b, c) := x in let '(a', b', c') := y in N.eqb a a' && N.eqb b b' && N.eqb c c'.

Fixpoint dlookup {A} (k : N * N * N) (l : list (N * N * N * A)) : option A :=
  match l with
  | [] => None
  | (k', v) :: r => if dkey_eqb k k' then Some v else dlookup k r
  end.

Fixpoint qlookup {A} (q : query) (l : list (query * A)) : option A :=
  match l with
  | [] => None
  | (q', v) :: r => if query_eqb q q' then Some v else qlookup q r
  end.

Section Machine.
  Variables text tree D : Type.
  Variable text_eqb : text -> text -> bool.          (* old_lines == lines *)
  Variable parse : text -> tree.                     (* from-scratch parse *)
  Variable reparse : tree -> text -> text -> tree.   (* DiffParser(old tree).update(old, new) *)
  Variable derive : N -> tree -> N -> D.             (* definition names / parent scope *)
  Variable sig_of : tree -> N -> N -> D.             (* helpers.infer of the callee *)
  Variable cfg : config.

  (* key 0 = the shared slot of path-less buffers (path None); k > 0 = a path *)
  Inductive op :=
  | Edit (k : N) (t : text)          (* Script(t, path=k) *)
  | Query (memo : bool) (q : query)  (* a question to the current Script; memo = through the
                                        inference-state memo (API level) or directly at the
                                        derived caches (what the harness wrappers observe) *)
  | Tick (dt : N)                    (* time passes *)
  | Evict (k : N).                   (* parso's cache GC / clear_time_caches(delete_all=True) *)

  Record pentry := mkP { pe_version : N; pe_text : text; pe_tree : tree }.

  Record sentry := mkSE { se_path : N; se_a : N; se_b : N; se_expiry : N; se_val : D }.

  Record state := mkSt {
    st_next : N;                             (* next fresh version = identity of the next cache item *)
    st_pcache : list (N * pentry);           (* parser_cache[grammar] *)
    st_dcache : list (N * N * N * D);        (* (kind, version-or-path, argument) -> datum *)
    st_clock : N;
    st_sig : list sentry;                    (* _time_caches['call_signatures_validity'] *)
    st_cur : option (N * tree);              (* the current Script: its key and its module node *)
    st_memo : list (query * D)               (* InferenceState.memoize_cache of the current Script *)
  }.

  Definition init : state := mkSt 1 [] [] 0 [] None [].

  Inductive event :=
  | EvEdit (fresh : bool) (nsig nmemo : N)   (* a new cache item was installed; sizes after __init__ *)
  | EvAns (memo_hit cache_hit : bool) (ans : option D)
  | EvNone.

  Definition dkey (k v : N) : N :=
    match cf_keying cfg with ByVersion => v | ByPath => k end.

  Definition eval_pure (tr : tree) (q : query) : D :=
    match q with QD c a => derive c tr a | QSig a b => sig_of tr a b end.

  (* key equality of the time-cache dict under the configured key *)
  Definition sig_key_eqb (k a b : N) (e : sentry) : bool :=
    N.eqb k (se_path e) && N.eqb b (se_b e) &&
    match cf_sig cfg with
    | SigAsCoded => N.eqb a 0 && N.eqb (se_a e) 0
    | SigTextual => N.eqb a (se_a e)
    end.

  (* dct[key] *)
  Fixpoint sig_get (k a b : N) (l : list sentry) : option sentry :=
    match l with
    | [] => None
    | e :: r => if sig_key_eqb k a b e then Some e else sig_get k a b r
    end.

  (* expiry, value = dct[key]; if expiry > time.time(): return value *)
  Definition sig_find (k a b : N) (s : state) : option D :=
    match sig_get k a b (st_sig s) with
    | Some e => if N.ltb (st_clock s) (se_expiry e) then Some (se_val e) else None
    | None => None
    end.

  (* dct[key] = time.time() + validity, value *)
  Definition sig_store (k a b : N) (d : D) (s : state) : list sentry :=
    mkSE k a b (st_clock s + cf_validity cfg) d
      :: filter (fun x => negb (sig_key_eqb k a b x)) (st_sig s).

  (* Script.__init__ *)
  Definition do_edit (s : state) (k : N) (t : text) : state * event :=
    let '(pc, next, tr, fresh) :=
      match nlookup k (st_pcache s) with
      | Some e =>
          if text_eqb (pe_text e) t then (st_pcache s, st_next s, pe_tree e, false)
          else let tr := reparse (pe_tree e) (pe_text e) t in
               (nset k (mkP (st_next s) t tr) (st_pcache s), st_next s + 1, tr, true)
      | None =>
          let tr := parse t in
          (nset k (mkP (st_next s) t tr) (st_pcache s), st_next s + 1, tr, true)
      end in
    (* clear_time_caches(): delete entries with expiry < now *)
    let sg := filter (fun e => negb (N.ltb (se_expiry e) (st_clock s))) (st_sig s) in
    let memo := match cf_memo cfg with MemoPerScript => [] | MemoShared => st_memo s end in
    (mkSt next pc (st_dcache s) (st_clock s) sg (Some (k, tr)) memo,
     EvEdit fresh (N.of_nat (length sg)) (N.of_nat (length memo))).

  (* one question below the memo: (new state, cache hit?, answer) *)
  Definition lookup_level (s : state) (k : N) (tr : tree) (q : query) : state * bool * option D :=
    match q with
    | QD c a =>
        if N.eqb k 0 then (s, false, Some (derive c tr a))       (* parso_cache_node is None *)
        else match nlookup k (st_pcache s) with
             | None => (s, false, None)                          (* get_parso_cache_node: KeyError *)
             | Some e =>
                 let key := (c, dkey k (pe_version e), a) in
                 match dlookup key (st_dcache s) with
                 | Some d => (s, true, Some d)
                 | None =>
                     let d := derive c tr a in
                     (mkSt (st_next s) (st_pcache s) ((key, d) :: st_dcache s) (st_clock s)
                           (st_sig s) (st_cur s) (st_memo s), false, Some d)
                 end
             end
    | QSig a b =>
        if N.eqb k 0 then (s, false, Some (sig_of tr a b))        (* key None: not cached *)
        else match sig_find k a b s with
             | Some d => (s, true, Some d)
             | None =>
                 let d := sig_of tr a b in
                 (mkSt (st_next s) (st_pcache s) (st_dcache s) (st_clock s)
                       (sig_store k a b d s) (st_cur s) (st_memo s), false, Some d)
             end
    end.

  Definition add_memo (s : state) (q : query) (d : D) : state :=
    mkSt (st_next s) (st_pcache s) (st_dcache s) (st_clock s) (st_sig s) (st_cur s)
         ((q, d) :: st_memo s).

  Definition do_query (s : state) (memo : bool) (q : query) : state * event :=
    match st_cur s with
    | None => (s, EvAns false false None)
    | Some (k, tr) =>
        match (if memo then qlookup q (st_memo s) else None) with
        | Some d => (s, EvAns true false (Some d))
        | None =>
            let '(s1, hit, ans) := lookup_level s k tr q in
            let s2 := match ans with
                      | Some d => if memo then add_memo s1 q d else s1
                      | None => s1
                      end in
            (s2, EvAns false hit ans)
        end
    end.

  Definition step (s : state) (o : op) : state * event :=
    match o with
    | Edit k t => do_edit s k t
    | Query m q => do_query s m q
    | Tick dt => (mkSt (st_next s) (st_pcache s) (st_dcache s) (st_clock s + dt) (st_sig s)
                       (st_cur s) (st_memo s), EvNone)
    | Evict k => (mkSt (st_next s) (nremove k (st_pcache s)) (st_dcache s) (st_clock s) (st_sig s)
                       (st_cur s) (st_memo s), EvNone)
    end.

  Fixpoint run (s : state) (h : list op) : state * list event :=
    match h with
    | [] => (s, [])
    | o :: r => let '(s1, e) := step s o in
                let '(s2, es) := run s1 r in (s2, e :: es)
    end.

  Definition final (h : list op) : state := fst (run init h).
  Definition events (h : list op) : list event := snd (run init h).

  (* the answer to the last operation of a history *)
  Definition answer (h : list op) : option D :=
    match last (events h) EvNone with
    | EvAns _ _ a => a
    | _ => None
    end.

  Definition is_ask (o : op) : bool :=
    match o with Query _ _ => true | Tick _ => true | _ => false end.

End Machine.

Arguments Edit {text}.
Arguments Query {text}.
Arguments Tick {text}.
Arguments Evict {text}.
Arguments EvEdit {D}.
Arguments EvAns {D}.
Arguments EvNone {D}.

(* ---------------------------------------------------------------------------------------
   The instance evaluated against the implementation: a text is identified by a number, the
   tree of a text is (the number of) that text, and a derived datum is represented by the
   number of the text whose tree it was computed from - which is exactly what the harness
   observes ("the returned object equals a recomputation from the tree of text i"). *)
Definition run_obs (cfg : config) (h : list (@op N)) : list (@event N) :=
  snd (run N N N N.eqb (fun t => t) (fun _ _ t => t) (fun _ tr _ => tr) (fun tr _ _ => tr)
           cfg (init N N N) h).

Definition opt_N_eqb (a b : option N) : bool :=
  match a, b with
  | Some x, Some y => N.eqb x y
  | None, None => true
  | _, _ => false
  end.

Definition event_eqb (a b : @event N) : bool :=
  match a, b with
  | EvEdit f n m, EvEdit f' n' m' => Bool.eqb f f' && N.eqb n n' && N.eqb m m'
  | EvAns mh ch x, EvAns mh' ch' x' => Bool.eqb mh mh' && Bool.eqb ch ch' && opt_N_eqb x x'
  | EvNone, EvNone => true
  | _, _ => false
  end.

Fixpoint events_eqb (a b : list (@event N)) : bool :=
  match a, b with
  | [], [] => true
  | x :: a', y :: b' => event_eqb x y && events_eqb a' b'
  | _, _ => false
  end.

(* a recorded trace: operations with what the implementation showed *)
Definition trace_ok (cfg : config) (tr : list (@op N * @event N)) : bool :=
  events_eqb (run_obs cfg (map fst tr)) (map snd tr).

(* index of the first event on which model and observation differ (for replays) *)
Fixpoint first_diff (i : N) (a b : list (@event N)) : option N :=
  match a, b with
  | [], [] => None
  | x :: a', y :: b' => if event_eqb x y then first_diff (N.succ i) a' b' else Some i
  | _, _ => Some i
  end.

Definition trace_first_diff (cfg : config) (tr : list (@op N * @event N)) : option N :=
  first_diff 0 (run_obs cfg (map fst tr)) (map snd tr).

(* a buggy incremental parser: returns the old tree (used to show the proviso is needed) *)
Definition run_stale_parser (cfg : config) (h : list (@op N)) : list (@event N) :=
  snd (run N N N N.eqb (fun t => t) (fun old _ _ => old) (fun _ tr _ => tr) (fun tr _ _ => tr)
           cfg (init N N N) h).

Definition last_answer (es : list (@event N)) : option N :=
  match last es EvNone with EvAns _ _ a => a | _ => None end.
