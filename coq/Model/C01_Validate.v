(* C01: parso.utils.split_lines(keepends=True) and jedi/api/helpers.py:validate_line_column.
   Definitions only. *)
From Coq Require Export List NArith ZArith Bool Arith Lia.
From JV Require Export Base.Str.

(* split after "\n", "\r\n" and a lone "\r"; form feed, \v, \x1c-\x1e, \x85, U+2028/9 are
   ordinary characters (parso merges what str.splitlines broke there); the last line is
   always present, possibly empty *)
Fixpoint split_go (s : str) (cur : str) : list str :=
  match s with
  | [] => [rev cur]
  | c :: r =>
      if N.eqb c 13 then
        match r with
        | d :: r' => if N.eqb d 10 then rev (10%N :: 13%N :: cur) :: split_go r' []
                     else rev (13%N :: cur) :: split_go r []
        | [] => rev (13%N :: cur) :: split_go r []
        end
      else if N.eqb c 10 then rev (10%N :: cur) :: split_go r []
      else split_go r (c :: cur)
  end.
Definition split_lines (s : str) : list str := split_go s [].

Definition ends_with (s suf : str) : bool := starts_with (rev s) (rev suf).

(* length of the line without one trailing "\r\n" or "\n" (a lone "\r" is NOT stripped) *)
Definition stripped_len (line : str) : Z :=
  let n := Z.of_nat (length line) in
  if ends_with line [13; 10]%N then n - 2
  else if ends_with line [10]%N then n - 1
  else n.

Inductive outcome := Accept (line col : Z) | ValueError.

(* the wrapper: defaults (line=None -> last line, column=None -> end of line) and range checks *)
Definition validate (lines : list str) (line col : option Z) : outcome :=
  let n := Z.of_nat (length lines) in
  let l := match line with None => Z.max n 1 | Some l => l end in
  if negb ((0 <? l) && (l <=? n))%Z then ValueError
  else
    let s := nth (Z.to_nat (l - 1)) lines [] in
    let len := stripped_len s in
    let c := match col with None => len | Some c => c end in
    if negb ((0 <=? c) && (c <=? len))%Z then ValueError else Accept l c.

Definition validate_text (s : str) (line col : option Z) : outcome := validate (split_lines s) line col.
