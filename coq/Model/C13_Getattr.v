(* C13: object-graph model of attribute lookup on live objects.

   Transcribed from /repo:
     jedi/inference/compiled/getattr_static.py   _check_instance, _check_class, _shadowed_dict,
                                                 _safe_hasattr, _safe_is_data_descriptor, getattr_static
     jedi/inference/compiled/access.py           ALLOWED_DESCRIPTOR_ACCESS, ALLOWED_GETITEM_TYPES,
                                                 DirectObjectAccess.is_allowed_getattr, py__simple_getitem__,
                                                 py__iter__list, has_iter, py__bool__, get_dir_infos
     jedi/inference/compiled/value.py            CompiledValueFilter._get / get / values, CompiledName.infer,
                                                 EmptyCompiledName.infer, CompiledValue.py__iter__/py__bool__
     jedi/inference/compiled/mixed.py            MixedObject.py__simple_getitem__
   Specification side ("what Python does"): object.__getattribute__, type.__getattribute__, the
   descriptor protocol of the builtin descriptor types, the __getattr__ fallback, dir().

   Everything is one heap of objects addressed by index; a class is an object that carries a
   class record (kind, MRO as a list of ids starting with the class itself, class dict).  The
   metaclass of a class is its o_type.  Whether a value is a descriptor is not a tag: it is
   found, as in CPython and in getattr_static, by looking up __get__/__set__/__delete__ in
   the class dicts along the MRO of the value's type.  Definitions only; all computable. *)
From JV Require Export Base.Str.

Definition id := nat.

(* exact identity of the builtin types the code compares with `type(x) is/in ...` *)
Inductive ckind :=
| KUser | KObject | KType | KFunction | KProperty | KStaticmethod | KClassmethod
| KGetSet | KMember | KMethodDescr | KWrapperDescr | KClassMethodDescr
| KStr | KList | KTuple | KBytes | KBytearray | KDict | KOther.

Definition ckind_eqb (a b : ckind) : bool :=
  match a, b with
  | KUser, KUser | KObject, KObject | KType, KType | KFunction, KFunction
  | KProperty, KProperty | KStaticmethod, KStaticmethod | KClassmethod, KClassmethod
  | KGetSet, KGetSet | KMember, KMember | KMethodDescr, KMethodDescr
  | KWrapperDescr, KWrapperDescr | KClassMethodDescr, KClassMethodDescr
  | KStr, KStr | KList, KList | KTuple, KTuple | KBytes, KBytes
  | KBytearray, KBytearray | KDict, KDict | KOther, KOther => true
  | _, _ => false
  end.

Fixpoint kind_in (k : ckind) (l : list ckind) : bool :=
  match l with [] => false | x :: r => ckind_eqb k x || kind_in k r end.

(* data a builtin descriptor object carries *)
Inductive payload :=
| PNone
| PProp (has_fget ret_annot : bool)     (* property: fget is a user function; fget has a 'return' annotation *)
| PMember (slot : str)                  (* member_descriptor of a __slots__ entry *)
| PGetSet (nm : str) (objclass : id)    (* getset_descriptor: __name__, __objclass__ *)
| PWrap (inner : id).                   (* staticmethod / classmethod: __func__ *)

Record cls := mkCls { c_kind : ckind; c_mro : list id; c_dict : list (str * id) }.

Record obj := mkObj {
  o_type : id;                           (* type(o); for a class: its metaclass *)
  o_dict : option (list (str * id));     (* the real instance __dict__, None when there is none *)
  o_slots : list (str * id);             (* filled __slots__ entries *)
  o_cls : option cls;                    (* Some for classes *)
  o_pay : payload }.

Definition heap := list obj.

Definition dummy : obj := mkObj 0 None [] None PNone.
Definition get (h : heap) (i : id) : obj := nth i h dummy.
Definition type_of (h : heap) (i : id) : id := o_type (get h i).
Definition get_cls (h : heap) (i : id) : option cls := o_cls (get h i).
Definition is_type (h : heap) (i : id) : bool :=
  match get_cls h i with Some _ => true | None => false end.
Definition mro_of (h : heap) (k : id) : list id :=
  match get_cls h k with Some c => c_mro c | None => [] end.
Definition cdict_of (h : heap) (k : id) : list (str * id) :=
  match get_cls h k with Some c => c_dict c | None => [] end.
Definition kind_of (h : heap) (k : id) : ckind :=
  match get_cls h k with Some c => c_kind c | None => KOther end.

Fixpoint assoc (d : list (str * id)) (n : str) : option id :=
  match d with
  | [] => None
  | (k, v) :: r => if str_eqb k n then Some v else assoc r n
  end.

Definition is_some {A} (o : option A) : bool := match o with Some _ => true | None => false end.

(* attribute names the code mentions *)
Definition s_get : str := [95;95;103;101;116;95;95]%N.                       (* __get__ *)
Definition s_set : str := [95;95;115;101;116;95;95]%N.                       (* __set__ *)
Definition s_delete : str := [95;95;100;101;108;101;116;101;95;95]%N.        (* __delete__ *)
Definition s_dict : str := [95;95;100;105;99;116;95;95]%N.                   (* __dict__ *)
Definition s_getattr : str := [95;95;103;101;116;97;116;116;114;95;95]%N.    (* __getattr__ *)
Definition s_getattribute : str :=
  [95;95;103;101;116;97;116;116;114;105;98;117;116;101;95;95]%N.             (* __getattribute__ *)
Definition s_iter : str := [95;95;105;116;101;114;95;95]%N.                  (* __iter__ *)
Definition s_bool : str := [95;95;98;111;111;108;95;95]%N.                   (* __bool__ *)
Definition s_len : str := [95;95;108;101;110;95;95]%N.                       (* __len__ *)

(* ------------------------------------------------------------------------- *)
(* getattr_static.py                                                         *)

(* the genuine instance-__dict__ descriptor of class `entry`:
   type(v) is GetSetDescriptorType and v.__name__ == '__dict__' and v.__objclass__ is entry *)
Definition is_std_dict_descr (h : heap) (entry v : id) : bool :=
  ckind_eqb (kind_of h (type_of h v)) KGetSet &&
  match o_pay (get h v) with
  | PGetSet nm oc => str_eqb nm s_dict && Nat.eqb oc entry
  | _ => false
  end.

(* _shadowed_dict(klass): the first '__dict__' entry along the MRO that is not genuine *)
Fixpoint shadowed_dict_mro (h : heap) (mro : list id) : option id :=
  match mro with
  | [] => None
  | e :: r =>
      match assoc (cdict_of h e) s_dict with
      | None => shadowed_dict_mro h r
      | Some v => if is_std_dict_descr h e v then shadowed_dict_mro h r else Some v
      end
  end.
Definition shadowed_dict (h : heap) (k : id) : option id := shadowed_dict_mro h (mro_of h k).

(* _check_class(klass, attr): MRO walk that skips entries whose metaclass shadows __dict__ *)
Fixpoint check_class_mro (h : heap) (mro : list id) (attr : str) : option id :=
  match mro with
  | [] => None
  | e :: r =>
      match shadowed_dict h (type_of h e) with
      | None => match assoc (cdict_of h e) attr with
                | Some v => Some v
                | None => check_class_mro h r attr
                end
      | Some _ => check_class_mro h r attr
      end
  end.
Definition check_class (h : heap) (k : id) (attr : str) : option id :=
  check_class_mro h (mro_of h k) attr.

(* _safe_hasattr(obj, name) = _check_class(type(obj), name) is not _sentinel *)
Definition safe_hasattr (h : heap) (o : id) (nm : str) : bool :=
  is_some (check_class h (type_of h o) nm).
Definition safe_is_data (h : heap) (o : id) : bool :=
  safe_hasattr h o s_set || safe_hasattr h o s_delete.

(* `dict_attr is _sentinel or type(dict_attr) is MemberDescriptorType or ... GetSetDescriptorType` *)
Definition dict_consulted (h : heap) (klass : id) : bool :=
  match shadowed_dict h klass with
  | None => true
  | Some d => let k := kind_of h (type_of h d) in ckind_eqb k KMember || ckind_eqb k KGetSet
  end.

(* _check_instance *)
Definition check_instance (h : heap) (o : id) (attr : str) : option id :=
  match o_dict (get h o) with Some d => assoc d attr | None => None end.

(* getattr_static(obj, attr): None = AttributeError, Some (attr, is_get_descriptor) *)
Definition getattr_static (h : heap) (o : id) (attr : str) : option (id * bool) :=
  let isty := is_type h o in
  let klass := if isty then o else type_of h o in
  let inst := if isty then None
              else if dict_consulted h klass then check_instance h o attr else None in
  let kres := check_class h klass attr in
  match inst, kres with
  | Some i, Some k =>
      if safe_hasattr h k s_get && safe_is_data h k then Some (k, true) else Some (i, false)
  | Some i, None => Some (i, false)
  | None, Some k => Some (k, safe_hasattr h k s_get)
  | None, None =>
      if isty then
        match check_class h (type_of h klass) attr with
        | Some m => Some (m, false)
        | None => None
        end
      else None
  end.

(* ------------------------------------------------------------------------- *)
(* Python's attribute lookup (specification side)                             *)

Inductive hook :=
| HGet (descr : id)        (* a __get__ written in Python, of descriptor object descr *)
| HPropGet (prop : id)     (* the getter function of property object prop *)
| HGetattr                 (* a __getattr__ written in Python *)
| HGetattribute.           (* a __getattribute__ written in Python *)

Inductive res :=
| RVal (v : id)            (* exactly this stored object *)
| RBound (f self : id)     (* a fresh bound method *)
| ROpaque                  (* computed by builtin code *)
| RHook                    (* whatever the user hook returned *)
| RAttrError.

(* the two hooks the property is about *)
Definition descr_hook (k : hook) : bool :=
  match k with HGet _ | HPropGet _ => true | _ => false end.

(* _PyType_Lookup *)
Fixpoint lookup_mro (h : heap) (mro : list id) (n : str) : option id :=
  match mro with
  | [] => None
  | e :: r => match assoc (cdict_of h e) n with
              | Some v => Some v
              | None => lookup_mro h r n
              end
  end.
Definition type_lookup (h : heap) (k : id) (n : str) : option id := lookup_mro h (mro_of h k) n.

Definition has_get (h : heap) (v : id) : bool := is_some (type_lookup h (type_of h v) s_get).
Definition is_data (h : heap) (v : id) : bool :=
  is_some (type_lookup h (type_of h v) s_set) || is_some (type_lookup h (type_of h v) s_delete).

Definition is_user_function (h : heap) (g : id) : bool :=
  ckind_eqb (kind_of h (type_of h g)) KFunction.

(* does class k (through its MRO) define special method nm in Python? *)
Definition user_hook (h : heap) (k : id) (nm : str) : bool :=
  match type_lookup h k nm with Some g => is_user_function h g | None => false end.

(* the builtin type whose C-level __get__ an object inherits *)
Fixpoint first_builtin_kind (h : heap) (mro : list id) : ckind :=
  match mro with
  | [] => KObject
  | e :: r => match kind_of h e with KUser => first_builtin_kind h r | k => k end
  end.

(* type(v).__get__(v, inst, owner) *)
Definition call_get (h : heap) (v : id) (inst : option id) (owner : id) : res * list hook :=
  match type_lookup h (type_of h v) s_get with
  | None => (RVal v, [])
  | Some g =>
      if is_user_function h g then (RHook, [HGet v])
      else
        match first_builtin_kind h (mro_of h (type_of h v)), inst with
        | KFunction, Some i => (RBound v i, [])
        | KFunction, None => (RVal v, [])
        | KProperty, Some _ =>
            match o_pay (get h v) with
            | PProp true _ => (RHook, [HPropGet v])
            | _ => (RAttrError, [])
            end
        | KProperty, None => (RVal v, [])
        | KStaticmethod, _ =>
            match o_pay (get h v) with PWrap f => (RVal f, []) | _ => (ROpaque, []) end
        | KClassmethod, _ =>
            match o_pay (get h v) with PWrap f => (RBound f owner, []) | _ => (ROpaque, []) end
        | KMember, Some i =>
            match o_pay (get h v) with
            | PMember s => match assoc (o_slots (get h i)) s with
                           | Some x => (RVal x, [])
                           | None => (RAttrError, [])
                           end
            | _ => (ROpaque, [])
            end
        | KMember, None => (RVal v, [])
        | KGetSet, None | KMethodDescr, None | KWrapperDescr, None => (RVal v, [])
        | _, _ => (ROpaque, [])
        end
  end.

Definition inst_lookup (h : heap) (o : id) (n : str) : option id :=
  match o_dict (get h o) with Some d => assoc d n | None => None end.

(* object.__getattribute__ *)
Definition obj_getattribute (h : heap) (o : id) (n : str) : res * list hook :=
  let T := type_of h o in
  match type_lookup h T n with
  | Some d =>
      if has_get h d && is_data h d then call_get h d (Some o) T
      else match inst_lookup h o n with
           | Some v => (RVal v, [])
           | None => if has_get h d then call_get h d (Some o) T else (RVal d, [])
           end
  | None =>
      match inst_lookup h o n with
      | Some v => (RVal v, [])
      | None => (RAttrError, [])
      end
  end.

(* type.__getattribute__ *)
Definition type_getattribute (h : heap) (o : id) (n : str) : res * list hook :=
  let M := type_of h o in
  let meta := type_lookup h M n in
  let meta_data := match meta with Some m => has_get h m && is_data h m | None => false end in
  match meta, meta_data with
  | Some m, true => call_get h m (Some o) M
  | _, _ =>
      match type_lookup h o n with
      | Some a => if has_get h a then call_get h a None o else (RVal a, [])
      | None =>
          match meta with
          | Some m => if has_get h m then call_get h m (Some o) M else (RVal m, [])
          | None => (RAttrError, [])
          end
      end
  end.

(* getattr(o, n) *)
Definition py_getattr (h : heap) (o : id) (n : str) : res * list hook :=
  let T := type_of h o in
  if user_hook h T s_getattribute then (RHook, [HGetattribute])
  else
    let '(r, hs) := if is_type h o then type_getattribute h o n else obj_getattribute h o n in
    match r with
    | RAttrError => if user_hook h T s_getattr then (RHook, hs ++ [HGetattr]) else (RAttrError, hs)
    | _ => (r, hs)
    end.

(* dir(o) as a set: instance dict keys and the keys of every class dict along the MRO
   (for a class: along its own MRO) *)
Definition keys (d : list (str * id)) : list str := map fst d.
Definition py_dir (h : heap) (o : id) : list str :=
  let own := match o_dict (get h o) with Some d => keys d | None => [] end in
  let k := if is_type h o then o else type_of h o in
  own ++ flat_map (fun e => keys (cdict_of h e)) (mro_of h k).

(* ------------------------------------------------------------------------- *)
(* access.py: is_allowed_getattr                                             *)

Definition allowed_descriptor_kinds : list ckind :=
  [KFunction; KGetSet; KMember; KMethodDescr; KWrapperDescr; KClassMethodDescr;
   KStaticmethod; KClassmethod].
(* type(attr) in ALLOWED_DESCRIPTOR_ACCESS *)
Definition allowed_descr_type (h : heap) (a : id) : bool :=
  kind_in (kind_of h (type_of h a)) allowed_descriptor_kinds.
(* isinstance(attr, property) *)
Definition isinstance_property (h : heap) (a : id) : bool :=
  existsb (fun e => ckind_eqb (kind_of h e) KProperty) (mro_of h (type_of h a)).

Definition res_exists (r : res) : bool := match r with RAttrError => false | _ => true end.

(* (has_attribute, is_descriptor, property_return_annotation is not None), hooks run *)
Definition is_allowed_getattr (h : heap) (o : id) (n : str) (safe : bool)
  : (bool * bool * bool) * list hook :=
  match getattr_static h o n with
  | None =>
      if safe then ((false, false, false), [])
      else let '(r, hs) := py_getattr h o n in ((res_exists r, false, false), hs)   (* hasattr *)
  | Some (a, is_get) =>
      if is_get && negb (allowed_descr_type h a) then
        if isinstance_property h a then
          match o_pay (get h a) with
          | PProp true true => ((true, true, true), [])
          | _ => ((true, true, false), [])
          end
        else ((true, true, false), [])
      else ((true, false, false), [])
  end.

(* ------------------------------------------------------------------------- *)
(* value.py: CompiledValueFilter                                             *)

Inductive cname :=
| NEmpty                      (* EmptyCompiledName: infers to nothing, touches nothing *)
| NReal (is_descriptor : bool)(* CompiledName: infer() does getattr(obj, name) *)
| NAnnot.                     (* CompiledValueName of the property's return annotation *)

(* _get(name, allowed_getattr_callback, in_dir_callback, check_has_attribute) *)
Definition filter_get (allow_unsafe is_instance check_has : bool)
           (info : bool * bool * bool) (annot_values : bool) (in_dir : bool) : list cname :=
  let '(has, isd, ann) := info in
  if ann && annot_values then [NAnnot]
  else if check_has && negb has then []
  else if (isd || negb has) && negb allow_unsafe then [NEmpty]
  else if is_instance && negb in_dir then []
  else [NReal isd].

(* hooks run when a name handed out by the filter is inferred *)
Definition name_infer_hooks (h : heap) (o : id) (n : str) (c : cname) : list hook :=
  match c with
  | NReal _ => snd (py_getattr h o n)     (* create_from_name -> getattr_paths -> getattr *)
  | _ => []
  end.

(* CompiledValueFilter.get(name) *)
Definition filter_get_name (h : heap) (o : id) (n : str) (allow_unsafe is_instance annot_values in_dir : bool)
  : list cname :=
  filter_get allow_unsafe is_instance true
             (fst (is_allowed_getattr h o n (negb allow_unsafe))) annot_values in_dir.

(* CompiledValueFilter.values(): get_dir_infos() always uses safe=True; every name is in dir_infos *)
Definition filter_values (h : heap) (o : id) (dirs : list str) (allow_unsafe is_instance : bool)
           (annot_values : str -> bool) : list (str * cname) :=
  flat_map (fun n => map (fun c => (n, c))
                         (filter_get allow_unsafe is_instance false
                                     (fst (is_allowed_getattr h o n true)) (annot_values n) true))
           dirs.

(* ------------------------------------------------------------------------- *)
(* item access, iteration, truth value                                       *)

Definition allowed_getitem_kinds : list ckind := [KStr; KList; KTuple; KBytes; KBytearray; KDict].
(* type(obj) in ALLOWED_GETITEM_TYPES *)
Definition allowed_getitem_type (h : heap) (o : id) : bool :=
  kind_in (kind_of h (type_of h o)) allowed_getitem_kinds.

Inductive access :=
| AGetItem (o : id)      (* o[index] on the live object *)
| AIterate (o : id)      (* for part in o *)
| AIterCall (o : id)     (* iter(o) *)
| ABool (o : id).        (* bool(o) *)

(* DirectObjectAccess.py__simple_getitem__(index, safe=not allow_unsafe) *)
Definition compiled_simple_getitem (h : heap) (o : id) (allow_unsafe : bool) : list access :=
  if negb allow_unsafe && negb (allowed_getitem_type h o) then [] else [AGetItem o].

(* MixedObject.py__simple_getitem__: other objects go to the tree value *)
Definition mixed_simple_getitem (h : heap) (o : id) (allow_unsafe : bool) : list access :=
  if allowed_getitem_type h o then compiled_simple_getitem h o allow_unsafe else [].

(* DirectObjectAccess.py__iter__list: has_iter_attr = `self._obj.__iter__` did not raise,
   ret_annot = that method has a return annotation *)
Definition iter_list (h : heap) (o : id) (has_iter_attr ret_annot : bool) : list access :=
  if negb has_iter_attr then []
  else if ret_annot then []
  else if allowed_getitem_type h o then [AIterate o] else [].

(* CompiledValue.py__iter__: has_iter() = iter(obj), then py__iter__list *)
Definition compiled_py_iter (h : heap) (o : id) (has_iter_attr ret_annot : bool) : list access :=
  AIterCall o :: iter_list h o has_iter_attr ret_annot.

(* CompiledValue.py__bool__ -> DirectObjectAccess.py__bool__ = bool(obj) *)
Definition compiled_py_bool (h : heap) (o : id) : list access := [ABool o].

(* user hooks run by an access *)
Definition access_target (a : access) : id :=
  match a with AGetItem o | AIterate o | AIterCall o | ABool o => o end.

Definition user_truth_hook (h : heap) (o : id) : bool :=
  let T := type_of h o in
  match type_lookup h T s_bool with
  | Some g => is_user_function h g
  | None => user_hook h T s_len
  end.

(* DirectObjectAccess.py__getitem__all_values (reached from CompiledValue.py__getitem__ when the
   index is not a simple literal hit): isinstance(obj, dict) -> obj.values(); isinstance(obj,
   (list, tuple)) -> `for v in obj`.  isinstance, not exact type: subclasses are iterated. *)
Definition isinstance_kinds (h : heap) (o : id) (ks : list ckind) : bool :=
  existsb (fun e => kind_in (kind_of h e) ks) (mro_of h (type_of h o)).
Definition getitem_all_values (h : heap) (o : id) : list access :=
  if isinstance_kinds h o [KDict; KList; KTuple] then [AIterate o] else [].
