(* C18 — get_context, parent() and full_name describe the lexical nesting.

   Model of
     jedi/api/__init__.py      Script.get_context
     jedi/inference/context.py TreeContextMixin.create_context / create_value
                               (parent_scope walk, header-belongs-to-outer-scope rule)
     jedi/api/classes.py       BaseName.parent, BaseName.full_name
     jedi/inference/names.py   AbstractTreeName._get_qualified_names, ValueNameMixin
     jedi/inference/value/function.py  FunctionAndClassBase.get_qualified_names
   on a *definition tree with text extents*: every lexical scope (def / class /
   lambda / comprehension) with the positions parso records for it, nested as in the
   source, plus the list of leaves (tokens) of the file.  Definitions only; all
   computable.  Proofs are in Proofs/C18_Proofs.v. *)
From JV Require Import Base.Str.

(* ------------------------------------------------------------------ positions *)
Definition pos := (N * N)%type.            (* (line, column); parso: 1-based line, 0-based column *)

Definition pos_ltb (a b : pos) : bool :=
  (fst a <? fst b)%N || ((fst a =? fst b)%N && (snd a <? snd b)%N).
Definition pos_leb (a b : pos) : bool :=
  (fst a <? fst b)%N || ((fst a =? fst b)%N && (snd a <=? snd b)%N).
Definition pos_eqb (a b : pos) : bool := (fst a =? fst b)%N && (snd a =? snd b)%N.

(* ------------------------------------------------------------------ scopes *)
Inductive kind := Func | Cls | Lam | Comp.

Record scope := Scope {
  s_id    : N;        (* identity used by the harness (1.. in preorder; 0 is the module) *)
  s_kind  : kind;
  s_name  : str;      (* def/class name; "<lambda>" for lambdas; empty for comprehensions *)
  s_ind   : N;        (* column of the first character of the statement (`async`, `def`, `class`) *)
  s_kw    : pos;      (* parso node start_pos: the `def` / `class` / `lambda` keyword (NOT `async`, NOT decorators) *)
  s_colon : pos;      (* start of the colon that ends the header (funcdef/classdef only) *)
  s_body  : pos;      (* children[-1].start_pos: the newline leaf after the colon, or the first
                         token of a one-line body `def f(): pass` (funcdef/classdef only) *)
  s_end   : pos       (* exclusive end of the node (after the newline leaf that ends the suite) *)
}.

(* the definition tree: a scope and the scopes written inside it, in source order *)
Inductive dtree := DT (s : scope) (kids : list dtree).

Fixpoint flatten (t : dtree) : list scope :=
  match t with DT s kids => s :: flat_map flatten kids end.

Definition tok := (pos * pos)%type.        (* a leaf: (start_pos, end_pos) *)

Record file := File {
  f_mod  : list str;       (* the module's dotted name, as components (ModuleValue.string_names) *)
  f_toks : list tok;       (* all leaves except the endmarker, in source order *)
  f_defs : list dtree      (* top-level scopes *)
}.

Definition scopes (f : file) : list scope := flat_map flatten (f_defs f).   (* preorder *)

Definition is_def (s : scope) : bool := match s_kind s with Func | Cls => true | _ => false end.
Definition is_cls (s : scope) : bool := match s_kind s with Cls => true | _ => false end.
Definition is_lam (s : scope) : bool := match s_kind s with Lam => true | _ => false end.
Definition is_comp (s : scope) : bool := match s_kind s with Comp => true | _ => false end.
Definition kwcol (s : scope) : N := snd (s_kw s).

(* the node contains the position of a leaf start *)
Definition contains (s : scope) (p : pos) : bool := pos_leb (s_kw s) p && pos_ltb p (s_end s).

(* ------------------------------------------------------------------ specification side *)
Definition in_body (s : scope) (p : pos) : bool := pos_leb (s_body s) p && pos_ltb p (s_end s).
Definition in_header (s : scope) (p : pos) : bool := pos_ltb (s_kw s) p && pos_ltb p (s_body s).
(* DESIGN §C18: from just after the first character to the end of the suite *)
Definition in_extent (s : scope) (p : pos) : bool := pos_ltb (s_kw s) p && pos_ltb p (s_end s).
Definition encloses (a b : scope) : bool := pos_leb (s_kw a) (s_kw b) && pos_leb (s_end b) (s_end a).

(* d is the innermost function or class standing in relation R to the position *)
Definition Innermost (R : scope -> pos -> bool) (l : list scope) (p : pos) (d : scope) : Prop :=
  In d l /\ is_def d = true /\ R d p = true /\
  forall e, In e l -> is_def e = true -> R e p = true -> encloses e d = true.
Definition NoneContains (R : scope -> pos -> bool) (l : list scope) (p : pos) : Prop :=
  forall e, In e l -> is_def e = true -> R e p = false.

(* computable versions (the last match in preorder is the innermost one) *)
Definition innermost (R : scope -> pos -> bool) (l : list scope) (p : pos) : option scope :=
  find (fun s => is_def s && R s p) (rev l).
(* innermost definition whose extent contains p and whose keyword column is left of p *)
Definition innermost_ext_col (l : list scope) (p : pos) : option scope :=
  find (fun s => is_def s && in_extent s p && (kwcol s <? snd p)%N) (rev l).

(* ------------------------------------------------------------------ leaves *)
(* module_node.get_leaf_for_position(pos, include_prefixes=True): the first leaf with
   pos <= end_pos (the endmarker when there is none); then Script.get_context:
     if leaf.start_pos > pos or leaf.type == 'endmarker': leaf = previous leaf if any *)
Fixpoint leaf_at' (prev : option tok) (l : list tok) (p : pos) : option tok :=
  match l with
  | [] => prev
  | t :: r =>
      if pos_leb p (snd t) then
        (if pos_ltb p (fst t) then match prev with Some q => Some q | None => Some t end
         else Some t)
      else leaf_at' (Some t) r p
  end.
Definition leaf_at (l : list tok) (p : pos) : option tok := leaf_at' None l p.

(* ------------------------------------------------------------------ contexts *)
(* A context is represented by the list of scope nodes from its own node outwards
   (innermost first); [] is the module context. *)
Definition ctx := list scope.

(* ancestors of a leaf that are scopes (parser_utils.is_scope), innermost first *)
Definition chain_at (l : list scope) (p : pos) : ctx := rev (filter (fun s => contains s p) l).

(* create_context(node) for a node starting at `start` whose scope ancestors are `anc`:
     scope_node = parent_scope(node)
     if scope_node.type in ('funcdef','classdef') and node.start_pos < colon.start_pos
        [and node is not a parameter name]:  scope_node = parent_scope(scope_node)
   The parameter-name exemption is not reachable from the three observation points
   (get_context tests the header by position first; parameter names take another path in
   BaseName.parent), see notes/C18.md. *)
Definition scope_of (anc : ctx) (start : pos) : ctx :=
  match anc with
  | s :: rest => if is_def s && pos_ltb start (s_colon s) then rest else anc
  | [] => []
  end.

(* create_context(node) of a context's own node: the context the node is written in *)
Definition lexical_parent (c : ctx) : ctx :=
  match c with
  | [] => []
  | s :: rest => if is_comp s then rest else scope_of rest (s_kw s)
  end.

(* FunctionValue.from_context:
     while parent_context.is_class() or parent_context.is_instance():
         parent_context = parent_context.parent_context
   (class statements are never written in a header, so the parent context of a class
   context is the context of the textually enclosing scope) *)
Fixpoint skip_cls (c : ctx) : ctx :=
  match c with
  | s :: rest => if is_cls s then skip_cls rest else c
  | [] => []
  end.

(* context.parent_context:
     class value:            create_context(its node)
     function/lambda value:  create_context(its node), then classes skipped (from_context above);
                             header rule applies: a lambda written in a default value belongs to
                             the scope outside the function
     CompForContext:         from_scope_node(parent_scope(comp_for.parent))  (no header rule) *)
Definition parent_ctx (c : ctx) : ctx :=
  match c with
  | [] => []
  | s :: rest => match s_kind s with
                 | Comp => rest
                 | Cls => scope_of rest (s_kw s)
                 | Func | Lam => skip_cls (scope_of rest (s_kw s))
                 end
  end.

(* `while context.name is None: context = context.parent_context`  (comprehensions) *)
Fixpoint skip_comps (c : ctx) : ctx :=
  match c with
  | s :: rest => if is_comp s then skip_comps rest else c
  | [] => []
  end.

(* node.search_ancestor('funcdef', 'classdef', 'file_input') on the textual ancestors *)
Fixpoint drop_to_def (c : ctx) : ctx :=
  match c with
  | s :: rest => if is_def s then c else drop_to_def rest
  | [] => []
  end.

(* BaseName.parent() applied to the name of a (named) context:
     type in (function, class) and tree_name is not None  -> search_ancestor(...) of the definition
     lambda (tree_name is None)                              -> name.parent_context, skipping comprehensions *)
Definition name_parent (c : ctx) : ctx :=
  match c with
  | [] => []
  | s :: rest => if is_def s then drop_to_def rest else skip_comps (parent_ctx c)
  end.

(* the loop at the end of Script.get_context:
     while definition.type != 'module':
         if tree_name is not None and tree_name.get_definition().start_pos[1] < column: break
         definition = definition.parent()                                                   *)
Fixpoint ctx_walk (fuel : nat) (col : N) (c : ctx) : ctx :=
  match fuel with
  | O => []
  | S fuel' =>
      match c with
      | [] => []
      | s :: _ => if is_def s && (kwcol s <? col)%N then c else ctx_walk fuel' col (name_parent c)
      end
  end.

(* Script.get_context(line, column) as a context *)
Definition get_context_ctx (f : file) (p : pos) : ctx :=
  match leaf_at (f_toks f) p with
  | None => []                                    (* no leaf but the endmarker *)
  | Some lf =>
      let c := chain_at (scopes f) (fst lf) in
      let c0 :=
        match drop_to_def c with                  (* n = leaf.search_ancestor('funcdef','classdef') *)
        | n :: above =>
            if pos_ltb (s_kw n) p && pos_leb p (s_body n)      (* n.start_pos < pos <= n.children[-1].start_pos *)
            then n :: above                       (* create_value(n).as_context() *)
            else skip_comps (scope_of c (fst lf)) (* create_context(leaf) *)
        | [] => skip_comps (scope_of c (fst lf))
        end in
      ctx_walk (S (length c0)) (snd p) c0
  end.

Definition ctx_head (c : ctx) : option scope := match c with s :: _ => Some s | [] => None end.
Definition ctx_id (c : ctx) : N := match c with s :: _ => s_id s | [] => 0%N end.

Definition get_context_scope (f : file) (p : pos) : option scope := ctx_head (get_context_ctx f p).
Definition get_context (f : file) (p : pos) : N := ctx_id (get_context_ctx f p).

(* ------------------------------------------------------------------ parent() chains *)
(* which path BaseName.parent takes for a name returned by get_names *)
Inductive nkind :=
| NDef      (* name of a def / class: type in (function, class), tree_name.get_definition() is the node *)
| NParam    (* parameter name (of a def or of a lambda): get_definition() is the param node *)
| NOther.   (* anything else: name.parent_context = create_context(tree_name) *)

Definition first_parent (l : list scope) (k : nkind) (p : pos) : ctx :=
  let c := chain_at l p in
  match k with
  | NDef => drop_to_def (tl c)        (* search_ancestor from the funcdef/classdef itself *)
  | NParam => drop_to_def c           (* search_ancestor from the param node: lambdas are skipped *)
  | NOther => skip_comps (scope_of c p)
  end.

(* ids of the Names visited by iterating parent(); ends with 0 (the module, whose parent() is None) *)
Fixpoint up_chain (fuel : nat) (c : ctx) : list N :=
  match fuel with
  | O => [0%N]
  | S fuel' => match c with
               | [] => [0%N]
               | s :: _ => s_id s :: up_chain fuel' (name_parent c)
               end
  end.

Definition parent_chain (l : list scope) (k : nkind) (p : pos) : list N :=
  let c := first_parent l k p in up_chain (S (length c)) c.

(* lexically enclosing scopes of d (extent contains extent), innermost first — specification *)
Definition strictly_encloses (a b : scope) : bool :=
  pos_ltb (s_kw a) (s_kw b) && pos_leb (s_end b) (s_end a).
Definition enclosing (l : list scope) (d : scope) : list scope :=
  rev (filter (fun s => strictly_encloses s d) l).

(* ------------------------------------------------------------------ qualified names *)
Definition lambda_name : str := [60; 108; 97; 109; 98; 100; 97; 62]%N.   (* "<lambda>" *)
Definition locals_name : str := [60; 108; 111; 99; 97; 108; 115; 62]%N.  (* "<locals>" *)

(* context.get_qualified_names():
     module -> ();  CompForContext -> () (AbstractContext default)
     function/class/lambda value (FunctionAndClassBase / MethodValue .get_qualified_names;
     a method's class_context is the context its def is written in):
        parent_context.is_class()  -> parent names + (name,)   (None if the parent has none)
        parent_context.is_module() -> (name,)
        else None                                                                       *)
Fixpoint qn_ctx (fuel : nat) (c : ctx) : option (list str) :=
  match fuel with
  | O => None
  | S fuel' =>
      match c with
      | [] => Some []
      | s :: _ =>
          if is_comp s then Some []
          else match lexical_parent c with
               | [] => Some [s_name s]
               | p :: pr => if is_cls p
                            then match qn_ctx fuel' (p :: pr) with
                                 | Some n => Some (n ++ [s_name s])
                                 | None => None
                                 end
                            else None
               end
      end
  end.

(* Name.full_name for a def/class name returned by get_names (a TreeNameDefinition):
     parent_context.get_qualified_names() + (name,), parent_context = create_context(name leaf);
   module string names prepended *)
Definition full_name_def (f : file) (namepos : pos) (name : str) : option (list str) :=
  let c := scope_of (chain_at (scopes f) namepos) namepos in
  match qn_ctx (S (length c)) c with
  | Some q => Some (f_mod f ++ q ++ [name])
  | None => None
  end.

(* full_name of the Name returned by get_context (a ValueName: value.get_qualified_names()) *)
Definition full_name_ctx (f : file) (c : ctx) : option (list str) :=
  match qn_ctx (S (length c)) c with
  | Some q => Some (f_mod f ++ q)
  | None => None
  end.

(* Python: obj.__qualname__ split at dots, from the enclosing definitions (outermost first) *)
Fixpoint qualname_of (outer_first : list scope) (name : str) : list str :=
  match outer_first with
  | [] => [name]
  | s :: r => match s_kind s with
              | Func => s_name s :: locals_name :: qualname_of r name
              | _ => s_name s :: qualname_of r name
              end
  end.
Definition qualname (l : list scope) (d : scope) : list str :=
  qualname_of (filter is_def (rev (enclosing l d))) (s_name d).

(* ------------------------------------------------------------------ well-formedness *)
(* leaves are non-empty, in order, non-overlapping *)
Fixpoint toks_sorted (l : list tok) : bool :=
  match l with
  | [] => true
  | t :: r => pos_ltb (fst t) (snd t) &&
              match r with [] => true | u :: _ => pos_leb (snd t) (fst u) end &&
              toks_sorted r
  end.

Definition scope_ok (s : scope) : bool :=
  pos_ltb (s_kw s) (s_end s) &&
  (negb (is_def s) ||
   (pos_ltb (s_kw s) (s_colon s) && pos_ltb (s_colon s) (s_body s) && pos_ltb (s_body s) (s_end s)
    && (snd (s_end s) =? 0)%N)).                (* a suite ends after a newline leaf *)

(* a before b in preorder: b starts later and is either after a or properly inside it;
   what is written in a def/class header ends before the colon and is not a def/class;
   a def/class inside a def/class is inside its body *)
Definition pair_ok (a b : scope) : bool :=
  pos_ltb (s_kw a) (s_kw b) &&
  (pos_leb (s_end a) (s_kw b) ||
   (pos_leb (s_end b) (s_end a) &&
    (negb (is_def a) ||
     (if pos_ltb (s_kw b) (s_colon a)
      then pos_leb (s_end b) (s_colon a) && negb (is_def b)
      else negb (is_def b) || pos_leb (s_body a) (s_kw b))))).

Fixpoint all_pairs (P : scope -> scope -> bool) (l : list scope) : bool :=
  match l with
  | [] => true
  | s :: r => forallb (P s) r && all_pairs P r
  end.

(* no leaf straddles x *)
Definition al (t : tok) (x : pos) : bool := negb (pos_ltb (fst t) x) || pos_leb (snd t) x.
Definition tok_ok (l : list scope) (t : tok) : bool :=
  forallb (fun s => al t (s_kw s) && al t (s_end s) && (negb (is_def s) || al t (s_colon s))) l.

Definition wf_scopes (l : list scope) : bool := forallb scope_ok l && all_pairs pair_ok l.
Definition wf_file (f : file) : bool :=
  toks_sorted (f_toks f) && wf_scopes (scopes f) && forallb (tok_ok (scopes f)) (f_toks f).

(* the position touches a leaf: start <= p <= end *)
Definition on_code (f : file) (p : pos) : bool :=
  existsb (fun t => pos_leb (fst t) p && pos_leb p (snd t)) (f_toks f).

(* the position touches the node *)
Definition touches (s : scope) (p : pos) : bool := pos_leb (s_kw s) p && pos_leb p (s_end s).
(* some scope lies strictly between y and x *)
Definition between (l : list scope) (y x : scope) : bool :=
  existsb (fun z => strictly_encloses y z && strictly_encloses z x) l.
(* x is written directly in a class body: its innermost enclosing scope is a class
   (written with `if` so that evaluation is lazy) *)
Definition direct_cls (l : list scope) (x : scope) : bool :=
  existsb (fun y => if is_cls y then (if strictly_encloses y x then negb (between l y x) else false)
                    else false) l.
(* p does not touch a lambda that is written directly in a class body *)
Definition lam_cls_free (l : list scope) (p : pos) : bool :=
  forallb (fun x => if is_lam x then (if touches x p then negb (direct_cls l x) else true) else true) l.
