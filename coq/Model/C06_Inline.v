(* C06 -- extract and inline keep the program valid and equivalent.

   Model of the expression part of Python's grammar (parso grammar312.txt, the
   chain  test > or_test > and_test > not_test > comparison > expr > xor_expr >
   and_expr > shift_expr > arith_expr > term > factor > power > atom_expr > atom,
   plus lambdef, parenthesised tuples, list displays, list comprehensions,
   starred elements, calls, subscripts and attributes), of the parse-tree parent
   type parso reports for a name occurrence, and of jedi's `inline`
   (jedi/api/refactoring/__init__.py): the replacement text is the right-hand
   side, wrapped in parentheses iff the right-hand side is a bare tuple, or the
   parent type of the reference is in _INLINE_NEEDS_PARENTHESES, or the
   reference sits in a trailer that has a following sibling.

   The concrete syntax tree keeps explicit `Paren` nodes (parso's `atom`
   '(' test ')'), so text <-> tree is a bijection modulo white space: `print`
   never invents parentheses, `wf_at l e` says that the tree is a parse tree of
   its own text in a slot of grammar level l, and `D` is the grammar itself as
   a derivation relation on token lists.

   Definitions only; everything except D computes. *)
From Coq Require Export List NArith ZArith Bool Arith Lia.
Export ListNotations.

(* ------------------------------------------------------------------ levels *)
(* 0 = element of a display (test | star_expr), 1 = test (ternary, lambdef),
   2 = or_test, 3 = and_test, 4 = not_test, 5 = comparison, 6 = expr (|),
   7 = xor_expr, 8 = and_expr, 9 = shift_expr, 10 = arith_expr, 11 = term,
   12 = factor, 13 = power, 14 = atom_expr, 15 = atom.  Larger = binds tighter. *)
Definition L_elem := 0.   Definition L_test := 1.    Definition L_or := 2.
Definition L_and := 3.    Definition L_not := 4.     Definition L_cmp := 5.
Definition L_expr := 6.   Definition L_xor := 7.     Definition L_andx := 8.
Definition L_shift := 9.  Definition L_arith := 10.  Definition L_term := 11.
Definition L_factor := 12. Definition L_power := 13. Definition L_atom_expr := 14.
Definition L_atom := 15.

Inductive binop := BOr | BXor | BAnd | BShl | BShr | BAdd | BSub
                 | BMul | BMat | BDiv | BMod | BFloor.
Inductive unop := UNeg | UPos | UInv.
Inductive cmpop := CLt | CGt | CEq | CGe | CLe | CNe.

Definition bin_level (o : binop) : nat :=
  match o with
  | BOr => 6 | BXor => 7 | BAnd => 8 | BShl | BShr => 9 | BAdd | BSub => 10
  | BMul | BMat | BDiv | BMod | BFloor => 11
  end.

(* ------------------------------------------------------------------ tokens *)
Inductive sym :=
| LPar | RPar | LBr | RBr | Comma | Dot | Colon
| KIf | KElse | KOr | KAnd | KNot | KLambda | KFor | KIn
| SBar | SCaret | SAmp | SShl | SShr | SPlus | SMinus | SStar | SAt | SSlash
| SPercent | SDSlash | STilde | SDStar
| SLt | SGt | SEqEq | SGe | SLe | SNe.

(* TName: a name used as an expression; TBind: a name that is bound (lambda
   parameter, comprehension variable); TField: the name after a dot. *)
Inductive token := TName (x : N) | TBind (x : N) | TField (x : N) | TNum (z : Z) | TS (s : sym).

Definition bin_sym (o : binop) : sym :=
  match o with
  | BOr => SBar | BXor => SCaret | BAnd => SAmp | BShl => SShl | BShr => SShr
  | BAdd => SPlus | BSub => SMinus | BMul => SStar | BMat => SAt | BDiv => SSlash
  | BMod => SPercent | BFloor => SDSlash
  end.
Definition un_sym (o : unop) : sym :=
  match o with UNeg => SMinus | UPos => SPlus | UInv => STilde end.
Definition cmp_sym (o : cmpop) : sym :=
  match o with CLt => SLt | CGt => SGt | CEq => SEqEq | CGe => SGe | CLe => SLe | CNe => SNe end.

(* --------------------------------------------------- concrete syntax trees *)
Inductive expr :=
| Var (x : N)
| Num (z : Z)
| Paren (e : expr)                              (* atom: '(' test ')' *)
| Tup (es : exprs)                              (* atom: '(' a, b ... ')'   (0 or >= 2 elements) *)
| Lst (es : exprs)                              (* atom: '[' a, b ... ']' *)
| LComp (elt : expr) (v : N) (it : expr)        (* [elt for v in it] *)
| LCompIf (elt : expr) (v : N) (it c : expr)    (* [elt for v in it if c] *)
| Star (e : expr)                               (* star_expr, only as a display element *)
| Tern (a c b : expr)                           (* a if c else b *)
| Lam (ps : list N) (b : expr)                  (* lambda ps: b *)
| Or (a b : expr) | And (a b : expr) | Not (a : expr)
| Cmp (o : cmpop) (a b : expr)
| Bin (o : binop) (a b : expr)
| Un (o : unop) (a : expr)
| Pow (a b : expr)
| Call (f : expr) (args : exprs)
| Sub (a i : expr)
| Attr (a : expr) (n : N)
with exprs := ENil | ECons (e : expr) (es : exprs).

Fixpoint elen (es : exprs) : nat :=
  match es with ENil => 0 | ECons _ r => S (elen r) end.

Definition level (e : expr) : nat :=
  match e with
  | Var _ | Num _ | Paren _ | Tup _ | Lst _ | LComp _ _ _ | LCompIf _ _ _ _ => 15
  | Call _ _ | Sub _ _ | Attr _ _ => 14
  | Pow _ _ => 13
  | Un _ _ => 12
  | Bin o _ _ => bin_level o
  | Cmp _ _ _ => 5
  | Not _ => 4
  | And _ _ => 3
  | Or _ _ => 2
  | Tern _ _ _ | Lam _ _ => 1
  | Star _ => 0
  end.

(* the tree is a parse tree of its own text: every child fits its slot *)
Fixpoint wf (e : expr) : bool :=
  let fits l c := (l <=? level c) && wf c in
  match e with
  | Var _ => true
  | Num z => (0 <=? z)%Z
  | Paren a => fits 1 a
  | Tup es => wf_es 0 es && negb (elen es =? 1)
  | Lst es => wf_es 0 es
  | LComp elt _ it => fits 1 elt && fits 2 it
  | LCompIf elt _ it c => fits 1 elt && fits 2 it && fits 2 c
  | Star a => fits 6 a
  | Tern a c b => fits 2 a && fits 2 c && fits 1 b
  | Lam _ b => fits 1 b
  | Or a b => fits 2 a && fits 3 b
  | And a b => fits 3 a && fits 4 b
  | Not a => fits 4 a
  | Cmp _ a b => fits 6 a && fits 6 b
  | Bin o a b => fits (bin_level o) a && fits (S (bin_level o)) b
  | Un _ a => fits 12 a
  | Pow a b => fits 14 a && fits 12 b
  | Call f args => fits 14 f && wf_es 1 args
  | Sub a i => fits 14 a && fits 1 i
  | Attr a _ => fits 14 a
  end
with wf_es (l : nat) (es : exprs) : bool :=
  match es with
  | ENil => true
  | ECons e r => (l <=? level e) && wf e && wf_es l r
  end.

Definition wf_at (l : nat) (e : expr) : bool := (l <=? level e) && wf e.

(* ---------------------------------------------------------------- printing *)
Fixpoint bind_toks (ps : list N) : list token :=
  match ps with
  | [] => []
  | [p] => [TBind p]
  | p :: r => TBind p :: TS Comma :: bind_toks r
  end.

Fixpoint print (e : expr) : list token :=
  match e with
  | Var x => [TName x]
  | Num z => [TNum z]
  | Paren a => TS LPar :: print a ++ [TS RPar]
  | Tup es => TS LPar :: print_es es ++ [TS RPar]
  | Lst es => TS LBr :: print_es es ++ [TS RBr]
  | LComp elt v it => TS LBr :: print elt ++ TS KFor :: TBind v :: TS KIn :: print it ++ [TS RBr]
  | LCompIf elt v it c =>
      TS LBr :: print elt ++ TS KFor :: TBind v :: TS KIn :: print it ++ TS KIf :: print c ++ [TS RBr]
  | Star a => TS SStar :: print a
  | Tern a c b => print a ++ TS KIf :: print c ++ TS KElse :: print b
  | Lam ps b => TS KLambda :: bind_toks ps ++ TS Colon :: print b
  | Or a b => print a ++ TS KOr :: print b
  | And a b => print a ++ TS KAnd :: print b
  | Not a => TS KNot :: print a
  | Cmp o a b => print a ++ TS (cmp_sym o) :: print b
  | Bin o a b => print a ++ TS (bin_sym o) :: print b
  | Un o a => TS (un_sym o) :: print a
  | Pow a b => print a ++ TS SDStar :: print b
  | Call f args => print f ++ TS LPar :: print_es args ++ [TS RPar]
  | Sub a i => print a ++ TS LBr :: print i ++ [TS RBr]
  | Attr a n => print a ++ [TS Dot; TField n]
  end
with print_es (es : exprs) : list token :=
  match es with
  | ENil => []
  | ECons e r => match r with
                 | ENil => print e
                 | ECons _ _ => print e ++ TS Comma :: print_es r
                 end
  end.

(* ----------------------------------------------- the grammar as a relation *)
(* D l ts e : the token list ts is derived from the non-terminal of level l
   with parse tree e.  DS l ts es : comma separated list of level-l items. *)
Inductive D : nat -> list token -> expr -> Prop :=
| D_up : forall l ts e, D (S l) ts e -> D l ts e
| D_name : forall x, D 15 [TName x] (Var x)
| D_num : forall z, (0 <= z)%Z -> D 15 [TNum z] (Num z)
| D_paren : forall ts e, D 1 ts e -> D 15 (TS LPar :: ts ++ [TS RPar]) (Paren e)
| D_tup : forall ts es, DS 0 ts es -> elen es <> 1 -> D 15 (TS LPar :: ts ++ [TS RPar]) (Tup es)
| D_lst : forall ts es, DS 0 ts es -> D 15 (TS LBr :: ts ++ [TS RBr]) (Lst es)
| D_lcomp : forall te ti elt v it, D 1 te elt -> D 2 ti it ->
    D 15 (TS LBr :: te ++ TS KFor :: TBind v :: TS KIn :: ti ++ [TS RBr]) (LComp elt v it)
| D_lcompif : forall te ti tc elt v it c, D 1 te elt -> D 2 ti it -> D 2 tc c ->
    D 15 (TS LBr :: te ++ TS KFor :: TBind v :: TS KIn :: ti ++ TS KIf :: tc ++ [TS RBr])
         (LCompIf elt v it c)
| D_star : forall ts e, D 6 ts e -> D 0 (TS SStar :: ts) (Star e)
| D_tern : forall ta tc tb a c b, D 2 ta a -> D 2 tc c -> D 1 tb b ->
    D 1 (ta ++ TS KIf :: tc ++ TS KElse :: tb) (Tern a c b)
| D_lam : forall ps tb b, D 1 tb b -> D 1 (TS KLambda :: bind_toks ps ++ TS Colon :: tb) (Lam ps b)
| D_or : forall ta tb a b, D 2 ta a -> D 3 tb b -> D 2 (ta ++ TS KOr :: tb) (Or a b)
| D_and : forall ta tb a b, D 3 ta a -> D 4 tb b -> D 3 (ta ++ TS KAnd :: tb) (And a b)
| D_not : forall ta a, D 4 ta a -> D 4 (TS KNot :: ta) (Not a)
| D_cmp : forall o ta tb a b, D 6 ta a -> D 6 tb b -> D 5 (ta ++ TS (cmp_sym o) :: tb) (Cmp o a b)
| D_bin : forall o ta tb a b, D (bin_level o) ta a -> D (S (bin_level o)) tb b ->
    D (bin_level o) (ta ++ TS (bin_sym o) :: tb) (Bin o a b)
| D_un : forall o ta a, D 12 ta a -> D 12 (TS (un_sym o) :: ta) (Un o a)
| D_pow : forall ta tb a b, D 14 ta a -> D 12 tb b -> D 13 (ta ++ TS SDStar :: tb) (Pow a b)
| D_call : forall tf targs f args, D 14 tf f -> DS 1 targs args ->
    D 14 (tf ++ TS LPar :: targs ++ [TS RPar]) (Call f args)
| D_sub : forall ta ti a i, D 14 ta a -> D 1 ti i -> D 14 (ta ++ TS LBr :: ti ++ [TS RBr]) (Sub a i)
| D_attr : forall ta a n, D 14 ta a -> D 14 (ta ++ [TS Dot; TField n]) (Attr a n)
with DS : nat -> list token -> exprs -> Prop :=
| DS_nil : forall l, DS l [] ENil
| DS_one : forall l ts e, D l ts e -> DS l ts (ECons e ENil)
| DS_cons : forall l ts tr e e2 es, D l ts e -> DS l tr (ECons e2 es) ->
    DS l (ts ++ TS Comma :: tr) (ECons e (ECons e2 es)).

(* --------------------------------------- parent types as parso reports them *)
Inductive ptype :=
| P_or_test | P_and_test | P_not_test | P_comparison | P_expr | P_xor_expr | P_and_expr
| P_shift_expr | P_arith_expr | P_term | P_factor | P_power | P_atom_expr          (* EXPRESSION_PARTS *)
| P_test | P_star_expr | P_comp_for | P_comp_if                                     (* added by the fix *)
| P_trailer_mid                      (* trailer '(' x ')' / '[' x ']' with a following sibling *)
| P_trailer_last | P_arglist | P_atom | P_testlist_comp | P_lambdef
| P_expr_stmt | P_return_stmt | P_argument | P_subscript | P_testlist_star_expr
| P_dictorsetmaker | P_other.

Definition ptype_eqb (a b : ptype) : bool :=
  match a, b with
  | P_or_test, P_or_test | P_and_test, P_and_test | P_not_test, P_not_test
  | P_comparison, P_comparison | P_expr, P_expr | P_xor_expr, P_xor_expr
  | P_and_expr, P_and_expr | P_shift_expr, P_shift_expr | P_arith_expr, P_arith_expr
  | P_term, P_term | P_factor, P_factor | P_power, P_power | P_atom_expr, P_atom_expr
  | P_test, P_test | P_star_expr, P_star_expr | P_comp_for, P_comp_for | P_comp_if, P_comp_if
  | P_trailer_mid, P_trailer_mid | P_trailer_last, P_trailer_last | P_arglist, P_arglist
  | P_atom, P_atom | P_testlist_comp, P_testlist_comp | P_lambdef, P_lambdef
  | P_expr_stmt, P_expr_stmt | P_return_stmt, P_return_stmt | P_argument, P_argument
  | P_subscript, P_subscript | P_testlist_star_expr, P_testlist_star_expr
  | P_dictorsetmaker, P_dictorsetmaker | P_other, P_other => true
  | _, _ => false
  end.

Definition in_expression_parts (p : ptype) : bool :=
  match p with
  | P_or_test | P_and_test | P_not_test | P_comparison | P_expr | P_xor_expr | P_and_expr
  | P_shift_expr | P_arith_expr | P_term | P_factor | P_power | P_atom_expr => true
  | _ => false
  end.

(* jedi's rule as it is now (after the fix) and as it was before *)
Definition new_rule (p : ptype) : bool :=
  in_expression_parts p ||
  match p with P_test | P_star_expr | P_comp_for | P_comp_if | P_trailer_mid => true | _ => false end.
Definition old_rule (p : ptype) : bool :=
  in_expression_parts p || match p with P_trailer_mid => true | _ => false end.
Definition always_rule (p : ptype) : bool := true.
Definition never_rule (p : ptype) : bool := false.

(* the parent type of an operand of a binary operator of the given level *)
Definition ptype_of_level (l : nat) : ptype :=
  match l with
  | 6 => P_expr | 7 => P_xor_expr | 8 => P_and_expr | 9 => P_shift_expr
  | 10 => P_arith_expr | _ => P_term
  end.

(* the tightest grammar level among the slots in which a name can have this
   parent type (an upper bound for the level of the slot of such a name) *)
Definition tightest (p : ptype) : nat :=
  match p with
  | P_or_test => 3 | P_and_test => 4 | P_not_test => 4 | P_comparison => 6
  | P_expr => 7 | P_xor_expr => 8 | P_and_expr => 9 | P_shift_expr => 10
  | P_arith_expr => 11 | P_term => 12 | P_factor => 12 | P_power => 14 | P_atom_expr => 15
  | P_test => 2 | P_star_expr => 6 | P_comp_for => 2 | P_comp_if => 2
  | P_dictorsetmaker => 6          (* '**' expr *)
  | _ => 1
  end.

Fixpoint memN (x : N) (l : list N) : bool :=
  match l with [] => false | y :: r => N.eqb x y || memN x r end.

(* ------------------------------------------------------------------ inline *)
(* `inl rule x r pt mid e`: every reference to x in e is replaced by r, wrapped
   in Paren when `rule` says so for the parent type of the reference.  pt is
   the parent type of e itself (for the case e = Var x); mid says that e is the
   base of a following trailer (so e's own last trailer has a next sibling).
   A bare-tuple right-hand side is passed as r = Tup es with the always_rule
   (its text plus the parentheses jedi adds is exactly print (Tup es)). *)
Section Inline.
Variable rule : ptype -> bool.
Variable x : N.
Variable r : expr.

Definition trailer_pt (mid : bool) : ptype := if mid then P_trailer_mid else P_trailer_last.

Fixpoint inl (pt : ptype) (mid : bool) (e : expr) : expr :=
  match e with
  | Var y => if N.eqb y x then (if rule pt then Paren r else r) else e
  | Num _ => e
  | Paren a => Paren (inl P_atom false a)
  | Tup es => Tup (inl_es (match es with ECons _ ENil => P_atom | _ => P_testlist_comp end) es)
  | Lst es => Lst (inl_es (match es with ECons _ ENil => P_atom | _ => P_testlist_comp end) es)
  | LComp elt v it =>
      LComp (if N.eqb v x then elt else inl P_testlist_comp false elt) v (inl P_comp_for false it)
  | LCompIf elt v it c =>
      LCompIf (if N.eqb v x then elt else inl P_testlist_comp false elt) v (inl P_comp_for false it)
              (if N.eqb v x then c else inl P_comp_if false c)
  | Star a => Star (inl P_star_expr false a)
  | Tern a c b => Tern (inl P_test false a) (inl P_test false c) (inl P_test false b)
  | Lam ps b => if memN x ps then e else Lam ps (inl P_lambdef false b)
  | Or a b => Or (inl P_or_test false a) (inl P_or_test false b)
  | And a b => And (inl P_and_test false a) (inl P_and_test false b)
  | Not a => Not (inl P_not_test false a)
  | Cmp o a b => Cmp o (inl P_comparison false a) (inl P_comparison false b)
  | Bin o a b => Bin o (inl (ptype_of_level (bin_level o)) false a) (inl (ptype_of_level (bin_level o)) false b)
  | Un o a => Un o (inl P_factor false a)
  | Pow a b => Pow (inl P_power false a) (inl P_power false b)
  | Call f args =>
      Call (inl P_atom_expr true f)
           (inl_es (match args with ECons _ ENil => trailer_pt mid | _ => P_arglist end) args)
  | Sub a i => Sub (inl P_atom_expr true a) (inl (trailer_pt mid) false i)
  | Attr a n => Attr (inl P_atom_expr true a) n
  end
with inl_es (pt : ptype) (es : exprs) : exprs :=
  match es with
  | ENil => ENil
  | ECons e rest => ECons (inl pt false e) (inl_es pt rest)
  end.

(* the parent types of the references to x, left to right (what the harness
   compares with tree_name.parent.type of the real references) *)
Fixpoint parents (pt : ptype) (mid : bool) (e : expr) : list ptype :=
  match e with
  | Var y => if N.eqb y x then [pt] else []
  | Num _ => []
  | Paren a => parents P_atom false a
  | Tup es => parents_es (match es with ECons _ ENil => P_atom | _ => P_testlist_comp end) es
  | Lst es => parents_es (match es with ECons _ ENil => P_atom | _ => P_testlist_comp end) es
  | LComp elt v it =>
      (if N.eqb v x then [] else parents P_testlist_comp false elt) ++ parents P_comp_for false it
  | LCompIf elt v it c =>
      (if N.eqb v x then [] else parents P_testlist_comp false elt) ++ parents P_comp_for false it
      ++ (if N.eqb v x then [] else parents P_comp_if false c)
  | Star a => parents P_star_expr false a
  | Tern a c b => parents P_test false a ++ parents P_test false c ++ parents P_test false b
  | Lam ps b => if memN x ps then [] else parents P_lambdef false b
  | Or a b => parents P_or_test false a ++ parents P_or_test false b
  | And a b => parents P_and_test false a ++ parents P_and_test false b
  | Not a => parents P_not_test false a
  | Cmp _ a b => parents P_comparison false a ++ parents P_comparison false b
  | Bin o a b => parents (ptype_of_level (bin_level o)) false a ++ parents (ptype_of_level (bin_level o)) false b
  | Un _ a => parents P_factor false a
  | Pow a b => parents P_power false a ++ parents P_power false b
  | Call f args =>
      parents P_atom_expr true f ++
      parents_es (match args with ECons _ ENil => trailer_pt mid | _ => P_arglist end) args
  | Sub a i => parents P_atom_expr true a ++ parents (trailer_pt mid) false i
  | Attr a _ => parents P_atom_expr true a
  end
with parents_es (pt : ptype) (es : exprs) : list ptype :=
  match es with
  | ENil => []
  | ECons e rest => parents pt false e ++ parents_es pt rest
  end.
End Inline.

(* capture-avoiding substitution = inline without any parentheses *)
Definition subst (x : N) (r : expr) (e : expr) : expr := inl never_rule x r P_other false e.

(* remove every Paren node: the abstract syntax *)
Fixpoint strip (e : expr) : expr :=
  match e with
  | Var _ | Num _ => e
  | Paren a => strip a
  | Tup es => Tup (strip_es es)
  | Lst es => Lst (strip_es es)
  | LComp elt v it => LComp (strip elt) v (strip it)
  | LCompIf elt v it c => LCompIf (strip elt) v (strip it) (strip c)
  | Star a => Star (strip a)
  | Tern a c b => Tern (strip a) (strip c) (strip b)
  | Lam ps b => Lam ps (strip b)
  | Or a b => Or (strip a) (strip b)
  | And a b => And (strip a) (strip b)
  | Not a => Not (strip a)
  | Cmp o a b => Cmp o (strip a) (strip b)
  | Bin o a b => Bin o (strip a) (strip b)
  | Un o a => Un o (strip a)
  | Pow a b => Pow (strip a) (strip b)
  | Call f args => Call (strip f) (strip_es args)
  | Sub a i => Sub (strip a) (strip i)
  | Attr a n => Attr (strip a) n
  end
with strip_es (es : exprs) : exprs :=
  match es with ENil => ENil | ECons e r => ECons (strip e) (strip_es r) end.

(* x is not bound by a lambda or a comprehension inside e *)
Fixpoint nobind (x : N) (e : expr) : bool :=
  match e with
  | Var _ | Num _ => true
  | Paren a | Star a | Not a | Un _ a | Attr a _ => nobind x a
  | Tup es | Lst es => nobind_es x es
  | LComp elt v it => negb (N.eqb v x) && nobind x elt && nobind x it
  | LCompIf elt v it c => negb (N.eqb v x) && nobind x elt && nobind x it && nobind x c
  | Tern a c b => nobind x a && nobind x c && nobind x b
  | Lam ps b => negb (memN x ps) && nobind x b
  | Or a b | And a b | Cmp _ a b | Bin _ a b | Pow a b | Sub a b => nobind x a && nobind x b
  | Call f args => nobind x f && nobind_es x args
  end
with nobind_es (x : N) (es : exprs) : bool :=
  match es with ENil => true | ECons e r => nobind x e && nobind_es x r end.

(* token-level substitution: every TName x token is replaced by the token list s *)
Fixpoint tsubst (x : N) (s : list token) (ts : list token) : list token :=
  match ts with
  | [] => []
  | TName y :: r => if N.eqb y x then s ++ tsubst x s r else TName y :: tsubst x s r
  | t :: r => t :: tsubst x s r
  end.

(* token-level splice with one decision (parenthesise or not) per reference *)
Fixpoint splice (x : N) (ds : list bool) (s : list token) (ts : list token) : list token :=
  match ts with
  | [] => []
  | TName y :: r =>
      if N.eqb y x then
        match ds with
        | d :: ds' => (if d then TS LPar :: s ++ [TS RPar] else s) ++ splice x ds' s r
        | [] => TName y :: splice x [] s r
        end
      else TName y :: splice x ds s r
  | t :: r => t :: splice x ds s r
  end.

Fixpoint count_name (x : N) (ts : list token) : nat :=
  match ts with
  | [] => 0
  | TName y :: r => if N.eqb y x then S (count_name x r) else count_name x r
  | _ :: r => count_name x r
  end.

(* what jedi.inline writes for the references inside e (slot: parent type pt, e
   followed by a trailer iff mid) when x = r is inlined; a bare tuple
   right-hand side `a, b` is given as r = Tup [a; b], is_tuple = true *)
Definition inline_text (rule : ptype -> bool) (is_tuple : bool) (x : N) (r : expr)
                       (pt : ptype) (mid : bool) (e : expr) : list token :=
  print (inl (if is_tuple then never_rule else rule) x r pt mid e).
Definition inline_tree (rule : ptype -> bool) (is_tuple : bool) (x : N) (r : expr)
                       (pt : ptype) (mid : bool) (e : expr) : expr :=
  inl (if is_tuple then never_rule else rule) x r pt mid e.

(* --------------------------------------------------------------- semantics *)
(* integers; booleans are 0/1; None = outside the fragment or a run-time error *)
Definition env := N -> Z.
Definition upd (rho : env) (x : N) (v : Z) : env := fun y => if N.eqb y x then v else rho y.

Definition b2z (b : bool) : Z := if b then 1%Z else 0%Z.

Definition ev_cmp (o : cmpop) (a b : Z) : bool :=
  match o with
  | CLt => (a <? b)%Z | CGt => (b <? a)%Z | CEq => (a =? b)%Z
  | CGe => (b <=? a)%Z | CLe => (a <=? b)%Z | CNe => negb (a =? b)%Z
  end.

Definition ev_bin (o : binop) (a b : Z) : option Z :=
  match o with
  | BOr => Some (Z.lor a b) | BXor => Some (Z.lxor a b) | BAnd => Some (Z.land a b)
  | BShl => if (b <? 0)%Z then None else Some (Z.shiftl a b)
  | BShr => if (b <? 0)%Z then None else Some (Z.shiftr a b)
  | BAdd => Some (a + b)%Z | BSub => Some (a - b)%Z | BMul => Some (a * b)%Z
  | BFloor => if (b =? 0)%Z then None else Some (a / b)%Z
  | BMod => if (b =? 0)%Z then None else Some (a mod b)%Z
  | BMat | BDiv => None
  end.

Definition ev_un (o : unop) (a : Z) : Z :=
  match o with UNeg => (- a)%Z | UPos => a | UInv => (- a - 1)%Z end.

Fixpoint ev (rho : env) (e : expr) : option Z :=
  match e with
  | Var y => Some (rho y)
  | Num z => Some z
  | Paren a => ev rho a
  | Tern a c b =>
      match ev rho c with
      | Some v => if (v =? 0)%Z then ev rho b else ev rho a
      | None => None
      end
  | Or a b =>
      match ev rho a with
      | Some v => if (v =? 0)%Z then ev rho b else Some v
      | None => None
      end
  | And a b =>
      match ev rho a with
      | Some v => if (v =? 0)%Z then Some v else ev rho b
      | None => None
      end
  | Not a => match ev rho a with Some v => Some (b2z (v =? 0)%Z) | None => None end
  | Cmp o a b =>
      match ev rho a, ev rho b with
      | Some va, Some vb => Some (b2z (ev_cmp o va vb))
      | _, _ => None
      end
  | Bin o a b =>
      match ev rho a, ev rho b with
      | Some va, Some vb => ev_bin o va vb
      | _, _ => None
      end
  | Un o a => match ev rho a with Some v => Some (ev_un o v) | None => None end
  | Pow a b =>
      match ev rho a, ev rho b with
      | Some va, Some vb => if (vb <? 0)%Z then None else Some (va ^ vb)%Z
      | _, _ => None
      end
  | Tup _ | Lst _ | LComp _ _ _ | LCompIf _ _ _ _ | Star _ | Lam _ _
  | Call _ _ | Sub _ _ | Attr _ _ => None
  end.

(* ------------------------------------------------- decidable equalities *)
Definition sym_eqb (a b : sym) : bool :=
  match a, b with
  | LPar, LPar | RPar, RPar | LBr, LBr | RBr, RBr | Comma, Comma | Dot, Dot | Colon, Colon
  | KIf, KIf | KElse, KElse | KOr, KOr | KAnd, KAnd | KNot, KNot | KLambda, KLambda
  | KFor, KFor | KIn, KIn | SBar, SBar | SCaret, SCaret | SAmp, SAmp | SShl, SShl | SShr, SShr
  | SPlus, SPlus | SMinus, SMinus | SStar, SStar | SAt, SAt | SSlash, SSlash
  | SPercent, SPercent | SDSlash, SDSlash | STilde, STilde | SDStar, SDStar
  | SLt, SLt | SGt, SGt | SEqEq, SEqEq | SGe, SGe | SLe, SLe | SNe, SNe => true
  | _, _ => false
  end.

(* harness tokens do not distinguish the three kinds of names: compare modulo kind *)
Definition token_eqb (a b : token) : bool :=
  match a, b with
  | (TName x | TBind x | TField x), (TName y | TBind y | TField y) => N.eqb x y
  | TNum x, TNum y => Z.eqb x y
  | TS x, TS y => sym_eqb x y
  | _, _ => false
  end.

Fixpoint tokens_eqb (a b : list token) : bool :=
  match a, b with
  | [], [] => true
  | x :: a', y :: b' => token_eqb x y && tokens_eqb a' b'
  | _, _ => false
  end.

Fixpoint ptypes_eqb (a b : list ptype) : bool :=
  match a, b with
  | [], [] => true
  | x :: a', y :: b' => ptype_eqb x y && ptypes_eqb a' b'
  | _, _ => false
  end.

Definition binop_eqb (a b : binop) : bool := sym_eqb (bin_sym a) (bin_sym b).
Definition unop_eqb (a b : unop) : bool := sym_eqb (un_sym a) (un_sym b).
Definition cmpop_eqb (a b : cmpop) : bool := sym_eqb (cmp_sym a) (cmp_sym b).

Fixpoint listN_eqb (a b : list N) : bool :=
  match a, b with
  | [], [] => true
  | x :: a', y :: b' => N.eqb x y && listN_eqb a' b'
  | _, _ => false
  end.

Fixpoint expr_eqb (a b : expr) : bool :=
  match a, b with
  | Var x, Var y => N.eqb x y
  | Num x, Num y => Z.eqb x y
  | Paren a1, Paren b1 | Star a1, Star b1 | Not a1, Not b1 => expr_eqb a1 b1
  | Tup e1, Tup e2 | Lst e1, Lst e2 => exprs_eqb e1 e2
  | LComp a1 v1 a2, LComp b1 v2 b2 => expr_eqb a1 b1 && N.eqb v1 v2 && expr_eqb a2 b2
  | LCompIf a1 v1 a2 a3, LCompIf b1 v2 b2 b3 =>
      expr_eqb a1 b1 && N.eqb v1 v2 && expr_eqb a2 b2 && expr_eqb a3 b3
  | Tern a1 a2 a3, Tern b1 b2 b3 => expr_eqb a1 b1 && expr_eqb a2 b2 && expr_eqb a3 b3
  | Lam p1 a1, Lam p2 b1 => listN_eqb p1 p2 && expr_eqb a1 b1
  | Or a1 a2, Or b1 b2 | And a1 a2, And b1 b2 | Pow a1 a2, Pow b1 b2 | Sub a1 a2, Sub b1 b2 =>
      expr_eqb a1 b1 && expr_eqb a2 b2
  | Cmp o1 a1 a2, Cmp o2 b1 b2 => cmpop_eqb o1 o2 && expr_eqb a1 b1 && expr_eqb a2 b2
  | Bin o1 a1 a2, Bin o2 b1 b2 => binop_eqb o1 o2 && expr_eqb a1 b1 && expr_eqb a2 b2
  | Un o1 a1, Un o2 b1 => unop_eqb o1 o2 && expr_eqb a1 b1
  | Call f1 a1, Call f2 b1 => expr_eqb f1 f2 && exprs_eqb a1 b1
  | Attr a1 n1, Attr b1 n2 => expr_eqb a1 b1 && N.eqb n1 n2
  | _, _ => false
  end
with exprs_eqb (a b : exprs) : bool :=
  match a, b with
  | ENil, ENil => true
  | ECons x a', ECons y b' => expr_eqb x y && exprs_eqb a' b'
  | _, _ => false
  end.

Definition optZ_eqb (a b : option Z) : bool :=
  match a, b with
  | Some x, Some y => Z.eqb x y
  | None, None => true
  | _, _ => false
  end.

(* environment from an association list (harness cases) *)
Fixpoint env_of (l : list (N * Z)) : env :=
  fun y => match l with
           | [] => 0%Z
           | (k, v) :: r => if N.eqb y k then v else env_of r y
           end.

(* -------------------------------------------- extraction, declaratively *)
(* c' (with the fresh name x standing for the selection s) is an extraction of
   s out of c iff putting s back gives c, as abstract syntax *)
Definition is_extraction (x : N) (s c c' : expr) : bool :=
  expr_eqb (subst x (strip s) (strip c')) (strip c).

(* the witness for the rule before the fix:  x = 1 if a else 2 ;  x if b else 3 *)
Definition wit_x : N := 0%N.
Definition wit_a : N := 1%N.
Definition wit_b : N := 2%N.
Definition wit_r : expr := Tern (Num 1) (Var wit_a) (Num 2).
Definition wit_e : expr := Tern (Var wit_x) (Var wit_b) (Num 3).
Definition wit_parsed : expr := Tern (Num 1) (Var wit_a) (Tern (Num 2) (Var wit_b) (Num 3)).
Definition wit_env : env := env_of [(wit_a, 1%Z); (wit_b, 0%Z)].
