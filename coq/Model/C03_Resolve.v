(* C03: a scope-tree language, Python's scoping rule on it, and a transcription of
   jedi's name lookup (AbstractTreeName.goto -> context.goto -> get_global_filters ->
   ParserTreeFilter._filter/_check_flows, GlobalNameFilter, ClassContext/CompForContext
   filters, get_parent_scope).  Definitions only. *)
From Coq Require Export List NArith Bool Arith Lia.
Export ListNotations.

Inductive kind := Module | Def | Lam | Comp | Class.
Inductive role := Bind | Use | DeclG | DeclN.

(* an identifier occurrence; o_id is its textual (pre-order) index in the file *)
Record occ := { o_id : N; o_name : N; o_role : role }.

(* a scope body: occurrences directly in the scope and nested scopes, in textual order.
   Parameters of a def and the target of a comprehension are Bind occurrences of the
   nested scope; a `for` target is a Bind of the scope containing the loop. *)
Inductive item :=
| Occ (o : occ)
| Sub (k : kind) (sid : N) (body : list item).   (* sid: a label for the scope, used only to report it *)

(* a scope: its kind, its label and its own occurrences *)
Record frame := { f_kind : kind; f_sid : N; f_occs : list occ }.
Definition chain := list frame.                 (* innermost first, module last *)

Definition direct (body : list item) : list occ :=
  flat_map (fun it => match it with Occ o => [o] | Sub _ _ _ => [] end) body.

(* every occurrence of the program together with the chain of scopes enclosing it *)
Fixpoint collect (c : chain) (it : item) : list (occ * chain) :=
  match it with
  | Occ o => [(o, c)]
  | Sub k sid b => flat_map (collect ({| f_kind := k; f_sid := sid; f_occs := direct b |} :: c)) b
  end.

Definition program := list item.                (* the module body *)
Definition occs_of (p : program) : list (occ * chain) :=
  flat_map (collect [{| f_kind := Module; f_sid := 0; f_occs := direct p |}]) p.

Definition role_eqb (a b : role) : bool :=
  match a, b with Bind, Bind | Use, Use | DeclG, DeclG | DeclN, DeclN => true | _, _ => false end.
Definition is (r : role) (x : N) (o : occ) : bool := role_eqb (o_role o) r && N.eqb (o_name o) x.

Definition funclike (k : kind) : bool := match k with Def | Lam | Comp => true | _ => false end.

Definition bound (x : N) (f : frame) : bool := existsb (is Bind x) (f_occs f).
Definition declg (x : N) (f : frame) : bool := existsb (is DeclG x) (f_occs f).
Definition decln (x : N) (f : frame) : bool := existsb (is DeclN x) (f_occs f).

(* ---------------- Python ---------------- *)
(* A scope is identified by its depth = length of the chain that starts with it (module = 1). *)

(* nearest enclosing function-like scope that binds x (class scopes are skipped);
   an enclosing function that declares x global sends the lookup to the module *)
Fixpoint efb (x : N) (c : chain) : option nat :=
  match c with
  | [] => None
  | f :: rest =>
      if funclike (f_kind f) && negb (declg x f) && negb (decln x f) && bound x f then Some (length c)
      else if funclike (f_kind f) && declg x f then Some 1
      else efb x rest
  end.

Definition or_module (o : option nat) : nat := match o with Some d => d | None => 1 end.

Definition bound_before (x : N) (pos : N) (f : frame) : bool :=
  existsb (fun o => is Bind x o && N.ltb (o_id o) pos) (f_occs f).

(* the scope whose variable a *use* at the head of chain c reads *)
Definition py_scope (c : chain) (u : occ) : option nat :=
  let x := o_name u in
  match c with
  | [] => None
  | f :: rest =>
      match f_kind f with
      | Module => Some 1
      | k =>
          if declg x f then Some 1
          else if decln x f then efb x rest
          else if funclike k then
                 (if bound x f then Some (length c) else Some (or_module (efb x rest)))
               else (* class body: LOAD_NAME *)
                 (if bound x f
                  then (if bound_before x (o_id u) f then Some (length c) else Some 1)
                  else Some (or_module (efb x rest)))
      end
  end.

(* nonlocal target: nearest enclosing function-like scope that really binds x *)
Fixpoint efb_nonlocal (x : N) (c : chain) : option nat :=
  match c with
  | [] => None
  | f :: rest =>
      if funclike (f_kind f) && negb (declg x f) && negb (decln x f) && bound x f then Some (length c)
      else efb_nonlocal x rest
  end.

(* the scope whose variable a *binding* occurrence at the head of chain c writes *)
Definition bind_scope (c : chain) (d : occ) : option nat :=
  let x := o_name d in
  match c with
  | [] => None
  | f :: rest =>
      match f_kind f with
      | Module => Some 1
      | _ => if declg x f then Some 1
             else if decln x f then efb_nonlocal x rest
             else Some (length c)
      end
  end.

(* ---------------- jedi ---------------- *)

(* parent context of a function or lambda skips class bodies *)
Fixpoint drop_classes (c : chain) : chain :=
  match c with
  | f :: rest => match f_kind f with Class => drop_classes rest | _ => c end
  | [] => []
  end.

Definition jedi_parent (k : kind) (rest : chain) : chain :=
  match k with Def | Lam => drop_classes rest | _ => rest end.

Definition visible (x : N) (until : option N) (o : occ) : bool :=
  is Bind x o && match until with Some p => N.ltb (o_id o) p | None => true end.

(* the textually last element satisfying p *)
Fixpoint last_such (p : occ -> bool) (l : list occ) : option occ :=
  match l with
  | [] => None
  | o :: r => match last_such p r with
              | Some o' => Some o'
              | None => if p o then Some o else None
              end
  end.

(* the filter of one context: CompForContext ignores until_position *)
Definition ctx_find (x : N) (until : option N) (f : frame) : option occ :=
  last_such (visible x (match f_kind f with Comp => None | _ => until end)) (f_occs f).

(* walk the contexts outward; the first context with an answer wins.
   Returns the depth of that context and the definition found there.
   gd: are there `global x` statements anywhere in the file (merged at module level).
   skipcls: we are looking for the parent context of a function or lambda, which skips
   class bodies (a method's parent context is the class's parent). *)
Fixpoint jedi_find (x : N) (gd : bool) (c : chain) (until : option N) (skipcls : bool) {struct c}
  : option (nat * option occ) :=
  match c with
  | [] => None
  | f :: rest =>
      match f_kind f, skipcls with
      | Class, true => jedi_find x gd rest until true
      | _, _ =>
          match ctx_find x until f with
          | Some d => Some (length c, Some d)
          | None =>
              match f_kind f with
              | Module => if gd then Some (1, None) else None
              | Def | Lam => jedi_find x gd rest None true
              | Comp | Class => jedi_find x gd rest until false
              end
          end
      end
  end.

Definition global_decls (x : N) (p : program) : list occ :=
  filter (is DeclG x) (map fst (occs_of p)).

Fixpoint insert_occ (o : occ) (l : list occ) : list occ :=
  match l with
  | [] => [o]
  | a :: r => if N.leb (o_id o) (o_id a) then o :: l else a :: insert_occ o r
  end.

(* what Script.goto returns for the use u (as occurrences, sorted by position) *)
Definition jedi_goto (p : program) (c : chain) (u : occ) : list occ :=
  let x := o_name u in
  let gds := global_decls x p in
  match jedi_find x (match gds with [] => false | _ => true end) c (Some (o_id u)) false with
  | None => []
  | Some (dep, od) =>
      let at_module := Nat.eqb dep 1 in
      let base := if at_module then gds else [] in
      match od with
      | Some d => insert_occ d base
      | None => base
      end
  end.

(* ---------------- the fragment on which the two agree ---------------- *)

Definition no_decl (x : N) (f : frame) : bool := negb (declg x f) && negb (decln x f).

(* conditions checked along jedi's visiting order (first = the scope of the use itself):
   a function scope that binds x must have a binding jedi can see from the use;
   a class body crossed on the way out must not bind x;
   the class body containing the use, if it binds x, must do so before the use *)
Fixpoint frag_walk (x : N) (c : chain) (until : option N) (first skipcls : bool) {struct c} : bool :=
  match c with
  | [] => true
  | f :: rest =>
      match f_kind f, skipcls with
      | Class, true => frag_walk x rest until false true
      | _, _ =>
          match f_kind f with
          | Module => true
          | Comp => if bound x f then true else frag_walk x rest until false false
          | Def | Lam =>
              if bound x f then existsb (visible x until) (f_occs f)
              else frag_walk x rest None false true
          | Class =>
              if first then
                (if bound x f then existsb (visible x until) (f_occs f) else frag_walk x rest until false false)
              else negb (bound x f) && frag_walk x rest until false false
          end
      end
  end.

Definition in_fragment (c : chain) (u : occ) : bool :=
  forallb (no_decl (o_name u)) c && frag_walk (o_name u) c (Some (o_id u)) true false.

(* ---------------- evaluation helpers for the correspondence check ---------------- *)

Fixpoint find_occ (id : N) (l : list (occ * chain)) : option (occ * chain) :=
  match l with
  | [] => None
  | (o, c) :: r => if N.eqb (o_id o) id then Some (o, c) else find_occ id r
  end.

Definition goto_ids (p : program) (use_id : N) : list N :=
  match find_occ use_id (occs_of p) with
  | Some (u, c) => map o_id (jedi_goto p c u)
  | None => []
  end.

Definition sid_at (c : chain) (depth : nat) : N :=
  match skipn (length c - depth) c with f :: _ => N.succ (f_sid f) | [] => 0%N end.

(* (label+1 of the scope Python reads for the use, label+1 of the scope the binding writes); 0 = none *)
Definition py_sids (p : program) (use_id bind_id : N) : N * N :=
  let all := occs_of p in
  let d1 := match find_occ use_id all with
            | Some (u, c) => match py_scope c u with Some d => sid_at c d | None => 0%N end
            | None => 0%N end in
  let d2 := match find_occ bind_id all with
            | Some (b, c) => match bind_scope c b with Some d => sid_at c d | None => 0%N end
            | None => 0%N end in
  (d1, d2).

Definition in_fragment_id (p : program) (use_id : N) : bool :=
  match find_occ use_id (occs_of p) with
  | Some (u, c) => in_fragment c u
  | None => false
  end.
