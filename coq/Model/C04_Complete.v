(* C04: transcription of jedi/api/helpers.py:_start_match/_fuzzy_match/match,
   jedi/api/completion.py:filter_names and the sort in Completion.complete,
   jedi/api/classes.py:Completion._complete/complete/name_with_symbols/
   get_completion_prefix_length.  Definitions only. *)
From JV Require Export Base.Str.

(* helpers._start_match *)
Definition start_match (s like : str) : bool := starts_with s like.

(* helpers._fuzzy_match: len(like) <= 1 -> `like in s`; else find the first
   character and recurse on the remainder. *)
Fixpoint fuzzy_match (s like : str) : bool :=
  match like with
  | [] => true
  | c :: like' =>
      match like' with
      | [] => mem c s
      | _ :: _ => match after_first c s with
                  | Some s' => fuzzy_match s' like'
                  | None => false
                  end
      end
  end.

Definition match_ (s like : str) (fuzzy : bool) : bool :=
  if fuzzy then fuzzy_match s like else start_match s like.

(* What filter_names reads off a name object.  Case folding (Python's
   str.lower, a string-level function that may change the length) is supplied
   by the harness from the real interpreter: lname = sname.lower(),
   lpname = pname.lower(). *)
Record cname := { sname : str; lname : str; pname : str; lpname : str;
                  is_func : bool; is_del : bool }.

Record completion := { c_src : cname; c_like_len : nat; c_fuzzy : bool }.

Section WithSettings.
Variable add_bracket : bool.       (* settings.add_bracket_after_function *)

Definition c_name (c : completion) : str := pname (c_src c).
Definition c_append (c : completion) : str :=
  if add_bracket && is_func (c_src c) then [40%N] else [].
(* Completion._complete(like_name) *)
Definition c_complete_str (c : completion) : str := skipn (c_like_len c) (c_name c) ++ c_append c.
Definition c_complete (c : completion) : option str :=
  if c_fuzzy c then None else Some (c_complete_str c).
Definition c_name_with_symbols (c : completion) : str := c_name c ++ c_append c.
Definition c_prefix_len (c : completion) : nat := c_like_len c.

Definition opt_str_eqb (a b : option str) : bool :=
  match a, b with
  | None, None => true
  | Some x, Some y => str_eqb x y
  | _, _ => false
  end.
Definition key := (str * option str)%type.
Definition key_eqb (a b : key) : bool := str_eqb (fst a) (fst b) && opt_str_eqb (snd a) (snd b).
Definition c_key (c : completion) : key := (c_name c, c_complete c).

Fixpoint key_mem (k : key) (seen : list key) : bool :=
  match seen with [] => false | k' :: r => key_eqb k k' || key_mem k r end.

Fixpoint str_in (s : str) (l : list str) : bool :=
  match l with [] => false | x :: r => str_eqb s x || str_in s r end.

(* filter_names with settings.case_insensitive_completion = True:
   `like` is the typed fragment, `llike` = like.lower().  The length handed to
   Completion is that of the fragment as typed. *)
Fixpoint filter_names_go (like llike : str) (fuzzy : bool) (imported : list str)
         (names : list cname) (seen : list key) : list completion :=
  match names with
  | [] => []
  | n :: rest =>
      if str_in (sname n) imported && negb (str_eqb (sname n) llike)
      then filter_names_go like llike fuzzy imported rest seen
      else if match_ (lname n) llike fuzzy then
             let new := {| c_src := n; c_like_len := length like; c_fuzzy := fuzzy |} in
             if key_mem (c_key new) seen
             then filter_names_go like llike fuzzy imported rest seen
             else if is_del n
                  then filter_names_go like llike fuzzy imported rest (c_key new :: seen)
                  else new :: filter_names_go like llike fuzzy imported rest (c_key new :: seen)
           else filter_names_go like llike fuzzy imported rest seen
  end.

Definition filter_names like llike fuzzy imported names :=
  filter_names_go like llike fuzzy imported names [].

(* sort key of Completion.complete:
   (not name.startswith(like), name.startswith('__'), name.startswith('_'), name.lower()) *)
Definition skey := (bool * bool * bool * str)%type.
Definition sort_key (like : str) (c : completion) : skey :=
  (negb (starts_with (c_name c) like), starts_with (c_name c) [95;95]%N,
   starts_with (c_name c) [95%N], lpname (c_src c)).

Definition bool_cmp (a b : bool) : comparison :=
  match a, b with false, true => Lt | true, false => Gt | _, _ => Eq end.
Fixpoint str_cmp (a b : str) : comparison :=
  match a, b with
  | [], [] => Eq
  | [], _ :: _ => Lt
  | _ :: _, [] => Gt
  | x :: a', y :: b' => match N.compare x y with Eq => str_cmp a' b' | c => c end
  end.
Definition skey_cmp (k1 k2 : skey) : comparison :=
  let '(a1, b1, c1, s1) := k1 in
  let '(a2, b2, c2, s2) := k2 in
  match bool_cmp a1 a2 with
  | Eq => match bool_cmp b1 b2 with
          | Eq => match bool_cmp c1 c2 with
                  | Eq => str_cmp s1 s2
                  | c => c end
          | c => c end
  | c => c end.
Definition skey_leb (k1 k2 : skey) : bool :=
  match skey_cmp k1 k2 with Gt => false | _ => true end.

(* Python's sorted(): stable.  Insertion from the right keeps equal keys in input order. *)
Fixpoint insert_by (like : str) (x : completion) (l : list completion) : list completion :=
  match l with
  | [] => [x]
  | y :: r => if skey_leb (sort_key like x) (sort_key like y) then x :: y :: r
              else y :: insert_by like x r
  end.
Definition sort_completions (like : str) (l : list completion) : list completion :=
  fold_right (insert_by like) [] l.

(* The list Script.complete returns for python-name completion (no string/dict prefix part). *)
Definition complete_model like llike fuzzy imported names : list completion :=
  sort_completions like (filter_names like llike fuzzy imported names).

(* What an API user sees of one completion. *)
Definition observe (c : completion) : str * option str * str * nat :=
  (c_name c, c_complete c, c_name_with_symbols c, c_prefix_len c).

End WithSettings.
