(* C20: transcription of jedi/api/project.py: Project.__init__, Project.save/load,
   _remove_duplicates_from_path, Project._get_base_sys_path, Project._get_sys_path;
   jedi/inference/__init__.py: InferenceState.get_sys_path (a plain delegation);
   jedi/inference/imports.py: Importer._sys_path_with_modifications and the
   first-match rule of the path finder; and of the part of pathlib.PurePosixPath
   those functions rely on (parsing, str(), ==, .parents, .absolute()).
   Definitions only; everything computes. *)
From JV Require Export Base.Str.

Definition slash : N := 47%N.
Definition dot : N := 46%N.

(* ---------------------------------------------------------------- lists of strings *)
Fixpoint inb (x : str) (l : list str) : bool :=
  match l with [] => false | y :: r => str_eqb x y || inb x r end.

Fixpoint strs_eqb (a b : list str) : bool :=
  match a, b with
  | [], [] => true
  | x :: a', y :: b' => str_eqb x y && strs_eqb a' b'
  | _, _ => false
  end.

(* order-preserving sub-list (used only in statements) *)
Inductive Sub {A : Type} : list A -> list A -> Prop :=
| Sub_nil : forall l, Sub [] l
| Sub_skip : forall a x l, Sub a l -> Sub a (x :: l)
| Sub_take : forall x a l, Sub a l -> Sub (x :: a) (x :: l).

(* project._remove_duplicates_from_path: `used` set, first occurrence wins *)
Fixpoint dedupe_acc (used : list str) (l : list str) : list str :=
  match l with
  | [] => []
  | p :: r => if inb p used then dedupe_acc used r else p :: dedupe_acc (p :: used) r
  end.
Definition remove_duplicates (l : list str) : list str := dedupe_acc [] l.

(* list.remove(''), ValueError swallowed: only the first '' goes *)
Fixpoint remove_first_empty (l : list str) : list str :=
  match l with
  | [] => []
  | x :: r => match x with [] => r | _ :: _ => x :: remove_first_empty r end
  end.

(* ---------------------------------------------------------------- pathlib (posix flavour) *)
(* root is empty, one slash or two slashes (exactly two leading slashes are kept by posix paths) *)
Record path := mkpath { p_root : str; p_parts : list str }.

(* s.split('/') *)
Fixpoint split_slash (s : str) : list str :=
  match s with
  | [] => [[]]
  | c :: r => if N.eqb c slash then [] :: split_slash r
              else match split_slash r with
                   | [] => [[c]]
                   | h :: t => (c :: h) :: t
                   end
  end.

Definition keep_part (x : str) : bool := negb (str_eqb x [] || str_eqb x [dot]).

Fixpoint leading_slashes (s : str) : nat :=
  match s with
  | c :: r => if N.eqb c slash then S (leading_slashes r) else 0
  | [] => 0
  end.

(* pathlib.Path(s) *)
Definition parse_path (s : str) : path :=
  mkpath (match leading_slashes s with
          | 0 => []
          | 2 => [slash; slash]
          | _ => [slash]
          end)
         (filter keep_part (split_slash s)).

Fixpoint join_slash (l : list str) : str :=
  match l with
  | [] => []
  | x :: r => match r with [] => x | _ :: _ => x ++ slash :: join_slash r end
  end.

(* str(p) *)
Definition path_str (p : path) : str :=
  match p_root p, p_parts p with
  | [], [] => [dot]
  | r, ps => r ++ join_slash ps
  end.

Definition is_abs (p : path) : bool := negb (str_eqb (p_root p) []).

(* Path.absolute(): cwd / p, no normalisation of '..' *)
Definition absolute (cwd p : path) : path :=
  if is_abs p then p else mkpath (p_root cwd) (p_parts cwd ++ p_parts p).

(* == on PurePosixPath: same root, same parts *)
Definition path_eqb (a b : path) : bool :=
  str_eqb (p_root a) (p_root b) && strs_eqb (p_parts a) (p_parts b).

(* Path.parents, nearest first: /a/b/c -> /a/b, /a, / *)
Definition parents (p : path) : list path :=
  map (fun k => mkpath (p_root p) (firstn k (p_parts p))) (rev (seq 0 (length (p_parts p)))).

(* `a in q.parents` *)
Definition in_parents (a q : path) : bool := existsb (path_eqb a) (parents q).

(* declarative reading of the same: a is a strict ancestor of q *)
Fixpoint strict_prefixb (a b : list str) : bool :=
  match a, b with
  | [], _ :: _ => true
  | x :: a', y :: b' => str_eqb x y && strict_prefixb a' b'
  | _, _ => false
  end.
Definition inside (proj q : path) : bool :=
  str_eqb (p_root proj) (p_root q) && strict_prefixb (p_parts proj) (p_parts q).

(* what pathlib guarantees of a parsed path: the root is one of the three, and no
   part is empty, a single dot, or contains a slash (used only in statements) *)
Definition good_part (x : str) : Prop := x <> [] /\ x <> [dot] /\ ~ In slash x.
Definition wf_path (p : path) : Prop :=
  (p_root p = [] \/ p_root p = [slash] \/ p_root p = [slash; slash]) /\ Forall good_part (p_parts p).

(* ---------------------------------------------------------------- Project *)
(* a constructor argument that may be a str or a pathlib.Path built from a str *)
Inductive parg := PStr (s : str) | PPath (s : str).

(* str(x) as applied by `list(map(str, ...))` *)
Definition arg_str (a : parg) : str :=
  match a with PStr s => s | PPath s => path_str (parse_path s) end.

Record ctor_args := mkargs {
  a_path : parg;
  a_env : option parg;                 (* environment_path *)
  a_unsafe : bool;                     (* load_unsafe_extensions *)
  a_sys_path : option (list parg);     (* sys_path *)
  a_added : list parg;                 (* added_sys_path *)
  a_smart : bool }.                    (* smart_sys_path *)

Record project := mkproject {
  pr_path : path;                      (* _path *)
  pr_env : option parg;                (* _environment_path, stored as given *)
  pr_sys_path : option (list str);     (* _sys_path *)
  pr_smart : bool;                     (* _smart_sys_path *)
  pr_unsafe : bool;                    (* _load_unsafe_extensions *)
  pr_django : bool;                    (* _django *)
  pr_added : list str }.               (* added_sys_path *)

(* Project.__init__ ; cwd is the process working directory *)
Definition mk_project (cwd : path) (a : ctor_args) : project :=
  mkproject
    (match a_path a with
     | PStr s => absolute cwd (parse_path s)
     | PPath s => parse_path s
     end)
    (a_env a)
    (option_map (map arg_str) (a_sys_path a))
    (a_smart a)
    (a_unsafe a)
    false
    (map arg_str (a_added a)).

(* get_default_project sets _django on the object after construction *)
Definition set_django (d : bool) (p : project) : project :=
  mkproject (pr_path p) (pr_env p) (pr_sys_path p) (pr_smart p) (pr_unsafe p) d (pr_added p).

Definition set_path (q : path) (p : project) : project :=
  mkproject q (pr_env p) (pr_sys_path p) (pr_smart p) (pr_unsafe p) (pr_django p) (pr_added p).

(* the JSON object written by Project.save (second element of the [version, data] pair) *)
Record json := mkjson {
  j_path : str;
  j_env : option str;
  j_sys_path : option (list str);
  j_smart : bool;
  j_unsafe : bool;
  j_added : list str }.

(* Project.save: __dict__ minus _environment/_django, keys lstrip('_'), path -> str,
   environment_path -> str when it is not None (it may be a pathlib.Path, which json cannot
   serialise) *)
Definition save (p : project) : json :=
  mkjson (path_str (pr_path p)) (option_map arg_str (pr_env p))
         (pr_sys_path p) (pr_smart p) (pr_unsafe p) (pr_added p).

(* the behaviour before commit ba5f9c2 ("fix: Project.save() with a pathlib.Path
   environment_path"), kept for the record: json.dump raised TypeError on a Path value
   (None here) *)
Definition save_old (p : project) : option json :=
  match pr_env p with
  | Some (PPath _) => None
  | _ => Some (save p)
  end.

Definition set_env (e : option parg) (p : project) : project :=
  mkproject (pr_path p) e (pr_sys_path p) (pr_smart p) (pr_unsafe p) (pr_django p) (pr_added p).

(* what a loaded project holds for environment_path: the str of what was given *)
Definition env_as_str (e : option parg) : option parg := option_map (fun x => PStr (arg_str x)) e.

(* Project.load: cls(data as keyword arguments), every value is a str / list of str / bool / None *)
Definition load (cwd : path) (j : json) : project :=
  mk_project cwd
    (mkargs (PStr (j_path j)) (option_map PStr (j_env j)) (j_unsafe j)
            (option_map (map PStr) (j_sys_path j)) (map PStr (j_added j)) (j_smart j)).

(* ---------------------------------------------------------------- sys.path composition *)
(* Project._get_base_sys_path / the explicit sys_path *)
Definition base_sys_path (p : project) (env_sys_path : list str) : list str :=
  match pr_sys_path p with
  | None => remove_first_empty env_sys_path
  | Some l => l
  end.

(* the upward search: `inits` are the directories that contain a regular file __init__.py *)
Definition has_init (inits : list path) (q : path) : bool := existsb (path_eqb q) inits.

Fixpoint traverse (proj : path) (add_init : bool) (inits : list path) (ps : list path) : list str :=
  match ps with
  | [] => []
  | q :: r =>
      if path_eqb q proj || negb (in_parents proj q) then []
      else if negb add_init && has_init inits q then traverse proj add_init inits r
      else path_str q :: traverse proj add_init inits r
  end.

Definition traversed (p : project) (script : path) (inits : list path) (add_init : bool) : list str :=
  traverse (pr_path p) add_init inits (parents script).

Definition prefixed (p : project) : list str :=
  (if pr_smart p then [path_str (pr_path p)] else []) ++
  (if pr_django p then [path_str (pr_path p)] else []).

(* `buildout` = list(map(str, discover_buildout_paths(...))) in the iteration order of the set *)
Definition suffixed (p : project) (script : option path) (inits : list path)
           (buildout : list str) (add_parent add_init : bool) : list str :=
  pr_added p ++
  (if pr_smart p then
     match script with
     | None => []
     | Some sp => buildout ++ (if add_parent then rev (traversed p sp inits add_init) else [])
     end
   else []).

(* Project._get_sys_path = InferenceState.get_sys_path *)
Definition get_sys_path (p : project) (env_sys_path : list str) (script : option path)
           (inits : list path) (buildout : list str) (add_parent add_init : bool) : list str :=
  remove_duplicates (prefixed p ++ base_sys_path p env_sys_path ++
                     suffixed p script inits buildout add_parent add_init).

(* Importer._sys_path_with_modifications *)
Definition importer_sys_path (fixed : option (list str)) (p : project) (env_sys_path : list str)
           (script : option path) (inits : list path) (buildout : list str)
           (mods : list str) (is_completion : bool) : list str :=
  match fixed with
  | Some f => f
  | None => get_sys_path p env_sys_path script inits buildout true (negb is_completion) ++ mods
  end.

(* the path finder: the first entry under which the module exists *)
Definition resolve (has_module : str -> bool) (sys_path : list str) : option str :=
  find has_module sys_path.

(* ---------------------------------------------------------------- comparison helpers for case files *)
Definition opt_strs_eqb (a b : option (list str)) : bool :=
  match a, b with
  | None, None => true
  | Some x, Some y => strs_eqb x y
  | _, _ => false
  end.

Definition parg_eqb (a b : parg) : bool :=
  match a, b with
  | PStr x, PStr y => str_eqb x y
  | PPath x, PPath y => path_eqb (parse_path x) (parse_path y)
  | _, _ => false
  end.

Definition opt_parg_eqb (a b : option parg) : bool :=
  match a, b with
  | None, None => true
  | Some x, Some y => parg_eqb x y
  | _, _ => false
  end.

(* what the harness observes of a real Project object:
   (str(path), path.is_absolute(), environment_path, sys_path, added_sys_path, smart, unsafe) *)
Definition observed := (str * bool * option parg * option (list str) * list str * bool * bool)%type.

Definition observe (p : project) : observed :=
  (path_str (pr_path p), is_abs (pr_path p), pr_env p, pr_sys_path p, pr_added p, pr_smart p, pr_unsafe p).

Definition observed_eqb (a b : observed) : bool :=
  let '(s1, ab1, e1, sp1, ad1, sm1, un1) := a in
  let '(s2, ab2, e2, sp2, ad2, sm2, un2) := b in
  str_eqb s1 s2 && Bool.eqb ab1 ab2 && opt_parg_eqb e1 e2 && opt_strs_eqb sp1 sp2 &&
  strs_eqb ad1 ad2 && Bool.eqb sm1 sm2 && Bool.eqb un1 un2.

Definition opt_observed_eqb (a b : option observed) : bool :=
  match a, b with
  | None, None => true
  | Some x, Some y => observed_eqb x y
  | _, _ => false
  end.
