(* C19: transcription of
     jedi/inference/references.py: gitignored_paths, expand_relative_ignore_paths,
         recurse_find_python_folders_and_files, _IGNORE_FOLDERS, search_in_file_ios (limits)
     jedi/file_io.py: FolderIO.walk (os.walk, top-down, pruned in place)
     jedi/api/helpers.py: split_search_string
     jedi/api/completion.py: search_in_module (single component, no conversion)
     jedi/api/project.py: _try_to_skip_duplicates
   and the declarative ignore specification the walk is proved against.
   Definitions only; everything computes. *)
From JV Require Export Base.Str.

(* ------------------------------------------------------------------ paths *)
Definition SL : N := 47.                                   (* '/' *)

(* os.path.join(d, n) for a directory path d that does not end in '/' and a
   name n that does not start with '/' (both hold at every call site: listing
   names, and .gitignore names after lstrip('/')). *)
Definition path_join (d n : str) : str := d ++ SL :: n.

(* s.rstrip('/') *)
Fixpoint rstrip_slash (s : str) : str :=
  match s with
  | [] => []
  | c :: r => match rstrip_slash r with
              | [] => if N.eqb c SL then [] else [c]
              | r' => c :: r'
              end
  end.

(* s.lstrip('/') *)
Fixpoint lstrip_slash (s : str) : str :=
  match s with
  | [] => []
  | c :: r => if N.eqb c SL then lstrip_slash r else s
  end.

Definition str_in (s : str) (l : list str) : bool := existsb (str_eqb s) l.

Definition ends_with (s suf : str) : bool := starts_with (rev s) (rev suf).

(* pathlib: Path(name).suffix in ('.py', '.pyi').  suffix = name[i:] for
   i = name.rfind('.') when 0 < i < len(name)-1, else ''. *)
Definition DOT_PY : str := [46; 112; 121]%N.
Definition DOT_PYI : str := [46; 112; 121; 105]%N.
Definition is_py (n : str) : bool :=
  (ends_with n DOT_PY && Nat.ltb 3 (length n)) || (ends_with n DOT_PYI && Nat.ltb 4 (length n)).

(* '.tox', '.venv', '.mypy_cache', 'venv', '__pycache__' *)
Definition IGNORE_FOLDERS : list str :=
  [ [46;116;111;120]; [46;118;101;110;118]; [46;109;121;112;121;95;99;97;99;104;101];
    [118;101;110;118]; [95;95;112;121;99;97;99;104;101;95;95] ]%N.

Definition GITIGNORE : str := [46;103;105;116;105;103;110;111;114;101]%N.

(* ------------------------------------------------------------ .gitignore *)
(* bytes.splitlines(): breaks at \n, \r\n, \r only; no empty last line *)
Fixpoint splitlines_go (s : str) (cur : str) {struct s} : list str :=
  match s with
  | [] => match cur with [] => [] | _ => [rev cur] end
  | c :: r =>
      if N.eqb c 10 then rev cur :: splitlines_go r []
      else if N.eqb c 13 then
        match r with
        | d :: r' => if N.eqb d 10 then rev cur :: splitlines_go r' []
                     else rev cur :: splitlines_go r []
        | [] => [rev cur]
        end
      else splitlines_go r (c :: cur)
  end.
Definition splitlines (s : str) : list str := splitlines_go s [].

Inductive entry := EAbs (name : str) | ERel (name : str).

(* one line of gitignored_paths: skip empty, '#...', '!...', anything with '*';
   strip trailing '/'; a '/' left inside -> anchored at the folder (leading
   '/' removed), otherwise a bare name that applies at and below the folder *)
Definition parse_line (l : str) : option entry :=
  match l with
  | [] => None
  | c :: _ =>
      if N.eqb c 35 || N.eqb c 33 || mem 42 l then None
      else let p := rstrip_slash l in
           if mem SL p then Some (EAbs (lstrip_slash p)) else Some (ERel p)
  end.

Definition parse_gitignore (content : str) : list entry :=
  flat_map (fun l => match parse_line l with Some e => [e] | None => [] end) (splitlines content).

(* ------------------------------------------------------------------ trees *)
(* A directory: files (name, content) and sub-directories, both in the order
   os.scandir lists them (os.walk keeps that order).  Content matters only for
   the file called .gitignore. *)
Inductive tree := Dir (files : list (str * str)) (subs : list (str * tree)).

Definition dir_entries (files : list (str * str)) : list entry :=
  flat_map (fun f => if str_eqb (fst f) GITIGNORE then parse_gitignore (snd f) else []) files.

(* what gitignored_paths returns for the folder d *)
Definition abs_of (d : str) (es : list entry) : list str :=
  flat_map (fun e => match e with EAbs n => [path_join d n] | ERel _ => [] end) es.
Definition rel_of (d : str) (es : list entry) : list (str * str) :=
  flat_map (fun e => match e with ERel n => [(d, n)] | EAbs _ => [] end) es.

(* expand_relative_ignore_paths: current code (component boundary) ... *)
Definition under (cur folder : str) : bool :=
  str_eqb cur folder || starts_with cur (rstrip_slash folder ++ [SL]).
(* ... and the code before the fix (plain str.startswith) *)
Definition under_old (cur folder : str) : bool := starts_with cur folder.

Definition expand (strict : bool) (cur : str) (R : list (str * str)) : list str :=
  flat_map (fun p => if (if strict then under cur (fst p) else under_old cur (fst p))
                     then [path_join cur (snd p)] else []) R.

Definition item := (bool * str)%type.       (* (is a folder, path string) *)
Definition wstate := (list str * list (str * str))%type.  (* except_paths, except_paths_relative *)

Definition ignored_now (A1 X : list str) (p : str) : bool := str_in p A1 || str_in p X.
Definition keep_dir (A1 X : list str) (d n : str) : bool :=
  negb (ignored_now A1 X (path_join d n)) && negb (str_in n IGNORE_FOLDERS).
Definition files_out (fe : bool) (A1 X : list str) (d : str) (files : list (str * str)) : list item :=
  flat_map (fun f => if is_py (fst f) && negb (fe && ignored_now A1 X (path_join d (fst f)))
                     then [(false, path_join d (fst f))] else []) files.
Definition dirs_out (A1 X : list str) (d : str) (subs : list (str * tree)) : list item :=
  flat_map (fun s => if keep_dir A1 X d (fst s) then [(true, path_join d (fst s))] else []) subs.

(* recurse_find_python_folders_and_files over FolderIO.walk.
   strict = component-boundary test in expand_relative_ignore_paths (current code);
   fe     = .gitignore entries are applied to files (current code).
   The two accumulating sets are threaded through the whole walk, as in the code:
   rules read in one folder stay in the sets while later siblings are walked. *)
Fixpoint walk_dir (strict fe : bool) (d : str) (t : tree) (A : list str) (R : list (str * str))
  {struct t} : list item * wstate :=
  match t with
  | Dir files subs =>
      let es := dir_entries files in
      let A1 := A ++ abs_of d es in
      let R1 := R ++ rel_of d es in
      let X := expand strict d R1 in
      let fix go (l : list (str * tree)) (A : list str) (R : list (str * str)) {struct l}
          : list item * wstate :=
          match l with
          | [] => ([], (A, R))
          | s :: r =>
              if keep_dir A1 X d (fst s) then
                let o1 := walk_dir strict fe (path_join d (fst s)) (snd s) A R in
                let o2 := go r (fst (snd o1)) (snd (snd o1)) in
                (fst o1 ++ fst o2, snd o2)
              else go r A R
          end in
      let rec := go subs A1 R1 in
      (files_out fe A1 X d files ++ dirs_out A1 X d subs ++ fst rec, snd rec)
  end.

(* the same loop over the sub-directories as a top-level function (proved equal) *)
Fixpoint walk_subs (strict fe : bool) (A1 X : list str) (d : str) (l : list (str * tree))
  (A : list str) (R : list (str * str)) : list item * wstate :=
  match l with
  | [] => ([], (A, R))
  | s :: r =>
      if keep_dir A1 X d (fst s) then
        let o1 := walk_dir strict fe (path_join d (fst s)) (snd s) A R in
        let o2 := walk_subs strict fe A1 X d r (fst (snd o1)) (snd (snd o1)) in
        (fst o1 ++ fst o2, snd o2)
      else walk_subs strict fe A1 X d r A R
  end.

(* Project.search: recurse_find_python_folders_and_files(FolderIO(str(path))) *)
Definition walk (root : str) (T : tree) : list item := fst (walk_dir true true root T [] []).
(* the code before the two fixes *)
Definition walk_old_prefix (root : str) (T : tree) : list item := fst (walk_dir false true root T [] []).
Definition walk_old_files (root : str) (T : tree) : list item := fst (walk_dir true false root T [] []).

Definition item_eqb (a b : item) : bool := Bool.eqb (fst a) (fst b) && str_eqb (snd a) (snd b).
Definition item_in (a : item) (l : list item) : bool := existsb (item_eqb a) l.
Fixpoint items_eqb (a b : list item) : bool :=
  match a, b with
  | [], [] => true
  | x :: a', y :: b' => item_eqb x y && items_eqb a' b'
  | _, _ => false
  end.

(* ------------------------------------------------- declarative ignore spec *)
(* Addresses are component lists below the project root; pstr is the path string. *)
Definition pstr (root : str) (comps : list str) : str := root ++ flat_map (fun c => SL :: c) comps.

Inductive DirAt : tree -> list str -> tree -> Prop :=
| DirAt_here : forall t, DirAt t [] t
| DirAt_sub : forall files subs n s p t,
    In (n, s) subs -> DirAt s p t -> DirAt (Dir files subs) (n :: p) t.

(* an entry called `name` of the given kind exists in the directory at address dp *)
Definition ItemAt (T : tree) (isdir : bool) (dp : list str) (name : str) : Prop :=
  exists files subs, DirAt T dp (Dir files subs) /\
    if isdir then exists s, In (name, s) subs else exists c, In (name, c) files.

(* some .gitignore in the item's directory or a directory above it names it:
   anchored entry: that directory joined with the entry is the item's path;
   bare entry: it is the item's base name *)
Definition Named (root : str) (T : tree) (dp : list str) (name : str) : Prop :=
  exists anc rest files subs e,
    dp = anc ++ rest /\ DirAt T anc (Dir files subs) /\ In e (dir_entries files) /\
    match e with
    | EAbs n => path_join (pstr root anc) n = path_join (pstr root dp) name
    | ERel n => n = name
    end.

Definition Ignored (root : str) (T : tree) (isdir : bool) (dp : list str) (name : str) : Prop :=
  Named root T dp name \/ (isdir = true /\ In name IGNORE_FOLDERS).

(* ignored itself, or inside an ignored directory *)
Definition Hidden (root : str) (T : tree) (isdir : bool) (dp : list str) (name : str) : Prop :=
  Ignored root T isdir dp name \/
  exists anc n rest, dp = anc ++ n :: rest /\ Ignored root T true anc n.

(* file-system well-formedness: names are non-empty, contain no '/', and
   sub-directory names are unique within a directory *)
Definition ok_name (n : str) : Prop := n <> [] /\ ~ In SL n.
Inductive wf_tree : tree -> Prop :=
| wf_dir : forall files subs,
    Forall (fun f => ok_name (fst f)) files ->
    Forall (fun s => ok_name (fst s)) subs ->
    NoDup (map fst subs) ->
    Forall (fun s => wf_tree (snd s)) subs ->
    wf_tree (Dir files subs).

(* --------------------------------------------------- search_in_file_ios *)
(* for file_io in it: count += 1; if check: parsed += 1; yield; if parsed >= parse_limit: break
                      if count >= open_limit: break *)
Definition PARSED_FILE_LIMIT : N := 30.
Definition OPENED_FILE_LIMIT : N := 2000.

Fixpoint scan {A : Type} (check : A -> bool) (pl ol : N) (l : list A) (cnt parsed : N) : list A :=
  match l with
  | [] => []
  | x :: r =>
      let cnt' := N.succ cnt in
      if check x then
        let parsed' := N.succ parsed in
        x :: (if N.leb pl parsed' then [] else if N.leb ol cnt' then [] else scan check pl ol r cnt' parsed')
      else if N.leb ol cnt' then [] else scan check pl ol r cnt' parsed
  end.
Definition search_in_file_ios {A : Type} (check : A -> bool) (l : list A) : list A :=
  scan check PARSED_FILE_LIMIT OPENED_FILE_LIMIT l 0 0.

(* --------------------------------------------------- split_search_string *)
Definition SP : N := 32.
Definition DOT : N := 46.

(* s.rpartition(' ') -> (head, tail); no space -> ('', s) *)
Fixpoint rpartition_go (s : str) : option (str * str) :=
  match s with
  | [] => None
  | c :: r => match rpartition_go r with
              | Some (h, t) => Some (c :: h, t)
              | None => if N.eqb c SP then Some ([], r) else None
              end
  end.
Definition rpartition_space (s : str) : str * str :=
  match rpartition_go s with Some p => p | None => ([], s) end.

(* s.split('.') *)
Fixpoint split_dot_go (s cur : str) : list str :=
  match s with
  | [] => [rev cur]
  | c :: r => if N.eqb c DOT then rev cur :: split_dot_go r [] else split_dot_go r (c :: cur)
  end.
Definition split_dot (s : str) : list str := split_dot_go s [].

Definition S_DEF : str := [100;101;102]%N.
Definition S_FUNCTION : str := [102;117;110;99;116;105;111;110]%N.

Definition split_search_string (s : str) : str * list str :=
  let (ty, dotted) := rpartition_space s in
  ((if str_eqb ty S_DEF then S_FUNCTION else ty), split_dot dotted).

(* -------------------------------------------------------- search_in_module *)
(* ASCII identifiers only: str.lower on A-Z *)
Definition lower_c (c : N) : N := if N.leb 65 c && N.leb c 90 then c + 32 else c.
Definition lower (s : str) : str := map lower_c s.

Record sname := { n_name : str; n_type : str; n_id : N }.

Definition name_matches (complete : bool) (last_lower : str) (n : sname) : bool :=
  if complete then starts_with (lower (n_name n)) last_lower
  else str_eqb (lower (n_name n)) last_lower.
Definition type_ok (wanted_type : str) (n : sname) : bool :=
  match wanted_type with [] => true | _ => str_eqb wanted_type (n_type n) end.

(* the second loop of search_in_module for a single wanted name, names that are
   not SubModuleName, convert=False *)
Fixpoint search_loop (complete : bool) (wanted_type last_lower : str) (names : list sname) : list sname :=
  match names with
  | [] => []
  | n :: r =>
      if name_matches complete last_lower n then
        (if type_ok wanted_type n then [n] else []) ++ search_loop complete wanted_type last_lower r
      else search_loop complete wanted_type last_lower r
  end.

(* Script.search / complete_search for an undotted search string; None = dotted
   (needs inference, not modelled) *)
Definition script_search (complete : bool) (s : str) (names : list sname) : option (list sname) :=
  match split_search_string s with
  | (ty, [w]) => Some (search_loop complete ty (lower w) names)
  | _ => None
  end.

(* -------------------------------------------------- _try_to_skip_duplicates *)
(* what the wrapper reads of a definition: identity of the tree name (None when
   the name has no tree node), whether its type is 'module', its module_path *)
Record defn := { d_node : option N; d_is_module : bool; d_mpath : option str; d_tag : N }.

Definition node_seen (x : option N) (seen : list (option N)) : bool :=
  match x with
  | None => false
  | Some i => existsb (fun y => match y with Some j => N.eqb i j | None => false end) seen
  end.

Fixpoint dedupe_go (l : list defn) (nodes : list (option N)) (mods : list str) : list defn :=
  match l with
  | [] => []
  | x :: r =>
      if node_seen (d_node x) nodes then dedupe_go r nodes mods
      else match (if d_is_module x then d_mpath x else None) with
           | Some p => if str_in p mods then dedupe_go r nodes mods
                       else x :: dedupe_go r (d_node x :: nodes) (p :: mods)
           | None => x :: dedupe_go r (d_node x :: nodes) mods
           end
  end.
Definition dedupe (l : list defn) : list defn := dedupe_go l [] [].

(* keys the wrapper de-duplicates on (used to state what it guarantees) *)
Definition nodes_of (l : list defn) : list N :=
  flat_map (fun x => match d_node x with Some i => [i] | None => [] end) l.
Definition mod_key (x : defn) : option str := if d_is_module x then d_mpath x else None.
Definition mods_of (l : list defn) : list str :=
  flat_map (fun x => match mod_key x with Some p => [p] | None => [] end) l.
