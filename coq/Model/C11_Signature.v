(* C11: transcription of
     jedi/inference/names.py:_ActualTreeParamName.get_kind, BaseTreeParamName.to_string/get_public_name,
     jedi/inference/signature.py:_SignatureMixin.to_string,
     jedi/api/helpers.py:CallDetails.calculate_index,
     jedi/api/classes.py:BaseName.docstring,
   together with the specification side: the kinds Python assigns to a parameter
   list (`py_sig`, validated against inspect.signature), the grammar of parameter
   lists (`valid_children`, validated against compile()), the functional
   specification `preferred` of the index and the relational specification
   `Target` of where Python binds the argument being typed (validated against
   inspect.Signature.bind_partial).  Definitions only. *)
From JV Require Export Base.Str.

(* inspect.Parameter kinds *)
Inductive kind := PO | PK | VP | KO | VK.

Definition kind_eqb (a b : kind) : bool :=
  match a, b with
  | PO, PO | PK, PK | VP, VP | KO, KO | VK, VK => true
  | _, _ => false
  end.

(* int(inspect.Parameter.<KIND>) *)
Definition kind_code (k : kind) : N :=
  match k with PO => 0 | PK => 1 | VP => 2 | KO => 3 | VK => 4 end%N.

Record param := mkParam { pname : str; pkind : kind }.

Definition param_eqb (a b : param) : bool :=
  str_eqb (pname a) (pname b) && kind_eqb (pkind a) (pkind b).

Fixpoint params_eqb (a b : list param) : bool :=
  match a, b with
  | [], [] => true
  | x :: a', y :: b' => param_eqb x y && params_eqb a' b'
  | _, _ => false
  end.

(* ------------------------------------------------------------------------- *)
(* A. Parameter kinds from the tree                                           *)

(* The children of parso's `parameters`/typedargslist node as get_kind sees
   them: `param` nodes (star_count, name), the operator leaves `*` and `/`,
   anything else (parentheses, the comma after a bare star). *)
Inductive child := CParam (stars : N) (name : str) | CStar | CSlash | COther.

Definition dunder : str := [95; 95]%N.

(* the loop `for p in parent.children` of get_kind; `self` is the position of
   tree_param among the children *)
Fixpoint gk_scan (cs : list child) (self idx : nat) (appeared : bool) : kind :=
  match cs with
  | [] => PK
  | c :: rest =>
      if appeared then
        match c with
        | CSlash => PO
        | _ => gk_scan rest self (S idx) true
        end
      else
        match c with
        | CStar => KO
        | CParam sc _ =>
            if negb (N.eqb sc 0) then KO
            else gk_scan rest self (S idx) (Nat.eqb idx self)
        | _ => gk_scan rest self (S idx) false
        end
  end.

(* _ActualTreeParamName.get_kind for the param at position j *)
Definition get_kind (cs : list child) (j : nat) : kind :=
  match nth_error cs j with
  | Some (CParam sc name) =>
      if N.eqb sc 1 then VP
      else if N.eqb sc 2 then VK
      else if starts_with name dunder then PO
      else gk_scan cs j 0 false
  | _ => PK
  end.

(* BaseTreeParamName.get_public_name *)
Definition public_name (name : str) : str :=
  if starts_with name dunder then skipn 2 name else name.

Fixpoint jedi_sig_go (all cs : list child) (j : nat) : list param :=
  match cs with
  | [] => []
  | CParam _ name :: rest => mkParam (public_name name) (get_kind all j) :: jedi_sig_go all rest (S j)
  | _ :: rest => jedi_sig_go all rest (S j)
  end.

(* what Signature.params reports (name, kind) for a definition *)
Definition jedi_sig (cs : list child) : list param := jedi_sig_go cs cs 0.

(* --- specification: the kinds Python gives (validated against inspect) --- *)

(* number of parameters in front of the first `/` (0 when there is none) *)
Fixpoint n_before_slash (cs : list child) (n : nat) : nat :=
  match cs with
  | [] => 0
  | CSlash :: _ => n
  | CParam _ _ :: rest => n_before_slash rest (S n)
  | _ :: rest => n_before_slash rest n
  end.

Fixpoint py_go (cs : list child) (idx npo : nat) (after_star : bool) : list param :=
  match cs with
  | [] => []
  | CParam sc name :: rest =>
      let k := if N.eqb sc 1 then VP
               else if N.eqb sc 2 then VK
               else if after_star then KO
               else if Nat.ltb idx npo then PO else PK in
      mkParam name k :: py_go rest (S idx) npo (after_star || N.eqb sc 1)
  | CStar :: rest => py_go rest idx npo true
  | _ :: rest => py_go rest idx npo after_star
  end.

Definition py_sig (cs : list child) : list param := py_go cs 0 (n_before_slash cs 0) false.

(* The grammar of `def` parameter lists (PEP 570 / 3102), defaults aside:
   params [/] params [*name | * param] kwonly* [**name] *)
Inductive vstate := V0 (n : nat) | V1 | V2 | V3 | V4.

Fixpoint vrun (st : vstate) (cs : list child) : bool :=
  match cs with
  | [] => match st with V2 => false | _ => true end
  | COther :: rest => vrun st rest
  | c :: rest =>
      match st, c with
      | V0 n, CParam sc _ =>
          if N.eqb sc 0 then vrun (V0 (S n)) rest
          else if N.eqb sc 1 then vrun V3 rest
          else if N.eqb sc 2 then vrun V4 rest else false
      | V0 n, CSlash => match n with O => false | S _ => vrun V1 rest end
      | V0 _, CStar => vrun V2 rest
      | V1, CParam sc _ =>
          if N.eqb sc 0 then vrun V1 rest
          else if N.eqb sc 1 then vrun V3 rest
          else if N.eqb sc 2 then vrun V4 rest else false
      | V1, CStar => vrun V2 rest
      | V2, CParam sc _ => if N.eqb sc 0 then vrun V3 rest else false
      | V3, CParam sc _ =>
          if N.eqb sc 0 then vrun V3 rest
          else if N.eqb sc 2 then vrun V4 rest else false
      | _, _ => false
      end
  end.

Definition valid_children (cs : list child) : bool := vrun (V0 0) cs.

Fixpoint no_dunder (cs : list child) : bool :=
  match cs with
  | [] => true
  | CParam _ name :: rest => negb (starts_with name dunder) && no_dunder rest
  | _ :: rest => no_dunder rest
  end.

(* ------------------------------------------------------------------------- *)
(* B. to_string                                                               *)

Inductive titem (A : Type) := TParam (a : A) | TStar | TSlash.
Arguments TParam {A} a.
Arguments TStar {A}.
Arguments TSlash {A}.

(* the generator param_strings() of _SignatureMixin.to_string *)
Fixpoint ts_go {A : Type} (kind_of : A -> kind) (is_positional is_kw_only : bool)
         (xs : list A) : list (titem A) :=
  match xs with
  | [] => if is_positional then [TSlash] else []
  | x :: rest =>
      let k := kind_of x in
      let is_positional1 := is_positional || kind_eqb k PO in
      let slash := is_positional1 && negb (kind_eqb k PO) in
      let is_positional2 := if slash then false else is_positional1 in
      let star := negb (kind_eqb k VP) && kind_eqb k KO && negb is_kw_only in
      let is_kw_only2 := if kind_eqb k VP then true else if star then true else is_kw_only in
      (if slash then [TSlash] else []) ++ (if star then [TStar] else []) ++
      TParam x :: ts_go kind_of is_positional2 is_kw_only2 rest
  end.

Definition ts_items {A : Type} (kind_of : A -> kind) (xs : list A) : list (titem A) :=
  ts_go kind_of false false xs.

Definition stars_of (k : kind) : N :=
  match k with VP => 1 | VK => 2 | _ => 0 end%N.

(* the items of to_string read back as a parameter list *)
Definition item_child (t : titem param) : child :=
  match t with
  | TParam p => CParam (stars_of (pkind p)) (pname p)
  | TStar => CStar
  | TSlash => CSlash
  end.

Definition to_string_children (ps : list param) : list child :=
  map item_child (ts_items pkind ps).

(* a reported parameter with the pieces BaseTreeParamName.to_string prints *)
Record rparam := mkR { r_name : str; r_kind : kind; r_ann : option str; r_default : option str }.

Definition kind_string (k : kind) : str :=
  match k with VP => [42] | VK => [42; 42] | _ => [] end%N.

(* BaseTreeParamName.to_string; r_name is the name as written in the source *)
Definition param_string (p : rparam) : str :=
  kind_string (r_kind p) ++ public_name (r_name p) ++
  (match r_ann p with Some a => [58; 32]%N ++ a | None => [] end) ++
  (match r_default p with Some d => [61]%N ++ d | None => [] end).

Definition item_string (t : titem rparam) : str :=
  match t with
  | TParam p => param_string p
  | TStar => [42]%N
  | TSlash => [47]%N
  end.

Fixpoint join (sep : str) (l : list str) : str :=
  match l with
  | [] => []
  | [x] => x
  | x :: rest => x ++ sep ++ join sep rest
  end.

(* _SignatureMixin.to_string *)
Definition to_string (fname : str) (ps : list rparam) (ret : option str) : str :=
  fname ++ [40]%N ++ join [44; 32]%N (map item_string (ts_items r_kind ps)) ++ [41]%N ++
  (match ret with Some a => [32; 45; 62; 32]%N ++ a | None => [] end).

(* kind order of a Python signature: PO* PK* [VP] KO* [VK] *)
Definition phase (k : kind) : nat :=
  match k with PO => 0 | PK => 1 | VP => 2 | KO => 3 | VK => 4 end.

Fixpoint wf_from (m : nat) (ps : list param) : bool :=
  match ps with
  | [] => true
  | p :: rest =>
      let k := pkind p in
      Nat.leb m (phase k) &&
      wf_from (match k with VP | VK => S (phase k) | _ => phase k end) rest
  end.

Definition wf (ps : list param) : bool := wf_from 0 ps.

(* ------------------------------------------------------------------------- *)
(* C. index                                                                   *)

(* one element of CallDetails._list_arguments(): (star_count, key_start, had_equal) *)
Definition arg := (N * option str * bool)%type.
Definition a_stars (a : arg) : N := fst (fst a).
Definition a_key (a : arg) : option str := snd (fst a).
Definition a_eq (a : arg) : bool := snd a.

Definition opt_str_eqb (a b : option str) : bool :=
  match a, b with
  | None, None => true
  | Some x, Some y => str_eqb x y
  | _, _ => false
  end.

(* `string_name in used_names` where used_names holds key_start values *)
Fixpoint used_mem (name : str) (used : list (option str)) : bool :=
  match used with
  | [] => false
  | u :: rest => opt_str_eqb (Some name) u || used_mem name rest
  end.

(* first loop of calculate_index: every argument except the last *)
Fixpoint scan_args (args : list arg) (used : list (option str)) (pc : nat)
  : list (option str) * nat :=
  match args with
  | [] => (used, pc)
  | a :: rest =>
      match rest with
      | [] => (used, pc)
      | _ :: _ =>
          if negb (N.eqb (a_stars a) 0) then scan_args rest used pc
          else if a_eq a then scan_args rest (a_key a :: used) pc
          else scan_args rest used (S pc)
      end
  end.

Definition is_kwarg_of (args : list arg) : bool :=
  existsb (fun a => a_eq a || N.eqb (a_stars a) 2) args.

Definition no_arg : arg := (0%N, None, false).

(* body of the second loop for one parameter; None = fall through to the next *)
Definition index_step (is_kwarg : bool) (used : list (option str)) (pc : nat) (cur : arg)
           (i : nat) (p : param) : bool :=
  let kind := pkind p in
  let sc := a_stars cur in
  (negb is_kwarg && kind_eqb kind VP)
  || (negb is_kwarg && (kind_eqb kind PK || kind_eqb kind PO) && Nat.eqb i pc)
  || ((match a_key cur with Some _ => negb (N.eqb sc 1) | None => false end || N.eqb sc 2)
      && ((negb (used_mem (pname p) used)
           && (kind_eqb kind KO || (kind_eqb kind PK && Nat.leb pc i))
           && (if negb (N.eqb sc 0) then true
               else match a_key cur with
                    | Some key => if a_eq cur then str_eqb (pname p) key
                                  else starts_with (pname p) key
                    | None => false
                    end))
          || kind_eqb kind VK)).

Fixpoint find_idx (f : nat -> param -> bool) (i : nat) (ps : list param) : option nat :=
  match ps with
  | [] => None
  | p :: rest => if f i p then Some i else find_idx f (S i) rest
  end.

(* CallDetails.calculate_index *)
Definition calc_index (ps : list param) (args : list arg) : option nat :=
  match args with
  | [] => match ps with [] => None | _ :: _ => Some 0 end
  | _ :: _ =>
      let '(used, pc) := scan_args args [] 0 in
      find_idx (index_step (is_kwarg_of args) used pc (last args no_arg)) 0 ps
  end.

(* --- specification side --- *)

Definition star_free (args : list arg) : bool :=
  forallb (fun a => N.eqb (a_stars a) 0 &&
                    (if a_eq a then match a_key a with Some _ => true | None => false end else true)) args.

Definition before (args : list arg) : list arg := removelast args.
Definition cursor (args : list arg) : arg := last args no_arg.

Definition is_pos_arg (a : arg) : bool := N.eqb (a_stars a) 0 && negb (a_eq a).
Definition is_kw_arg (a : arg) : bool := N.eqb (a_stars a) 0 && a_eq a.

(* positional arguments / keyword names in front of the cursor *)
Definition n_pos (args : list arg) : nat := length (filter is_pos_arg (before args)).
Definition used_keys (args : list arg) : list (option str) :=
  map a_key (filter is_kw_arg (before args)).
Definition kw_before (args : list arg) : bool := existsb a_eq (before args).

Definition is_positional_kind (k : kind) : bool :=
  match k with PO | PK => true | _ => false end.

(* the parameter that receives the next positional argument after n have been
   given: the (n+1)-th positional parameter, else *args *)
Fixpoint pos_slot (ps : list param) (i n : nat) : option nat :=
  match ps with
  | [] => None
  | p :: rest =>
      match pkind p with
      | PO | PK => match n with O => Some i | S n' => pos_slot rest (S i) n' end
      | VP => Some i
      | _ => pos_slot rest (S i) n
      end
  end.

(* may parameter p at index i still be given by keyword? *)
Definition kw_capable (used : list (option str)) (npos i : nat) (p : param) : bool :=
  negb (used_mem (pname p) used) &&
  (kind_eqb (pkind p) KO || (kind_eqb (pkind p) PK && Nat.leb npos i)).

(* first keyword-capable parameter whose name satisfies `m`, else **kwargs *)
Definition kw_search (ps : list param) (used : list (option str)) (npos : nat)
           (m : str -> bool) : option nat :=
  match find_idx (fun i p => kw_capable used npos i p && m (pname p)) 0 ps with
  | Some i => Some i
  | None => find_idx (fun _ p => kind_eqb (pkind p) VK) 0 ps
  end.

(* the preferred binding target *)
Definition preferred (ps : list param) (args : list arg) : option nat :=
  let cur := cursor args in
  let used := used_keys args in
  let npos := n_pos args in
  if a_eq cur then
    match a_key cur with
    | Some name => kw_search ps used npos (fun s => str_eqb s name)
    | None => None
    end
  else
    match (if kw_before args then None else pos_slot ps 0 npos) with
    | Some i => Some i
    | None =>
        match a_key cur with
        | Some pre => kw_search ps used npos (fun s => starts_with s pre)
        | None => None
        end
    end.

(* number of positional parameters in front of index i *)
Definition rank (ps : list param) (i : nat) : nat :=
  length (filter (fun p => is_positional_kind (pkind p)) (firstn i ps)).
Definition n_positional (ps : list param) : nat :=
  length (filter (fun p => is_positional_kind (pkind p)) ps).

Definition KwCapable (ps : list param) (args : list arg) (i : nat) (p : param) : Prop :=
  nth_error ps i = Some p /\
  used_mem (pname p) (used_keys args) = false /\
  (pkind p = KO \/ (pkind p = PK /\ n_pos args <= rank ps i)).

(* Where Python can bind the argument under the cursor (star-free prefix). *)
Inductive Target (ps : list param) (args : list arg) : nat -> Prop :=
| T_positional : forall i p,
    a_eq (cursor args) = false -> kw_before args = false ->
    nth_error ps i = Some p -> is_positional_kind (pkind p) = true ->
    rank ps i = n_pos args -> Target ps args i
| T_var_positional : forall i p,
    a_eq (cursor args) = false -> kw_before args = false ->
    nth_error ps i = Some p -> pkind p = VP ->
    n_positional ps <= n_pos args -> Target ps args i
| T_keyword : forall i p name,
    cursor args = (0%N, Some name, true) ->
    KwCapable ps args i p -> pname p = name -> Target ps args i
| T_keyword_prefix : forall i p pre,
    cursor args = (0%N, Some pre, false) ->
    KwCapable ps args i p -> starts_with (pname p) pre = true -> Target ps args i
| T_var_keyword_prefix : forall i p pre,
    cursor args = (0%N, Some pre, false) ->
    nth_error ps i = Some p -> pkind p = VK -> Target ps args i
| T_var_keyword : forall i p name,
    cursor args = (0%N, Some name, true) ->
    nth_error ps i = Some p -> pkind p = VK ->
    used_mem name (used_keys args) = false ->
    (forall j q, nth_error ps j = Some q -> pname q = name ->
                 pkind q = PO \/ pkind q = VP \/ pkind q = VK) ->
    Target ps args i.

(* the keyword being typed names a parameter that already has a value *)
Definition rebinding (ps : list param) (args : list arg) : bool :=
  let cur := cursor args in
  a_eq cur &&
  match a_key cur with
  | Some name =>
      used_mem name (used_keys args) ||
      match find_idx (fun i p => str_eqb (pname p) name &&
                                 (kind_eqb (pkind p) PK || kind_eqb (pkind p) KO) &&
                                 negb (kw_capable (used_keys args) (n_pos args) i p)) 0 ps with
      | Some _ => true
      | None => false
      end
  | None => false
  end.

(* ------------------------------------------------------------------------- *)
(* D. docstring assembly (BaseName.docstring)                                 *)

Definition is_empty (s : str) : bool := match s with [] => true | _ => false end.

Definition docstring (signature_text doc : str) (raw : bool) : str :=
  if raw then doc
  else if negb (is_empty signature_text) && negb (is_empty doc)
       then signature_text ++ [10; 10]%N ++ doc
       else signature_text ++ doc.

(* '\n'.join(signature.to_string() for signature in signatures) *)
Definition docstring_signature (sigs : list str) : str := join [10]%N sigs.
