(* C14: the request/reply protocol between jedi and its helper process, as a state
   machine with crash points.  Transcribes
     jedi/inference/compiled/subprocess/__init__.py:
        CompiledSubprocess._send / _kill / run / delete_inference_state / _get_process /
        _cleanup_process, InferenceStateSubprocess.__init__ / __getattr__ wrapper / __del__,
        Listener._run / _get_inference_state / listen
     jedi/api/environment.py: Environment._get_subprocess / get_inference_state_subprocess /
        get_sys_path (memoised)
   Definitions only; everything computes. *)
From Coq Require Export List NArith Bool Arith Lia.
Export ListNotations.

(* What can happen to one request on the wire. *)
Inductive fault :=
| FNone        (* request and reply go through *)
| FDeadBefore  (* the helper is dead before the request is written: BrokenPipeError on write *)
| FDiesAfter   (* the request is written, the helper dies without replying: EOFError on read *)
| FTrunc       (* the helper dies half-way through the reply: pickle.UnpicklingError on read *)
| FRaises.     (* the helper function raises an ordinary exception: (True, tb, exc) reply; no death *)

Inductive exc :=
| EInternal     (* jedi.api.exceptions.InternalError *)
| EHelper       (* the exception the helper function raised, relayed *)
| EInvalidEnv   (* jedi.api.environment.InvalidPythonEnvironment (handshake of a helper failed) *)
| EChildKey     (* KeyError from `del self._inference_states[id]` in the helper, relayed *)
| EUnpickling.  (* pickle.UnpicklingError escaping _send: only in the pre-fix variant *)

(* one call of a helper function through InferenceStateSubprocess.__getattr__ *)
Inductive call :=
| CEcho (p : N)   (* a function that returns (a function of) its argument *)
| CRaise.         (* a function that raises by itself *)

(* the frames that travel: (inference_state_id, function, args, kwargs) *)
Inductive kind :=
| KInfo                     (* (None, _get_info): Environment._get_subprocess handshake *)
| KNoId                     (* (None, function): get_sys_path *)
| KCall (id : N) (c : call) (* (id, function) *)
| KDel (id : N).            (* (id, None): drop the helper-side state *)

Inductive sres := SReply (a : N) | SRaise (e : exc).

Inductive outcome :=
| OOk (answers : list N)
| OExc (e : exc)
| ONoScript.     (* the operation names a Script that does not exist / an id that is already live *)

(* CompiledSubprocess (parent side) together with its process (child side) *)
Record helper := mkH {
  h_gen : N;           (* which start of the helper this is: 1, 2, ... *)
  h_crashed : bool;    (* CompiledSubprocess.is_crashed *)
  h_alive : bool;      (* the process runs *)
  h_reaped : bool;     (* _cleanup_process ran: kill, wait, join, close *)
  h_nreq : N;          (* frames written to it so far (index of the next request) *)
  h_states : list N;   (* Listener._inference_states keys *)
  h_queue : list N     (* _inference_state_deletion_queue, head = most recently appended *)
}.

(* InferenceStateSubprocess *)
Record script := mkS { s_id : N; s_gen : N; s_used : bool }.

(* what the proxy sees on the wire: one entry per frame written *)
Record wire := mkW { w_gen : N; w_idx : N; w_kind : kind; w_fault : fault;
                     w_states : option (list N) (* helper-side ids after the request, sorted *) }.

Record st := mkSt {
  cur : helper;            (* Environment._subprocess *)
  old : list helper;       (* replaced helpers, still referenced by their Scripts *)
  scripts : list script;   (* live InferenceStateSubprocess objects *)
  syspath : bool           (* Environment.get_sys_path memoised *)
}.

(* ---- small helpers *)
Fixpoint memN (x : N) (l : list N) : bool :=
  match l with [] => false | y :: r => N.eqb x y || memN x r end.
Fixpoint removeN (x : N) (l : list N) : list N :=
  match l with [] => [] | y :: r => if N.eqb x y then removeN x r else y :: removeN x r end.
Fixpoint insertN (x : N) (l : list N) : list N :=
  match l with [] => [x] | y :: r => if N.leb x y then x :: l else y :: insertN x r end.
Definition sortN (l : list N) : list N := fold_right insertN [] l.

Definition set_queue (h : helper) (q : list N) : helper :=
  mkH (h_gen h) (h_crashed h) (h_alive h) (h_reaped h) (h_nreq h) (h_states h) q.
Definition set_states (h : helper) (s : list N) : helper :=
  mkH (h_gen h) (h_crashed h) (h_alive h) (h_reaped h) (h_nreq h) s (h_queue h).
Definition bump (h : helper) : helper :=
  mkH (h_gen h) (h_crashed h) (h_alive h) (h_reaped h) (N.succ (h_nreq h)) (h_states h) (h_queue h).
(* the process dies: its memory is gone *)
Definition die (h : helper) : helper :=
  mkH (h_gen h) (h_crashed h) false (h_reaped h) (h_nreq h) [] (h_queue h).
(* CompiledSubprocess._kill: is_crashed = True; _cleanup_process(process, thread) *)
Definition kill (h : helper) : helper :=
  mkH (h_gen h) true false true (h_nreq h) [] (h_queue h).
Definition fresh_helper (g : N) : helper := mkH g false true false 0%N [] [].

(* "helper raises" is about helper *functions*: the handshake and a deletion request run none *)
Definition eff_fault (k : kind) (f : fault) : fault :=
  match f, k with
  | FRaises, KInfo => FNone
  | FRaises, KDel _ => FNone
  | _, _ => f
  end.

(* Listener._run on the child's state map: (new keys, KeyError raised) *)
Definition child_apply (k : kind) (states : list N) : list N * bool :=
  match k with
  | KCall id _ => (if memN id states then states else id :: states, false)
  | KDel id => if memN id states then (removeN id states, false) else (states, true)
  | _ => (states, false)
  end.

Definition answer (k : kind) : sres :=
  match k with
  | KCall _ (CEcho p) => SReply p
  | KCall _ CRaise => SRaise EHelper
  | _ => SReply 0%N
  end.

(* CompiledSubprocess._send.  `fx` = the code as it is now (UnpicklingError handled like
   EOFError); fx = false is the code before that fix.  Returns the helper, the result, the
   number of helper deaths that happened in this send, and what the wire saw. *)
Definition send (fx : bool) (sched : N -> N -> fault) (h : helper) (k : kind)
  : helper * sres * nat * list wire :=
  if h_crashed h then (h, SRaise EInternal, 0, [])
  else
    let f := if h_alive h then eff_fault k (sched (h_gen h) (h_nreq h)) else FDeadBefore in
    let d := if h_alive h then 1 else 0 in
    let h1 := bump h in
    let w := mkW (h_gen h) (h_nreq h) k f in
    let applied := child_apply k (h_states h) in
    match f with
    | FNone =>
        (set_states h1 (fst applied),
         if snd applied then SRaise EChildKey else answer k, 0, [w (Some (sortN (fst applied)))])
    | FRaises =>
        (set_states h1 (fst applied), SRaise EHelper, 0, [w (Some (sortN (fst applied)))])
    | FDeadBefore => (kill (die h1), SRaise EInternal, d, [w None])
    | FDiesAfter => (kill (die h1), SRaise EInternal, d, [w None])
    | FTrunc =>
        if fx then (kill (die h1), SRaise EInternal, d, [w (Some (sortN (fst applied)))])
        else (die h1, SRaise EUnpickling, d, [w (Some (sortN (fst applied)))])
    end.

(* the `while True: pop; _send(delete_id, None)` loop of CompiledSubprocess.run;
   `q` is the queue still to flush (popped before each send) *)
Fixpoint flush (fx : bool) (sched : N -> N -> fault) (h : helper) (q : list N)
  : helper * option exc * nat * list wire :=
  match q with
  | [] => (set_queue h [], None, 0, [])
  | d :: q' =>
      match send fx sched (set_queue h q') (KDel d) with
      | (h1, SReply _, n, w) =>
          match flush fx sched h1 q' with
          | (h2, r, n2, w2) => (h2, r, n + n2, w ++ w2)
          end
      | (h1, SRaise e, n, w) => (h1, Some e, n, w)
      end
  end.

(* CompiledSubprocess.run(id, function) *)
Definition run_call (fx : bool) (sched : N -> N -> fault) (h : helper) (id : N) (c : call)
  : helper * sres * nat * list wire :=
  match flush fx sched h (h_queue h) with
  | (h1, Some e, n, w) => (h1, SRaise e, n, w)
  | (h1, None, n, w) =>
      match send fx sched h1 (KCall id c) with
      | (h2, r, n2, w2) => (h2, r, n + n2, w ++ w2)
      end
  end.

(* the calls one query makes, in order; the first exception aborts the query *)
Fixpoint run_calls (fx : bool) (sched : N -> N -> fault) (h : helper) (id : N) (cs : list call)
  : helper * outcome * nat * list wire :=
  match cs with
  | [] => (h, OOk [], 0, [])
  | c :: cs' =>
      match run_call fx sched h id c with
      | (h1, SRaise e, n, w) => (h1, OExc e, n, w)
      | (h1, SReply a, n, w) =>
          match run_calls fx sched h1 id cs' with
          | (h2, OOk l, n2, w2) => (h2, OOk (a :: l), n + n2, w ++ w2)
          | (h2, o, n2, w2) => (h2, o, n + n2, w ++ w2)
          end
      end
  end.

(* ---- the environment and its Scripts *)
Definition get_h (s : st) (g : N) : option helper :=
  if N.eqb g (h_gen (cur s)) then Some (cur s)
  else find (fun h => N.eqb g (h_gen h)) (old s).

Definition set_h (s : st) (h : helper) : st :=
  if N.eqb (h_gen h) (h_gen (cur s)) then mkSt h (old s) (scripts s) (syspath s)
  else mkSt (cur s) (map (fun o => if N.eqb (h_gen h) (h_gen o) then h else o) (old s))
            (scripts s) (syspath s).

Definition find_script (id : N) (l : list script) : option script :=
  find (fun x => N.eqb id (s_id x)) l.
Definition remove_script (id : N) (l : list script) : list script :=
  filter (fun x => negb (N.eqb id (s_id x))) l.
Definition mark_used (id : N) (l : list script) : list script :=
  map (fun x => if N.eqb id (s_id x) then mkS (s_id x) (s_gen x) true else x) l.

(* Environment._get_subprocess on an environment that already has a helper: keep it if it is
   not crashed, else start the next one and ask it for its version.  `hx` = the code as it is
   now: the helper being started replaces one that had answered the handshake before, so an
   InternalError there is re-raised as it is (any other exception still becomes
   InvalidPythonEnvironment); hx = false is the code before that fix, where every exception
   became InvalidPythonEnvironment.  The (crashed) new helper stays in place. *)
Definition hand_exc (hx : bool) (e : exc) : exc :=
  if hx then match e with EInternal => EInternal | _ => EInvalidEnv end else EInvalidEnv.

Definition get_subprocess (hx fx : bool) (sched : N -> N -> fault) (s : st)
  : st * option exc * nat * list wire :=
  if negb (h_crashed (cur s)) then (s, None, 0, [])
  else
    let nh := fresh_helper (N.succ (h_gen (cur s))) in
    match send fx sched nh KInfo with
    | (h1, r, n, w) =>
        (mkSt h1 (cur s :: old s) (scripts s) (syspath s),
         match r with SReply _ => None | SRaise e => Some (hand_exc hx e) end, n, w)
    end.

(* Environment.__init__: the first helper of an environment (there is no helper yet, so this is
   not a restart): any failure of its handshake is InvalidPythonEnvironment and no Environment
   object comes into being. *)
Definition start_env (fx : bool) (sched : N -> N -> fault) : (st + exc) * helper * list wire :=
  match send fx sched (fresh_helper 1%N) KInfo with
  | (h1, SReply _, _, w) => (inl (mkSt h1 [] [] false), h1, w)
  | (h1, SRaise _, _, w) => (inr EInvalidEnv, h1, w)
  end.

Inductive op :=
| OpNew (id : N)                     (* InferenceState(...): environment.get_inference_state_subprocess *)
| OpQuery (id : N) (cs : list call)  (* a query on that Script issuing these helper calls *)
| OpDrop (id : N)                    (* the Script is garbage: InferenceStateSubprocess.__del__ *)
| OpSysPath.                         (* Environment.get_sys_path() *)

(* what one operation did *)
Record ev := mkEv {
  e_out : outcome;
  e_deaths : nat;      (* helper deaths during the operation *)
  e_stale : bool;      (* the Script's helper had already crashed when the operation began *)
  e_hand : bool;       (* the operation failed in the handshake of a replacement helper *)
  e_wire : list wire
}.

Definition step (hx fx : bool) (sched : N -> N -> fault) (s : st) (o : op) : st * ev :=
  match o with
  | OpNew id =>
      match find_script id (scripts s) with
      | Some _ => (s, mkEv ONoScript 0 false false [])
      | None =>
          match get_subprocess hx fx sched s with
          | (s1, Some e, n, w) => (s1, mkEv (OExc e) n false true w)
          | (s1, None, n, w) =>
              (mkSt (cur s1) (old s1) (mkS id (h_gen (cur s1)) false :: scripts s1) (syspath s1),
               mkEv (OOk []) n false false w)
          end
      end
  | OpQuery id cs =>
      match find_script id (scripts s) with
      | None => (s, mkEv ONoScript 0 false false [])
      | Some sc =>
          match get_h s (s_gen sc) with
          | None => (s, mkEv ONoScript 0 false false [])
          | Some h =>
              match cs with
              | [] => (s, mkEv (OOk []) 0 false false [])
              | _ :: _ =>
                  match run_calls fx sched h id cs with
                  | (h1, o1, n, w) =>
                      let s1 := set_h s h1 in
                      (mkSt (cur s1) (old s1) (mark_used id (scripts s1)) (syspath s1),
                       mkEv o1 n (h_crashed h) false w)
                  end
              end
          end
      end
  | OpDrop id =>
      match find_script id (scripts s) with
      | None => (s, mkEv ONoScript 0 false false [])
      | Some sc =>
          let s0 := mkSt (cur s) (old s) (remove_script id (scripts s)) (syspath s) in
          match get_h s (s_gen sc) with
          | None => (s0, mkEv (OOk []) 0 false false [])
          | Some h =>
              if s_used sc && negb (h_crashed h)
              then (set_h s0 (set_queue h (id :: h_queue h)), mkEv (OOk []) 0 false false [])
              else (s0, mkEv (OOk []) 0 false false [])
          end
      end
  | OpSysPath =>
      if syspath s then (s, mkEv (OOk []) 0 false false [])
      else
        match get_subprocess hx fx sched s with
        | (s1, Some e, n, w) => (s1, mkEv (OExc e) n false true w)
        | (s1, None, n, w) =>
            match send fx sched (cur s1) KNoId with
            | (h1, SReply _, n2, w2) =>
                (mkSt h1 (old s1) (scripts s1) true, mkEv (OOk []) (n + n2) false false (w ++ w2))
            | (h1, SRaise e, n2, w2) =>
                (mkSt h1 (old s1) (scripts s1) false, mkEv (OExc e) (n + n2) false false (w ++ w2))
            end
        end
  end.

Fixpoint run (hx fx : bool) (sched : N -> N -> fault) (s : st) (ops : list op) : st * list ev :=
  match ops with
  | [] => (s, [])
  | o :: r =>
      match step hx fx sched s o with
      | (s1, e) => match run hx fx sched s1 r with (s2, es) => (s2, e :: es) end
      end
  end.

(* after a successful Environment(...): first helper started, handshake (request 0) done
   (= what start_env yields when request 0 of generation 1 meets no fault) *)
Definition init : st := mkSt (mkH 1%N false true false 1%N [] []) [] [] false.

Definition no_faults : N -> N -> fault := fun _ _ => FNone.

(* ---- observation helpers (used by the theorems and by the harness) *)
Definition helpers (s : st) : list helper := cur s :: old s.

(* ids of the live, used Scripts bound to helper generation g *)
Definition used_ids (g : N) (l : list script) : list N :=
  map s_id (filter (fun x => N.eqb (s_gen x) g && s_used x) l).

Definition is_zombie (h : helper) : bool := negb (h_alive h) && negb (h_reaped h).
Definition zombies (s : st) : nat := length (filter is_zombie (helpers s)).
(* each helper that has not been cleaned up holds three pipe ends in the parent *)
Definition open_pipes (s : st) : nat := 3 * length (filter (fun h => negb (h_reaped h)) (helpers s)).

Definition is_crash_exc (e : exc) : bool :=
  match e with EInternal | EInvalidEnv | EUnpickling => true | _ => false end.
(* a failure that counts against the property: not a stale Script, not a relayed helper exception *)
Definition fresh_failure (e : ev) : bool :=
  match e_out e with
  | OExc x => negb (e_stale e) && negb (match x with EHelper => true | _ => false end)
  | _ => false
  end.
Definition total_deaths (es : list ev) : nat := fold_right (fun e a => e_deaths e + a) 0 es.


Definition fault_eqb (a b : fault) : bool :=
  match a, b with
  | FNone, FNone | FDeadBefore, FDeadBefore | FDiesAfter, FDiesAfter
  | FTrunc, FTrunc | FRaises, FRaises => true
  | _, _ => false
  end.

(* ---- what the wire shows about one operation *)
(* no fault of any kind was injected into the operation's requests *)
Definition clean (w : list wire) : bool := forallb (fun x => fault_eqb (w_fault x) FNone) w.
(* some helper function raised (injected, or a function that raises by itself) *)
Definition raisedb (w : list wire) : bool :=
  existsb (fun x => fault_eqb (w_fault x) FRaises ||
                    match w_kind x with KCall _ CRaise => true | _ => false end) w.
(* the outcome of an operation nothing happens to *)
Fixpoint canon_calls (cs : list call) : outcome :=
  match cs with
  | [] => OOk []
  | CRaise :: _ => OExc EHelper
  | CEcho p :: r => match canon_calls r with OOk l => OOk (p :: l) | o => o end
  end.
Definition canon_out (o : op) : outcome :=
  match o with OpQuery _ cs => canon_calls cs | _ => OOk [] end.

(* ---- decoding of harness cases *)
Definition sched_of (l : list (N * N * fault)) : N -> N -> fault :=
  fun g k =>
    match find (fun x => N.eqb (fst (fst x)) g && N.eqb (snd (fst x)) k) l with
    | Some x => snd x
    | None => FNone
    end.

Definition exc_code (e : exc) : N :=
  match e with EInternal => 1%N | EHelper => 2%N | EInvalidEnv => 3%N | EChildKey => 4%N | EUnpickling => 5%N end.
Fixpoint listN_eqb (a b : list N) : bool :=
  match a, b with
  | [], [] => true
  | x :: a', y :: b' => N.eqb x y && listN_eqb a' b'
  | _, _ => false
  end.
(* observed outcome: (0, answers) | (code of the exception, []) | (9, []) *)
Definition outcome_obs (o : outcome) : N * list N :=
  match o with OOk l => (0%N, l) | OExc e => (exc_code e, []) | ONoScript => (9%N, []) end.

(* kind of a frame as the proxy can tell it: 0 info/no-id, 1 call, 2 delete; and the id *)
Definition kind_obs (k : kind) : N * N :=
  match k with KInfo => (0%N, 0%N) | KNoId => (0%N, 0%N) | KCall id _ => (1%N, id) | KDel id => (2%N, id) end.
Definition fault_code (f : fault) : N :=
  match f with FNone => 0%N | FDeadBefore => 1%N | FDiesAfter => 2%N | FTrunc => 3%N | FRaises => 4%N end.
(* (gen, idx, kind, id, fault, has-states, states); a request that never reached the proxy
   (dead before send) has no visible kind *)
Definition wire_obs (w : wire) : N * N * N * N * N * list N :=
  let '(k, id) := match w_fault w with FDeadBefore => (7, 0)%N | _ => kind_obs (w_kind w) end in
  (w_gen w, w_idx w, k, id, fault_code (w_fault w),
   match w_states w with Some l => 1%N :: l | None => [] end).

(* per-operation observation: outcome, generation of the environment's helper, its crash flag,
   zombies, open pipe ends *)
Definition op_obs (s : st) (e : ev) : N * list N * N * bool * N * N :=
  (fst (outcome_obs (e_out e)), snd (outcome_obs (e_out e)), h_gen (cur s), h_crashed (cur s),
   N.of_nat (zombies s), N.of_nat (open_pipes s)).

Fixpoint run_obs (hx fx : bool) (sched : N -> N -> fault) (s : st) (ops : list op)
  : list (N * list N * N * bool * N * N) * list (N * N * N * N * N * list N) :=
  match ops with
  | [] => ([], [])
  | o :: r =>
      match step hx fx sched s o with
      | (s1, e) =>
          match run_obs hx fx sched s1 r with
          | (os, ws) => (op_obs s1 e :: os, map wire_obs (e_wire e) ++ ws)
          end
      end
  end.

Definition obs_eqb (a b : N * list N * N * bool * N * N) : bool :=
  let '(o1, l1, g1, c1, z1, p1) := a in
  let '(o2, l2, g2, c2, z2, p2) := b in
  N.eqb o1 o2 && listN_eqb l1 l2 && N.eqb g1 g2 && Bool.eqb c1 c2 && N.eqb z1 z2 && N.eqb p1 p2.
Definition wobs_eqb (a b : N * N * N * N * N * list N) : bool :=
  let '(g1, i1, k1, d1, f1, s1) := a in
  let '(g2, i2, k2, d2, f2, s2) := b in
  N.eqb g1 g2 && N.eqb i1 i2 && N.eqb k1 k2 && N.eqb d1 d2 && N.eqb f1 f2 && listN_eqb s1 s2.
Fixpoint all2 {A} (f : A -> A -> bool) (a b : list A) : bool :=
  match a, b with
  | [], [] => true
  | x :: a', y :: b' => f x y && all2 f a' b'
  | _, _ => false
  end.

(* A "dead before send" armed for the request after the last one of a case is seen by the proxy
   but never met by the parent: a trailing such entry is ignored on both sides. *)
Definition strip_before (l : list (N * N * N * N * N * list N)) : list (N * N * N * N * N * list N) :=
  match rev l with
  | (_, _, _, _, f, _) :: r => if N.eqb f 1 then rev r else l
  | [] => l
  end.

(* one harness case: schedule, operations, observed per-operation tuples, observed wire log *)
Definition check_case (c : list (N * N * fault) * list op *
                           list (N * list N * N * bool * N * N) *
                           list (N * N * N * N * N * list N)) : bool :=
  let '(sch, ops, obs, wobs) := c in
  let '(mo, mw) := run_obs true true (sched_of sch) init ops in
  all2 obs_eqb mo obs && all2 wobs_eqb (strip_before mw) (strip_before wobs).

(* Environment(...) with a fault on the first handshake: observed (code, crashed flag of the
   helper object, zombies, open pipe ends) *)
Definition check_start (c : list (N * N * fault) * (N * N * N)) : bool :=
  let '(sch, (code, z, p)) := c in
  match start_env true (sched_of sch) with
  | (inl s, h, _) => N.eqb code 0 && N.eqb z (N.of_nat (zombies s)) && N.eqb p (N.of_nat (open_pipes s))
  | (inr e, h, _) => N.eqb code (exc_code e) && N.eqb z (if is_zombie h then 1 else 0) &&
                     N.eqb p (if h_reaped h then 0 else 3)
  end.
