(* C05: rename = splice at exactly the reference leaves (jedi/api/refactoring/__init__.py:rename
   renders {leaf -> prefix + new_name} through parso's RefactoringNormalizer), renaming a
   variable of the C03 scope-tree language, and the candidate-merging loop of
   jedi/inference/references.py:find_references.  Definitions only. *)
From JV Require Export Base.Str Model.C03_Resolve.

(* ---------- text level ---------- *)
(* a file as its leaves: prefix (whitespace/comments before the token), token text, and whether
   the token is one of the reported references *)
Record leaf := { l_prefix : str; l_value : str; l_sel : bool }.

Definition code_of (ls : list leaf) : str := flat_map (fun l => l_prefix l ++ l_value l) ls.

Definition rename_leaf (new : str) (l : leaf) : leaf :=
  if l_sel l then {| l_prefix := l_prefix l; l_value := new; l_sel := true |} else l.
Definition rename_text (new : str) (ls : list leaf) : str := code_of (map (rename_leaf new) ls).

(* ---------- scope-tree level ---------- *)
(* rename variable (x, scope depth dV) to y in a chain: in the frame at depth dV every binding of
   x, and in every frame every use of x that Python resolves to depth dV *)
Definition set_name (o : occ) (y : N) : occ := {| o_id := o_id o; o_name := y; o_role := o_role o |}.

Definition should_rename (x : N) (dV : nat) (c : chain) (o : occ) : bool :=
  N.eqb (o_name o) x &&
  match o_role o with
  | Bind => match bind_scope c o with Some d => Nat.eqb d dV | None => false end
  | Use => match py_scope c o with Some d => Nat.eqb d dV | None => false end
  | _ => false
  end.

Definition ren_occ (x y : N) (dV : nat) (c : chain) (o : occ) : occ :=
  if should_rename x dV c o then set_name o y else o.

Definition ren_frame (x y : N) (dV : nat) (c : chain) (f : frame) : frame :=
  {| f_kind := f_kind f; f_sid := f_sid f; f_occs := map (ren_occ x y dV c) (f_occs f) |}.

Fixpoint ren_chain (x y : N) (dV : nat) (c : chain) : chain :=
  match c with
  | [] => []
  | f :: rest => ren_frame x y dV c f :: ren_chain x y dV rest
  end.

Definition fresh (y : N) (c : chain) : bool :=
  forallb (fun f => forallb (fun o => negb (N.eqb (o_name o) y)) (f_occs f)) c.

(* ---------- the merging loop of find_references ---------- *)
(* names are numbers; `cands` are, in scan order, the name sets _find_names returns for each
   same-spelled token; `parked` maps a name to the sets that mention it and did not match yet *)
Fixpoint memN (a : N) (l : list N) : bool :=
  match l with [] => false | b :: r => N.eqb a b || memN a r end.
Definition inter (a b : list N) : bool := existsb (fun x => memN x b) a.
Fixpoint union (a b : list N) : list N :=
  match a with [] => b | x :: r => if memN x b then union r b else x :: union r b end.

Definition parked_for (t : N) (parked : list (N * list N)) : list N :=
  flat_map (fun e => if N.eqb (fst e) t then snd e else []) parked.
Definition drop_parked (ts : list N) (parked : list (N * list N)) : list (N * list N) :=
  filter (fun e => negb (memN (fst e) ts)) parked.

Fixpoint merge_loop (cands : list (list N)) (found : list N) (parked : list (N * list N)) : list N :=
  match cands with
  | [] => found
  | new :: rest =>
      if inter new found then
        let found1 := union new found in
        let found2 := fold_left (fun acc t => union (parked_for t parked) acc) new found1 in
        merge_loop rest found2 (drop_parked new parked)
      else
        merge_loop rest found (map (fun t => (t, new)) new ++ parked)
  end.

Definition find_refs (found0 : list N) (cands : list (list N)) : list N := merge_loop cands found0 [].

(* ---------- evaluation helpers for the correspondence check ---------- *)
(* the variable an occurrence belongs to: (label+1 of the owning scope), 0 = none *)
Definition owner_sid (c : chain) (o : occ) : N :=
  match o_role o with
  | Use => match py_scope c o with Some d => sid_at c d | None => 0%N end
  | Bind => match bind_scope c o with Some d => sid_at c d | None => 0%N end
  | DeclG => sid_at c 1
  | DeclN => match c with
             | _ :: rest => match efb_nonlocal (o_name o) rest with Some d => sid_at c d | None => 0%N end
             | [] => 0%N
             end
  end.

(* ids of all occurrences of the same identifier that belong to the same variable *)
Definition refs_ids (p : program) (id : N) : list N :=
  let all := occs_of p in
  match find_occ id all with
  | None => []
  | Some (o, c) =>
      let w := owner_sid c o in
      map (fun oc => o_id (fst oc))
          (filter (fun oc => N.eqb (o_name (fst oc)) (o_name o) && N.eqb (owner_sid (snd oc) (fst oc)) w) all)
  end.

(* are all uses of this identifier inside the fragment of theorem C03_goto_in_python_scope,
   and no global/nonlocal declaration mentions it *)
Definition name_in_fragment (p : program) (x : N) : bool :=
  forallb (fun oc => negb (N.eqb (o_name (fst oc)) x) ||
                     match o_role (fst oc) with
                     | Use => in_fragment (snd oc) (fst oc)
                     | Bind => true
                     | _ => false
                     end) (occs_of p).
