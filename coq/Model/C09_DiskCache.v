(* C09: the cache-validation state machine between a project on disk and jedi's answers.

   Transcribed mechanisms
     parso/cache.py  load_module            in-memory parser cache; hit iff  p_time <= change_time
                     _load_from_file_system pickle; outdated iff  p_time > mtime(pickle file), else the
                                            pickled item (with ITS recorded change_time) is trusted
                     try_to_save_module     after a parse: memory entry (p_time, tree) + pickle written "now"
     parso/grammar.py Grammar._parse        cache=True, diff_cache=True: on a memory miss with an entry
                                            present, equal lines -> the old entry is returned and kept
                                            (its change_time is NOT advanced); otherwise re-parse and save
     importlib FileFinder.find_spec         directory listing refilled iff the directory mtime differs from
                                            the remembered one; a listed name is then confirmed by a direct
                                            stat (package: name/__init__.py, module: name.py, else namespace)
     jedi/inference/imports.py              import_module_by_names walks the dotted name; the helper process
                                            (get_module_info/_find_module) owns the finders; _load_python_module
                                            parses with cache=True; ModuleCache lives on the per-Script state
     jedi/inference/gradual/typeshed.py     stub next to the module (name.pyi / name/__init__.pyi), read
                                            directly (no listing), parsed through the same parser cache
   Every timestamp is an explicit parameter.  Paths are (directory, name, extension) with numeric
   names; contents are numeric codes.  Definitions only; everything computes. *)
From Coq Require Export List NArith Bool Lia.
Export ListNotations.

Definition name := N.
Definition time := N.
Definition content := N.
Definition pid := N.
Definition dir := list name.          (* components below the project root; [] is the root *)
Inductive ext := Py | Pyi.
Definition key : Type := dir * name * ext.
Definition init_name : name := 0%N.   (* __init__ *)

Fixpoint dir_eqb (a b : dir) : bool :=
  match a, b with
  | [], [] => true
  | x :: a', y :: b' => N.eqb x y && dir_eqb a' b'
  | _, _ => false
  end.
Definition ext_eqb (a b : ext) : bool :=
  match a, b with Py, Py => true | Pyi, Pyi => true | _, _ => false end.
Definition key_eqb (a b : key) : bool :=
  let '(d1, n1, e1) := a in let '(d2, n2, e2) := b in
  dir_eqb d1 d2 && N.eqb n1 n2 && ext_eqb e1 e2.
Fixpoint is_prefix (p d : dir) : bool :=
  match p with
  | [] => true
  | x :: p' => match d with [] => false | y :: d' => N.eqb x y && is_prefix p' d' end
  end.
Definition is_some {A} (o : option A) : bool := match o with Some _ => true | None => false end.

(* ------------------------------------------------------------------ file system *)
Record fsT := mkfs { files : key -> option (time * content); dirs : dir -> option time }.

Definition upd_key {V} (m : key -> V) (k : key) (v : V) : key -> V :=
  fun k' => if key_eqb k k' then v else m k'.
Definition upd_dir {V} (m : dir -> V) (d : dir) (v : V) : dir -> V :=
  fun d' => if dir_eqb d d' then v else m d'.
Definition upd_pid {V} (m : pid -> V) (p : pid) (v : V) : pid -> V :=
  fun p' => if N.eqb p p' then v else m p'.

Inductive op :=
| OWrite (k : key) (c : content) (tf td : time)   (* (over)write d/n.e; a NEW entry gives the directory mtime td *)
| ODelete (k : key) (td : time)
| OMkDir (d : dir) (n : name) (ts td : time)      (* new directory d/n with mtime ts; d gets td *)
| ORmDir (d : dir) (n : name) (td : time)         (* remove d/n and everything below *)
| ONewProc (p : pid)                              (* process p (and its helper) is replaced by a new one *)
| OQuery (p : pid) (tq : time) (chs : list (list name)).
      (* one Script in process p importing the dotted names chs; pickles it writes get mtime tq *)

Definition touch_dir (ds : dir -> option time) (d : dir) (td : time) : dir -> option time :=
  match ds d with Some _ => upd_dir ds d (Some td) | None => ds end.

Definition fs_apply (fs : fsT) (o : op) : fsT :=
  match o with
  | OWrite (d, n, e) c tf td =>
      match dirs fs d with
      | None => fs
      | Some _ =>
          mkfs (upd_key (files fs) (d, n, e) (Some (tf, c)))
               (match files fs (d, n, e) with Some _ => dirs fs | None => upd_dir (dirs fs) d (Some td) end)
      end
  | ODelete (d, n, e) td =>
      match files fs (d, n, e) with
      | None => fs
      | Some _ => mkfs (upd_key (files fs) (d, n, e) None) (touch_dir (dirs fs) d td)
      end
  | OMkDir d n ts td =>
      match dirs fs d, dirs fs (d ++ [n]) with
      | Some _, None => mkfs (files fs) (upd_dir (upd_dir (dirs fs) d (Some td)) (d ++ [n]) (Some ts))
      | _, _ => fs
      end
  | ORmDir d n td =>
      match dirs fs (d ++ [n]) with
      | None => fs
      | Some _ =>
          mkfs (fun k => let '(kd, _, _) := k in if is_prefix (d ++ [n]) kd then None else files fs k)
               (fun d' => if is_prefix (d ++ [n]) d' then None else touch_dir (dirs fs) d td d')
      end
  | ONewProc _ => fs
  | OQuery _ _ _ => fs
  end.

(* ------------------------------------------------------------------ caches *)
(* what a FileFinder remembers of one directory *)
Record listing := mklisting { l_time : option time; l_file : name -> ext -> bool; l_dir : name -> bool }.

Definition empty_listing : listing := mklisting None (fun _ _ => false) (fun _ => false).

(* os.listdir now (a directory that does not exist lists nothing and has no mtime) *)
Definition snapshot (fs : fsT) (d : dir) : listing :=
  match dirs fs d with
  | None => empty_listing
  | Some t => mklisting (Some t) (fun n e => is_some (files fs (d, n, e))) (fun n => is_some (dirs fs (d ++ [n])))
  end.

Record st := mkst {
  s_fs : fsT;
  s_pk : key -> option (time * (time * content));      (* pickle file: its mtime, the pickled (change_time, tree) *)
  s_mem : pid -> key -> option (time * content);       (* parso.cache.parser_cache of process p *)
  s_dc : pid -> dir -> option listing                  (* sys.path_importer_cache of p's helper *)
}.

Definition cold (fs : fsT) : st := mkst fs (fun _ => None) (fun _ _ => None) (fun _ _ => None).

Definition set_mem (s : st) (p : pid) (k : key) (v : time * content) : st :=
  mkst (s_fs s) (s_pk s) (upd_pid (s_mem s) p (upd_key (s_mem s p) k (Some v))) (s_dc s).
Definition set_pk (s : st) (k : key) (v : time * (time * content)) : st :=
  mkst (s_fs s) (upd_key (s_pk s) k (Some v)) (s_mem s) (s_dc s).
Definition set_dc (s : st) (p : pid) (d : dir) (l : listing) : st :=
  mkst (s_fs s) (s_pk s) (s_mem s) (upd_pid (s_dc s) p (upd_dir (s_dc s p) d (Some l))).

(* classifier flags (why an answer may be stale) *)
Definition flag := N.
Definition F_MEM : flag := 1%N.        (* memory hit: file mtime <= remembered change_time, content differs *)
Definition F_PK_OLD : flag := 2%N.     (* pickle trusted, file mtime <= the pickled change_time, content differs *)
Definition F_PK_BETWEEN : flag := 3%N. (* pickle trusted: pickled change_time < file mtime <= pickle mtime *)
Definition F_DIR : flag := 4%N.        (* listing kept because the directory mtime is unchanged; it changes the lookup *)

(* parse d/n.e through parso's caches, in process p; a pickle written now gets mtime tq *)
Definition load (p : pid) (tq : time) (k : key) (s : st) : option content * list flag * st :=
  match files (s_fs s) k with
  | None => (None, [], s)
  | Some (pt, c) =>
      let saved := set_pk (set_mem s p k (pt, c)) k (tq, (pt, c)) in
      match s_mem s p k with
      | Some (ct, cc) =>
          if N.leb pt ct then (Some cc, if N.eqb cc c then [] else [F_MEM], s)
          else if N.eqb cc c then (Some cc, [], s)          (* diff_cache: same lines, entry kept as it is *)
          else (Some c, [], saved)
      | None =>
          match s_pk s k with
          | Some (pkt, (ct, cc)) =>
              if N.ltb pkt pt then (Some c, [], saved)      (* "cache is outdated" *)
              else (Some cc,
                    if N.eqb cc c then [] else [if N.leb pt ct then F_PK_OLD else F_PK_BETWEEN],
                    set_mem s p k (ct, cc))
          | None => (Some c, [], saved)
          end
      end
  end.

Definition otime_eqb (a b : option time) : bool :=
  match a, b with
  | None, None => true
  | Some x, Some y => N.eqb x y
  | _, _ => false
  end.

(* FileFinder.find_spec, first part: refill iff the directory mtime differs *)
Definition refresh (p : pid) (d : dir) (s : st) : listing * st :=
  let cur := snapshot (s_fs s) d in
  match s_dc s p d with
  | Some l => if otime_eqb (l_time l) (l_time cur) then (l, s) else (cur, set_dc s p d cur)
  | None => (cur, set_dc s p d cur)
  end.

Inductive kind := KNone | KMod | KPkg | KNs.
Definition kind_eqb (a b : kind) : bool :=
  match a, b with
  | KNone, KNone => true | KMod, KMod => true | KPkg, KPkg => true | KNs, KNs => true
  | _, _ => false
  end.

(* FileFinder.find_spec, second part: listed names are confirmed by direct stats *)
Definition find (l : listing) (fs : fsT) (d : dir) (n : name) : kind :=
  let sub := d ++ [n] in
  let listed := l_dir l n && is_some (dirs fs sub) in
  if listed && is_some (files fs (sub, init_name, Py)) then KPkg
  else if l_file l n Py && is_some (files fs (d, n, Py)) then KMod
  else if listed then KNs else KNone.

Definition res : Type := kind * option content * option content.   (* what was found, python tree, stub tree *)
Definition none_res : res := (KNone, None, None).

Definition py_key (k : kind) (d : dir) (n : name) : option key :=
  match k with
  | KMod => Some (d, n, Py)
  | KPkg => Some (d ++ [n], init_name, Py)
  | _ => None
  end.
Definition stub_key (k : kind) (d : dir) (n : name) : key :=
  match k with
  | KMod | KNone => (d, n, Pyi)
  | KPkg | KNs => (d ++ [n], init_name, Pyi)
  end.

(* import_module for one component n below directory d *)
Definition step (p : pid) (tq : time) (d : dir) (n : name) (s : st) : res * list flag * st :=
  let '(l, s1) := refresh p d s in
  let k := find l (s_fs s1) d n in
  let fl0 := if kind_eqb k (find (snapshot (s_fs s1) d) (s_fs s1) d n) then [] else [F_DIR] in
  let '(py, fl1, s2) := match py_key k d n with
                        | Some pk => load p tq pk s1
                        | None => (None, [], s1)
                        end in
  let '(stb, fl2, s3) := load p tq (stub_key k d n) s2 in
  ((k, py, stb), fl0 ++ fl1 ++ fl2, s3).

Definition is_container (r : res) : bool :=
  match r with (KPkg, _, _) | (KNs, _, _) => true | _ => false end.

(* the per-Script ModuleCache: dotted prefix -> what import_module returned *)
Definition mcT := list (list name * (res * list flag)).
Fixpoint mc_get (mc : mcT) (ch : list name) : option (res * list flag) :=
  match mc with
  | [] => None
  | (c, v) :: r => if dir_eqb c ch then Some v else mc_get r ch
  end.

(* import_module_by_names for the dotted name pre ++ ch, the prefix pre being resolved to directory pre *)
Fixpoint import_from (p : pid) (tq : time) (pre ch : list name) (mc : mcT) (s : st)
  : res * list flag * mcT * st :=
  match ch with
  | [] => (none_res, [], mc, s)
  | n :: rest =>
      let '(r, fl, mc1, s1) :=
        match mc_get mc (pre ++ [n]) with
        | Some (r, fl) => (r, fl, mc, s)
        | None => let '(r, fl, s1) := step p tq pre n s in (r, fl, (pre ++ [n], (r, fl)) :: mc, s1)
        end in
      match rest with
      | [] => (r, fl, mc1, s1)
      | _ :: _ =>
          if is_container r
          then let '(r2, fl2, mc2, s2) := import_from p tq (pre ++ [n]) rest mc1 s1 in (r2, fl ++ fl2, mc2, s2)
          else (none_res, fl, mc1, s1)
      end
  end.

Fixpoint query_mc (p : pid) (tq : time) (chs : list (list name)) (mc : mcT) (s : st)
  : list (res * list flag) * mcT * st :=
  match chs with
  | [] => ([], mc, s)
  | ch :: r =>
      let '(x, fl, mc1, s1) := import_from p tq [] ch mc s in
      let '(out, mc2, s2) := query_mc p tq r mc1 s1 in
      ((x, fl) :: out, mc2, s2)
  end.

Definition with_fs (s : st) (fs : fsT) : st := mkst fs (s_pk s) (s_mem s) (s_dc s).
Definition new_proc (s : st) (p : pid) : st :=
  mkst (s_fs s) (s_pk s) (upd_pid (s_mem s) p (fun _ => None)) (upd_pid (s_dc s) p (fun _ => None)).

(* one history step; a Script starts with an empty module cache *)
Definition exec (s : st) (o : op) : st * list (res * list flag) :=
  match o with
  | ONewProc p => (new_proc s p, [])
  | OQuery p tq chs => let '(out, _, s1) := query_mc p tq chs [] s in (s1, out)
  | _ => (with_fs s (fs_apply (s_fs s) o), [])
  end.

Fixpoint run (s : st) (h : list op) : list (list (res * list flag)) :=
  match h with
  | [] => []
  | o :: r => let '(s1, out) := exec s o in out :: run s1 r
  end.

(* ------------------------------------------------------------------ specification: the current files *)
Definition content_of (fs : fsT) (k : key) : option content :=
  match files fs k with Some (_, c) => Some c | None => None end.

Definition fresh_step (fs : fsT) (d : dir) (n : name) : res :=
  let k := find (snapshot fs d) fs d n in
  (k, match py_key k d n with Some pk => content_of fs pk | None => None end, content_of fs (stub_key k d n)).

Fixpoint fresh_from (fs : fsT) (pre ch : list name) : res :=
  match ch with
  | [] => none_res
  | n :: rest =>
      let r := fresh_step fs pre n in
      match rest with
      | [] => r
      | _ :: _ => if is_container r then fresh_from fs (pre ++ [n]) rest else none_res
      end
  end.
Definition fresh_import (fs : fsT) (ch : list name) : res := fresh_from fs [] ch.

(* what every query of a history should answer: a function of the files at that moment only *)
Fixpoint spec_run (fs : fsT) (h : list op) : list (list (res * list flag)) :=
  match h with
  | [] => []
  | o :: r =>
      (match o with
       | OQuery _ _ chs => map (fun ch => (fresh_import fs ch, @nil flag)) chs
       | _ => []
       end) :: spec_run (fs_apply fs o) r
  end.

Definition init_fs (t0 : time) : fsT :=
  mkfs (fun _ => None) (fun d => match d with [] => Some t0 | _ => None end).
Definition init_st (t0 : time) : st := cold (init_fs t0).

(* strictly monotone time: every timestamp a mutation writes is larger than every timestamp
   present so far (files, directories, pickles); hw is the high-water mark *)
Fixpoint monotone (hw : time) (h : list op) : bool :=
  match h with
  | [] => true
  | o :: r =>
      match o with
      | OWrite _ _ tf td => N.ltb hw tf && N.ltb hw td && monotone (N.max tf td) r
      | ODelete _ td => N.ltb hw td && monotone td r
      | OMkDir _ _ ts td => N.ltb hw ts && N.ltb hw td && monotone (N.max ts td) r
      | ORmDir _ _ td => N.ltb hw td && monotone td r
      | ONewProc _ => monotone hw r
      | OQuery _ tq _ => monotone (N.max hw tq) r
      end
  end.

(* ------------------------------------------------------------------ invariants used in statements *)
Definition listing_agrees (l : listing) (fs : fsT) (d : dir) : Prop :=
  (forall n e, l_file l n e = l_file (snapshot fs d) n e) /\ (forall n, l_dir l n = l_dir (snapshot fs d) n).

(* every cache entry that the validation rules would accept describes the current file *)
Definition Valid (s : st) : Prop :=
  (forall p k ct cc pt c, s_mem s p k = Some (ct, cc) -> files (s_fs s) k = Some (pt, c) -> (pt <= ct)%N -> cc = c) /\
  (forall k pkt ct cc pt c, s_pk s k = Some (pkt, (ct, cc)) -> files (s_fs s) k = Some (pt, c) -> (pt <= pkt)%N -> cc = c) /\
  (forall p d l, s_dc s p d = Some l -> l_time l = dirs (s_fs s) d -> listing_agrees l (s_fs s) d) /\
  (forall p d l, s_dc s p d = Some l -> l_time l = None ->
     (forall n e, l_file l n e = false) /\ (forall n, l_dir l n = false)).

(* every timestamp in the state is at most hw *)
Definition Bounded (hw : time) (s : st) : Prop :=
  (forall k t c, files (s_fs s) k = Some (t, c) -> (t <= hw)%N) /\
  (forall d t, dirs (s_fs s) d = Some t -> (t <= hw)%N) /\
  (forall p k ct cc, s_mem s p k = Some (ct, cc) -> (ct <= hw)%N) /\
  (forall k pkt ct cc, s_pk s k = Some (pkt, (ct, cc)) -> (pkt <= hw)%N /\ (ct <= hw)%N) /\
  (forall p d l t, s_dc s p d = Some l -> l_time l = Some t -> (t <= hw)%N).

(* a module cache whose entries are what import_module would return for the current files *)
Definition mc_fresh (fs : fsT) (mc : mcT) : Prop :=
  forall pre n r fl, mc_get mc (pre ++ [n]) = Some (r, fl) -> r = fresh_step fs pre n /\ fl = [].

(* a jedi that kept ONE ModuleCache per process instead of one per Script *)
Fixpoint run_shared_mc (s : st) (mcs : pid -> mcT) (h : list op) : list (list (res * list flag)) :=
  match h with
  | [] => []
  | o :: r =>
      match o with
      | OQuery p tq chs =>
          let '(out, mc1, s1) := query_mc p tq chs (mcs p) s in
          out :: run_shared_mc s1 (upd_pid mcs p mc1) r
      | ONewProc p => [] :: run_shared_mc (new_proc s p) (upd_pid mcs p []) r
      | _ => [] :: run_shared_mc (with_fs s (fs_apply (s_fs s) o)) mcs r
      end
  end.

(* ------------------------------------------------------------------ what the API shows of an import *)
(* forms: 0  `import a.b` + completion after `a.b.`      -> (python content, stub content)
          1  `from a.b import *` + global completion     -> stub names if there is a stub, else python names
          2  `import a.b` + infer on the name            -> 0 nothing, 1 a/b.py, 2 a/b/__init__.py, 3 namespace,
                                                            4 a/b.pyi alone
          3  `from a.b import <marker of content arg>` + goto -> 1 iff the python tree seen is content arg *)
Definition ocode (o : option content) : N := match o with Some c => c | None => 0%N end.
Definition observe (form arg : N) (r : res) : N * N :=
  let '(k, py, stb) := r in
  match form with
  | 0%N => (ocode py, ocode stb)
  | 1%N => match stb with Some c => (0%N, c) | None => (ocode py, 0%N) end
  | 2%N => (match k, stb with
            | KNone, Some _ => 4%N
            | KNone, None => 0%N
            | KMod, _ => 1%N
            | KPkg, _ => 2%N
            | KNs, _ => 3%N
            end, 0%N)
  | _ => (match py with Some c => if N.eqb c arg then 1%N else 0%N | None => 0%N end, 0%N)
  end.

Definition pair_eqb (a b : N * N) : bool := N.eqb (fst a) (fst b) && N.eqb (snd a) (snd b).

(* a recorded query: per target (form, arg, observed, observed by the empty-cache oracle) *)
Definition probe : Type := N * N * (N * N) * (N * N).

Fixpoint check_probes (outs specs : list (res * list flag)) (ps : list probe) : bool :=
  match outs, specs, ps with
  | [], [], [] => true
  | (r, _) :: outs', (f, _) :: specs', (form, arg, obs, orc) :: ps' =>
      pair_eqb (observe form arg r) obs && pair_eqb (observe form arg f) orc && check_probes outs' specs' ps'
  | _, _, _ => false
  end.

Fixpoint check_outs (h : list op) (outs specs : list (list (res * list flag))) (exp : list (list probe)) : bool :=
  match h, outs, specs with
  | [], [], [] => match exp with [] => true | _ => false end
  | o :: h', out :: outs', spec :: specs' =>
      match o with
      | OQuery _ _ _ =>
          match exp with
          | ps :: exp' => check_probes out spec ps && check_outs h' outs' specs' exp'
          | [] => false
          end
      | _ => check_outs h' outs' specs' exp
      end
  | _, _, _ => false
  end.

(* correspondence check of one history: the model's stateful run predicts what the prescribed process
   showed, and the specification predicts what the fresh process with an empty cache showed *)
Definition check_case (c : time * list op * list (list probe)) : bool :=
  let '(t0, h, exp) := c in
  check_outs h (run (init_st t0) h) (spec_run (init_fs t0) h) exp.

(* per probe, in order: model observation (2), specification observation (2), flags as a bit mask *)
Fixpoint flag_mask (fl : list flag) : N :=
  match fl with [] => 0%N | f :: r => N.lor (N.shiftl 1%N f) (flag_mask r) end.

Fixpoint describe_probes (outs specs : list (res * list flag)) (ps : list probe) : list N :=
  match outs, specs, ps with
  | (r, fl) :: outs', (f, _) :: specs', (form, arg, _, _) :: ps' =>
      fst (observe form arg r) :: snd (observe form arg r) ::
      fst (observe form arg f) :: snd (observe form arg f) :: flag_mask fl ::
      describe_probes outs' specs' ps'
  | _, _, _ => []
  end.

Fixpoint describe_outs (h : list op) (outs specs : list (list (res * list flag))) (exp : list (list probe)) : list N :=
  match h, outs, specs with
  | o :: h', out :: outs', spec :: specs' =>
      match o with
      | OQuery _ _ _ =>
          match exp with
          | ps :: exp' => describe_probes out spec ps ++ describe_outs h' outs' specs' exp'
          | [] => []
          end
      | _ => describe_outs h' outs' specs' exp
      end
  | _, _, _ => []
  end.

Definition describe_case (c : time * list op * list (list probe)) : list N :=
  let '(t0, h, exp) := c in
  describe_outs h (run (init_st t0) h) (spec_run (init_fs t0) h) exp.
