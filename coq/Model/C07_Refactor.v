(* C07: refactoring results are self-consistent and touch nothing until applied.

   Transcriptions (definitions only, all computable):
     parso/normalizer.py      RefactoringNormalizer.visit / visit_leaf      -> refactor
     parso/tree.py            NodeOrLeaf.get_code                            -> get_code
     parso/utils.py           split_lines(keepends=True)                     -> split_lines
     jedi/api/refactoring     ChangedFile.get_diff (preamble)                -> preamble
                              Refactoring.get_changed_files.calculate_to_path-> calc_to_path (component-wise; calc_to_path_str = the rule before fix 7b0370f)
                              _calculate_rename                              -> calculate_rename
                              Refactoring.get_changed_files                  -> get_changed_files
                              ChangedFile.apply / Refactoring.apply          -> apply_fs, apply_refactoring
   Specification side (not a transcription; difflib is not modelled):
     apply_udiff  -- an applier for unified diffs, with the declarative
                     semantics Transforms (Proofs/C07_Proofs.v relates the two). *)
From JV Require Export Base.Str.

(* ------------------------------------------------------------------ trees *)

(* A parso tree reduced to what the refactorer reads: a leaf has a prefix
   (whitespace, comments, line continuations, BOM) and a value. *)
Inductive tree :=
| Leaf (prefix value : str)
| Node (children : list tree).

Fixpoint get_code (t : tree) : str :=
  match t with
  | Leaf p v => p ++ v
  | Node cs => (fix go (cs : list tree) : str :=
                  match cs with [] => [] | c :: r => get_code c ++ go r end) cs
  end.

Fixpoint get_code_list (cs : list tree) : str :=
  match cs with [] => [] | c :: r => get_code c ++ get_code_list r end.

(* node_to_str_map: keys are nodes of the tree, given by their path from the
   root (child indices).  A Python dict has at most one entry per key; lookup
   takes the first. *)
Definition kpath := list nat.
Definition nmap := list (kpath * str).

(* the entry for the root itself *)
Fixpoint root_of (m : nmap) : option str :=
  match m with
  | [] => None
  | ([], s) :: _ => Some s
  | (_ :: _, _) :: r => root_of r
  end.

(* the map seen from child i *)
Fixpoint sub (i : nat) (m : nmap) : nmap :=
  match m with
  | [] => []
  | ([], _) :: r => sub i r
  | (j :: p, s) :: r => if Nat.eqb i j then (p, s) :: sub i r else sub i r
  end.

(* RefactoringNormalizer: visit(node) returns the mapped string when the node
   is a key (leaf or inner node alike), else the leaf's prefix+value or the
   concatenation of the visited children. *)
Fixpoint refactor (t : tree) (m : nmap) {struct t} : str :=
  match root_of m with
  | Some s => s
  | None =>
      match t with
      | Leaf p v => p ++ v
      | Node cs => (fix go (cs : list tree) (i : nat) {struct cs} : str :=
                      match cs with
                      | [] => []
                      | c :: r => refactor c (sub i m) ++ go r (S i)
                      end) cs 0
      end
  end.

Fixpoint refactor_list (cs : list tree) (i : nat) (m : nmap) : str :=
  match cs with
  | [] => []
  | c :: r => refactor c (sub i m) ++ refactor_list r (S i) m
  end.

(* the sub-tree at a path *)
Fixpoint subtree (t : tree) (k : kpath) : option tree :=
  match k with
  | [] => Some t
  | i :: k' => match t with
               | Leaf _ _ => None
               | Node cs => match nth_error cs i with
                            | Some c => subtree c k'
                            | None => None
                            end
               end
  end.

Fixpoint kpath_eqb (a b : kpath) : bool :=
  match a, b with
  | [], [] => true
  | x :: a', y :: b' => Nat.eqb x y && kpath_eqb a' b'
  | _, _ => false
  end.

Fixpoint lookup (m : nmap) (k : kpath) : option str :=
  match m with
  | [] => None
  | (k', s) :: r => if kpath_eqb k' k then Some s else lookup r k
  end.

(* a is a proper prefix of b *)
Fixpoint proper_prefix (a b : kpath) : bool :=
  match a, b with
  | [], _ :: _ => true
  | x :: a', y :: b' => Nat.eqb x y && proper_prefix a' b'
  | _, _ => false
  end.

(* The decomposition the property talks about: the output of the refactorer is
   the original text in which exactly the outermost mapped nodes are replaced. *)
Inductive piece :=
| Keep (s : str)                          (* emitted verbatim *)
| Repl (k : kpath) (orig new : str).      (* node k: its code `orig` replaced by `new` *)

Fixpoint pieces (t : tree) (m : nmap) (here : kpath) {struct t} : list piece :=
  match root_of m with
  | Some s => [Repl (rev here) (get_code t) s]
  | None =>
      match t with
      | Leaf p v => [Keep (p ++ v)]
      | Node cs => (fix go (cs : list tree) (i : nat) {struct cs} : list piece :=
                      match cs with
                      | [] => []
                      | c :: r => pieces c (sub i m) (i :: here) ++ go r (S i)
                      end) cs 0
      end
  end.

Fixpoint pieces_list (cs : list tree) (i : nat) (m : nmap) (here : kpath) : list piece :=
  match cs with
  | [] => []
  | c :: r => pieces c (sub i m) (i :: here) ++ pieces_list r (S i) m here
  end.

Definition orig_of_piece (p : piece) : str := match p with Keep s => s | Repl _ o _ => o end.
Definition new_of_piece (p : piece) : str := match p with Keep s => s | Repl _ _ n => n end.
Definition orig_of (ps : list piece) : str := concat (map orig_of_piece ps).
Definition new_of (ps : list piece) : str := concat (map new_of_piece ps).
Definition is_repl (p : piece) : bool := match p with Repl _ _ _ => true | Keep _ => false end.

(* ------------------------------------------------------------------ lines *)

(* parso.split_lines(s, keepends=True): a line ends after "\n", "\r\n" or a
   lone "\r" (form feed, VT, FS/GS/RS, NEL, LS, PS do NOT end a line); the last
   element is the unterminated rest and may be empty. *)
Fixpoint split_aux (cur : str) (s : str) {struct s} : list str :=
  match s with
  | [] => [rev cur]
  | c :: r =>
      if N.eqb c 10 then rev (c :: cur) :: split_aux [] r
      else if N.eqb c 13 then
        match r with
        | d :: r' => if N.eqb d 10 then rev (d :: c :: cur) :: split_aux [] r'
                     else rev (c :: cur) :: split_aux [] r
        | [] => rev (c :: cur) :: split_aux [] r
        end
      else split_aux (c :: cur) r
  end.

Definition split_lines (s : str) : list str := split_aux [] s.

(* ChangedFile.get_diff: `if lines[-1] != '': lines[-1] += '\n'` *)
Fixpoint fix_last (ls : list str) : list str :=
  match ls with
  | [] => []
  | [l] => match l with [] => [l] | _ => [l ++ [10%N]] end
  | l :: r => l :: fix_last r
  end.

Definition preamble (code : str) : list str := fix_last (split_lines code).

(* ----------------------------------------------------------- unified diffs *)

Inductive hline :=
| HCtx (l : str)     (* ' ' line: present in old and new *)
| HDel (l : str)     (* '-' line: present in old only *)
| HAdd (l : str).    (* '+' line: present in new only *)

(* @@ -os,ol +ns,nl @@ ; a missing ",len" means len = 1 (done by the parser) *)
Record hunk := mkHunk { h_os : nat; h_ol : nat; h_ns : nat; h_nl : nat; h_body : list hline }.

Fixpoint count_old (b : list hline) : nat :=
  match b with
  | [] => 0
  | HAdd _ :: b' => count_old b'
  | _ :: b' => S (count_old b')
  end.

Fixpoint count_new (b : list hline) : nat :=
  match b with
  | [] => 0
  | HDel _ :: b' => count_new b'
  | _ :: b' => S (count_new b')
  end.

(* Run a hunk body against the old lines at the cursor: context and deleted
   lines must be equal to the old lines, or the hunk is rejected.
   Result: (the new segment, the old lines after the hunk). *)
Fixpoint run_body (b : list hline) (old : list str) : option (list str * list str) :=
  match b with
  | [] => Some ([], old)
  | HCtx l :: b' =>
      match old with
      | o :: old' => if str_eqb l o
                     then match run_body b' old' with
                          | Some (n, r) => Some (l :: n, r)
                          | None => None
                          end
                     else None
      | [] => None
      end
  | HDel l :: b' =>
      match old with
      | o :: old' => if str_eqb l o then run_body b' old' else None
      | [] => None
      end
  | HAdd l :: b' =>
      match run_body b' old with
      | Some (n, r) => Some (l :: n, r)
      | None => None
      end
  end.

(* 0-based index of the first line of a range "start,len" (for len = 0 the
   unified format prints the line before the insertion point) *)
Definition start0 (s l : nat) : nat := if Nat.eqb l 0 then s else s - 1.

Definition hunk_wf (h : hunk) : bool :=
  Nat.eqb (count_old (h_body h)) (h_ol h) && Nat.eqb (count_new (h_body h)) (h_nl h)
  && (Nat.eqb (h_ol h) 0 || Nat.leb 1 (h_os h))
  && (Nat.eqb (h_nl h) 0 || Nat.leb 1 (h_ns h)).

(* opos / npos: how many old / new lines lie before `old` *)
Fixpoint apply_from (opos npos : nat) (hs : list hunk) (old : list str) : option (list str) :=
  match hs with
  | [] => Some old
  | h :: hs' =>
      if hunk_wf h then
        let s0 := start0 (h_os h) (h_ol h) in
        if Nat.ltb s0 opos then None else
        let k := s0 - opos in
        if Nat.ltb (length old) k then None else
        if negb (Nat.eqb (start0 (h_ns h) (h_nl h)) (npos + k)) then None else
        match run_body (h_body h) (skipn k old) with
        | None => None
        | Some (nseg, rest) =>
            match apply_from (s0 + h_ol h) (npos + k + h_nl h) hs' rest with
            | None => None
            | Some out => Some (firstn k old ++ nseg ++ out)
            end
        end
      else None
  end.

Definition apply_udiff (old : list str) (hs : list hunk) : option (list str) :=
  apply_from 0 0 hs old.

(* Declarative semantics of a unified diff (the specification apply_udiff is
   proved sound and complete for).  A hunk body relates a segment of the old
   file with a segment of the new file line by line ... *)
Inductive HunkRel : list hline -> list str -> list str -> Prop :=
| HR_nil : HunkRel [] [] []
| HR_ctx : forall l b o n, HunkRel b o n -> HunkRel (HCtx l :: b) (l :: o) (l :: n)
| HR_del : forall l b o n, HunkRel b o n -> HunkRel (HDel l :: b) (l :: o) n
| HR_add : forall l b o n, HunkRel b o n -> HunkRel (HAdd l :: b) o (l :: n).

(* ... and a list of hunks transforms old into new when the files are
   pre ++ oseg ++ orest / pre ++ nseg ++ nrest: `pre` is copied unchanged and
   ends exactly where the header says the hunk starts (in the old and in the
   new numbering), the segment lengths are the ones in the header, and the
   remaining hunks transform the rests.  opos/npos count the lines already
   consumed/produced. *)
Inductive Transforms : nat -> nat -> list hunk -> list str -> list str -> Prop :=
| T_done : forall opos npos rest, Transforms opos npos [] rest rest
| T_hunk : forall opos npos h hs pre oseg nseg orest nrest,
    (h_ol h = 0 \/ 1 <= h_os h) -> (h_nl h = 0 \/ 1 <= h_ns h) ->
    opos + length pre = start0 (h_os h) (h_ol h) ->
    npos + length pre = start0 (h_ns h) (h_nl h) ->
    HunkRel (h_body h) oseg nseg ->
    length oseg = h_ol h -> length nseg = h_nl h ->
    Transforms (opos + length pre + length oseg) (npos + length pre + length nseg) hs orest nrest ->
    Transforms opos npos (h :: hs) (pre ++ oseg ++ orest) (pre ++ nseg ++ nrest).

Fixpoint lines_eqb (a b : list str) : bool :=
  match a, b with
  | [], [] => true
  | x :: a', y :: b' => str_eqb x y && lines_eqb a' b'
  | _, _ => false
  end.

(* the per-diff check the harness runs on every ChangedFile:
   the hunks parsed from get_diff() turn preamble(old code) into preamble(get_new_code()) *)
Definition diff_ok (old_code new_code : str) (hs : list hunk) : bool :=
  match apply_udiff (preamble old_code) hs with
  | Some out => lines_eqb out (preamble new_code)
  | None => false
  end.

(* ------------------------------------------------------------------ paths *)

(* The rule calculate_to_path used BEFORE fix 7b0370f: a *string* prefix rewrite, applied
   for every rename pair in turn.  Kept only to state what was wrong with it
   (C07_old_string_prefix_rule_refuted); the current rule is calc_to_path below. *)
Fixpoint calc_to_path_str (p : str) (renames : list (str * str)) : str :=
  match renames with
  | [] => p
  | (f, t) :: r =>
      if starts_with p f then calc_to_path_str (t ++ skipn (length f) p) r
      else calc_to_path_str p r
  end.

(* paths as component lists; str(Path) of an absolute path *)
Definition cpath := list str.

Fixpoint render (p : cpath) : str :=
  match p with
  | [] => []
  | c :: r => (47%N :: c) ++ render r
  end.

(* PurePath.suffix of a file name: from the last '.', unless that dot is the
   first or the last character *)
Fixpoint rfind_dot (s : str) (i : nat) (best : option nat) : option nat :=
  match s with
  | [] => best
  | c :: r => rfind_dot r (S i) (if N.eqb c 46 then Some i else best)
  end.

Definition suffix (name : str) : str :=
  match rfind_dot name 0 None with
  | Some i => if Nat.ltb 0 i && Nat.ltb (S i) (length name) then skipn i name else []
  | None => []
  end.

Definition init_py : str := [95;95;105;110;105;116;95;95;46;112;121]%N.
Definition init_pyi : str := init_py ++ [105%N].

(* _calculate_rename(path, new_name) on a path given as parent components + file name *)
Definition calculate_rename (dir : cpath) (name : str) (new_name : str) : cpath * cpath :=
  if str_eqb name init_py || str_eqb name init_pyi
  then (dir, removelast dir ++ [new_name])
  else (dir ++ [name], dir ++ [new_name ++ suffix name]).

(* ------------------------------------------------------------ file system *)

(* files only (directories are implied by the paths); contents are abstract ids *)
Definition fs := list (cpath * N).

Fixpoint cpath_eqb (a b : cpath) : bool :=
  match a, b with
  | [], [] => true
  | x :: a', y :: b' => str_eqb x y && cpath_eqb a' b'
  | _, _ => false
  end.

Fixpoint is_prefix (a b : cpath) : bool :=
  match a, b with
  | [], _ => true
  | x :: a', y :: b' => str_eqb x y && is_prefix a' b'
  | _ :: _, [] => false
  end.

(* open(path, 'w').write(content) *)
Fixpoint write (p : cpath) (c : N) (s : fs) : fs :=
  match s with
  | [] => [(p, c)]
  | (q, d) :: r => if cpath_eqb q p then (q, c) :: r else (q, d) :: write p c r
  end.

(* where a path ends up after Path(from).rename(to) of a file or directory *)
Definition move_path (f t p : cpath) : cpath :=
  if is_prefix f p then t ++ skipn (length f) p else p.

(* Refactoring.get_changed_files.calculate_to_path (as of fix 7b0370f), for every rename pair
   in turn:  if p == from_ or from_ in p.parents: p = to.joinpath(p.relative_to(from_))
   -- a component-wise prefix test *)
Fixpoint calc_to_path (p : cpath) (renames : list (cpath * cpath)) : cpath :=
  match renames with
  | [] => p
  | (f, t) :: r =>
      if is_prefix f p then calc_to_path (t ++ skipn (length f) p) r
      else calc_to_path p r
  end.

(* Refactoring.get_changed_files (the order of the dict is not modelled); None = a Script without path *)
Definition get_changed_files (changes : list (option cpath * nmap)) (renames : list (cpath * cpath))
  : list (option cpath * option cpath * nmap) :=
  map (fun pm => (fst pm,
                  match fst pm with Some p => Some (calc_to_path p renames) | None => None end,
                  snd pm)) changes.

Definition move (f t : cpath) (s : fs) : fs := map (fun e => (move_path f t (fst e), snd e)) s.

(* Refactoring.apply: write every changed file at its from_path, then rename *)
Definition apply_fs (changed : list (cpath * N)) (renames : list (cpath * cpath)) (s : fs) : fs :=
  fold_left (fun s ft => move (fst ft) (snd ft) s) renames
            (fold_left (fun s pc => write (fst pc) (snd pc) s) changed s).

(* Refactoring.apply (as of fix f514566): `if None in changed_files: raise RefactoringError`
   BEFORE anything is written; None = the request is refused and there is no new state *)
Fixpoint strip_paths (changed : list (option cpath * N)) : option (list (cpath * N)) :=
  match changed with
  | [] => Some []
  | (None, _) :: _ => None
  | (Some p, c) :: r => match strip_paths r with Some r' => Some ((p, c) :: r') | None => None end
  end.

Definition apply_refactoring (changed : list (option cpath * N)) (renames : list (cpath * cpath)) (s : fs)
  : option fs :=
  match strip_paths changed with
  | Some ch => Some (apply_fs ch renames s)
  | None => None
  end.

Definition final_path (renames : list (cpath * cpath)) (p : cpath) : cpath :=
  fold_left (fun p ft => move_path (fst ft) (snd ft) p) renames p.

Fixpoint new_content (changed : list (cpath * N)) (p : cpath) (c : N) : N :=
  match changed with
  | [] => c
  | (q, d) :: r => new_content r p (if cpath_eqb q p then d else c)
  end.

Fixpoint fs_lookup (s : fs) (p : cpath) : option N :=
  match s with
  | [] => None
  | (q, c) :: r => if cpath_eqb q p then Some c else fs_lookup r p
  end.

Fixpoint fs_eqb (a b : fs) : bool :=
  match a, b with
  | [], [] => true
  | (p, c) :: a', (q, d) :: b' => cpath_eqb p q && N.eqb c d && fs_eqb a' b'
  | _, _ => false
  end.
