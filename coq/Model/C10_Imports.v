(* C10 — import statements resolve to what Python's import system would load.

   Definitions only; everything computes.  Two sides over one file-system model:

   * the PYTHON side works on dotted-name STRINGS the way importlib does:
     `_resolve_name` (rsplit on '.'), `_find_and_load` (rpartition, import the parent
     first, search the parent's __path__), PathFinder/FileFinder precedence (`find_in`),
     IMPORT_FROM ("attribute first, then sub-module", where a sub-module that is already
     imported IS an attribute).
   * the JEDI side transcribes jedi/inference/imports.py: Importer.__init__ (relative
     level rewriting on the tuple py__package__(), the directory heuristic beyond the
     top-level package), Importer.follow, import_module_by_names / import_module (with
     the module cache that Script seeds with the analysed file), infer_import /
     goto_import (attribute of the package, sub_modules_dict, fallback import), star
     imports, and jedi/inference/sys_path.py:transform_path_to_dotted (string level).  *)
From JV Require Import Base.Str.

Definition path := list str.          (* absolute path, one element per component *)

Definition c_slash : N := 47%N.
Definition c_dot : N := 46%N.
Definition s_py : str := [46;112;121]%N.                         (* ".py" *)
Definition s_pyc : str := [46;112;121;99]%N.                     (* ".pyc" *)
Definition s_pyi : str := [46;112;121;105]%N.                    (* ".pyi" *)
Definition s_so : str := [46;115;111]%N.                         (* ".so" *)
Definition s_init : str := [95;95;105;110;105;116;95;95]%N.      (* "__init__" *)
Definition s_init_py : str := s_init ++ s_py.
Definition s_main : str := [95;95;109;97;105;110;95;95]%N.       (* "__main__" *)

(* ------------------------------------------------------------------ file system *)
Inductive node :=
| File (attrs : list (str * bool))        (* names bound at module level; true = def *)
| Dir (children : list (str * node)).

Fixpoint assoc {A : Type} (k : str) (l : list (str * A)) : option A :=
  match l with
  | [] => None
  | (k', v) :: r => if str_eqb k k' then Some v else assoc k r
  end.

Fixpoint lookup (fs : node) (p : path) : option node :=
  match p with
  | [] => Some fs
  | c :: p' => match fs with
               | Dir ch => match assoc c ch with Some n => lookup n p' | None => None end
               | File _ => None
               end
  end.

Definition is_file (o : option node) : bool := match o with Some (File _) => true | _ => false end.
Definition is_dir (o : option node) : bool := match o with Some (Dir _) => true | _ => false end.

Definition file_attrs (fs : node) (f : path) : list (str * bool) :=
  match lookup fs f with Some (File a) => a | _ => [] end.

(* ---------------------------------------------- importlib: FileFinder / PathFinder *)
Inductive found :=
| FMod (file : path)          (* module file  dir/x.py *)
| FPkg (dir : path)           (* regular package dir/x with dir/x/__init__.py *)
| FNs (dirs : list path)      (* namespace package: its portions, in sys.path order *)
| FNone.

Inductive one := OReg (f : found) | OPortion (d : path) | ONothing.

(* FileFinder.find_spec in ONE directory: package (dir with __init__.py) beats module file,
   module file beats a bare directory (namespace portion). *)
Definition find_one (fs : node) (d : path) (n : str) : one :=
  match lookup fs d with
  | Some (Dir ch) =>
      let sub := assoc n ch in
      let has_init := match sub with
                      | Some (Dir ch2) => is_file (assoc s_init_py ch2)
                      | _ => false
                      end in
      if has_init then OReg (FPkg (d ++ [n]))
      else if is_file (assoc (n ++ s_py) ch) then OReg (FMod (d ++ [n ++ s_py]))
      else if is_dir sub then OPortion (d ++ [n])
      else ONothing
  | _ => ONothing
  end.

(* PathFinder._get_spec: entries in order; the first real spec wins; namespace portions
   accumulate until then and are used only if nothing real is found in ANY entry. *)
Fixpoint find_in (fs : node) (dirs : list path) (n : str) (acc : list path) : found :=
  match dirs with
  | [] => match acc with [] => FNone | _ => FNs acc end
  | d :: ds => match find_one fs d n with
               | OReg f => f
               | OPortion p => find_in fs ds n (acc ++ [p])
               | ONothing => find_in fs ds n acc
               end
  end.

Definition search_path (f : found) : option (list path) :=
  match f with
  | FPkg d => Some [d]
  | FNs ds => Some ds
  | _ => None
  end.

(* ------------------------------------------------------------ dotted-name strings *)
Fixpoint join_dot (l : list str) : str :=
  match l with
  | [] => []
  | x :: r => match r with [] => x | _ => x ++ c_dot :: join_dot r end
  end.

(* str.split(c) *)
Fixpoint split_on (c : N) (s : str) : list str :=
  match s with
  | [] => [[]]
  | x :: s' => let r := split_on c s' in
               if N.eqb x c then [] :: r
               else match r with h :: t => (x :: h) :: t | [] => [[x]] end
  end.

(* str.rpartition('.') when a dot occurs: (before the last dot, after it) *)
Fixpoint rpart (s : str) : option (str * str) :=
  match s with
  | [] => None
  | c :: s' => match rpart s' with
               | Some (a, b) => Some (c :: a, b)
               | None => if N.eqb c c_dot then Some ([], s') else None
               end
  end.

(* str.rsplit('.', k) *)
Fixpoint rsplit_k (s : str) (k : nat) : list str :=
  match k with
  | O => [s]
  | S k' => match rpart s with
            | None => [s]
            | Some (a, b) => rsplit_k a k' ++ [b]
            end
  end.

(* importlib._bootstrap._resolve_name (+ the "no known parent package" sanity check) *)
Definition resolve_name (name package : str) (level : nat) : option str :=
  match level with
  | O => Some name
  | S l => match package with
           | [] => None
           | _ => let bits := rsplit_k package l in
                  if Nat.ltb (length bits) level then None
                  else let base := hd [] bits in
                       Some (match name with [] => base | _ => base ++ c_dot :: name end)
           end
  end.

(* importlib._bootstrap._find_and_load_unlocked: import the parent (rpartition) first,
   then search the parent's __path__; a parent that is not a package fails. *)
Fixpoint py_import_fuel (fuel : nat) (fs : node) (roots : list path) (name : str) : found :=
  match fuel with
  | O => FNone
  | S f => match rpart name with
           | None => find_in fs roots name []
           | Some (parent, child) =>
               match search_path (py_import_fuel f fs roots parent) with
               | Some ps => find_in fs ps child []
               | None => FNone
               end
           end
  end.

Definition py_import (fs : node) (roots : list path) (name : str) : found :=
  py_import_fuel (S (length name)) fs roots name.

(* ----------------------------------------------------------------------- results *)
Inductive res :=
| RFile (f : path)                         (* a module / package __init__ file *)
| RNs (ds : list path)                     (* a namespace package: its directories *)
| RAttr (f : path) (n : str) (d : bool)    (* a name bound in file f (d: by def) *)
| RVal                                     (* infer() of a plain assignment: a value, no location *)
| RUnres                                   (* goto(): a sub-module name that does not resolve *)
| RNone                                    (* nothing / ModuleNotFoundError / cannot import name *)
| RBeyond.                                 (* Python only: relative import beyond the top-level package *)

Definition res_of_found (f : found) : res :=
  match f with
  | FMod file => RFile file
  | FPkg d => RFile (d ++ [s_init_py])
  | FNs ds => RNs ds
  | FNone => RNone
  end.

(* a query: which name of which import statement (what _prepare_infer_import computes) *)
(* q_alias: the imported name is renamed (`from X import x as y`), so the statement does not bind x *)
Record query := { q_level : nat; q_path : list str; q_name : option str; q_probe : option str;
                  q_alias : bool }.

Fixpoint strs_eqb (a b : list str) : bool :=
  match a, b with
  | [], [] => true
  | x :: a', y :: b' => str_eqb x y && strs_eqb a' b'
  | _, _ => false
  end.

(* a is a proper prefix of b *)
Fixpoint proper_prefix (a b : list str) : bool :=
  match a, b with
  | [], _ :: _ => true
  | x :: a', y :: b' => str_eqb x y && proper_prefix a' b'
  | _, _ => false
  end.

Definition found_attrs (fs : node) (f : found) : list (str * bool) :=
  match f with
  | FMod file => file_attrs fs file
  | FPkg d => file_attrs fs (d ++ [s_init_py])
  | _ => []
  end.

Definition found_file (f : found) : path :=
  match f with FMod file => file | FPkg d => d ++ [s_init_py] | _ => [] end.

(* The importing module as Python knows it: None = a script (__main__, no package),
   Some (names, is_pkg) = imported under the dotted name `names`. *)
Definition py_package (D : option (list str * bool)) : str :=
  match D with
  | None => []
  | Some (names, true) => join_dot names
  | Some (names, false) => join_dot (removelast names)
  end.

Definition py_already_imported (D : option (list str * bool)) (full : list str) : bool :=
  match D with
  | None => false
  | Some (names, _) => proper_prefix full names
  end.

(* what the name under the cursor is bound to after the statement ran in module D *)
Definition py_query (fs : node) (roots : list path) (D : option (list str * bool)) (q : query) : res :=
  match resolve_name (join_dot (q_path q)) (py_package D) (q_level q) with
  | None => RBeyond
  | Some nm =>
      let f := py_import fs roots nm in
      let sub x := py_import fs roots (nm ++ c_dot :: x) in
      match q_probe q, q_name q with
      | Some x, _ =>                       (* from nm import * ; x *)
          match f with
          | FNone => RNone
          | _ => if py_already_imported D (split_on c_dot nm ++ [x]) then res_of_found (sub x)
                 else match assoc x (found_attrs fs f) with
                      | Some d => RAttr (found_file f) x d
                      | None => RNone
                      end
          end
      | None, Some x =>                    (* from nm import x *)
          match f with
          | FNone => RNone
          | _ => if py_already_imported D (split_on c_dot nm ++ [x]) then res_of_found (sub x)
                 else match assoc x (found_attrs fs f) with
                      | Some d => RAttr (found_file f) x d
                      | None => match search_path f with
                                | Some _ => res_of_found (sub x)
                                | None => RNone
                                end
                      end
          end
      | None, None => res_of_found f
      end
  end.

(* ---------------------------------------------------------------------- jedi side *)
Inductive mval :=
| VMod (file : path) (is_pkg : bool) (names : list str)     (* ModuleValue *)
| VNs (names : list str) (paths : list path).               (* ImplicitNamespaceValue *)

Definition conv (names : list str) (f : found) : option mval :=
  match f with
  | FMod file => Some (VMod file false names)
  | FPkg d => Some (VMod (d ++ [s_init_py]) true names)
  | FNs ds => Some (VNs names ds)
  | FNone => None
  end.

Definition dirname (p : path) : path := removelast p.
Definition basename (p : path) : str := last p [].

Definition v_path (v : mval) : option (list path) :=      (* py__path__ *)
  match v with
  | VMod f true _ => Some [dirname f]
  | VMod _ false _ => None
  | VNs _ ps => Some ps
  end.

Definition v_package (v : mval) : list str :=             (* py__package__ *)
  match v with
  | VMod _ true ns => ns
  | VMod _ false ns => removelast ns
  | VNs ns _ => ns
  end.

Definition v_file (v : mval) : path := match v with VMod f _ _ => f | VNs _ _ => [] end.

Definition res_of_val (v : mval) : res :=
  match v with VMod f _ _ => RFile f | VNs _ ps => RNs ps end.

(* inference_state.module_cache: dotted tuple -> value set (an EMPTY set is cached too) *)
Definition cache := list (list str * option mval).

Fixpoint cache_get (c : cache) (k : list str) : option (option mval) :=
  match c with
  | [] => None
  | (k', v) :: r => if strs_eqb k k' then Some v else cache_get r k
  end.

(* imports.import_module behind typeshed.import_module_decorator: module_cache first, and
   whatever is computed is added to it *)
Definition import_module (fs : node) (c : cache) (sys_path : list path)
           (names : list str) (parent : option mval) : option mval * cache :=
  match cache_get c names with
  | Some r => (r, c)
  | None =>
      let r := match parent with
               | None => conv names (find_in fs sys_path (last names []) [])
               | Some pv => match v_path pv with
                            | None => None
                            | Some ps => conv names (find_in fs ps (last names []) [])
                            end
               end in
      (r, (names, r) :: c)
  end.

(* imports.import_module_by_names: every prefix in turn *)
Fixpoint walk (fs : node) (c : cache) (sp : list path) (done todo : list str)
         (parent : option mval) : option mval * cache :=
  match todo with
  | [] => (parent, c)
  | n :: rest => match import_module fs c sp (done ++ [n]) parent with
                 | (None, c') => (None, c')
                 | (Some v, c') => walk fs c' sp (done ++ [n]) rest (Some v)
                 end
  end.

Definition import_by_names (fs : node) (c : cache) (sp : list path) (names : list str)
  : option mval * cache :=
  walk fs c sp [] names None.

Record importer := { i_path : list str; i_fixed : option (list path); i_possible : bool }.

(* `level-1` times os.path.dirname; (None, None) when the root is hit on the way *)
Fixpoint climb (k : nat) (d : path) : option path :=
  match k with
  | O => Some d
  | S k' => match d with [] => None | _ => climb k' (dirname d) end
  end.

(* Importer.__init__ *)
Definition mk_importer (self : mval) (import_path : list str) (level : nat) : importer :=
  match level with
  | O => {| i_path := import_path; i_fixed := None; i_possible := true |}
  | S l =>
      let base := v_package self in
      if Nat.leb level (length base) then
        {| i_path := (if Nat.ltb 1 level then firstn (length base - l) base else base) ++ import_path;
           i_fixed := None; i_possible := true |}
      else
        (* heuristic: walk up from the directory of the file; _level_to_base_import_path
           compares a str with project.path (a Path), so it never recognises the project
           root and always answers (None, directory). *)
        match climb l (dirname (v_file self)) with
        | None => {| i_path := import_path; i_fixed := None; i_possible := false |}
        | Some d => {| i_path := import_path; i_fixed := Some [d]; i_possible := true |}
        end
  end.

(* Importer.follow *)
Definition follow (fs : node) (c : cache) (roots : list path) (imp : importer) : option mval * cache :=
  match i_path imp with
  | [] => (match i_fixed imp with
           | Some (d :: _) => Some (VNs [basename d] [d])
           | _ => None
           end, c)
  | _ => if negb (i_possible imp) then (None, c)
         else match cache_get c (i_path imp) with
              | Some r => (r, c)
              | None => import_by_names fs c (match i_fixed imp with Some sp => sp | None => roots end)
                                        (i_path imp)
              end
  end.

(* compiled.subprocess.functions.iter_module_names over py__path__: is x listed? *)
Definition has_sub (fs : node) (ps : list path) (x : str) : bool :=
  existsb (fun d => match lookup fs d with
                    | Some (Dir ch) => is_dir (assoc x ch) || is_file (assoc (x ++ s_py) ch)
                    | _ => false
                    end) ps.

Definition sub_follow (fs : node) (c : cache) (roots : list path) (v : mval) (x : str)
  : option mval * cache :=
  follow fs c roots (mk_importer v [x] 1).               (* SubModuleName.infer: level = 1 *)

Inductive lookres := LAttr (f : path) (n : str) (d : bool) | LVal (v : mval) | LUnres | LNothing.

(* value.py__getattribute__(name) on a module / namespace: module globals, then sub_modules_dict *)
Definition getattr (fs : node) (c : cache) (roots : list path) (v : mval) (x : str) : lookres * cache :=
  let sub := match v_path v with
             | Some ps => if has_sub fs ps x
                          then match sub_follow fs c roots v x with
                               | (Some v', c') => (LVal v', c')
                               | (None, c') => (LUnres, c')
                               end
                          else (LNothing, c)
             | None => (LNothing, c)
             end in
  match v with
  | VMod f _ _ => match assoc x (file_attrs fs f) with
                  | Some d => (LAttr f x d, c)
                  | None => sub
                  end
  | VNs _ _ => sub
  end.

(* The module jedi builds for the analysed file (Script._get_module) seeds the cache *)
Definition script_cache (self : mval) : cache :=
  match self with
  | VMod _ _ names => [(names, Some self)]
  | _ => []
  end.

Definition res_of_opt (o : option mval) : res :=
  match o with Some v => res_of_val v | None => RNone end.

(* infer_import (goto = false) / goto_import (goto = true), and the star-import filter *)
Definition jedi_query (goto : bool) (fs : node) (roots : list path) (self : mval) (q : query) : res :=
  let c := script_cache self in
  match follow fs c roots (mk_importer self (q_path q) (q_level q)) with
  | (None, _) => RNone
  | (Some v, c1) =>
      match q_probe q, q_name q with
      | Some x, _ =>
          (* first filter of the star-imported module only *)
          match v with
          | VMod f _ _ => match assoc x (file_attrs fs f) with
                          | Some d => RAttr f x d
                          | None => RNone
                          end
          | VNs _ ps => if has_sub fs ps x
                        then match fst (sub_follow fs c1 roots v x) with
                             | Some v' => res_of_val v'
                             | None => if goto then RUnres else RNone
                             end
                        else RNone
          end
      | None, Some x =>
          (* importing from the analysed module itself: in the buffer the statement itself binds x
             (unless renamed), the lookup recurses into this very import and yields nothing -> plain fallback *)
          match (if strs_eqb (v_file v) (v_file self) && negb (q_alias q)
                 then (LNothing, c1) else getattr fs c1 roots v x) with
          | (LAttr f n d, _) => RAttr f n d
          | (LVal v', _) => res_of_val v'
          | (LUnres, c2) =>
              if goto then RUnres
              else res_of_opt (fst (follow fs c2 roots (mk_importer self (q_path q ++ [x]) (q_level q))))
          | (LNothing, c2) =>
              res_of_opt (fst (follow fs c2 roots (mk_importer self (q_path q ++ [x]) (q_level q))))
          end
      | None, None => res_of_val v
      end
  end.

(* what Name objects show: infer() of `x = 1` is an int instance without location *)
Definition obs (goto : bool) (r : res) : res :=
  match r with
  | RAttr _ _ false => if goto then r else RVal
  | _ => r
  end.

Definition is_heuristic (self : mval) (q : query) : bool :=
  Nat.ltb (length (v_package self)) (q_level q).

(* ----------------------------------------------- path -> dotted name (sys_path.py) *)
Definition path_str (p : path) : str := flat_map (fun c => c_slash :: c) p.

(* pathlib: PurePath.suffix of the last component *)
Fixpoint rfind_dot (s : str) (i : nat) : option nat :=      (* index of the last '.', counting from i *)
  match s with
  | [] => None
  | c :: s' => match rfind_dot s' (S i) with
               | Some j => Some j
               | None => if N.eqb c c_dot then Some i else None
               end
  end.

Definition split_suffix (name : str) : str * str :=          (* (stem, suffix) *)
  match rfind_dot name 0 with
  | Some i => if Nat.ltb 0 i && Nat.ltb i (length name - 1) then (firstn i name, skipn i name)
              else (name, [])
  | None => (name, [])
  end.

(* remove_python_path_suffix: all_suffixes() + ['.pyi']; Path.suffix is the LAST suffix only *)
Definition remove_suffix (name : str) : str :=
  let '(stem, suf) := split_suffix name in
  if str_eqb suf s_py || str_eqb suf s_pyc || str_eqb suf s_so || str_eqb suf s_pyi then stem else name.

Definition s_stubs_rev : str := [115;98;117;116;115;45]%N.    (* "-stubs" reversed *)

Definition strip_stubs (c : str) : str :=                    (* re.sub(r'-stubs$', '', c) *)
  let r := rev c in
  if starts_with r s_stubs_rev then rev (skipn 6 r) else c.

Definition ends_with_slash (p : str) : bool :=
  match rev p with c :: _ => N.eqb c c_slash | [] => false end.

Definition nonempty (s : str) : bool := match s with [] => false | _ => true end.

(* iter_potential_solutions; `boundary` = the folder-boundary test added by the fix *)
Fixpoint candidates (boundary : bool) (s : str) (sys_path : list str) : list (list str) :=
  match sys_path with
  | [] => []
  | p :: ps =>
      if starts_with s p then
        let rest0 := skipn (length p) s in
        let sep := match rest0 with c :: _ => N.eqb c c_slash | [] => false end in
        if negb sep && boundary && nonempty rest0 && nonempty p && negb (ends_with_slash p)
        then candidates boundary s ps
        else
          let rest := if sep then tl rest0 else rest0 in
          match rest with
          | [] => candidates boundary s ps
          | _ => let sp := split_on c_slash rest in
                 if forallb nonempty sp then map strip_stubs sp :: candidates boundary s ps
                 else []                                   (* `return` ends the generator *)
          end
      else candidates boundary s ps
  end.

(* sorted(key=len)[0]: the first of the shortest *)
Fixpoint shortest (best : list str) (l : list (list str)) : list str :=
  match l with
  | [] => best
  | x :: r => if Nat.ltb (length x) (length best) then shortest x r else shortest best r
  end.

Definition module_str (p : path) : str := match p with [] => [c_slash] | _ => path_str p end.

Definition transform_gen (boundary : bool) (sys_path : list str) (module_path : path)
  : option (list str) * bool :=
  match module_path with
  | [] => (None, false)
  | _ =>
    let name := remove_suffix (last module_path []) in
    match name with
    | c :: _ =>
      if N.eqb c c_dot then (None, false)
      else
        let is_pkg := str_eqb name s_init in
        let mp := if is_pkg then removelast module_path else removelast module_path ++ [name] in
        match candidates boundary (module_str mp) sys_path with
        | [] => (None, false)
        | x :: r => (Some (shortest x r), is_pkg)
        end
    | [] => (None, false)
    end
  end.

Definition transform_path_to_dotted := transform_gen true.          (* the code as it is now *)
Definition transform_string_prefix := transform_gen false.          (* before the fix *)

(* Script._get_module: the ModuleValue of the analysed file *)
Definition script_module (roots : list path) (file : path) : mval :=
  match transform_path_to_dotted (map path_str roots) file with
  | (Some names, is_pkg) => VMod file is_pkg names
  | (None, _) => VMod file false [s_main]
  end.

(* ------------------------------------------------- hypotheses used by the theorems *)
(* a dotted-name component: non-empty, no '.' *)
Definition valid_name (s : str) : bool := nonempty s && negb (mem c_dot s).

(* a path component of the well-formed class: non-empty, no '/', no '.', no '-' *)
Definition plain (s : str) : bool :=
  nonempty s && negb (mem c_slash s) && negb (mem c_dot s) && negb (mem 45%N s).

(* the file a dotted name under root r denotes *)
Definition file_of (r : path) (names : list str) (is_pkg : bool) : path :=
  if is_pkg then r ++ names ++ [s_init_py] else r ++ removelast names ++ [last names [] ++ s_py].

(* every link of the chain below `dir` is resolved by its own directory to the next link:
   inner links regular packages, the last one the module file / package itself *)
Fixpoint chain_ok (fs : node) (dir : path) (names : list str) (is_pkg : bool) : bool :=
  match names with
  | [] => false
  | n :: rest =>
      match rest with
      | [] => match find_one fs dir n with
              | OReg (FPkg _) => is_pkg
              | OReg (FMod _) => negb is_pkg
              | _ => false
              end
      | _ => match find_one fs dir n with
             | OReg (FPkg _) => chain_ok fs (dir ++ [n]) rest is_pkg
             | _ => false
             end
      end
  end.

(* no sys.path entry before r offers a regular module/package of that top-level name *)
Fixpoint first_wins (fs : node) (roots : list path) (r : path) (n : str) : bool :=
  match roots with
  | [] => false
  | r' :: rs => if strs_eqb r' r then true
                else match find_one fs r' n with
                     | OReg _ => false
                     | _ => first_wins fs rs r n
                     end
  end.

Definition unshadowed (fs : node) (roots : list path) (r : path) (names : list str) (is_pkg : bool) : bool :=
  first_wins fs roots r (hd [] names) && chain_ok fs r names is_pkg.

(* ------------------------------------ vocabulary of the statement-level theorems *)
(* how Python knows the importing module, read off jedi's ModuleValue *)
Definition importer_of (self : mval) : option (list str * bool) :=
  match self with VMod _ p names => Some (names, p) | VNs _ _ => None end.

(* the analysed file really is the module its derived dotted name imports (round trip) *)
Definition self_coherent (fs : node) (roots : list path) (self : mval) : Prop :=
  match self with
  | VMod _ _ names => conv names (py_import fs roots (join_dot names)) = Some self
  | VNs _ _ => False
  end.

(* the absolute dotted path of the from-part after level rewriting *)
Definition abs_path (self : mval) (q : query) : list str :=
  match q_level q with
  | O => q_path q
  | S l => firstn (length (v_package self) - l) (v_package self) ++ q_path q
  end.

(* absolute import of a non-empty path, or a relative level inside the package *)
Definition level_ok (self : mval) (q : query) : Prop :=
  (q_level q = 0 /\ q_path q <> []) \/ (1 <= q_level q <= length (v_package self)).
