(* C12 - analysing sources never executes them.
   Executable model of
     jedi/inference/imports.py        import_module, _load_builtin_module (the routing table)
     jedi/api/project.py              Project._get_base_sys_path, the load_unsafe_extensions flag,
                                      get_default_project/Project.load (who decides the flag)
     jedi/inference/compiled/access.py            load_module   (try/except/finally around __import__)
     jedi/inference/compiled/subprocess/functions.py  get_module_info (try/except/finally around the finders)
     jedi/inference/compiled/access.py            DirectObjectAccess.getattr_paths (__import__ under the ambient sys.path)
   and of the helper process as a state machine over its own sys.path.
   Definitions only; everything computes.  Directories and module names are `str`. *)
From JV Require Import Base.Str.

(* ------------------------------------------------------------------ basics *)

Fixpoint smem (x : str) (l : list str) : bool :=
  match l with
  | [] => false
  | y :: r => str_eqb x y || smem x r
  end.

(* list.remove(x): drops the FIRST occurrence only (ValueError when absent is swallowed) *)
Fixpoint remove_first (x : str) (l : list str) : list str :=
  match l with
  | [] => []
  | y :: r => if str_eqb x y then r else y :: remove_first x r
  end.

Fixpoint list_str_eqb (a b : list str) : bool :=
  match a, b with
  | [], [] => true
  | x :: a', y :: b' => str_eqb x y && list_str_eqb a' b'
  | _, _ => false
  end.

(* ------------------------------------------------- the host: import routing *)

(* what the finders in the helper (get_module_info) answered *)
Inductive finder_result :=
| FSource (file : str)     (* a loader with source: KnownContentFileIO / ZipFileIO *)
| FNoSource                (* found, but no source: extension module, builtin, frozen *)
| FNamespace               (* implicit namespace package *)
| FNotFound.               (* ImportError -> (None, None) *)

Record cfg := {
  auto_import : list str;      (* settings.auto_import_modules *)
  unsafe : bool;               (* project._load_unsafe_extensions *)
  env_path : list str          (* environment.get_sys_path(): the helper's own sys.path *)
}.

(* Project._get_base_sys_path: the environment's path without (the first) '' *)
Definition base_sys_path (c : cfg) : list str := remove_first [] (env_path c).

(* _load_builtin_module: `if not project._load_unsafe_extensions:
                             sys_path = [p for p in sys_path if p in safe_paths]` *)
Definition safe_filter (c : cfg) (sp : list str) : list str :=
  if unsafe c then sp else filter (fun p => smem p (base_sys_path c)) sp.

Inductive action :=
| ParseSource (file : str)                        (* _load_python_module: read + parso *)
| CompiledImport (dotted : str) (search : list str)  (* compiled.load_module -> helper: __import__ *)
| NamespaceValue
| Nothing.

(* the actions that execute code *)
Definition is_exec (a : action) : bool :=
  match a with CompiledImport _ _ => true | _ => false end.

Definition search_of (a : action) : list str :=
  match a with CompiledImport _ s => s | _ => [] end.

(* does import_module ask the finders at all? *)
Definition asks_finder (c : cfg) (name0 : str) : bool := negb (smem name0 (auto_import c)).

(* imports.import_module.  name0 = import_names[0], dotted = '.'.join(import_names),
   fr = the finder's answer (ignored for auto-import names), sp = the sys_path argument. *)
Definition import_route (c : cfg) (name0 dotted : str) (fr : finder_result) (sp : list str) : action :=
  if smem name0 (auto_import c) then CompiledImport dotted (safe_filter c sp)
  else match fr with
       | FNotFound => Nothing
       | FNamespace => NamespaceValue
       | FNoSource => CompiledImport dotted (safe_filter c sp)
       | FSource f => ParseSource f
       end.

(* Who decides `unsafe`: an explicit Project(...) keeps the constructor default unless the caller
   passes the flag; a Script without project runs get_default_project, which loads
   .jedi/project.json from the analysed tree when there is one (Project.load -> cls( **data)). *)
Inductive project_source :=
| Explicit (flag : bool)                (* Project(path, load_unsafe_extensions=flag); default false *)
| Discovered (json_flag : option bool). (* get_default_project; Some b = a project.json carrying b *)

Definition effective_unsafe (p : project_source) : bool :=
  match p with
  | Explicit b => b
  | Discovered (Some b) => b
  | Discovered None => false
  end.

(* a small concrete configuration used by examples, refutation witnesses and replays *)
Definition ex_env : list str := [[115;116;100]; []; [115;105;116;101]]%N.          (* 'std', '', 'site' *)
Definition ex_proj : str := [112;114;111;106]%N.                                   (* 'proj' *)
Definition ex_gi : str := [103;105]%N.                                             (* 'gi' *)
Definition ex_cfg (u : bool) : cfg := {| auto_import := [ex_gi]; unsafe := u; env_path := ex_env |}.

(* ---------------------------- the helper: try/except/finally over sys.path *)

Inductive exc := ImportError | OtherException | BaseExc.   (* BaseExc: not an Exception subclass *)
Inductive hkind := HImportError | HException.

Definition catches (h : hkind) (e : exc) : bool :=
  match h, e with
  | HImportError, ImportError => true
  | HException, ImportError => true
  | HException, OtherException => true
  | _, _ => false
  end.

Inductive callkind := KImport | KFind.    (* __import__(dotted_name) / _find_module(...) *)

(* statement skeletons of the two functions (first order: the harness translates the real
   Python AST into this type and compares) *)
Inductive stmt :=
| SSkip
| SSwap                     (* temp, sys.path = sys.path, <argument> *)
| SRestore                  (* sys.path = temp *)
| SCall (k : callkind)      (* opaque call: may replace sys.path, may raise *)
| SReturn
| SSeq (a b : stmt)
| SIfArg (s : stmt)         (* if sys_path is not None: s *)
| STry (body : stmt) (hs : handlers) (fin : stmt)
with handlers :=
| HNil
| HCons (h : hkind) (s : stmt) (r : handlers).

(* access.load_module *)
Definition load_module_prog : stmt :=
  SSeq SSwap
       (SSeq (STry (SCall KImport)
                   (HCons HImportError SReturn (HCons HException SReturn HNil))
                   SRestore)
             SReturn).

(* functions.get_module_info *)
Definition get_module_info_prog : stmt :=
  SSeq (SIfArg SSwap)
       (STry (SSeq (SCall KFind) SReturn)
             (HCons HImportError SReturn HNil)
             (SIfArg SRestore)).

(* the same functions with the restore moved out of `finally` (what C12 must NOT look like) *)
Definition load_module_prog_nofinally : stmt :=
  SSeq SSwap
       (SSeq (STry (SCall KImport)
                   (HCons HImportError SReturn (HCons HException SReturn HNil))
                   SSkip)
             (SSeq SRestore SReturn)).

Inductive status := Fall | Returned | Raised (e : exc).

Inductive event :=
| EImport (search : list str)    (* __import__ ran while sys.path had this value *)
| EFind (search : list str).     (* the finders ran (no code execution) *)

Record mem := {
  sys_path : list str;
  temp : list str;
  events : list event      (* newest first *)
}.

(* effect of an opaque call: what it does to the value of sys.path, and whether it raises *)
Record effect := { on_path : list str -> list str; raises : option exc }.

Definition ev_of (k : callkind) (p : list str) : event :=
  match k with KImport => EImport p | KFind => EFind p end.

Section Exec.
  Variable arg : option (list str).     (* the sys_path argument *)
  Variable eff : effect.                (* behaviour of the one opaque call *)

  Fixpoint exec (s : stmt) (m : mem) : mem * status :=
    match s with
    | SSkip => (m, Fall)
    | SSwap => match arg with
               | Some a => ({| sys_path := a; temp := sys_path m; events := events m |}, Fall)
               | None => (m, Raised OtherException)     (* never reached in the two programs *)
               end
    | SRestore => ({| sys_path := temp m; temp := temp m; events := events m |}, Fall)
    | SCall k =>
        let m' := {| sys_path := on_path eff (sys_path m); temp := temp m;
                     events := ev_of k (sys_path m) :: events m |} in
        (m', match raises eff with Some e => Raised e | None => Fall end)
    | SReturn => (m, Returned)
    | SSeq a b => let '(m1, s1) := exec a m in
                  match s1 with Fall => exec b m1 | _ => (m1, s1) end
    | SIfArg s' => match arg with Some _ => exec s' m | None => (m, Fall) end
    | STry body hs fin =>
        let '(m1, s1) := exec body m in
        let '(m2, s2) := match s1 with
                         | Raised e => match handle hs e m1 with
                                       | Some r => r
                                       | None => (m1, s1)
                                       end
                         | _ => (m1, s1)
                         end in
        let '(m3, s3) := exec fin m2 in
        (m3, match s3 with Fall => s2 | _ => s3 end)
    end
  with handle (hs : handlers) (e : exc) (m : mem) : option (mem * status) :=
    match hs with
    | HNil => None
    | HCons h s r => if catches h e then Some (exec s m) else handle r e m
    end.
End Exec.

(* --------------------------------------------- the helper as a state machine *)

Inductive request :=
| RGetModuleInfo (sp : option (list str))   (* sys_path=... (global search) or None (path= search) *)
| RLoadModule (sp : list str)               (* load_module(dotted_name, sys_path=sp) *)
| RGetattrImport                            (* getattr_paths: __import__(obj.__module__), ambient path *)
| ROther.                                   (* anything else: does not touch sys.path *)

Definition step (m : mem) (rq : request * effect) : mem :=
  let '(r, eff) := rq in
  match r with
  | RGetModuleInfo sp => fst (exec sp eff get_module_info_prog m)
  | RLoadModule sp => fst (exec (Some sp) eff load_module_prog m)
  | RGetattrImport => fst (exec None eff (SCall KImport) m)
  | ROther => m
  end.

Definition run (m : mem) (rqs : list (request * effect)) : mem := fold_left step rqs m.

Definition init_mem (p : list str) : mem := {| sys_path := p; temp := []; events := [] |}.

(* the searches under which code was executed *)
Fixpoint import_searches (evs : list event) : list (list str) :=
  match evs with
  | [] => []
  | EImport s :: r => s :: import_searches r
  | EFind _ :: r => import_searches r
  end.

(* ------------------------------------------ host operations -> helper requests *)

(* one step of a query as the host sees it *)
Inductive host_op :=
| OpImport (name0 dotted : str) (fr : finder_result) (sp : list str) (top : bool)
     (* import_module; top = parent_module_value is None (global search with sys_path=sp) *)
| OpCompiledAttr                (* attribute access on a compiled object -> getattr_paths *)
| OpOtherRequest.

(* the requests import_module sends; the effects of the opaque calls are supplied separately *)
Definition requests_of (c : cfg) (op : host_op) : list request :=
  match op with
  | OpImport name0 dotted fr sp top =>
      (if asks_finder c name0 then [RGetModuleInfo (if top then Some sp else None)] else []) ++
      match import_route c name0 dotted fr sp with
      | CompiledImport _ search => [RLoadModule search]
      | _ => []
      end
  | OpCompiledAttr => [RGetattrImport]
  | OpOtherRequest => [ROther]
  end.

(* an effect is ambient-neutral when it leaves the value of sys.path alone; required only of
   the calls that run under the helper's own path (trusted code of the environment) *)
Definition neutral (e : effect) : Prop := forall p, on_path e p = p.

Definition swaps (r : request) : bool :=
  match r with
  | RLoadModule _ => true
  | RGetModuleInfo (Some _) => true
  | _ => false
  end.

(* ------------------------------------------------------ the site table
   Every call site in /repo/jedi (third_party excluded) of a primitive that can execute code or
   change interpreter-global state, as (file, enclosing function, kind).  The harness recomputes
   this list from the sources with `ast` on every run and compares. *)

Inductive site_role :=
| RoleExecImport        (* a real __import__ in the helper *)
| RoleRouteToExec       (* a jedi-level call that forwards to the RoleExecImport site *)
| RoleSpawn             (* starts the helper interpreter *)
| RoleUnpickle          (* reads a pickle from the helper channel *)
| RolePathSwap          (* assignment to sys.path inside the two modelled functions *)
| RoleHelperSetup       (* helper start-up bookkeeping (meta_path, stdout) *)
| RoleNotScript.        (* jedi.__main__ / utils.setup_readline: not reachable from Script/Project *)

Definition site := (str * str * str * site_role)%type.

(* ASCII literal -> str, so that the table below stays readable *)
From Coq Require Import String Ascii.
Fixpoint A (s : String.string) : str :=
  match s with
  | String.EmptyString => []
  | String.String c r => N_of_ascii c :: A r
  end.
Local Open Scope string_scope.

Definition site_table : list site := [
  (A "jedi/__main__.py", A "_complete", A "mutate:sys.argv.remove", RoleNotScript);
  (A "jedi/_compatibility.py", A "Unpickler", A "subclass:pickle.Unpickler", RoleUnpickle);
  (A "jedi/_compatibility.py", A "pickle_load", A "call:pickle.Unpickler(subclass)", RoleUnpickle);
  (A "jedi/api/environment.py", A "Environment._get_subprocess", A "route:CompiledSubprocess", RoleSpawn);
  (A "jedi/api/environment.py", A "_get_virtual_env_from_var", A "route:create_environment", RoleSpawn);
  (A "jedi/api/environment.py", A "_try_get_same_env", A "route:Environment", RoleSpawn);
  (A "jedi/api/environment.py", A "_try_get_same_env", A "route:SameEnvironment", RoleSpawn);
  (A "jedi/api/environment.py", A "create_environment", A "route:Environment", RoleSpawn);
  (A "jedi/api/environment.py", A "create_environment", A "route:Environment", RoleSpawn);
  (A "jedi/api/environment.py", A "find_virtualenvs", A "route:Environment", RoleSpawn);
  (A "jedi/api/environment.py", A "get_system_environment", A "route:Environment", RoleSpawn);
  (A "jedi/api/environment.py", A "get_system_environment", A "route:Environment", RoleSpawn);
  (A "jedi/api/environment.py", A "get_system_environment", A "route:SameEnvironment", RoleSpawn);
  (A "jedi/api/project.py", A "Project.get_environment", A "route:create_environment", RoleSpawn);
  (A "jedi/inference/compiled/__init__.py", A "load_module", A "route:load_module", RoleRouteToExec);
  (A "jedi/inference/compiled/access.py", A "DirectObjectAccess.getattr_paths", A "call:__import__", RoleExecImport);
  (A "jedi/inference/compiled/access.py", A "load_module", A "assign:sys.path", RolePathSwap);
  (A "jedi/inference/compiled/access.py", A "load_module", A "assign:sys.path", RolePathSwap);
  (A "jedi/inference/compiled/access.py", A "load_module", A "call:__import__", RoleExecImport);
  (A "jedi/inference/compiled/subprocess/__init__.py", A "CompiledSubprocess._get_process", A "route:_GeneralizedPopen", RoleSpawn);
  (A "jedi/inference/compiled/subprocess/__init__.py", A "CompiledSubprocess._send", A "route:pickle_load", RoleUnpickle);
  (A "jedi/inference/compiled/subprocess/__init__.py", A "Listener.listen", A "assign:sys.stdout", RoleHelperSetup);
  (A "jedi/inference/compiled/subprocess/__init__.py", A "Listener.listen", A "route:pickle_load", RoleUnpickle);
  (A "jedi/inference/compiled/subprocess/__init__.py", A "_GeneralizedPopen", A "call:subprocess.Popen", RoleSpawn);
  (A "jedi/inference/compiled/subprocess/__main__.py", A "<module>", A "mutate:sys.meta_path.insert", RoleHelperSetup);
  (A "jedi/inference/compiled/subprocess/__main__.py", A "<module>", A "mutate:sys.meta_path.pop", RoleHelperSetup);
  (A "jedi/inference/compiled/subprocess/functions.py", A "_find_module_py33", A "call:importlib.util.find_spec", RoleRouteToExec);
  (A "jedi/inference/compiled/subprocess/functions.py", A "get_module_info", A "assign:sys.path", RolePathSwap);
  (A "jedi/inference/compiled/subprocess/functions.py", A "get_module_info", A "assign:sys.path", RolePathSwap);
  (A "jedi/inference/compiled/subprocess/functions.py", A "load_module", A "route:load_module", RoleRouteToExec);
  (A "jedi/inference/imports.py", A "_load_builtin_module", A "route:load_module", RoleRouteToExec);
  (A "jedi/inference/imports.py", A "import_module", A "route:_load_builtin_module", RoleRouteToExec);
  (A "jedi/inference/imports.py", A "import_module", A "route:_load_builtin_module", RoleRouteToExec);
  (A "jedi/utils.py", A "setup_readline.JediRL.complete", A "mutate:sys.path.insert", RoleNotScript);
  (A "jedi/utils.py", A "setup_readline.JediRL.complete", A "mutate:sys.path.pop", RoleNotScript)
].

(* the two sites where the helper really imports *)
Definition site_load_module_import : str * str * str :=
  (A "jedi/inference/compiled/access.py", A "load_module", A "call:__import__").
Definition site_getattr_paths_import : str * str * str :=
  (A "jedi/inference/compiled/access.py", A "DirectObjectAccess.getattr_paths", A "call:__import__").

Local Close Scope string_scope.

Definition site_key (s : site) : str * str * str := let '(f, q, k, _) := s in (f, q, k).
Definition site_role_of (s : site) : site_role := let '(_, _, _, r) := s in r.

Definition key_eqb (a b : str * str * str) : bool :=
  let '(f, q, k) := a in let '(f', q', k') := b in str_eqb f f' && str_eqb q q' && str_eqb k k'.

Fixpoint sites_eqb (a b : list (str * str * str)) : bool :=
  match a, b with
  | [], [] => true
  | x :: a', y :: b' => key_eqb x y && sites_eqb a' b'
  | _, _ => false
  end.

(* kinds that execute code the moment they run *)
Definition exec_kind (k : str) : bool :=
  smem k [A "call:__import__"; A "call:exec"; A "call:eval"; A "call:compile"; A "call:execfile";
          A "call:importlib.import_module"; A "call:importlib.__import__"; A "call:importlib.reload";
          A "method:exec_module"; A "method:load_module"; A "method:run_module"; A "method:run_path"].

Definition is_exec_import_role (r : site_role) : bool :=
  match r with RoleExecImport => true | _ => false end.

Definition exec_sites : list (str * str * str) :=
  map site_key (filter (fun s => exec_kind (let '(_, _, k) := site_key s in k)) site_table).

(* decidable equality of statement skeletons (the harness compares translated ASTs with it) *)
Definition callkind_eqb (a b : callkind) : bool :=
  match a, b with KImport, KImport => true | KFind, KFind => true | _, _ => false end.
Definition hkind_eqb (a b : hkind) : bool :=
  match a, b with HImportError, HImportError => true | HException, HException => true | _, _ => false end.

Fixpoint stmt_eqb (a b : stmt) : bool :=
  match a, b with
  | SSkip, SSkip => true
  | SSwap, SSwap => true
  | SRestore, SRestore => true
  | SCall k, SCall k' => callkind_eqb k k'
  | SReturn, SReturn => true
  | SSeq x y, SSeq x' y' => stmt_eqb x x' && stmt_eqb y y'
  | SIfArg x, SIfArg x' => stmt_eqb x x'
  | STry x h f, STry x' h' f' => stmt_eqb x x' && handlers_eqb h h' && stmt_eqb f f'
  | _, _ => false
  end
with handlers_eqb (a b : handlers) : bool :=
  match a, b with
  | HNil, HNil => true
  | HCons k s r, HCons k' s' r' => hkind_eqb k k' && stmt_eqb s s' && handlers_eqb r r'
  | _, _ => false
  end.
