(* C02: a core expression language, its concrete big-step semantics (what CPython does), and
   an abstract, set-valued evaluator written the way jedi infers (syntax_tree.infer_node /
   infer_atom / infer_trailer / tree_name_to_values, value/iterable.py SequenceLiteralValue,
   value/function.py FunctionExecutionContext, param.get_executed_param_names_and_issues,
   value/klass.py ClassMixin.py__mro__).  Definitions only; everything computes. *)
From Coq Require Export List NArith ZArith Bool Arith Lia.
Export ListNotations.

(* ------------------------------------------------------------------ small helpers *)
Fixpoint lookup {V : Type} (x : N) (l : list (N * V)) : option V :=
  match l with
  | [] => None
  | (y, v) :: r => if N.eqb x y then Some v else lookup x r
  end.

Fixpoint memN (x : N) (l : list N) : bool :=
  match l with [] => false | y :: r => N.eqb x y || memN x r end.

Fixpoint nodupb (l : list N) : bool :=
  match l with [] => true | x :: r => negb (memN x r) && nodupb r end.

Definition has {V : Type} (x : N) (l : list (N * V)) : bool :=
  match lookup x l with Some _ => true | None => false end.

(* ================================================================== PART B: argument binding *)
Inductive pkind := PReg | PStar | PStarStar.
(* a parameter as the binders see it: name, kind, "has a default" *)
Definition pspec := (N * pkind * bool)%type.
Definition ps_name (p : pspec) : N := fst (fst p).
Definition ps_kind (p : pspec) : pkind := snd (fst p).

Inductive binding (A : Type) :=
| BArg (a : A)                 (* the argument expression / value given at the call *)
| BDefault                     (* the parameter's default *)
| BStar (l : list A)           (* *args: these positional arguments *)
| BKw (l : list (N * A))       (* **kwargs: these keyword arguments *)
| BUnknown.                    (* jedi only: LazyUnknownValue (no argument, no default) *)
Arguments BArg {A}. Arguments BDefault {A}. Arguments BStar {A}. Arguments BKw {A}. Arguments BUnknown {A}.

Section Bind.
Context {A : Type}.

(* what TreeArguments.unpack yields: (None, arg) for positional arguments in order, then
   (key, arg) for the keyword arguments in order *)
Definition item := (option N * A)%type.
Definition unpack (pos : list A) (kws : list (N * A)) : list item :=
  map (fun a => (None, a)) pos ++ map (fun ka => (Some (fst ka), snd ka)) kws.

(* ---- jedi: param.get_executed_param_names_and_issues, transcribed.
   State: the PushBackIterator `it`, non_matching_keys `nm`, keys_used `ku`. *)

(* `key, argument = next(it, (None, None)); while key is not None: ...` *)
Fixpoint take_keys (pd : list N) (it : list item) (nm : list (N * A)) (ku : list (N * binding A))
  : option A * list item * list (N * A) * list (N * binding A) :=
  match it with
  | [] => (None, [], nm, ku)
  | (None, a) :: r => (Some a, r, nm, ku)
  | (Some k, a) :: r =>
      if memN k pd
      then (if has k ku
            then take_keys pd r nm ku                          (* "multiple values" issue, ignored *)
            else take_keys pd r nm ((k, BArg a) :: ku))
      else take_keys pd r (nm ++ [(k, a)]) ku
  end.

(* `for key, argument in it: if key: push_back; break; lazy_value_list.append(argument)` *)
Fixpoint span_pos (it : list item) : list A * list item :=
  match it with
  | (None, a) :: r => let '(l, r') := span_pos r in (a :: l, r')
  | _ => ([], it)
  end.

Fixpoint jedi_go (pd : list N) (ps : list pspec) (it : list item) (nm : list (N * A))
         (ku : list (N * binding A)) : list (N * binding A) :=
  match ps with
  | [] => []
  | (x, k, d) :: ps' =>
      let '(arg, it1, nm1, ku1) := take_keys pd it nm ku in
      match lookup x ku1 with
      | Some b => (x, b) :: jedi_go pd ps' it1 nm1 ku1      (* `result_params.append(keys_used[..]); continue` *)
      | None =>
          match k with
          | PStar =>
              let '(l, it2) := match arg with
                               | None => ([], it1)
                               | Some a => let '(m, r) := span_pos it1 in (a :: m, r)
                               end in
              (x, BStar l) :: jedi_go pd ps' it2 nm1 ((x, BStar l) :: ku1)
          | PStarStar =>                                     (* a pending positional is dropped (too_many_args) *)
              (x, BKw nm1) :: jedi_go pd ps' it1 [] ((x, BKw nm1) :: ku1)
          | PReg =>
              match arg with
              | Some a => (x, BArg a) :: jedi_go pd ps' it1 nm1 ((x, BArg a) :: ku1)
              | None => if d then (x, BDefault) :: jedi_go pd ps' it1 nm1 ((x, BDefault) :: ku1)
                        else (x, BUnknown) :: jedi_go pd ps' it1 nm1 ku1
              end
          end
      end
  end.

Definition jedi_bind (ps : list pspec) (pos : list A) (kws : list (N * A)) : list (N * binding A) :=
  jedi_go (map ps_name ps) ps (unpack pos kws) [] [].

(* ---- Python: the call-binding algorithm of the interpreter (ceval initialize_locals),
   over the grammar's parameter-list structure *)
Record sig := { s_regs : list (N * bool); s_star : option N; s_kwonly : list (N * bool); s_sstar : option N }.

Fixpoint take_regs (ps : list pspec) : list (N * bool) * list pspec :=
  match ps with
  | (x, PReg, d) :: r => let '(l, r') := take_regs r in ((x, d) :: l, r')
  | _ => ([], ps)
  end.

(* regs [*star kwonly] [**sstar]; None = not a parameter list Python's grammar accepts *)
Definition parse_sig (ps : list pspec) : option sig :=
  let '(regs, r1) := take_regs ps in
  match r1 with
  | [] => Some {| s_regs := regs; s_star := None; s_kwonly := []; s_sstar := None |}
  | (x, PStar, _) :: r2 =>
      let '(kwo, r3) := take_regs r2 in
      match r3 with
      | [] => Some {| s_regs := regs; s_star := Some x; s_kwonly := kwo; s_sstar := None |}
      | [(y, PStarStar, _)] => Some {| s_regs := regs; s_star := Some x; s_kwonly := kwo; s_sstar := Some y |}
      | _ => None
      end
  | [(y, PStarStar, _)] => Some {| s_regs := regs; s_star := None; s_kwonly := []; s_sstar := Some y |}
  | _ => None
  end.

(* positional-or-keyword (and, with pos = [], keyword-only) parameters *)
Fixpoint bind_regs (regs : list (N * bool)) (pos : list A) (kws : list (N * A))
  : option (list (N * binding A)) :=
  match regs with
  | [] => Some []
  | (x, d) :: rs =>
      match pos with
      | a :: pos' =>
          match bind_regs rs pos' kws with Some l => Some ((x, BArg a) :: l) | None => None end
      | [] =>
          match lookup x kws with
          | Some a => match bind_regs rs [] kws with Some l => Some ((x, BArg a) :: l) | None => None end
          | None => if d then match bind_regs rs [] kws with Some l => Some ((x, BDefault) :: l) | None => None end
                    else None                                 (* missing required argument *)
          end
      end
  end.

Definition opt_list {B : Type} (o : option B) : list B := match o with Some b => [b] | None => [] end.

Definition py_bind (ps : list pspec) (pos : list A) (kws : list (N * A)) : option (list (N * binding A)) :=
  match parse_sig ps with
  | None => None
  | Some sg =>
      let n := length (s_regs sg) in
      let filled := map fst (firstn (length pos) (s_regs sg)) in
      let targets := map fst (skipn (length pos) (s_regs sg)) ++ map fst (s_kwonly sg) in
      let extra := filter (fun ka => negb (memN (fst ka) targets)) kws in
      if negb (nodupb (map ps_name ps)) || negb (nodupb (map fst kws)) then None      (* SyntaxError *)
      else if Nat.ltb n (length pos) && match s_star sg with None => true | Some _ => false end
      then None                                               (* too many positional arguments *)
      else if existsb (fun k => memN k filled) (map fst kws) then None   (* multiple values *)
      else if match extra, s_sstar sg with _ :: _, None => true | _, _ => false end
      then None                                               (* unexpected keyword argument *)
      else
        match bind_regs (s_regs sg) pos kws, bind_regs (s_kwonly sg) [] kws with
        | Some l1, Some l2 =>
            Some (l1 ++ map (fun x => (x, BStar (skipn n pos))) (opt_list (s_star sg))
                     ++ l2 ++ map (fun y => (y, BKw extra)) (opt_list (s_sstar sg)))
        | _, _ => None
        end
  end.

End Bind.

Definition star_names (ps : list pspec) : list N :=
  flat_map (fun p => match ps_kind p with PReg => [] | _ => [ps_name p] end) ps.

(* references to the arguments of a call: the binders are run on these, then resolved in the
   concrete resp. abstract argument lists *)
Inductive aref := RPos (i : nat) | RKey (k : N).
Definition ref_pos (n : nat) : list aref := map RPos (seq 0 n).
Definition ref_kws (ks : list N) : list (N * aref) := map (fun k => (k, RKey k)) ks.

(* ================================================================== PART A: the core language *)
Inductive lit := LInt | LStr | LFloat | LBytes.

Inductive expr :=
| ELit (l : lit)
| ENew (c : N)                                  (* K() for the class statement with id c *)
| EName (x : N)
| ETuple (es : list expr)
| EIndex (e : expr) (i : Z)                     (* e[i], i an integer literal *)
| ETern (c : nat) (e1 e2 : expr)                (* e1 if <input c> else e2 *)
| ECall (f : N) (args : list expr) (kws : list (N * expr)).

Definition pdecl := (N * pkind * option expr)%type.   (* name, kind, default *)

Inductive stmt :=
| SAssign (x : N) (e : expr)
| SDef (f : N) (ps : list pdecl) (body : expr)        (* def f(ps): return body *)
| SClass (c : N).                                     (* class Kc: pass *)

Definition prog := list stmt.

Inductive value := VLit (l : lit) | VInst (c : N) | VTuple (vs : list value) | VDict (vs : list value).   (* VDict: the values of **kwargs, in order *)
Inductive aval := ALit (l : lit) | AInst (c : N) | ATuple (ess : list (list aval)) | ADict (ess : list (list aval)).
Inductive tag := TLit (l : lit) | TInst (c : N) | TTuple | TDict.

Definition tag_of (v : value) : tag :=
  match v with VLit l => TLit l | VInst c => TInst c | VTuple _ => TTuple | VDict _ => TDict end.
Definition atag_of (a : aval) : tag :=
  match a with ALit l => TLit l | AInst c => TInst c | ATuple _ => TTuple | ADict _ => TDict end.

(* a function after its `def` ran: D = what a default is (a value resp. a set of abstract values) *)
Record fdef (D : Type) := { fd_name : N; fd_params : list (N * pkind * option D); fd_body : expr;
                            fd_classes : list N }.
Arguments fd_name {D}. Arguments fd_params {D}. Arguments fd_body {D}. Arguments fd_classes {D}.

Definition spec_of {D : Type} (p : N * pkind * option D) : pspec :=
  (fst (fst p), snd (fst p), match snd p with Some _ => true | None => false end).

Fixpoint default_of {D : Type} (x : N) (ps : list (N * pkind * option D)) : option D :=
  match ps with
  | [] => None
  | (y, _, d) :: r => if N.eqb x y then d else default_of x r
  end.

(* ---------------------------------------------------------------- concrete semantics *)
(* Python's t[i] for a tuple of length n *)
Definition py_index {V : Type} (vs : list V) (i : Z) : option V :=
  let n := Z.of_nat (length vs) in
  if (0 <=? i)%Z && (i <? n)%Z then nth_error vs (Z.to_nat i)
  else if (i <? 0)%Z && (- n <=? i)%Z then nth_error vs (Z.to_nat (n + i))
  else None.

Section OMap.
Context {X Y : Type} (f : X -> option Y).
Fixpoint omap (l : list X) : option (list Y) :=
  match l with
  | [] => Some []
  | x :: r => match f x, omap r with Some y, Some ys => Some (y :: ys) | _, _ => None end
  end.
End OMap.

Section Eval.
Variable inp : list bool.                                   (* the run's condition inputs *)
Variable callf : N -> list value -> list (N * value) -> option value.
Variable classes : list N.
Variable env : list (N * value).

Fixpoint eval_expr (e : expr) : option value :=
  match e with
  | ELit l => Some (VLit l)
  | ENew c => if memN c classes then Some (VInst c) else None
  | EName x => lookup x env
  | ETuple es => match omap eval_expr es with Some vs => Some (VTuple vs) | None => None end
  | EIndex e i => match eval_expr e with Some (VTuple vs) => py_index vs i | _ => None end
  | ETern c e1 e2 => if nth c inp false then eval_expr e1 else eval_expr e2
  | ECall f args kws =>
      match omap eval_expr args,
            omap (fun ke => let '(k, e) := ke in
                            match eval_expr e with Some v => Some (k, v) | None => None end) kws with
      | Some vs, Some kvs => callf f vs kvs
      | _, _ => None
      end
  end.
End Eval.

Definition resolve_ref {V : Type} (pos : list V) (kws : list (N * V)) (r : aref) : option V :=
  match r with RPos i => nth_error pos i | RKey k => lookup k kws end.

(* the value a parameter gets from its binding *)
Definition cparam (ps : list (N * pkind * option value)) (pos : list value) (kws : list (N * value))
           (xb : N * binding aref) : option (N * value) :=
  let '(x, b) := xb in
  match b with
  | BArg r => match resolve_ref pos kws r with Some v => Some (x, v) | None => None end
  | BDefault => match default_of x ps with Some v => Some (x, v) | None => None end
  | BStar l => match omap (resolve_ref pos kws) l with Some vs => Some (x, VTuple vs) | None => None end
  | BKw l => match omap (fun ka : N * aref => resolve_ref pos kws (snd ka)) l with Some vs => Some (x, VDict vs) | None => None end
  | BUnknown => None
  end.

(* calling the function named f: the most recent definition; its body sees only its
   parameters, earlier functions and the classes defined before it *)
Fixpoint call (inp : list bool) (fs : list (fdef value)) (f : N) (pos : list value) (kws : list (N * value))
  : option value :=
  match fs with
  | [] => None
  | d :: fs' =>
      if N.eqb f (fd_name d) then
        match py_bind (map spec_of (fd_params d)) (ref_pos (length pos)) (ref_kws (map fst kws)) with
        | Some bs =>
            match omap (cparam (fd_params d) pos kws) bs with
            | Some penv => eval_expr inp (call inp fs') (fd_classes d) penv (fd_body d)
            | None => None
            end
        | None => None
        end
      else call inp fs' f pos kws
  end.

Record cstate := { cs_env : list (N * value); cs_funs : list (fdef value); cs_classes : list N }.
Definition cinit : cstate := {| cs_env := []; cs_funs := []; cs_classes := [] |}.

Definition eval_in (inp : list bool) (st : cstate) (e : expr) : option value :=
  eval_expr inp (call inp (cs_funs st)) (cs_classes st) (cs_env st) e.

Definition exec_stmt (inp : list bool) (st : cstate) (s : stmt) : option cstate :=
  match s with
  | SAssign x e =>
      match eval_in inp st e with
      | Some v => Some {| cs_env := (x, v) :: cs_env st; cs_funs := cs_funs st; cs_classes := cs_classes st |}
      | None => None
      end
  | SDef f ps body =>
      match omap (fun p : pdecl =>
                    let '(x, k, d) := p in
                    match d with
                    | None => Some (x, k, None)
                    | Some e => match eval_in inp st e with Some v => Some (x, k, Some v) | None => None end
                    end) ps with
      | Some ps' => Some {| cs_env := cs_env st;
                            cs_funs := {| fd_name := f; fd_params := ps'; fd_body := body;
                                          fd_classes := cs_classes st |} :: cs_funs st;
                            cs_classes := cs_classes st |}
      | None => None
      end
  | SClass c => Some {| cs_env := cs_env st; cs_funs := cs_funs st; cs_classes := c :: cs_classes st |}
  end.

(* the module body runs top to bottom and stops at the first exception *)
Fixpoint run (inp : list bool) (st : cstate) (p : list stmt) : option cstate :=
  match p with
  | [] => Some st
  | s :: r => match exec_stmt inp st s with Some st' => run inp st' r | None => None end
  end.

(* the value of expression e evaluated at (just before) statement i of p *)
Definition eval (p : prog) (inp : list bool) (i : nat) (e : expr) : option value :=
  match run inp cinit (firstn i p) with
  | Some st => eval_in inp st e
  | None => None
  end.

(* index of the statement that raises, if any *)
Fixpoint first_fail (inp : list bool) (st : cstate) (p : list stmt) (k : nat) : option nat :=
  match p with
  | [] => None
  | s :: r => match exec_stmt inp st s with Some st' => first_fail inp st' r (S k) | None => Some k end
  end.

(* ---------------------------------------------------------------- abstract evaluator (jedi) *)
(* SequenceLiteralValue/FakeTuple.py__simple_getitem__ on the entries; on IndexError
   Sequence.py__getitem__ falls back to the union of all entries *)
Definition jedi_index (ess : list (list aval)) (i : Z) : list aval :=
  match py_index ess i with Some s => s | None => concat ess end.

Section AInfer.
Variable acallf : N -> list (list aval) -> list (N * list aval) -> list aval.
Variable classes : list N.
Variable aenv : list (N * list aval).

Fixpoint ainf_expr (e : expr) : list aval :=
  match e with
  | ELit l => [ALit l]
  | ENew c => if memN c classes then [AInst c] else []
  | EName x => match lookup x aenv with Some s => s | None => [] end     (* last assignment before the position *)
  | ETuple es => [ATuple (map ainf_expr es)]                             (* one value, entries inferred per index *)
  | EIndex e i => flat_map (fun a => match a with
                                    | ATuple ess => jedi_index ess i
                                    | ADict ess => concat ess      (* FakeDict[int]: KeyError -> all values *)
                                    | _ => []
                                    end) (ainf_expr e)
  | ETern _ e1 e2 => ainf_expr e1 ++ ainf_expr e2                        (* both arms *)
  | ECall f args kws =>
      acallf f (map ainf_expr args) (map (fun ke => let '(k, e) := ke in (k, ainf_expr e)) kws)
  end.
End AInfer.

Definition or_nil {V : Type} (o : option (list V)) : list V := match o with Some s => s | None => [] end.

Definition aparam (ps : list (N * pkind * option (list aval))) (pos : list (list aval))
           (kws : list (N * list aval)) (xb : N * binding aref) : N * list aval :=
  let '(x, b) := xb in
  match b with
  | BArg r => (x, or_nil (resolve_ref pos kws r))
  | BDefault => (x, or_nil (default_of x ps))
  | BStar l => (x, [ATuple (map (fun r => or_nil (resolve_ref pos kws r)) l)])
  | BKw l => (x, [ADict (map (fun ka : N * aref => or_nil (resolve_ref pos kws (snd ka))) l)])
  | BUnknown => (x, [])
  end.

Fixpoint acall (fs : list (fdef (list aval))) (f : N) (pos : list (list aval)) (kws : list (N * list aval))
  : list aval :=
  match fs with
  | [] => []
  | d :: fs' =>
      if N.eqb f (fd_name d) then
        let bs := jedi_bind (map spec_of (fd_params d)) (ref_pos (length pos)) (ref_kws (map fst kws)) in
        ainf_expr (acall fs') (fd_classes d) (map (aparam (fd_params d) pos kws) bs) (fd_body d)
      else acall fs' f pos kws
  end.

Record astate := { as_env : list (N * list aval); as_funs : list (fdef (list aval)); as_classes : list N }.
Definition ainit : astate := {| as_env := []; as_funs := []; as_classes := [] |}.

Definition ainf_in (st : astate) (e : expr) : list aval :=
  ainf_expr (acall (as_funs st)) (as_classes st) (as_env st) e.

Definition aexec_stmt (st : astate) (s : stmt) : astate :=
  match s with
  | SAssign x e => {| as_env := (x, ainf_in st e) :: as_env st; as_funs := as_funs st; as_classes := as_classes st |}
  | SDef f ps body =>
      {| as_env := as_env st;
         as_funs := {| fd_name := f;
                       fd_params := map (fun p : pdecl =>
                                           let '(x, k, d) := p in
                                           (x, k, match d with None => None | Some e => Some (ainf_in st e) end)) ps;
                       fd_body := body; fd_classes := as_classes st |} :: as_funs st;
         as_classes := as_classes st |}
  | SClass c => {| as_env := as_env st; as_funs := as_funs st; as_classes := c :: as_classes st |}
  end.

Definition arun (st : astate) (p : list stmt) : astate := fold_left aexec_stmt p st.

(* what Script.infer reports at an occurrence of e in statement i *)
Definition ainfer (p : prog) (i : nat) (e : expr) : list aval := ainf_in (arun ainit (firstn i p)) e.
Definition ainfer_tags (p : prog) (i : nat) (e : expr) : list tag := map atag_of (ainfer p i e).

(* the canonical abstraction of a value *)
Fixpoint abs (v : value) : aval :=
  match v with
  | VLit l => ALit l
  | VInst c => AInst c
  | VTuple vs => ATuple (map (fun v => [abs v]) vs)
  | VDict vs => ADict (map (fun v => [abs v]) vs)
  end.

(* syntactic: no conditional expression *)
Fixpoint tern_free (e : expr) : bool :=
  match e with
  | ELit _ | ENew _ | EName _ => true
  | ETuple es => forallb tern_free es
  | EIndex e _ => tern_free e
  | ETern _ _ _ => false
  | ECall _ args kws => forallb tern_free args && forallb (fun ke => let '(_, e) := ke in tern_free e) kws
  end.

Definition tern_free_stmt (s : stmt) : bool :=
  match s with
  | SAssign _ e => tern_free e
  | SDef _ ps body =>
      tern_free body && forallb (fun p : pdecl => match snd p with Some e => tern_free e | None => true end) ps
  | SClass _ => true
  end.

(* keywords of calls never name a *args/**kwargs parameter of any function of the program
   (where they do, jedi binds the keyword to the starred parameter: binding_star_keyword_refuted) *)
Fixpoint kw_ok (bad : list N) (e : expr) : bool :=
  match e with
  | ELit _ | ENew _ | EName _ => true
  | ETuple es => forallb (kw_ok bad) es
  | EIndex e _ => kw_ok bad e
  | ETern _ e1 e2 => kw_ok bad e1 && kw_ok bad e2
  | ECall _ args kws =>
      forallb (kw_ok bad) args && forallb (fun ke => let '(k, e) := ke in negb (memN k bad) && kw_ok bad e) kws
  end.

Definition stmt_star_names (s : stmt) : list N :=
  match s with
  | SDef _ ps _ => flat_map (fun p : pdecl => match snd (fst p) with PReg => [] | _ => [fst (fst p)] end) ps
  | _ => []
  end.

Definition kw_ok_stmt (bad : list N) (s : stmt) : bool :=
  match s with
  | SAssign _ e => kw_ok bad e
  | SDef _ ps body =>
      kw_ok bad body && forallb (fun p : pdecl => match snd p with Some e => kw_ok bad e | None => true end) ps
  | SClass _ => true
  end.

Definition kw_ok_prog (p : prog) (e : expr) : bool :=
  let bad := flat_map stmt_star_names p in
  forallb (kw_ok_stmt bad) p && kw_ok bad e.

(* numbering of tags for the harness: int str float bytes tuple dict, 10 + class id *)
Definition tagN (t : tag) : N :=
  match t with
  | TLit LInt => 1 | TLit LStr => 2 | TLit LFloat => 3 | TLit LBytes => 4
  | TTuple => 5 | TDict => 6 | TInst c => 10 + c
  end%N.

(* ================================================================== PART C: method resolution order *)
Record cls := { c_id : N; c_bases : list N; c_attrs : list (N * lit) }.
Definition hier := list cls.                      (* class statements in textual order *)

(* jedi: ClassMixin.py__mro__ -- self, then for every base in order every class of the base's
   mro that is not listed yet (depth first, first occurrence wins) *)
Fixpoint add_new (mro l : list N) : list N :=
  match l with
  | [] => mro
  | c :: r => if memN c mro then add_new mro r else add_new (mro ++ [c]) r
  end.

Definition jedi_mro_of (tbl : list (N * list N)) (c : cls) : list N :=
  fold_left (fun mro b => add_new mro (or_nil (lookup b tbl))) (c_bases c) [c_id c].

Fixpoint jedi_table (tbl : list (N * list N)) (h : hier) : list (N * list N) :=
  match h with
  | [] => tbl
  | c :: r => jedi_table ((c_id c, jedi_mro_of tbl c) :: tbl) r
  end.

(* Python: C3 linearisation.  merge = repeatedly take the first head that is in no tail *)
Definition in_tail (c : N) (seqs : list (list N)) : bool :=
  existsb (fun s => match s with [] => false | _ :: t => memN c t end) seqs.

Fixpoint find_head (cands seqs : list (list N)) : option N :=
  match cands with
  | [] => None
  | [] :: r => find_head r seqs
  | (c :: _) :: r => if in_tail c seqs then find_head r seqs else Some c
  end.

Definition drop_head (c : N) (seqs : list (list N)) : list (list N) :=
  map (fun s => match s with x :: t => if N.eqb x c then t else s | [] => [] end) seqs.

Definition nonempty (s : list N) : bool := match s with [] => false | _ => true end.

Fixpoint c3_merge (fuel : nat) (seqs : list (list N)) : option (list N) :=
  match filter nonempty seqs with
  | [] => Some []
  | seqs' =>
      match fuel with
      | O => None
      | S f => match find_head seqs' seqs' with
               | None => None                                 (* inconsistent hierarchy: TypeError *)
               | Some c => match c3_merge f (drop_head c seqs') with Some l => Some (c :: l) | None => None end
               end
      end
  end.

Definition c3_mro_of (tbl : list (N * list N)) (c : cls) : option (list N) :=
  match omap (fun b => lookup b tbl) (c_bases c) with
  | None => None                                              (* base not defined: NameError *)
  | Some ms =>
      let seqs := ms ++ [c_bases c] in
      match c3_merge (S (length (concat seqs))) seqs with Some l => Some (c_id c :: l) | None => None end
  end.

Fixpoint c3_table (tbl : list (N * list N)) (h : hier) : option (list (N * list N)) :=
  match h with
  | [] => Some tbl
  | c :: r => match c3_mro_of tbl c with Some m => c3_table ((c_id c, m) :: tbl) r | None => None end
  end.

(* attribute / method lookup along an mro: the first class that defines it *)
Fixpoint mro_lookup (h : hier) (mro : list N) (a : N) : option (N * lit) :=
  match mro with
  | [] => None
  | c :: r =>
      match find (fun k => N.eqb (c_id k) c) h with
      | Some k => match lookup a (c_attrs k) with Some l => Some (c, l) | None => mro_lookup h r a end
      | None => mro_lookup h r a
      end
  end.

Definition jedi_attr (h : hier) (c a : N) : option (N * lit) :=
  mro_lookup h (or_nil (lookup c (jedi_table [] h))) a.
Definition py_attr (h : hier) (c a : N) : option (N * lit) :=
  match c3_table [] h with
  | Some t => match lookup c t with Some m => mro_lookup h m a | None => None end
  | None => None
  end.

(* every class has at most one base, defined earlier; class ids are unique *)
Fixpoint single_inh (seen : list N) (h : hier) : bool :=
  match h with
  | [] => true
  | c :: r =>
      negb (memN (c_id c) seen) &&
      match c_bases c with [] => true | [b] => memN b seen | _ => false end &&
      single_inh (c_id c :: seen) r
  end.
