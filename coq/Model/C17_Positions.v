(* C17 - every reported source position is faithful to the text.

   Definitions only, all computable.

   * [split_lines]      parso.utils.split_lines(s, keepends=True): a line ends after "\n",
                        after "\r\n" and after a lone "\r"; form feed, \x0b, \x1c-\x1e, \x85,
                        U+2028/9 are ordinary characters; the result is never empty
                        ("" -> [""], "a\n" -> ["a\n"; ""]).
   * [split_lines_parso] the algorithm parso really runs (str.splitlines(True), then merging
                        the lines that str.splitlines broke at a non-Python line break, then
                        the trailing ""); proved equal to [split_lines].
   * [adv]/[advance]    (line, column) after emitting a string; [adv] has one character of
                        look-ahead so that "\r" + "\n" is one line break even across a boundary.
   * [tree]             parso's tree reduced to what positions depend on: leaves with kind,
                        prefix, value, recorded start; nodes with children.
   * [consistent]       every non-empty leaf's recorded start = [adv] of the origin (1,0) over
                        all the text in front of it including its own prefix (hypothesis on
                        parso, evaluated on serialised real trees on every run).
   * [slice_at], [get_line_code], [def_range]
                        BaseName.line/column text, BaseName.get_line_code,
                        BaseName.get_definition_start_position/_end_position.
   * [used_names], [get_module_names], [script_names]
                        Module.get_used_names (dict in first-occurrence order),
                        api.helpers.get_module_names, Script._names (sorted by start). *)
From JV Require Import Base.Str.
Local Open Scope N_scope.

(* ------------------------------------------------------------------ positions *)
Definition pos := (N * N)%type.          (* (line from 1, column from 0) *)

Definition pos_eqb (a b : pos) : bool := (fst a =? fst b) && (snd a =? snd b).
Definition pos_leb (a b : pos) : bool :=
  (fst a <? fst b) || ((fst a =? fst b) && (snd a <=? snd b)).
Definition pos_ltb (a b : pos) : bool :=
  (fst a <? fst b) || ((fst a =? fst b) && (snd a <? snd b)).

Definition hd_opt (s : str) : option N := match s with [] => None | c :: _ => Some c end.

Definition is_lf (nx : option N) : bool := match nx with Some d => d =? 10 | None => false end.

(* does a line end right after character [c], given the character that follows it? *)
Definition is_break (c : N) (nx : option N) : bool :=
  (c =? 10) || ((c =? 13) && negb (is_lf nx)).

(* ------------------------------------------------------------------ lines *)
Fixpoint split_lines (s : str) : list str :=
  match s with
  | [] => [[]]
  | c :: r =>
      if is_break c (hd_opt r) then [c] :: split_lines r
      else match split_lines r with
           | l :: ls => (c :: l) :: ls
           | [] => [[c]]
           end
  end.

Definition first_line (s : str) : str := hd [] (split_lines s).

Definition no_break_char (c : N) : bool := negb ((c =? 10) || (c =? 13)).
Definition no_break (s : str) : bool := forallb no_break_char s.

(* --- the algorithm of parso.utils.split_lines(keepends=True), literally --- *)
(* str.splitlines boundaries: \n \r \r\n \v \f \x1c \x1d \x1e \x85 U+2028 U+2029 *)
Definition non_line_break (c : N) : bool :=
  (c =? 11) || (c =? 12) || (c =? 28) || (c =? 29) || (c =? 30) || (c =? 133) ||
  (c =? 8232) || (c =? 8233).

Definition py_is_break (c : N) (nx : option N) : bool := is_break c nx || non_line_break c.

(* str.splitlines(keepends=True): no trailing "" and [] for "" *)
Fixpoint py_splitlines (s : str) : list str :=
  match s with
  | [] => []
  | c :: r =>
      if py_is_break c (hd_opt r) then [c] :: py_splitlines r
      else match py_splitlines r with
           | l :: ls => (c :: l) :: ls
           | [] => [[c]]
           end
  end.

Definition last_char (s : str) : option N := hd_opt (rev s).

(* "merge the lines that were broken by form feed characters", done from the right as
   parso's `for index in reversed(merge)` does *)
Fixpoint merge_non_breaks (l : list str) : list str :=
  match l with
  | [] => []
  | x :: r =>
      let r' := merge_non_breaks r in
      match last_char x with
      | Some c => if non_line_break c
                  then match r' with y :: r'' => (x ++ y) :: r'' | [] => [x] end
                  else x :: r'
      | None => x :: r'
      end
  end.

Definition ends_with_newline (s : str) : bool :=
  match last_char s with Some c => (c =? 10) || (c =? 13) | None => true end.

Definition split_lines_parso (s : str) : list str :=
  let lst := merge_non_breaks (py_splitlines s) in
  if ends_with_newline s then lst ++ [[]] else lst.

(* ------------------------------------------------------------------ advancing *)
Definition step (p : pos) (c : N) (nx : option N) : pos :=
  if is_break c nx then (fst p + 1, 0) else (fst p, snd p + 1).

(* position after emitting [s] from [p]; [nx] is the character that follows [s] *)
Fixpoint adv (p : pos) (s : str) (nx : option N) : pos :=
  match s with
  | [] => p
  | c :: r => adv (step p c (match r with [] => nx | d :: _ => Some d end)) r nx
  end.

(* parso's Leaf.end_pos: split_lines(value), count lines, length of the last one *)
Definition advance (p : pos) (s : str) : pos := adv p s None.

(* ------------------------------------------------------------------ trees *)
Inductive lkind :=
| KName (isdef modscope : bool)   (* a `name` leaf; parso's is_definition(); parent scope is the module *)
| KNewline
| KOther.

Record leaf := mkLeaf { lk : lkind; lprefix : str; lvalue : str; lstart : pos }.

Inductive tree :=
| Leaf (l : leaf)
| Node (ch : list tree).

Fixpoint leaves (t : tree) : list leaf :=
  match t with
  | Leaf l => [l]
  | Node ch => flat_map leaves ch
  end.

Definition leaf_code (l : leaf) : str := lprefix l ++ lvalue l.
Definition code_of (ls : list leaf) : str := flat_map leaf_code ls.
Definition get_code (t : tree) : str := code_of (leaves t).

(* first character of the text of a leaf list *)
Fixpoint first_char (ls : list leaf) : option N :=
  match ls with
  | [] => None
  | l :: r => match leaf_code l with c :: _ => Some c | [] => first_char r end
  end.

Definition value_next (l : leaf) (r : list leaf) : option N :=
  match lvalue l with c :: _ => Some c | [] => first_char r end.

Definition is_empty (s : str) : bool := match s with [] => true | _ => false end.

(* Zero-width leaves (parso's error leaves for INDENT/DEDENT, the endmarker) carry no text;
   parso records the INDENT error leaf at the indented column although it precedes the
   whitespace in leaf order, so only leaves with a non-empty value are constrained. *)
Fixpoint consistent_from (p : pos) (ls : list leaf) : bool :=
  match ls with
  | [] => true
  | l :: r =>
      let p1 := adv p (lprefix l) (value_next l r) in
      (is_empty (lvalue l) || pos_eqb p1 (lstart l))
      && consistent_from (adv p1 (lvalue l) (first_char r)) r
  end.

Definition origin : pos := (1, 0).
Definition consistent (t : tree) : bool := consistent_from origin (leaves t).

Definition leaf_end (l : leaf) : pos := advance (lstart l) (lvalue l).

(* ------------------------------------------------------------------ what BaseName reports *)
Definition line_at (lines : list str) (l : N) : str := nth (N.to_nat (l - 1)) lines [].

(* lines[line-1][column : column+len] *)
Definition slice_at (lines : list str) (p : pos) (len : nat) : str :=
  firstn len (skipn (N.to_nat (snd p)) (line_at lines (fst p))).

(* BaseName.get_line_code(before, after):
     index = line - 1; start_index = max(index - before, 0)
     ''.join(lines[start_index : index + after + 1]) *)
Definition get_line_code (lines : list str) (l before after : N) : str :=
  let index := l - 1 in
  let start_index := index - before in
  concat (firstn (N.to_nat (index + after + 1 - start_index)) (skipn (N.to_nat start_index) lines)).

Fixpoint subtree (t : tree) (path : list nat) : option tree :=
  match path with
  | [] => Some t
  | i :: p => match t with
              | Node ch => match nth_error ch i with Some c => subtree c p | None => None end
              | Leaf _ => None
              end
  end.

(* no zero-width leaf below this node *)
Definition solid (t : tree) : bool := forallb (fun l => negb (is_empty (lvalue l))) (leaves t).

Definition is_newline (l : leaf) : bool := match lk l with KNewline => true | _ => false end.

Definition node_start (t : tree) : option pos := option_map lstart (hd_error (leaves t)).
Definition node_end (t : tree) : option pos := option_map leaf_end (hd_error (rev (leaves t))).

(* get_definition_end_position: for functions and classes the end of the last leaf that
   is not the trailing newline, else definition.end_pos *)
Definition def_end (d : tree) (is_func_or_class : bool) : option pos :=
  if is_func_or_class then
    match rev (leaves d) with
    | last :: prev :: _ => Some (if is_newline last then leaf_end prev else leaf_end last)
    | [last] => Some (leaf_end last)
    | [] => None
    end
  else node_end d.

(* (start, end) of the definition range of [name]; [def_path] is the path to the node that
   parso's get_definition() returns (None when it returns None) *)
Definition def_range (t : tree) (def_path : option (list nat)) (name : leaf) (is_func_or_class : bool)
  : option (pos * pos) :=
  match def_path with
  | None => Some (lstart name, leaf_end name)
  | Some p =>
      match subtree t p with
      | Some d => match node_start d, def_end d is_func_or_class with
                  | Some a, Some b => Some (a, b)
                  | _, _ => None
                  end
      | None => None
      end
  end.

(* the range encloses the whole name token *)
Definition encloses (range : pos * pos) (p : pos) (len : nat) : bool :=
  pos_leb (fst range) p && pos_leb (fst p, snd p + N.of_nat len) (snd range).

(* ------------------------------------------------------------------ name enumeration *)
Definition is_name (l : leaf) : bool := match lk l with KName _ _ => true | _ => false end.
Definition l_isdef (l : leaf) : bool := match lk l with KName d _ => d | _ => false end.
Definition l_modscope (l : leaf) : bool := match lk l with KName _ m => m | _ => false end.

Definition names_of (t : tree) : list leaf := filter is_name (leaves t).

Definition same_value (x y : leaf) : bool := str_eqb (lvalue x) (lvalue y).

(* dict of value -> [leaves] in insertion order, flattened (chain.from_iterable(d.values())) *)
Fixpoint group_fuel (fuel : nat) (l : list leaf) : list leaf :=
  match fuel with
  | O => l
  | S f =>
      match l with
      | [] => []
      | x :: r => (x :: filter (same_value x) r)
                  ++ group_fuel f (filter (fun y => negb (same_value x y)) r)
      end
  end.

Definition used_names (t : tree) : list leaf :=
  let ns := names_of t in group_fuel (length ns) ns.

Definition def_ref_filter (definitions references : bool) (l : leaf) : bool :=
  (definitions && l_isdef l) || (references && negb (l_isdef l)).

Definition scope_filter (all_scopes : bool) (l : leaf) : bool := all_scopes || l_modscope l.

Definition get_module_names (t : tree) (all_scopes definitions references : bool) : list leaf :=
  filter (def_ref_filter definitions references)
         (if all_scopes then used_names t else filter l_modscope (used_names t)).

(* sorted(defs, key=start_pos): stable insertion sort *)
Fixpoint insert_by_start (x : leaf) (l : list leaf) : list leaf :=
  match l with
  | [] => [x]
  | y :: r => if pos_leb (lstart x) (lstart y) then x :: y :: r else y :: insert_by_start x r
  end.

Definition sort_by_start (l : list leaf) : list leaf := fold_right insert_by_start [] l.

Definition script_names (t : tree) (all_scopes definitions references : bool) : list leaf :=
  sort_by_start (get_module_names t all_scopes definitions references).

Definition selected (all_scopes definitions references : bool) (l : leaf) : bool :=
  scope_filter all_scopes l && def_ref_filter definitions references l.

(* every name leaf has a non-empty value without line breaks *)
Definition names_wf (t : tree) : bool :=
  forallb (fun l => negb (is_name l) || (no_break (lvalue l) && negb (Nat.eqb (length (lvalue l)) 0)))
          (leaves t).

(* ------------------------------------------------------------------ helpers for case files *)
Definition L (k : lkind) (p v : str) (l c : N) : leaf := mkLeaf k p v (l, c).

Fixpoint lines_eqb (a b : list str) : bool :=
  match a, b with
  | [], [] => true
  | x :: a', y :: b' => str_eqb x y && lines_eqb a' b'
  | _, _ => false
  end.

Definition opt_pos_eqb (a b : option pos) : bool :=
  match a, b with
  | Some x, Some y => pos_eqb x y
  | None, None => true
  | _, _ => false
  end.

Definition find_leaf (ls : list leaf) (p : pos) : option leaf :=
  find (fun l => is_name l && pos_eqb (lstart l) p) ls.

(* observable part of a name: (line, column, value, is_definition) *)
Definition obs_name (l : leaf) : N * N * str * bool :=
  (fst (lstart l), snd (lstart l), lvalue l, l_isdef l).

Fixpoint obs_eqb (a b : list (N * N * str * bool)) : bool :=
  match a, b with
  | [], [] => true
  | (l1, c1, v1, d1) :: a', (l2, c2, v2, d2) :: b' =>
      (l1 =? l2) && (c1 =? c2) && str_eqb v1 v2 && Bool.eqb d1 d2 && obs_eqb a' b'
  | _, _ => false
  end.
