(* C15: transcription of the four guards that make jedi's inference give up:
     jedi/inference/recursion.py   ExecutionRecursionDetector.push_execution / pop_execution,
                                   execution_allowed (RecursionDetector.pushed_nodes)
     jedi/inference/cache.py       _memoize_default, inference_state_method_generator_cache
     jedi/inference/syntax_tree.py _limit_value_infers
   Definitions only; everything computes.  The limits are a record so that the case
   files can pass the constants read from the sources at run time. *)
From Coq Require Export List NArith Bool Arith Lia.
Export ListNotations.
Open Scope N_scope.

Record limits := mkLimits {
  recursion_limit : N;        (* recursion.recursion_limit *)
  total_limit : N;            (* recursion.total_function_execution_limit *)
  per_func_limit : N;         (* recursion.per_function_execution_limit *)
  per_func_rec_limit : N;     (* recursion.per_function_recursion_limit *)
  infer_cap : N;              (* syntax_tree._limit_value_infers: maximum = 300 *)
  builtin_mult : N            (* ... maximum *= 100 for the builtins module *)
}.

Definition documented_limits : limits := mkLimits 15 200 6 2 300 100.

Definition limits_eqb (a b : limits) : bool :=
  (recursion_limit a =? recursion_limit b) && (total_limit a =? total_limit b) &&
  (per_func_limit a =? per_func_limit b) && (per_func_rec_limit a =? per_func_rec_limit b) &&
  (infer_cap a =? infer_cap b) && (builtin_mult a =? builtin_mult b).

(* ---------------------------------------------------------------- small library *)
(* Python dicts keep insertion order; an association list that is updated in place
   and extended at the end is observationally the same as list(d.items()). *)
Fixpoint lookup (k : N) (m : list (N * N)) : option N :=
  match m with
  | [] => None
  | (k', v) :: m' => if k =? k' then Some v else lookup k m'
  end.

Fixpoint update (k v : N) (m : list (N * N)) : list (N * N) :=
  match m with
  | [] => [(k, v)]
  | (k', v') :: m' => if k =? k' then (k', v) :: m' else (k', v') :: update k v m'
  end.

Fixpoint memN (k : N) (l : list N) : bool :=
  match l with
  | [] => false
  | x :: l' => (k =? x) || memN k l'
  end.

Fixpoint countN (k : N) (l : list N) : N :=
  match l with
  | [] => 0
  | x :: l' => (if k =? x then 1 else 0) + countN k l'
  end.

Definition len {A} (l : list A) : N := N.of_nat (length l).

(* ---------------------------------------------------------------- 1. execution budget *)
(* What push_execution reads off an execution: its funcdef (tree_node), whether the root
   context is the builtins module, whether the root module is called 'typing'. *)
Record exec := mkExec { x_func : N; x_builtins : bool; x_typing : bool }.

(* ExecutionRecursionDetector: _recursion_level, _parent_execution_funcs (head = last
   appended), _funcdef_execution_counts (insertion ordered), _execution_count *)
Record edet := mkEdet { e_level : N; e_stack : list N; e_counts : list (N * N); e_total : N }.

Definition edet_reset : edet := mkEdet 0 [] [] 0.

(* pop_execution: list.pop() first (IndexError on an empty list), then the level *)
Definition pop_execution (d : edet) : option edet :=
  match e_stack d with
  | [] => None
  | _ :: s => Some (mkEdet (e_level d - 1) s (e_counts d) (e_total d))
  end.

(* push_execution; the boolean is `limit_reached` *)
Definition push_execution (L : limits) (d : edet) (x : exec) : edet * bool :=
  let f := x_func x in
  let lv := e_level d + 1 in
  let st := f :: e_stack d in
  if x_builtins x then (mkEdet lv st (e_counts d) (e_total d), false)
  else if recursion_limit L <? lv then (mkEdet lv st (e_counts d) (e_total d), true)
  else if total_limit L <=? e_total d then (mkEdet lv st (e_counts d) (e_total d), true)
  else
    let tot := e_total d + 1 in
    match lookup f (e_counts d) with
    | None =>   (* setdefault inserts 0 *)
        if per_func_limit L <=? 0 then
          (mkEdet lv st (update f 0 (e_counts d)) tot, negb (x_typing x))
        else
          (mkEdet lv st (update f 1 (e_counts d)) tot, per_func_rec_limit L <? countN f st)
    | Some c =>
        if per_func_limit L <=? c then
          (mkEdet lv st (e_counts d) tot, negb (x_typing x))
        else
          (mkEdet lv st (update f (c + 1) (e_counts d)) tot, per_func_rec_limit L <? countN f st)
    end.

(* traces of the detector: every push is logged with its decision; `x_marks` mirrors the
   stack with the execution and the decision of each entry (ghost state for the theorems) *)
Inductive xev := XPush (x : exec) | XPop.

Record xstate := mkX { x_det : edet; x_marks : list (exec * bool); x_log : list (exec * bool) }.

Definition xreset : xstate := mkX edet_reset [] [].

Definition xstep (L : limits) (s : xstate) (e : xev) : option xstate :=
  match e with
  | XPush x => let '(d, r) := push_execution L (x_det s) x in
               Some (mkX d ((x, r) :: x_marks s) ((x, r) :: x_log s))
  | XPop => match pop_execution (x_det s) with
            | None => None
            | Some d => Some (mkX d (tl (x_marks s)) (x_log s))
            end
  end.

(* None = the trace is not well bracketed (a pop without a push) *)
Fixpoint xrun (L : limits) (s : xstate) (tr : list xev) : option xstate :=
  match tr with
  | [] => Some s
  | e :: tr' => match xstep L s e with None => None | Some s' => xrun L s' tr' end
  end.

(* an entry is an accepted ordinary execution: not refused, not builtins *)
Definition acc_nb (m : exec * bool) : bool := negb (snd m) && negb (x_builtins (fst m)).
(* ... of definition f, outside the typing module *)
Definition acc_of (f : N) (m : exec * bool) : bool :=
  acc_nb m && negb (x_typing (fst m)) && (x_func (fst m) =? f).
Definition acc_any (m : exec * bool) : bool := negb (snd m).

Definition cnt {A} (p : A -> bool) (l : list A) : N := len (filter p l).

(* correspondence checkers -------------------------------------------------- *)
Definition listN_eqb (a b : list N) : bool :=
  (fix go a b := match a, b with
                 | [], [] => true
                 | x :: a', y :: b' => (x =? y) && go a' b'
                 | _, _ => false
                 end) a b.

Fixpoint pairs_eqb (a b : list (N * N)) : bool :=
  match a, b with
  | [], [] => true
  | (x1, y1) :: a', (x2, y2) :: b' => (x1 =? x2) && (y1 =? y2) && pairs_eqb a' b'
  | _, _ => false
  end.

(* observation after one operation on the real detector:
   None = IndexError (pop on empty); Some (decision, level, stack oldest-first, total, counts) *)
Definition xobs := option (option bool * N * list N * N * list (N * N)).

Definition opt_bool_eqb (a b : option bool) : bool :=
  match a, b with
  | None, None => true
  | Some x, Some y => Bool.eqb x y
  | _, _ => false
  end.

Definition edet_matches (d : edet) (dec : option bool) (o : option bool * N * list N * N * list (N * N)) : bool :=
  let '(odec, lv, st, tot, cts) := o in
  opt_bool_eqb dec odec && (e_level d =? lv) && listN_eqb (rev (e_stack d)) st &&
  (e_total d =? tot) && pairs_eqb (e_counts d) cts.

(* full-state check: every decision and every counter after every operation *)
Fixpoint xcheck_full (L : limits) (d : edet) (tr : list (xev * xobs)) : bool :=
  match tr with
  | [] => true
  | (XPush x, o) :: tr' =>
      let '(d', r) := push_execution L d x in
      match o with
      | Some ob => edet_matches d' (Some r) ob && xcheck_full L d' tr'
      | None => false
      end
  | (XPop, o) :: tr' =>
      match pop_execution d, o with
      | None, None => xcheck_full L d tr'        (* IndexError: state unchanged *)
      | Some d', Some ob => edet_matches d' None ob && xcheck_full L d' tr'
      | _, _ => false
      end
  end.

(* decision-only check for traces recorded from real queries *)
Fixpoint xcheck_dec (L : limits) (d : edet) (tr : list (xev * bool)) : bool :=
  match tr with
  | [] => true
  | (XPush x, o) :: tr' =>
      let '(d', r) := push_execution L d x in Bool.eqb r o && xcheck_dec L d' tr'
  | (XPop, _) :: tr' =>
      match pop_execution d with
      | None => false
      | Some d' => xcheck_dec L d' tr'
      end
  end.

(* the bounds of exec_budget as a boolean on a recorded trace (property checker) *)
Definition funcs_of (l : list (exec * bool)) : list N := map (fun m => x_func (fst m)) l.

Definition xbounds_ok (L : limits) (s : xstate) : bool :=
  (cnt acc_nb (x_log s) <=? total_limit L) &&
  forallb (fun f => cnt (acc_of f) (x_log s) <=? per_func_limit L) (funcs_of (x_log s)) &&
  (cnt acc_nb (x_marks s) <=? recursion_limit L) &&
  forallb (fun f => cnt (acc_of f) (x_marks s) <=? per_func_rec_limit L) (funcs_of (x_marks s)).

(* every prefix of the trace satisfies the bounds *)
Fixpoint xrun_bounds (L : limits) (s : xstate) (tr : list xev) : bool :=
  xbounds_ok L s &&
  match tr with
  | [] => true
  | e :: tr' => match xstep L s e with None => false | Some s' => xrun_bounds L s' tr' end
  end.

(* ---------------------------------------------------------------- 2. statement guard *)
(* execution_allowed: a context manager; SEnter n is __enter__ (decision = allowed),
   SExit is __exit__ of the innermost open `with`. s_frames remembers for each open
   `with` whether it pushed. *)
Inductive sev := SEnter (n : N) | SExit.

Record sstate := mkS { s_pushed : list N; s_frames : list bool }.

Definition sreset : sstate := mkS [] [].

Definition sstep (s : sstate) (e : sev) : option (sstate * option bool) :=
  match e with
  | SEnter n =>
      if memN n (s_pushed s) then Some (mkS (s_pushed s) (false :: s_frames s), Some false)
      else Some (mkS (n :: s_pushed s) (true :: s_frames s), Some true)
  | SExit =>
      match s_frames s with
      | [] => None
      | false :: fr => Some (mkS (s_pushed s) fr, None)
      | true :: fr => match s_pushed s with
                      | [] => None            (* pushed_nodes.pop() on an empty list *)
                      | _ :: p => Some (mkS p fr, None)
                      end
      end
  end.

Fixpoint srun (s : sstate) (tr : list sev) : option sstate :=
  match tr with
  | [] => Some s
  | e :: tr' => match sstep s e with None => None | Some (s', _) => srun s' tr' end
  end.

Fixpoint entered (tr : list sev) : list N :=
  match tr with
  | [] => []
  | SEnter n :: tr' => n :: entered tr'
  | SExit :: tr' => entered tr'
  end.

(* observation: (decision, pushed_nodes oldest-first after the operation) *)
Fixpoint scheck (s : sstate) (tr : list (sev * option bool * list N)) : bool :=
  match tr with
  | [] => true
  | (e, dec, st) :: tr' =>
      match sstep s e with
      | None => false
      | Some (s', d) => opt_bool_eqb d dec && listN_eqb (rev (s_pushed s')) st && scheck s' tr'
      end
  end.

Fixpoint nodupb (l : list N) : bool :=
  match l with
  | [] => true
  | x :: l' => negb (memN x l') && nodupb l'
  end.

(* decision-only check for traces recorded from real queries *)
Fixpoint scheck_dec (s : sstate) (tr : list (sev * option bool)) : bool :=
  match tr with
  | [] => true
  | (e, dec) :: tr' =>
      match sstep s e with
      | None => false
      | Some (s', d) => opt_bool_eqb d dec &&  scheck_dec s' tr'
      end
  end.


(* ---------------------------------------------------------------- 3a. _memoize_default *)
(* one memo table per inference state; keys stand for (function, obj, args, kwargs).
   MCall k d : the wrapper is called with key k; d = the decorator's default (None = _NO_DEFAULT)
   MStore k v: the body returned v and the wrapper stores it. A body that raises stores nothing. *)
Inductive mev := MCall (k : N) (d : option N) | MStore (k v : N).
Inductive mout := MHit (v : N) | MEnter | MStored.

Definition mstep (memo : list (N * N)) (e : mev) : list (N * N) * mout :=
  match e with
  | MCall k d =>
      match lookup k memo with
      | Some v => (memo, MHit v)
      | None => (match d with Some dv => update k dv memo | None => memo end, MEnter)
      end
  | MStore k v => (update k v memo, MStored)
  end.

Fixpoint mrun (memo : list (N * N)) (tr : list mev) : list (N * N) * list (mev * mout) :=
  match tr with
  | [] => (memo, [])
  | e :: tr' => let '(m1, o) := mstep memo e in
                let '(m2, log) := mrun m1 tr' in (m2, (e, o) :: log)
  end.

Definition is_enter_of (k : N) (eo : mev * mout) : bool :=
  match eo with
  | (MCall k' _, MEnter) => k =? k'
  | _ => false
  end.

Definition calls_have_default (k : N) (tr : list mev) : Prop :=
  forall d, In (MCall k d) tr -> d <> None.

Fixpoint no_store (k : N) (tr : list mev) : bool :=
  match tr with
  | [] => true
  | MStore k' _ :: tr' => negb (k =? k') && no_store k tr'
  | MCall _ _ :: tr' => no_store k tr'
  end.

Definition mout_eqb (a b : mout) : bool :=
  match a, b with
  | MHit x, MHit y => x =? y
  | MEnter, MEnter => true
  | MStored, MStored => true
  | _, _ => false
  end.

Fixpoint mcheck (memo : list (N * N)) (tr : list (mev * mout)) : bool :=
  match tr with
  | [] => true
  | (e, o) :: tr' => let '(m1, o') := mstep memo e in mout_eqb o o' && mcheck m1 tr'
  end.

(* ---------------------------------------------------------------- 3b. generator cache *)
(* inference_state_method_generator_cache for ONE key.  cached_lst holds elements and at
   most one _RECURSION_SENTINEL (None).  Consumers are the generator objects returned by
   the wrapper, each with its own index i.
   GAsk c  : next() on consumer c
   GDone r : the underlying generator's next() returns (Some v) or is exhausted (None);
             it resumes the innermost consumer that is waiting for it. *)
Inductive gev := GAsk (c : N) | GDone (r : option N).
Inductive gout := GYield (v : N) | GStop | GAdvance.

Record gstate := mkG { g_cached : list (option N); g_pos : list (N * N);
                       g_fin : list N; g_adv : list N }.

Definition greset : gstate := mkG [] [] [] [].

Definition pos_of (c : N) (s : gstate) : N :=
  match lookup c (g_pos s) with Some i => i | None => 0 end.

Definition gstep (s : gstate) (e : gev) : option (gstate * gout) :=
  match e with
  | GAsk c =>
      if memN c (g_adv s) then None      (* ValueError: generator already executing *)
      else if memN c (g_fin s) then Some (s, GStop)
      else
        let i := pos_of c s in
        match nth_error (g_cached s) (N.to_nat i) with
        | Some (Some v) => Some (mkG (g_cached s) (update c (i + 1) (g_pos s)) (g_fin s) (g_adv s), GYield v)
        | Some None => Some (mkG (g_cached s) (g_pos s) (c :: g_fin s) (g_adv s), GStop)
        | None => Some (mkG (g_cached s ++ [None]) (g_pos s) (g_fin s) (c :: g_adv s), GAdvance)
        end
  | GDone r =>
      match g_adv s with
      | [] => None
      | c :: rest =>
          match r with
          | Some v => Some (mkG (removelast (g_cached s) ++ [Some v])
                                (update c (pos_of c s + 1) (g_pos s)) (g_fin s) rest, GYield v)
          | None => Some (mkG (removelast (g_cached s)) (g_pos s) (c :: g_fin s) rest, GStop)
          end
      end
  end.

Fixpoint grun (s : gstate) (tr : list gev) : option (gstate * list gout) :=
  match tr with
  | [] => Some (s, [])
  | e :: tr' => match gstep s e with
                | None => None
                | Some (s', o) => match grun s' tr' with
                                  | None => None
                                  | Some (s'', os) => Some (s'', o :: os)
                                  end
                end
  end.

Definition gout_eqb (a b : gout) : bool :=
  match a, b with
  | GYield x, GYield y => x =? y
  | GStop, GStop => true
  | GAdvance, GAdvance => true
  | _, _ => false
  end.

Fixpoint gcheck (s : gstate) (tr : list (gev * gout)) : bool :=
  match tr with
  | [] => true
  | (e, o) :: tr' => match gstep s e with
                     | None => false
                     | Some (s', o') => gout_eqb o o' && gcheck s' tr'
                     end
  end.

(* the elements cached so far (the sentinel dropped) *)
Fixpoint gvalues (l : list (option N)) : list N :=
  match l with
  | [] => []
  | Some v :: l' => v :: gvalues l'
  | None :: l' => gvalues l'
  end.

(* ---------------------------------------------------------------- 4. _limit_value_infers *)
(* inferred_element_counts: one counter per context.tree_node (a scope), never reset while
   the inference state lives.  IInfer k b: a call of _infer_node / infer_expr_stmt in
   scope k; b = the context is the builtins module.  Decision true = the body runs. *)
Definition iev := (N * bool)%type.

Definition cap_of (L : limits) (b : bool) : N :=
  if b then infer_cap L * builtin_mult L else infer_cap L.

Definition istep (L : limits) (cts : list (N * N)) (e : iev) : list (N * N) * bool :=
  let '(k, b) := e in
  match lookup k cts with
  | Some c => (update k (c + 1) cts, negb (cap_of L b <? c + 1))
  | None => (update k 1 cts, true)        (* the KeyError branch: always accepted *)
  end.

Fixpoint irun (L : limits) (cts : list (N * N)) (tr : list iev) : list (N * N) * list (iev * bool) :=
  match tr with
  | [] => (cts, [])
  | e :: tr' => let '(c1, o) := istep L cts e in
                let '(c2, log) := irun L c1 tr' in (c2, (e, o) :: log)
  end.

Definition accepted (log : list (iev * bool)) : N := cnt (fun eo : iev * bool => snd eo) log.

(* scopes in order of first use *)
Fixpoint scopes (seen : list N) (tr : list iev) : list N :=
  match tr with
  | [] => seen
  | (k, _) :: tr' => if memN k seen then scopes seen tr' else scopes (seen ++ [k]) tr'
  end.

Fixpoint icheck (L : limits) (cts : list (N * N)) (tr : list (iev * bool)) : bool :=
  match tr with
  | [] => true
  | (e, o) :: tr' => let '(c1, o') := istep L cts e in Bool.eqb o o' && icheck L c1 tr'
  end.

(* observation with the counter table after each call (direct drive) *)
Fixpoint icheck_full (L : limits) (cts : list (N * N)) (tr : list (iev * bool * list (N * N))) : bool :=
  match tr with
  | [] => true
  | (e, o, tab) :: tr' => let '(c1, o') := istep L cts e in
                          Bool.eqb o o' && pairs_eqb c1 tab && icheck_full L c1 tr'
  end.

(* A call tree of node inferences: a call in scope k that, IF its body runs, makes the
   calls in `kids` (in order).  visit = what the engine does under the guard: a refused
   call does not run its body.  Returns the counters and the chronological log. *)
Inductive ctree := CNode (k : N) (b : bool) (kids : list ctree).

Fixpoint visit (L : limits) (t : ctree) (cts : list (N * N)) : list (N * N) * list (iev * bool) :=
  match t with
  | CNode k b kids =>
      let '(c1, ok) := istep L cts (k, b) in
      if ok then
        let '(c2, log) :=
          (fix go (l : list ctree) (c : list (N * N)) : list (N * N) * list (iev * bool) :=
             match l with
             | [] => (c, [])
             | t' :: l' => let '(c', lg) := visit L t' c in
                           let '(c'', lg') := go l' c' in (c'', lg ++ lg')
             end) kids c1 in
        (c2, ((k, b), true) :: log)
      else (c1, [((k, b), false)])
  end.

Fixpoint visit_list (L : limits) (l : list ctree) (c : list (N * N)) : list (N * N) * list (iev * bool) :=
  match l with
  | [] => (c, [])
  | t' :: l' => let '(c', lg) := visit L t' c in
                let '(c'', lg') := visit_list L l' c' in (c'', lg ++ lg')
  end.

(* every node of the tree has at most b children *)
Fixpoint fanout_le (b : nat) (t : ctree) : bool :=
  match t with
  | CNode _ _ kids => (length kids <=? b)%nat && forallb (fanout_le b) kids
  end.

(* the complete binary call tree of depth n in one scope: 2^(n+1)-1 calls without the guard *)
Fixpoint bin_tree (n : nat) (k : N) : ctree :=
  match n with
  | O => CNode k false []
  | S n' => CNode k false [bin_tree n' k; bin_tree n' k]
  end.

(* mutual recursion f0 -> f1 -> f0 -> ... of depth n, driven through the decorator:
   a refused push is popped at once, an accepted one recurses *)
Fixpoint mutual_trace (L : limits) (n : nat) (i : N) (d : edet) : list xev :=
  match n with
  | O => []
  | S n' =>
      let x := mkExec (i mod 2) false false in
      let '(d', r) := push_execution L d x in
      if r then [XPush x; XPop]
      else XPush x :: mutual_trace L n' (i + 1) d' ++ [XPop]
  end.
