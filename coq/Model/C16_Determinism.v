(* C16: transcription of the places where jedi turns an engine-level, address/hash-ordered
   collection into the list an API user sees, and of the per-query transient state.

   jedi/api/classes.py   BaseName.__eq__/__hash__  : (start_pos, module_path, name, inference_state)
                         BaseName.line / column    : start_pos[0] / start_pos[1], None when start_pos is None
   jedi/api/helpers.py   sorted_definitions        : sorted(defs, key=(str(module_path or ''), line or 0,
                                                                        column or 0, name))
   jedi/api/__init__.py  Script.infer              : sorted_definitions(set(defs))
                         Script.goto / help        : list(set(sorted_definitions(defs)))      (order unspecified)
                         Script.get_references     : sorted_definitions(definitions)
                         Script.get_signatures     : [Signature(...) for s in value_set.get_signatures()]
   jedi/api/completion.py filter_names (first-wins de-duplication on (name, complete)) and the stable
                         sort of Completion.complete by
                         (not name.startswith(like), name.startswith('__'), name.startswith('_'), name.lower())
   transient per-query state: InferenceState.flow_analysis_enabled (references.find_references),
                         is_analysis (Script._analysis), recursion_detector.pushed_nodes
                         (recursion.execution_allowed), execution_recursion_detector (push/pop_execution),
                         Context.predefined_names (context.predefine_names), dynamic_params_depth
                         (dynamic_params), and - not transient, but written without try/finally - the
                         default entries of cache._memoize_default.
   Definitions only; everything computes. *)
From JV Require Export Base.Str.

(* ------------------------------------------------------------------ orders *)

Definition bcmp (a b : bool) : comparison :=
  match a, b with false, true => Lt | true, false => Gt | _, _ => Eq end.

(* Python compares str by code points *)
Fixpoint scmp (a b : str) : comparison :=
  match a, b with
  | [], [] => Eq
  | [], _ :: _ => Lt
  | _ :: _, [] => Gt
  | x :: a', y :: b' => match N.compare x y with Eq => scmp a' b' | c => c end
  end.

(* tuple comparison *)
Definition lex {A B : Type} (ca : A -> A -> comparison) (cb : B -> B -> comparison)
           (x y : A * B) : comparison :=
  match ca (fst x) (fst y) with Eq => cb (snd x) (snd y) | c => c end.

(* sorted(l, key=...) : stable.  fold_right inserts the later elements first; an element is put
   in front of the first element whose key is not smaller, so equal keys keep the input order. *)
Section GenSort.
Variables (A K : Type) (key : A -> K) (cmp : K -> K -> comparison).
Definition leb_by (a b : A) : bool := match cmp (key a) (key b) with Gt => false | _ => true end.
Fixpoint insert_by (x : A) (l : list A) : list A :=
  match l with
  | [] => [x]
  | y :: r => if leb_by x y then x :: y :: r else y :: insert_by x r
  end.
Definition sort_by (l : list A) : list A := fold_right insert_by [] l.
Definition key_eqb_by (k : K) (a : A) : bool := match cmp (key a) k with Eq => true | _ => false end.
End GenSort.

(* ------------------------------------------------------------------ definitions (api.classes.Name) *)

Definition pos := (N * N)%type.

(* what is observable of one Name.  r_ist identifies the InferenceState (one per Script);
   r_pay stands for everything else a user can read off the Name (type, description, full_name ...),
   which neither __eq__ nor the sort key looks at. *)
Record res := { r_pos : option pos; r_path : option str; r_name : str; r_ist : N; r_pay : N }.

Definition pos_eqb (a b : pos) : bool := N.eqb (fst a) (fst b) && N.eqb (snd a) (snd b).
Definition opt_pos_eqb (a b : option pos) : bool :=
  match a, b with None, None => true | Some x, Some y => pos_eqb x y | _, _ => false end.
Definition opt_str_eqb (a b : option str) : bool :=
  match a, b with None, None => true | Some x, Some y => str_eqb x y | _, _ => false end.

(* BaseName.__eq__ (and the tuple that __hash__ hashes) *)
Definition name_eqb (a b : res) : bool :=
  opt_pos_eqb (r_pos a) (r_pos b) && opt_str_eqb (r_path a) (r_path b)
  && str_eqb (r_name a) (r_name b) && N.eqb (r_ist a) (r_ist b).

(* the part of a result that __eq__ sees *)
Definition ident (r : res) : option pos * option str * str * N :=
  (r_pos r, r_path r, r_name r, r_ist r).
Definition strip (r : res) : res :=
  {| r_pos := r_pos r; r_path := r_path r; r_name := r_name r; r_ist := r_ist r; r_pay := 0%N |}.

Definition res_eqb (a b : res) : bool := name_eqb a b && N.eqb (r_pay a) (r_pay b).

(* x.line or 0, x.column or 0, str(x.module_path or '')   (the harness supplies str(path)) *)
Definition r_line (r : res) : N := match r_pos r with Some p => fst p | None => 0%N end.
Definition r_col (r : res) : N := match r_pos r with Some p => snd p | None => 0%N end.
Definition path_str (r : res) : str := match r_path r with Some p => p | None => [] end.

Definition dkey := (str * N * N * str)%type.
Definition sort_key (r : res) : dkey := (path_str r, r_line r, r_col r, r_name r).
Definition dkey_cmp : dkey -> dkey -> comparison := lex (lex (lex scmp N.compare) N.compare) scmp.

(* helpers.sorted_definitions *)
Definition sort_defs (l : list res) : list res := sort_by res dkey sort_key dkey_cmp l.

(* set(defs): of several elements equal under __eq__ the one inserted first stays *)
Fixpoint dedup (l : list res) : list res :=
  match l with
  | [] => []
  | x :: r => x :: filter (fun y => negb (name_eqb x y)) (dedup r)
  end.

Definition infer_out (enum : list res) : list res := sort_defs (dedup enum).
Definition refs_out (enum : list res) : list res := sort_defs enum.
(* the elements of list(set(sorted_definitions(defs))); their order is set-iteration order *)
Definition goto_set (enum : list res) : list res := dedup (sort_defs enum).
(* canonical form used to compare two goto results as sets *)
Definition goto_canon (enum : list res) : list res := sort_defs (goto_set enum).
(* get_signatures: no ordering step at all *)
Definition sigs_out (enum : list res) : list res := enum.

(* the side conditions under which the key determines the __eq__ tuple:
   a real path never prints as '' and no name sits at (0, 0) (parso lines start at 1) *)
Definition wf (r : res) : Prop := r_path r <> Some [] /\ r_pos r <> Some (0%N, 0%N).
Definition wfb (r : res) : bool :=
  negb (opt_str_eqb (r_path r) (Some [])) && negb (opt_pos_eqb (r_pos r) (Some (0%N, 0%N))).
Definition same_ist (l : list res) : Prop := forall a b, In a l -> In b l -> r_ist a = r_ist b.
(* results that are equal for __eq__ are the same result *)
Definition coherent (l : list res) : Prop :=
  forall a b, In a l -> In b l -> name_eqb a b = true -> a = b.

(* classifiers evaluated by the harness on captured enumerations *)
Definition survivor_ambiguous (l : list res) : bool :=
  existsb (fun a => existsb (fun b => name_eqb a b && negb (N.eqb (r_pay a) (r_pay b))) l) l.
Fixpoint count_res (x : res) (l : list res) : nat :=
  match l with [] => 0 | y :: r => (if res_eqb x y then 1 else 0) + count_res x r end.
Definition same_multiset (l1 l2 : list res) : bool :=
  forallb (fun x => Nat.eqb (count_res x l1) (count_res x l2)) (l1 ++ l2).
Fixpoint list_res_eqb (a b : list res) : bool :=
  match a, b with
  | [], [] => true
  | x :: a', y :: b' => res_eqb x y && list_res_eqb a' b'
  | _, _ => false
  end.

(* ------------------------------------------------------------------ completions *)

(* one name handed to filter_names that matches the fragment: public name, its lower() (supplied
   by the harness from CPython), whether its definition is a `del` statement, and the rest *)
Record cres := { c_name : str; c_lname : str; c_del : bool; c_pay : N }.

Definition ckey := (bool * bool * bool * str)%type.
Definition csort_key (like : str) (c : cres) : ckey :=
  (negb (starts_with (c_name c) like), starts_with (c_name c) [95;95]%N,
   starts_with (c_name c) [95]%N, c_lname c).
Definition ckey_cmp : ckey -> ckey -> comparison := lex (lex (lex bcmp bcmp) bcmp) scmp.

Definition csort (like : str) (l : list cres) : list cres :=
  sort_by cres ckey (csort_key like) ckey_cmp l.

Fixpoint str_in (s : str) (l : list str) : bool :=
  match l with [] => false | x :: r => str_eqb s x || str_in s r end.

(* filter_names: k = (name, complete) is remembered; the first name with a key is yielded,
   unless it is a `del` target (which still occupies the key).  For one fragment and one
   fuzzy flag `complete` is a function of `name`, so the key is the name. *)
Fixpoint cdedup_go (seen : list str) (l : list cres) : list cres :=
  match l with
  | [] => []
  | c :: r =>
      if str_in (c_name c) seen then cdedup_go seen r
      else if c_del c then cdedup_go (c_name c :: seen) r
           else c :: cdedup_go (c_name c :: seen) r
  end.
Definition cdedup (l : list cres) : list cres := cdedup_go [] l.

Definition complete_out (like : str) (enum : list cres) : list cres := csort like (cdedup enum).

Definition cres_eqb (a b : cres) : bool :=
  str_eqb (c_name a) (c_name b) && str_eqb (c_lname a) (c_lname b)
  && Bool.eqb (c_del a) (c_del b) && N.eqb (c_pay a) (c_pay b).
Fixpoint list_cres_eqb (a b : list cres) : bool :=
  match a, b with
  | [], [] => true
  | x :: a', y :: b' => cres_eqb x y && list_cres_eqb a' b'
  | _, _ => false
  end.
Fixpoint count_cres (x : cres) (l : list cres) : nat :=
  match l with [] => 0 | y :: r => (if cres_eqb x y then 1 else 0) + count_cres x r end.
Definition same_cmultiset (l1 l2 : list cres) : bool :=
  forallb (fun x => Nat.eqb (count_cres x l1) (count_cres x l2)) (l1 ++ l2).
(* two different surviving names share a sort key *)
Definition ckey_eqb (a b : ckey) : bool := match ckey_cmp a b with Eq => true | _ => false end.
Definition has_key_tie (like : str) (l : list cres) : bool :=
  let s := cdedup l in
  existsb (fun a => existsb (fun b => negb (str_eqb (c_name a) (c_name b))
                                      && ckey_eqb (csort_key like a) (csort_key like b)) s) s.
(* two names with the same public name (one of which is dropped) differ in the rest *)
Definition csurvivor_ambiguous (l : list cres) : bool :=
  existsb (fun a => existsb (fun b => str_eqb (c_name a) (c_name b)
                                      && negb (N.eqb (c_pay a) (c_pay b) && Bool.eqb (c_del a) (c_del b))) l) l.

(* ------------------------------------------------------------------ transient state *)

Record tstate := {
  t_flow : bool;            (* inference_state.flow_analysis_enabled *)
  t_ana : bool;             (* inference_state.is_analysis *)
  t_rec : list N;           (* recursion_detector.pushed_nodes (top first) *)
  t_exlvl : N;              (* execution_recursion_detector._recursion_level *)
  t_exstk : list N;         (* execution_recursion_detector._parent_execution_funcs (top first) *)
  t_excount : N;            (* ..._execution_count: grows during a query, reset by the next one *)
  t_pre : list (N * N);     (* (context, flow scope) keys present in some predefined_names (a map: no duplicates) *)
  t_dyn : N;                (* inference_state.dynamic_params_depth *)
  t_memo : list (N * (bool * bool * bool))
                            (* memoize_cache: key |-> (the entry is the recursion default,
                               flow_analysis_enabled and is_analysis when it was written) -
                               the key of the real cache contains NEITHER flag *)
}.

Definition idle_state : tstate :=
  {| t_flow := true; t_ana := false; t_rec := []; t_exlvl := 0; t_exstk := []; t_excount := 0;
     t_pre := []; t_dyn := 0; t_memo := [] |}.

(* what must be the same before and after a query *)
Definition transients (s : tstate) :=
  (t_flow s, t_ana s, t_rec s, t_exlvl s, t_exstk s, t_pre s, t_dyn s).

Definition upd_flow b s := {| t_flow := b; t_ana := t_ana s; t_rec := t_rec s; t_exlvl := t_exlvl s;
  t_exstk := t_exstk s; t_excount := t_excount s; t_pre := t_pre s; t_dyn := t_dyn s; t_memo := t_memo s |}.
Definition upd_ana b s := {| t_flow := t_flow s; t_ana := b; t_rec := t_rec s; t_exlvl := t_exlvl s;
  t_exstk := t_exstk s; t_excount := t_excount s; t_pre := t_pre s; t_dyn := t_dyn s; t_memo := t_memo s |}.
Definition upd_rec r s := {| t_flow := t_flow s; t_ana := t_ana s; t_rec := r; t_exlvl := t_exlvl s;
  t_exstk := t_exstk s; t_excount := t_excount s; t_pre := t_pre s; t_dyn := t_dyn s; t_memo := t_memo s |}.
Definition upd_ex lvl stk cnt s := {| t_flow := t_flow s; t_ana := t_ana s; t_rec := t_rec s; t_exlvl := lvl;
  t_exstk := stk; t_excount := cnt; t_pre := t_pre s; t_dyn := t_dyn s; t_memo := t_memo s |}.
Definition upd_pre p s := {| t_flow := t_flow s; t_ana := t_ana s; t_rec := t_rec s; t_exlvl := t_exlvl s;
  t_exstk := t_exstk s; t_excount := t_excount s; t_pre := p; t_dyn := t_dyn s; t_memo := t_memo s |}.
Definition upd_dyn d s := {| t_flow := t_flow s; t_ana := t_ana s; t_rec := t_rec s; t_exlvl := t_exlvl s;
  t_exstk := t_exstk s; t_excount := t_excount s; t_pre := t_pre s; t_dyn := d; t_memo := t_memo s |}.
Definition upd_memo m s := {| t_flow := t_flow s; t_ana := t_ana s; t_rec := t_rec s; t_exlvl := t_exlvl s;
  t_exstk := t_exstk s; t_excount := t_excount s; t_pre := t_pre s; t_dyn := t_dyn s; t_memo := m |}.

Definition key2_eqb (a b : N * N) : bool := N.eqb (fst a) (fst b) && N.eqb (snd a) (snd b).
Fixpoint mem_k2 (k : N * N) (l : list (N * N)) : bool :=
  match l with [] => false | x :: r => key2_eqb k x || mem_k2 k r end.
Fixpoint remove_first (k : N * N) (l : list (N * N)) : list (N * N) :=
  match l with [] => [] | x :: r => if key2_eqb k x then r else x :: remove_first k r end.
Definition mentry := (bool * bool * bool)%type.
Fixpoint memo_set (k : N) (d : mentry) (m : list (N * mentry)) : list (N * mentry) :=
  match m with
  | [] => [(k, d)]
  | (k', d') :: r => if N.eqb k k' then (k, d) :: r else (k', d') :: memo_set k d r
  end.

Fixpoint memo_get (k : N) (m : list (N * mentry)) : option mentry :=
  match m with [] => None | (k', d) :: r => if N.eqb k k' then Some d else memo_get k r end.
(* the entry for k is a recursion default *)
Definition memo_default (k : N) (m : list (N * mentry)) : bool :=
  match memo_get k m with Some (d, _, _) => d | None => false end.

(* the primitive writes, as they can be observed one by one on the real objects *)
Inductive event :=
| EReset                       (* InferenceState.reset_recursion_limitations: two new detectors *)
| EFlow (b : bool)
| EAna (b : bool)
| ERecPush (n : N) | ERecPop   (* pushed_nodes.append / .pop *)
| EExPush (f : N) | EExPop     (* push_execution / pop_execution *)
| EPreSet (c k : N) | EPreDel (c k : N)   (* predefined[flow_scope] = ... / predefined.pop(flow_scope) *)
| EDynInc | EDynDec
| EMemo (k : N) (is_default : bool).

Definition step (s : tstate) (e : event) : tstate :=
  match e with
  | EReset => upd_ex 0 [] 0 (upd_rec [] s)
  | EFlow b => upd_flow b s
  | EAna b => upd_ana b s
  | ERecPush n => upd_rec (n :: t_rec s) s
  | ERecPop => upd_rec (tl (t_rec s)) s
  | EExPush f => upd_ex (N.succ (t_exlvl s)) (f :: t_exstk s) (N.succ (t_excount s)) s
  | EExPop => upd_ex (N.pred (t_exlvl s)) (tl (t_exstk s)) (t_excount s) s
  | EPreSet c k => if mem_k2 (c, k) (t_pre s) then s else upd_pre ((c, k) :: t_pre s) s
  | EPreDel c k => upd_pre (remove_first (c, k) (t_pre s)) s
  | EDynInc => upd_dyn (N.succ (t_dyn s)) s
  | EDynDec => upd_dyn (N.pred (t_dyn s)) s
  | EMemo k d => upd_memo (memo_set k (d, t_flow s, t_ana s) (t_memo s)) s
  end.

Definition run_trace (tr : list event) (s : tstate) : tstate := fold_left step tr s.

(* the shape of the code that performs those writes: every temporary switch is a
   try/finally (or a context manager built on one); _memoize_default is not *)
Inductive op :=
| OSkip                          (* work that touches no transient *)
| ORaise                         (* an exception leaves this point *)
| OSeq (a b : op)
| OCatch (b : op)                (* try: b  except Exception: pass *)
| OFlowOff (b : op)              (* find_references: try: flow := False; b  finally: flow := True *)
| OAnalysis (b : op)             (* _analysis: is_analysis := True; try: b  finally: is_analysis := False *)
| ORec (n : N) (b : op)          (* execution_allowed(node): already pushed -> b is skipped;
                                    else try: push; b  finally: pop *)
| OExec (f : N) (b : op)         (* execution_recursion_decorator: push; try: b  finally: pop *)
| OPredef (c k : N) (b : op)     (* predefine_names: previous := predefined.get(k); predefined[k] := dct;
                                    try: b  finally: pop k if previous is None else predefined[k] := previous *)
| ODyn (b : op)                  (* dynamic_params: depth += 1; try: b  finally: depth -= 1 *)
| OMemo (k : N) (b : op).        (* _memoize_default(default=..): if k in memo: return memo[k]
                                    else memo[k] := default; b; memo[k] := rv        (no try/finally) *)

Fixpoint mem_N (n : N) (l : list N) : bool :=
  match l with [] => false | x :: r => N.eqb n x || mem_N n r end.

(* result: state after, whether an exception propagates, the writes performed *)
Fixpoint exec (o : op) (s : tstate) : tstate * bool * list event :=
  match o with
  | OSkip => (s, false, [])
  | ORaise => (s, true, [])
  | OSeq a b =>
      let '(s1, r1, t1) := exec a s in
      if r1 then (s1, true, t1)
      else let '(s2, r2, t2) := exec b s1 in (s2, r2, t1 ++ t2)
  | OCatch b => let '(s1, _, t1) := exec b s in (s1, false, t1)
  | OFlowOff b =>
      let '(s1, r1, t1) := exec b (step s (EFlow false)) in
      (step s1 (EFlow true), r1, EFlow false :: t1 ++ [EFlow true])
  | OAnalysis b =>
      let '(s1, r1, t1) := exec b (step s (EAna true)) in
      (step s1 (EAna false), r1, EAna true :: t1 ++ [EAna false])
  | ORec n b =>
      if mem_N n (t_rec s) then (s, false, [])
      else let '(s1, r1, t1) := exec b (step s (ERecPush n)) in
           (step s1 ERecPop, r1, ERecPush n :: t1 ++ [ERecPop])
  | OExec f b =>
      let '(s1, r1, t1) := exec b (step s (EExPush f)) in
      (step s1 EExPop, r1, EExPush f :: t1 ++ [EExPop])
  | OPredef c k b =>
      let fin := if mem_k2 (c, k) (t_pre s) then EPreSet c k else EPreDel c k in
      let '(s1, r1, t1) := exec b (step s (EPreSet c k)) in
      (step s1 fin, r1, EPreSet c k :: t1 ++ [fin])
  | ODyn b =>
      let '(s1, r1, t1) := exec b (step s EDynInc) in
      (step s1 EDynDec, r1, EDynInc :: t1 ++ [EDynDec])
  | OMemo k b =>
      match memo_get k (t_memo s) with
      | Some _ => (s, false, [])           (* cache hit: whatever was stored, under whatever flags *)
      | None =>
          let '(s1, r1, t1) := exec b (step s (EMemo k true)) in
          if r1 then (s1, true, EMemo k true :: t1)
          else (step s1 (EMemo k false), false, EMemo k true :: t1 ++ [EMemo k false])
      end
  end.

(* every API entry point first calls reset_recursion_limitations *)
Definition run_query (o : op) (s : tstate) : tstate * bool * list event :=
  let '(s1, r, t) := exec o (step s EReset) in (s1, r, EReset :: t).

Definition st_of (x : tstate * bool * list event) : tstate := fst (fst x).
Definition raised_of (x : tstate * bool * list event) : bool := snd (fst x).
Definition trace_of (x : tstate * bool * list event) : list event := snd x.

Definition idle (s : tstate) : Prop :=
  t_flow s = true /\ t_ana s = false /\ t_rec s = [] /\ t_exlvl s = 0%N /\ t_exstk s = [] /\
  t_pre s = [] /\ t_dyn s = 0%N.

(* what the harness reads back through the private attributes after a query *)
Definition obs_state := (bool * bool * list N * N * list N * list (N * N) * N)%type.
Definition list_N_eqb := fix go (a b : list N) : bool :=
  match a, b with [] , [] => true | x :: a', y :: b' => N.eqb x y && go a' b' | _, _ => false end.
Definition list_k2_eqb := fix go (a b : list (N * N)) : bool :=
  match a, b with [] , [] => true | x :: a', y :: b' => key2_eqb x y && go a' b' | _, _ => false end.
Definition obs_eqb (s : tstate) (o : obs_state) : bool :=
  let '(fl, an, rc, lv, st, pr, dy) := o in
  Bool.eqb (t_flow s) fl && Bool.eqb (t_ana s) an && list_N_eqb (t_rec s) rc && N.eqb (t_exlvl s) lv
  && list_N_eqb (t_exstk s) st && list_k2_eqb (t_pre s) pr && N.eqb (t_dyn s) dy.
Definition idleb (s : tstate) : bool := obs_eqb s (true, false, [], 0%N, [], [], 0%N).
