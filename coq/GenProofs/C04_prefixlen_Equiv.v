(* Tie by translation (C04): Completion.get_completion_prefix_length, translated from the source on every
   run, returns the stored fragment length unchanged - the model's c_prefix_len (which filter_names sets to
   the length of the fragment as typed: Props/C04.v, C04_results_extend_fragment). *)
From Coq Require Import ZArith.
From JV Require Import Base.Str Base.PyPrims Model.C04_Complete.
From JVGen Require Import Gen_C04_prefixlen.

Theorem gen_prefix_length_eq : forall c : completion,
  gen_prefix_length (Z.of_nat (c_like_len c)) = Ok (Z.of_nat (c_prefix_len c)).
Proof. reflexivity. Qed.
Print Assumptions gen_prefix_length_eq.
