(* Tie by translation (C15): the limits read from jedi/inference/recursion.py (Gen_C15_limits.v,
   regenerated from the source on every run) are the constants the theorems of Props/C15.v are
   instantiated with. *)
From JV Require Import Base.Str Base.PyPrims Model.C15_Budget.
From JVGen Require Import Gen_C15_limits.

Theorem gen_limits_are_documented_limits :
  Z.to_N gen_recursion_limit = recursion_limit documented_limits /\
  Z.to_N gen_total_function_execution_limit = total_limit documented_limits /\
  Z.to_N gen_per_function_execution_limit = per_func_limit documented_limits /\
  Z.to_N gen_per_function_recursion_limit = per_func_rec_limit documented_limits /\
  (0 <= gen_recursion_limit /\ 0 <= gen_total_function_execution_limit /\
   0 <= gen_per_function_execution_limit /\ 0 <= gen_per_function_recursion_limit)%Z.
Proof. repeat split; try reflexivity; vm_compute; discriminate. Qed.
Print Assumptions gen_limits_are_documented_limits.
