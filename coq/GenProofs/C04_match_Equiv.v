(* Tie by translation (C04): helpers._start_match / _fuzzy_match / match, translated from the source
   on every run (Gen_C04_match.v; _fuzzy_match is recursive in Python, hence fuelled), compute the
   model's start_match / fuzzy_match / match_ for all strings - with any fuel above the length of
   the fragment, never running out of it and never raising (like_name[0] is in range).  So
   "fuzzy = subsequence", "prefix = startswith" (Props/C04.v) are statements about the present code. *)
From Coq Require Import ZArith List Bool Lia.
From JV Require Import Base.Str Base.PyPrims Model.C04_Complete.
From JVGen Require Import Gen_C04_match.
Open Scope Z_scope.

Theorem gen_start_match_eq : forall s l, gen_start_match s l = Ok (start_match s l).
Proof. reflexivity. Qed.
Print Assumptions gen_start_match_eq.

Lemma starts_with_single : forall s c,
  starts_with s [c] = match s with [] => false | d :: _ => N.eqb c d end.
Proof. intros [|d s'] c; cbn; [reflexivity | rewrite andb_true_r; reflexivity]. Qed.

(* str.find of a one-character string, against the model's after_first *)
Lemma find_single_some : forall s c s' k, 0 <= k ->
  after_first c s = Some s' ->
  exists n : nat, py_find_from s [c] k = k + Z.of_nat n /\ skipn (S n) s = s'.
Proof.
  induction s as [|d r IH]; intros c s' k Hk H; cbn [after_first] in H; [discriminate|].
  cbn [py_find_from]. rewrite starts_with_single.
  destruct (N.eqb c d) eqn:E.
  - inversion H; subst. exists 0%nat. split; [lia | reflexivity].
  - destruct (IH c s' (k + 1) ltac:(lia) H) as [n [Hn Hs]].
    exists (S n). split; [rewrite Hn; lia | exact Hs].
Qed.

Lemma find_single_none : forall s c k,
  after_first c s = None -> py_find_from s [c] k = -1.
Proof.
  induction s as [|d r IH]; intros c k H; cbn [py_find_from]; rewrite starts_with_single.
  - reflexivity.
  - cbn [after_first] in H. destruct (N.eqb c d); [discriminate | apply IH; exact H].
Qed.

Lemma after_first_mem : forall c s, mem c s = match after_first c s with Some _ => true | None => false end.
Proof.
  induction s as [|d r IH]; cbn; [reflexivity|].
  destruct (N.eqb c d); [reflexivity | exact IH].
Qed.

Lemma py_str_in_nil : forall s, py_str_in [] s = true.
Proof. intros [|d r]; reflexivity. Qed.

Lemma py_str_in_single : forall c s, py_str_in [c] s = mem c s.
Proof.
  intros c s. unfold py_str_in, py_find. rewrite after_first_mem.
  destruct (after_first c s) as [s'|] eqn:E.
  - destruct (find_single_some s c s' 0 ltac:(lia) E) as [n [Hn _]]. rewrite Hn.
    apply Z.leb_le. lia.
  - rewrite (find_single_none s c 0 E). reflexivity.
Qed.

Theorem gen_fuzzy_match_eq : forall l s fuel,
  (length l < fuel)%nat \/ (length l <= 1 /\ 0 < fuel)%nat ->
  gen_fuzzy_match fuel s l = Ok (fuzzy_match s l).
Proof.
  induction l as [|c l' IH]; intros s fuel Hf.
  - destruct fuel as [|fuel]; [lia|]. cbn [gen_fuzzy_match fuzzy_match].
    change (zlen (@nil N) <=? 1) with true. cbn iota. rewrite py_str_in_nil. reflexivity.
  - destruct fuel as [|fuel]; [cbn [length] in Hf; lia|].
    cbn [gen_fuzzy_match fuzzy_match].
    destruct l' as [|c2 l''].
    + change (zlen [c] <=? 1) with true. cbn iota. rewrite py_str_in_single. reflexivity.
    + assert (Hlen : (zlen (c :: c2 :: l'') <=? 1) = false).
      { apply Z.leb_gt. unfold zlen. cbn [length]. lia. }
      rewrite Hlen. cbn iota.
      change (py_str_index (c :: c2 :: l'') 0) with (Some [c]). cbn iota.
      change (py_slice_from (c :: c2 :: l'') 1) with (c2 :: l'').
      unfold py_find.
      destruct (after_first c s) as [s'|] eqn:E.
      * destruct (find_single_some s c s' 0 ltac:(lia) E) as [n [Hn Hs]]. rewrite Hn.
        assert (Hpos : (0 <=? 0 + Z.of_nat n) = true) by (apply Z.leb_le; lia).
        rewrite Hpos. cbn iota.
        assert (Hsl : py_slice_from s (0 + Z.of_nat n + 1) = s').
        { unfold py_slice_from.
          assert (H0 : (0 <=? 0 + Z.of_nat n + 1) = true) by (apply Z.leb_le; lia).
          rewrite H0. replace (Z.to_nat (0 + Z.of_nat n + 1)) with (S n) by lia. exact Hs. }
        rewrite Hsl. apply IH. cbn [length] in *. lia.
      * rewrite (find_single_none s c 0 E). reflexivity.
Qed.
Print Assumptions gen_fuzzy_match_eq.

Theorem gen_match_eq : forall s l fuzzy fuel,
  (S (length l) < fuel)%nat ->
  gen_match fuel s l fuzzy = Ok (match_ s l fuzzy).
Proof.
  intros s l fuzzy fuel Hf. destruct fuel as [|fuel]; [lia|].
  cbn [gen_match]. unfold match_. destruct fuzzy.
  - apply gen_fuzzy_match_eq. left. lia.
  - apply gen_start_match_eq.
Qed.
Print Assumptions gen_match_eq.
