(* Tie by translation (C19): the folder names that are never searched and the two limits of the reference
   search, read from jedi/inference/references.py on every run (Gen_C19_consts.v), are the constants the walk
   model and the limit theorems of Props/C19.v are stated with. *)
From Coq Require Import ZArith NArith List.
From JV Require Import Base.Str Base.PyPrims Model.C19_Walk.
From JVGen Require Import Gen_C19_consts.

Theorem gen_ignore_folders_and_limits :
  gen__IGNORE_FOLDERS = IGNORE_FOLDERS /\
  Z.to_N gen__OPENED_FILE_LIMIT = OPENED_FILE_LIMIT /\ (0 <= gen__OPENED_FILE_LIMIT)%Z /\
  Z.to_N gen__PARSED_FILE_LIMIT = PARSED_FILE_LIMIT /\ (0 <= gen__PARSED_FILE_LIMIT)%Z.
Proof. repeat split; try reflexivity; vm_compute; discriminate. Qed.
Print Assumptions gen_ignore_folders_and_limits.
