(* Tie by translation (C01): the wrapper of helpers.validate_line_column, translated from the source
   on every run (Gen_C01_validate.v), is the model's `validate` for every line table and every
   (line, column) in (Z + None)^2: same accepted pair, ValueError exactly where the model says, and the
   subscript self._code_lines[line - 1] never raises IndexError.  Props/C01.v's theorems about
   `validate` therefore hold of the code as it is now. *)
From Coq Require Import ZArith List Bool Lia.
From JV Require Import Base.Str Base.PyPrims Model.C01_Validate.
From JVGen Require Import Gen_C01_validate.
Open Scope Z_scope.

Definition outcome_res (o : outcome) : res (Z * Z) :=
  match o with Accept l c => Ok (l, c) | ValueError => Exc ValueErrorE end.

Lemma py_list_index_in_range : forall (lines : list str) l,
  0 < l -> l <= zlen lines ->
  py_list_index lines (l - 1) = Some (nth (Z.to_nat (l - 1)) lines []).
Proof.
  intros lines l H0 H1. unfold py_list_index, py_norm_index.
  destruct (0 <=? l - 1) eqn:E1; [|lia].
  destruct (l - 1 <? zlen lines) eqn:E2; [|lia].
  apply nth_error_nth'. unfold zlen in *. lia.
Qed.

Lemma py_endswith_ends_with : forall s suf, py_endswith s suf = ends_with s suf.
Proof. reflexivity. Qed.

Theorem gen_validate_eq : forall lines line col,
  gen_validate lines line col = outcome_res (validate lines line col).
Proof.
  intros lines line col. unfold gen_validate, validate.
  fold (zlen lines).
  set (l := match line with None => Z.max (zlen lines) 1 | Some l0 => l0 end).
  destruct (negb ((0 <? l) && (l <=? zlen lines))) eqn:Erange; [reflexivity|].
  apply negb_false_iff in Erange. apply andb_true_iff in Erange. destruct Erange as [E0 E1].
  rewrite py_list_index_in_range by lia.
  set (s := nth (Z.to_nat (l - 1)) lines []).
  unfold stripped_len. fold (zlen s). change py_endswith with ends_with.
  destruct (ends_with s [13%N; 10%N]) eqn:Ecrlf.
  - destruct col as [c|]; cbn [outcome_res];
      match goal with |- context [negb ?b] => destruct (negb b) end; reflexivity.
  - destruct (ends_with s [10%N]) eqn:Elf.
    + destruct col as [c|]; cbn [outcome_res];
        match goal with |- context [negb ?b] => destruct (negb b) end; reflexivity.
    + destruct col as [c|]; cbn [outcome_res];
        match goal with |- context [negb ?b] => destruct (negb b) end; reflexivity.
Qed.
Print Assumptions gen_validate_eq.
