(* Tie by translation (C06): the two constants inline's parenthesisation rule reads
   (refactoring/__init__.py: EXPRESSION_PARTS, _INLINE_NEEDS_PARENTHESES; Gen_C06_rule.v is regenerated from the
   source on every run) are exactly the rule `new_rule` the theorems of Props/C06.v are about: a parent type is
   parenthesised by the model iff one of the parso names it stands for is in the list (or it is a trailer with a
   following sibling, the separate clause of the code), and no name of the list is outside the model's parent types. *)
From Coq Require Import List Bool NArith.
From JV Require Import Base.Str Base.PyPrims Model.C06_Inline.
From JVGen Require Import Gen_C06_rule.
Import ListNotations.

(* the parso node types a model parent type stands for (the harness maps tree_name.parent.type the same way) *)
Definition ptype_names (p : ptype) : list str :=
  match p with
  | P_or_test => [[111; 114; 95; 116; 101; 115; 116]%N]  (* or_test *)
  | P_and_test => [[97; 110; 100; 95; 116; 101; 115; 116]%N]  (* and_test *)
  | P_not_test => [[110; 111; 116; 95; 116; 101; 115; 116]%N]  (* not_test *)
  | P_comparison => [[99; 111; 109; 112; 97; 114; 105; 115; 111; 110]%N]  (* comparison *)
  | P_expr => [[101; 120; 112; 114]%N]  (* expr *)
  | P_xor_expr => [[120; 111; 114; 95; 101; 120; 112; 114]%N]  (* xor_expr *)
  | P_and_expr => [[97; 110; 100; 95; 101; 120; 112; 114]%N]  (* and_expr *)
  | P_shift_expr => [[115; 104; 105; 102; 116; 95; 101; 120; 112; 114]%N]  (* shift_expr *)
  | P_arith_expr => [[97; 114; 105; 116; 104; 95; 101; 120; 112; 114]%N]  (* arith_expr *)
  | P_term => [[116; 101; 114; 109]%N]  (* term *)
  | P_factor => [[102; 97; 99; 116; 111; 114]%N]  (* factor *)
  | P_power => [[112; 111; 119; 101; 114]%N]  (* power *)
  | P_atom_expr => [[97; 116; 111; 109; 95; 101; 120; 112; 114]%N]  (* atom_expr *)
  | P_test => [[116; 101; 115; 116]%N]  (* test *)
  | P_star_expr => [[115; 116; 97; 114; 95; 101; 120; 112; 114]%N]  (* star_expr *)
  | P_comp_for => [[99; 111; 109; 112; 95; 102; 111; 114]%N; [115; 121; 110; 99; 95; 99; 111; 109; 112; 95; 102; 111; 114]%N]  (* comp_for, sync_comp_for *)
  | P_comp_if => [[99; 111; 109; 112; 95; 105; 102]%N]  (* comp_if *)
  | P_trailer_mid => [[116; 114; 97; 105; 108; 101; 114]%N]  (* trailer *)
  | P_trailer_last => [[116; 114; 97; 105; 108; 101; 114]%N]  (* trailer *)
  | P_arglist => [[97; 114; 103; 108; 105; 115; 116]%N]  (* arglist *)
  | P_atom => [[97; 116; 111; 109]%N]  (* atom *)
  | P_testlist_comp => [[116; 101; 115; 116; 108; 105; 115; 116; 95; 99; 111; 109; 112]%N]  (* testlist_comp *)
  | P_lambdef => [[108; 97; 109; 98; 100; 101; 102]%N]  (* lambdef *)
  | P_expr_stmt => [[101; 120; 112; 114; 95; 115; 116; 109; 116]%N]  (* expr_stmt *)
  | P_return_stmt => [[114; 101; 116; 117; 114; 110; 95; 115; 116; 109; 116]%N]  (* return_stmt *)
  | P_argument => [[97; 114; 103; 117; 109; 101; 110; 116]%N]  (* argument *)
  | P_subscript => [[115; 117; 98; 115; 99; 114; 105; 112; 116]%N]  (* subscript *)
  | P_testlist_star_expr => [[116; 101; 115; 116; 108; 105; 115; 116; 95; 115; 116; 97; 114; 95; 101; 120; 112; 114]%N]  (* testlist_star_expr *)
  | P_dictorsetmaker => [[100; 105; 99; 116; 111; 114; 115; 101; 116; 109; 97; 107; 101; 114]%N]  (* dictorsetmaker *)
  | P_other => []  (*  *)
  end.

Definition all_named : list ptype := [P_or_test; P_and_test; P_not_test; P_comparison; P_expr; P_xor_expr; P_and_expr; P_shift_expr; P_arith_expr; P_term; P_factor; P_power; P_atom_expr; P_test; P_star_expr; P_comp_for; P_comp_if; P_trailer_mid; P_trailer_last; P_arglist; P_atom; P_testlist_comp; P_lambdef; P_expr_stmt; P_return_stmt; P_argument; P_subscript; P_testlist_star_expr; P_dictorsetmaker].

Definition named_in (l : list str) (p : ptype) : bool := existsb (fun n => py_mem_str n l) (ptype_names p).

Theorem gen_rule_is_new_rule : forall p,
  new_rule p = named_in gen__INLINE_NEEDS_PARENTHESES p || ptype_eqb p P_trailer_mid.
Proof. destruct p; vm_compute; reflexivity. Qed.
Print Assumptions gen_rule_is_new_rule.

Theorem gen_expression_parts_is_model : forall p,
  in_expression_parts p = named_in gen_EXPRESSION_PARTS p.
Proof. destruct p; vm_compute; reflexivity. Qed.
Print Assumptions gen_expression_parts_is_model.

(* nothing in the code's list falls under P_other (for which the model says: never parenthesised) *)
Theorem gen_rule_names_are_modelled :
  forallb (fun n => existsb (fun p => py_mem_str n (ptype_names p)) all_named) gen__INLINE_NEEDS_PARENTHESES = true.
Proof. vm_compute. reflexivity. Qed.
Print Assumptions gen_rule_names_are_modelled.
