(* Tie by translation (C04): Completion._complete, translated from the source on every run
   (Gen_C04_complete.v), is the model's c_complete_str (what `complete` inserts: the rest of the name after
   the typed fragment, plus '(' for functions when the setting is on) and, without the fragment, the model's
   c_name_with_symbols - for every name, every fragment length and both settings.  `type` is read as the
   string jedi compares with 'function'. *)
From Coq Require Import ZArith List Bool Lia.
From JV Require Import Base.Str Base.PyPrims Model.C04_Complete.
From JVGen Require Import Gen_C04_complete.
Open Scope Z_scope.

Definition function_str : str := [102; 117; 110; 99; 116; 105; 111; 110]%N.

Lemma slice_from_nat : forall (s : str) (n : nat), py_slice_from s (Z.of_nat n) = skipn n s.
Proof.
  intros s n. unfold py_slice_from.
  assert (H : (0 <=? Z.of_nat n) = true) by (apply Z.leb_le; lia).
  rewrite H. rewrite Nat2Z.id. reflexivity.
Qed.

Theorem gen_complete_eq : forall (add_bracket : bool) (c : completion) (ty : str),
  str_eqb ty function_str = is_func (c_src c) ->
  gen_complete add_bracket ty (c_name c) (Z.of_nat (c_like_len c)) true = Ok (c_complete_str add_bracket c) /\
  gen_complete add_bracket ty (c_name c) (Z.of_nat (c_like_len c)) false = Ok (c_name_with_symbols add_bracket c).
Proof.
  intros add_bracket c ty Hty. unfold gen_complete, c_complete_str, c_name_with_symbols, c_append.
  fold function_str. rewrite Hty. rewrite slice_from_nat.
  destruct (add_bracket && is_func (c_src c)); split; reflexivity.
Qed.
Print Assumptions gen_complete_eq.
