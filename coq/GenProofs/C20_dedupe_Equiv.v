(* Tie by translation (C20): the generator project._remove_duplicates_from_path, translated from the
   source on every run (Gen_C20_dedupe.v: a py_for loop over the state (used, yielded)), computes the
   model's remove_duplicates for every input list.  So the theorems of Props/C20.v that speak about
   remove_duplicates speak about the code as it is now. *)
From JV Require Import Base.Str Base.PyPrims Model.C20_SysPath.
From JVGen Require Import Gen_C20_dedupe.

Lemma py_mem_str_inb : forall x l, py_mem_str x l = inb x l.
Proof. induction l as [|y r IH]; simpl; [reflexivity | rewrite IH; reflexivity]. Qed.

(* the loop with an arbitrary state: output so far ++ what dedupe_acc still produces *)
Lemma dedupe_loop : forall (l used out : list str),
  py_for (S:=(list str) * (list str)) (R:=(list str))
    (fun st_ el_ => let '(v_used, v__yield) := st_ in let 'v_p := el_ in
       if py_mem_str v_p v_used then LNext (v_used, v__yield)
       else let v_used := v_p :: v_used in let v__yield := v__yield ++ [v_p] in LNext (v_used, v__yield))
    l (used, out)
  = LNext (fold_left (fun u p => if inb p u then u else p :: u) l used, out ++ dedupe_acc used l).
Proof.
  induction l as [|p r IH]; intros used out; cbn [py_for fold_left dedupe_acc].
  - rewrite app_nil_r. reflexivity.
  - rewrite py_mem_str_inb. destruct (inb p used) eqn:E.
    + rewrite IH. reflexivity.
    + rewrite IH. rewrite <- app_assoc. reflexivity.
Qed.

Theorem gen_remove_duplicates_eq : forall path,
  gen_remove_duplicates_from_path path = Ok (remove_duplicates path).
Proof.
  intro path. unfold gen_remove_duplicates_from_path, remove_duplicates.
  rewrite dedupe_loop. reflexivity.
Qed.
Print Assumptions gen_remove_duplicates_eq.
