(* Tie by translation (C11): CallDetails.calculate_index, translated from the source on every run
   (Gen_C11_index.v: two py_for loops, the first one leaking star_count / key_start / had_equal into
   the second as Python does), returns the model's calc_index for EVERY parameter list and EVERY
   argument list (kinds as int(inspect.Parameter.kind), star counts as integers) and never raises
   (no unbound loop variable, no startswith(None)).  Hence the theorems of Props/C11.v about calc_index
   - preferred target, soundness/completeness w.r.t. the relational binding model - are theorems about
   the code as it is now. *)
From Coq Require Import ZArith NArith List Bool Lia.
From JV Require Import Base.Str Base.PyPrims Model.C11_Signature.
From JVGen Require Import Gen_C11_index.
Open Scope Z_scope.

Definition argZ (a : arg) : Z * option str * bool := (Z.of_N (a_stars a), a_key a, a_eq a).
Definition parZ (p : param) : str * Z := (pname p, Z.of_N (kind_code (pkind p))).

(* ---------- generic facts about py_for ---------- *)
Lemma py_for_total : forall {A St R} (f : St -> A -> St) (body : St -> A -> lres St R),
  (forall st el, body st el = LNext (f st el)) ->
  forall xs st, py_for body xs st = LNext (fold_left f xs st).
Proof.
  intros A St R f body H. induction xs as [|x r IH]; intro st; cbn [py_for fold_left].
  - reflexivity.
  - rewrite H. apply IH.
Qed.

Lemma py_for_find : forall {St} (g : nat -> param -> bool) (body : St -> Z * (str * Z) -> lres St (option Z))
  (nx : St -> Z -> St),
  (forall st i p, body st (Z.of_nat i, parZ p) =
                  if g i p then LRet (Some (Z.of_nat i)) else LNext (nx st (Z.of_nat i))) ->
  forall ps k st,
    match find_idx g k ps with
    | Some j => py_for body (py_enumerate_from (Z.of_nat k) (map parZ ps)) st = LRet (Some (Z.of_nat j))
    | None => exists st', py_for body (py_enumerate_from (Z.of_nat k) (map parZ ps)) st = LNext st'
    end.
Proof.
  intros St g body nx H. induction ps as [|p r IH]; intros k st; cbn [find_idx map py_enumerate_from py_for].
  - eexists; reflexivity.
  - rewrite H. destruct (g k p) eqn:E.
    + reflexivity.
    + replace (Z.of_nat k + 1) with (Z.of_nat (S k)) by lia. apply IH.
Qed.

(* ---------- first loop ---------- *)
Definition S1 := (bool * Z * list (option str) * Z * option Z * option (option str) * option bool)%type.

Definition step1 (n : Z) (st : S1) (el : Z * (Z * option str * bool)) : S1 :=
  let '(kw, pc, used, sc0, oi, ok, oe) := st in
  let '(i, (sc, key, eq)) := el in
  let kw' := orb kw (orb eq (Z.eqb sc 2)) in
  if negb (Z.eqb sc 0) then (kw', pc, used, sc, Some i, Some key, Some eq)
  else if negb (Z.eqb (i + 1) n) then
         if eq then (kw', pc, key :: used, sc, Some i, Some key, Some eq)
         else (kw', pc + 1, used, sc, Some i, Some key, Some eq)
       else (kw', pc, used, sc, Some i, Some key, Some eq).

Lemma ZofN_eqb : forall a b, Z.eqb (Z.of_N a) (Z.of_N b) = N.eqb a b.
Proof.
  intros a b. destruct (N.eqb_spec a b) as [->|Hn].
  - apply Z.eqb_refl.
  - apply Z.eqb_neq. intro H. apply Hn. apply N2Z.inj. exact H.
Qed.

Lemma ZofN_eqb0 : forall a, Z.eqb (Z.of_N a) 0 = N.eqb a 0.
Proof. intro a. exact (ZofN_eqb a 0%N). Qed.
Lemma ZofN_eqb1 : forall a, Z.eqb (Z.of_N a) 1 = N.eqb a 1.
Proof. intro a. exact (ZofN_eqb a 1%N). Qed.
Lemma ZofN_eqb2 : forall a, Z.eqb (Z.of_N a) 2 = N.eqb a 2.
Proof. intro a. exact (ZofN_eqb a 2%N). Qed.

Lemma scan_args_cons2 : forall a b r used pc,
  scan_args (a :: b :: r) used pc =
  if negb (N.eqb (a_stars a) 0) then scan_args (b :: r) used pc
  else if a_eq a then scan_args (b :: r) (a_key a :: used) pc
  else scan_args (b :: r) used (S pc).
Proof. reflexivity. Qed.

Lemma step1_arg : forall n kw pc used sc0 oi ok oe i a,
  step1 n (kw, pc, used, sc0, oi, ok, oe) (i, argZ a) =
  let kw' := orb kw (orb (a_eq a) (N.eqb (a_stars a) 2)) in
  if negb (N.eqb (a_stars a) 0) then (kw', pc, used, Z.of_N (a_stars a), Some i, Some (a_key a), Some (a_eq a))
  else if negb (Z.eqb (i + 1) n) then
         if a_eq a then (kw', pc, a_key a :: used, Z.of_N (a_stars a), Some i, Some (a_key a), Some (a_eq a))
         else (kw', pc + 1, used, Z.of_N (a_stars a), Some i, Some (a_key a), Some (a_eq a))
       else (kw', pc, used, Z.of_N (a_stars a), Some i, Some (a_key a), Some (a_eq a)).
Proof.
  intros. unfold step1, argZ. rewrite ZofN_eqb0, ZofN_eqb2. reflexivity.
Qed.

Lemma is_kwarg_cons : forall a r kw0,
  orb (orb kw0 (orb (a_eq a) (N.eqb (a_stars a) 2))) (is_kwarg_of r) = orb kw0 (is_kwarg_of (a :: r)).
Proof.
  intros. unfold is_kwarg_of. cbn [existsb]. rewrite <- !orb_assoc. reflexivity.
Qed.

Lemma fold_step1 : forall (xs : list arg) (k : nat) (n : Z) kw pc used sc0 oi ok oe,
  xs <> [] -> Z.of_nat k + zlen xs = n ->
  fold_left (step1 n) (py_enumerate_from (Z.of_nat k) (map argZ xs))
            (kw, Z.of_nat pc, used, sc0, oi, ok, oe)
  = (orb kw (is_kwarg_of xs), Z.of_nat (snd (scan_args xs used pc)), fst (scan_args xs used pc),
     Z.of_N (a_stars (last xs no_arg)), Some (n - 1), Some (a_key (last xs no_arg)),
     Some (a_eq (last xs no_arg))).
Proof.
  induction xs as [|a r IH]; intros k n kw pc used sc0 oi ok oe Hne Hn; [congruence|].
  destruct r as [|b r'].
  - (* last element *)
    cbn [map py_enumerate_from fold_left scan_args last fst snd].
    rewrite step1_arg. cbv zeta.
    unfold zlen in Hn. cbn [length] in Hn.
    assert (Hlast : Z.eqb (Z.of_nat k + 1) n = true) by (apply Z.eqb_eq; lia).
    rewrite Hlast. cbn [negb].
    unfold is_kwarg_of. cbn [existsb]. rewrite orb_false_r.
    replace (n - 1) with (Z.of_nat k) by lia.
    destruct (negb (N.eqb (a_stars a) 0)); reflexivity.
  - (* not the last element *)
    assert (Hnl : Z.eqb (Z.of_nat k + 1) n = false).
    { apply Z.eqb_neq. unfold zlen in Hn. cbn [length] in Hn. lia. }
    assert (Hrest : Z.of_nat (S k) + zlen (b :: r') = n).
    { unfold zlen in *. cbn [length] in *. lia. }
    change (map argZ (a :: b :: r')) with (argZ a :: map argZ (b :: r')).
    cbn [py_enumerate_from fold_left].
    replace (Z.of_nat k + 1) with (Z.of_nat (S k)) by lia.
    rewrite step1_arg. cbv zeta.
    replace (Z.of_nat k + 1) with (Z.of_nat (S k)) in Hnl by lia.
    replace (Z.of_nat k + 1) with (Z.of_nat (S k)) by lia.
    rewrite Hnl. cbn [negb].
    rewrite scan_args_cons2.
    change (last (a :: b :: r') no_arg) with (last (b :: r') no_arg).
    destruct (N.eqb (a_stars a) 0) eqn:Es; cbn [negb].
    + destruct (a_eq a) eqn:Ee.
      * rewrite (IH (S k) n _ pc (a_key a :: used) _ _ _ _ ltac:(discriminate) Hrest).
        rewrite <- Ee at 1. rewrite is_kwarg_cons. reflexivity.
      * replace (Z.of_nat pc + 1) with (Z.of_nat (S pc)) by lia.
        rewrite (IH (S k) n _ (S pc) used _ _ _ _ ltac:(discriminate) Hrest).
        rewrite <- Ee at 1. rewrite is_kwarg_cons. reflexivity.
    + rewrite (IH (S k) n _ pc used _ _ _ _ ltac:(discriminate) Hrest).
      rewrite is_kwarg_cons. reflexivity.
Qed.

(* ---------- second loop: the decision for one parameter ---------- *)
Lemma mem_optstr_used_mem : forall name used, py_mem_optstr name used = used_mem name used.
Proof.
  induction used as [|u r IH]; cbn [py_mem_optstr used_mem]; [reflexivity|].
  destruct u as [y|]; cbn [opt_str_eqb]; rewrite IH; reflexivity.
Qed.

Lemma Zofnat_eqb : forall a b, Z.eqb (Z.of_nat a) (Z.of_nat b) = Nat.eqb a b.
Proof.
  intros a b. destruct (Nat.eqb_spec a b) as [->|Hn].
  - apply Z.eqb_refl.
  - apply Z.eqb_neq. lia.
Qed.

Lemma Zofnat_leb : forall a b, Z.leb (Z.of_nat a) (Z.of_nat b) = Nat.leb a b.
Proof.
  intros a b. destruct (Nat.leb_spec a b); [apply Z.leb_le | apply Z.leb_gt]; lia.
Qed.

(* the shape every path of the translated loop body must have *)
Definition body2_spec (body : option Z -> Z * (str * Z) -> lres (option Z) (option Z))
           (kw : bool) (used : list (option str)) (pc : nat) (cur : arg) : Prop :=
  forall st i p, body st (Z.of_nat i, parZ p) =
                 if index_step kw used pc cur i p then LRet (Some (Z.of_nat i)) else LNext (Some (Z.of_nat i)).

Theorem gen_calculate_index_eq : forall (ps : list param) (args : list arg),
  gen_calculate_index (map argZ args) (map parZ ps) = Ok (option_map Z.of_nat (calc_index ps args)).
Proof.
  intros ps args. unfold gen_calculate_index, calc_index.
  destruct args as [|a0 rest].
  - cbn [map negb]. destruct ps; reflexivity.
  - cbn [map negb].
    (* first loop *)
    lazymatch goal with
    | |- context [py_for ?b (py_enumerate (argZ a0 :: map argZ rest)) ?s] =>
        assert (H1 : forall st el, b st el = LNext (step1 (zlen (argZ a0 :: map argZ rest)) st el))
    end.
    { intros [[[[[[kw pc] used] sc0] oi] ok] oe] [i [[sc key] eq]]. unfold step1.
      destruct (negb (sc =? 0)); [reflexivity|].
      destruct (negb (i + 1 =? zlen (argZ a0 :: map argZ rest))); [|reflexivity].
      destruct eq; reflexivity. }
    rewrite (py_for_total _ _ H1). clear H1.
    change (argZ a0 :: map argZ rest) with (map argZ (a0 :: rest)).
    unfold py_enumerate. change 0 with (Z.of_nat 0) at 1.
    change (@nil (option str)) with (@nil (option str)).
    assert (Hlen : Z.of_nat 0 + zlen (a0 :: rest) = zlen (map argZ (a0 :: rest))).
    { unfold zlen. rewrite map_length. lia. }
    change 0 with (Z.of_nat 0) at 2.
    rewrite (fold_step1 (a0 :: rest) 0 _ false 0 [] _ _ _ _ ltac:(discriminate) Hlen).
    cbn [orb].
    destruct (scan_args (a0 :: rest) [] 0) as [used pc] eqn:Escan. cbn [fst snd].
    set (cur := last (a0 :: rest) no_arg).
    (* second loop *)
    lazymatch goal with
    | |- context [py_for ?b (py_enumerate_from _ (map parZ ps)) ?s] =>
        assert (H2 : body2_spec b (is_kwarg_of (a0 :: rest)) used pc cur)
    end.
    { unfold body2_spec. intros st i [name k]. unfold parZ, index_step. cbn [pname pkind snd fst].
      rewrite mem_optstr_used_mem.
      rewrite ?ZofN_eqb0, ?ZofN_eqb1, ?ZofN_eqb2, ?Zofnat_eqb, ?Zofnat_leb.
      destruct (is_kwarg_of (a0 :: rest)); destruct k; cbn [kind_code kind_eqb negb andb orb N.eqb Pos.eqb];
        destruct (Nat.eqb i pc); destruct (Nat.leb pc i); destruct (used_mem name used);
        destruct (a_key cur) as [key|]; destruct (a_eq cur);
        destruct (N.eqb (a_stars cur) 0) eqn:E0; destruct (N.eqb (a_stars cur) 1) eqn:E1;
        destruct (N.eqb (a_stars cur) 2) eqn:E2;
        cbn [negb andb orb];
        try (destruct (str_eqb name key)); try (destruct (starts_with name key));
        try reflexivity;
        try (apply N.eqb_eq in E0; apply N.eqb_eq in E2; congruence);
        try (apply N.eqb_eq in E0; apply N.eqb_eq in E1; congruence). }
    pose proof (py_for_find (index_step (is_kwarg_of (a0 :: rest)) used pc cur) _
                            (fun _ i => Some i) H2 ps 0%nat) as H3.
    change (Z.of_nat 0) with 0 in H3.
    lazymatch goal with
    | |- context [py_for ?b (py_enumerate_from 0 (map parZ ps)) ?s] => specialize (H3 s)
    end.
    destruct (find_idx (index_step (is_kwarg_of (a0 :: rest)) used pc cur) 0 ps) as [j|].
    + lazymatch goal with
      | |- context [py_for ?b (py_enumerate_from 0 (map parZ ps)) ?s] =>
          replace (py_for b (py_enumerate_from 0 (map parZ ps)) s) with (@LRet (option Z) (option Z) (Some (Z.of_nat j)))
            by (symmetry; exact H3)
      end. reflexivity.
    + destruct H3 as [st' H3].
      lazymatch goal with
      | |- context [py_for ?b (py_enumerate_from 0 (map parZ ps)) ?s] =>
          replace (py_for b (py_enumerate_from 0 (map parZ ps)) s) with (@LNext (option Z) (option Z) st')
            by (symmetry; exact H3)
      end. reflexivity.
Qed.
Print Assumptions gen_calculate_index_eq.
