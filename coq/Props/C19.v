(* C19 property theorems.  Nothing but statements, `exact`, and Print Assumptions. *)
From JV Require Import Base.Str Model.C19_Walk Proofs.C19_Proofs.

(* Everything the project walk yields is a folder, or a .py/.pyi file, of the tree that is
   neither named by a .gitignore of its own or an enclosing folder, nor one of the fixed
   ignored folders, nor inside such a folder. *)
Theorem C19_walk_sound :
  forall root T isdir p,
  wf_tree T -> In (isdir, p) (walk root T) ->
  exists dp name, p = path_join (pstr root dp) name /\ ItemAt T isdir dp name /\
                  (isdir = false -> is_py name = true) /\ ~ Hidden root T isdir dp name.
Proof. exact walk_sound_lemma. Qed.
Print Assumptions C19_walk_sound.

(* Every folder and every .py/.pyi file that is not hidden is yielded: ignore rules read in
   one folder never leak into folders that are not below it. *)
Theorem C19_walk_complete :
  forall root T, wf_tree T -> forall isdir dp name,
  ItemAt T isdir dp name -> (isdir = false -> is_py name = true) ->
  ~ Hidden root T isdir dp name ->
  In (isdir, path_join (pstr root dp) name) (walk root T).
Proof. exact walk_complete_lemma. Qed.
Print Assumptions C19_walk_complete.

(* The code before `fix: relative .gitignore entries must not leak ...` (str.startswith on
   path strings) misses a visible file: /p/a/.gitignore = "foo" prunes /p/ab/foo. *)
Theorem C19_walk_complete_old_prefix_refuted :
  exists root T isdir dp name,
    wf_tree T /\ ItemAt T isdir dp name /\ (isdir = false -> is_py name = true) /\
    ~ Hidden root T isdir dp name /\
    ~ In (isdir, path_join (pstr root dp) name) (walk_old_prefix root T).
Proof. exact old_prefix_refuted_lemma. Qed.
Print Assumptions C19_walk_complete_old_prefix_refuted.

(* The code before `fix: honour .gitignore entries that name files` yields a hidden file
   (/p/.gitignore = "/gen.py", /p/gen.py); the current model does not. *)
Theorem C19_walk_sound_old_files_refuted :
  exists root T p dp name,
    wf_tree T /\ In (false, p) (walk_old_files root T) /\ p = path_join (pstr root dp) name /\
    ItemAt T false dp name /\ Hidden root T false dp name /\ ~ In (false, p) (walk root T).
Proof. exact old_files_refuted_lemma. Qed.
Print Assumptions C19_walk_sound_old_files_refuted.

(* "up to the documented file limits": with at most 2000 files of which at most 30 contain
   the searched word, every file that contains it is parsed *)
Theorem C19_limits_complete :
  forall (A : Type) (check : A -> bool) (l : list A),
  (N.of_nat (length l) <= 2000)%N -> (N.of_nat (length (filter check l)) <= 30)%N ->
  search_in_file_ios check l = filter check l.
Proof. exact @limits_complete_lemma. Qed.
Print Assumptions C19_limits_complete.

(* never more than 30 files are parsed, and only files that contain the word *)
Theorem C19_limits_bounded :
  forall (A : Type) (check : A -> bool) (l : list A),
  (N.of_nat (length (search_in_file_ios check l)) <= 30)%N /\
  (forall x, In x (search_in_file_ios check l) -> In x l /\ check x = true).
Proof. exact @limits_bounded_lemma. Qed.
Print Assumptions C19_limits_bounded.

(* Script.search / complete_search for an undotted string is the filter of get_names by the
   case-folded name (exact / prefix) and the optional type, in the order of get_names *)
Theorem C19_search_is_filter_of_names :
  forall complete s names ty w,
  split_search_string s = (ty, [w]) ->
  script_search complete s names =
  Some (filter (fun n => name_matches complete (lower w) n && type_ok ty n) names).
Proof. exact script_search_filter. Qed.
Print Assumptions C19_search_is_filter_of_names.

(* _try_to_skip_duplicates: only inputs are reported; no tree name and no module path is
   reported twice; an input is dropped only if its tree name or its module path is reported *)
Theorem C19_dedupe_keeps_first :
  forall l,
  (forall x, In x (dedupe l) -> In x l) /\
  NoDup (nodes_of (dedupe l)) /\ NoDup (mods_of (dedupe l)) /\
  (forall x, In x l ->
     In x (dedupe l) \/
     (exists i, d_node x = Some i /\ In i (nodes_of (dedupe l))) \/
     (exists p, mod_key x = Some p /\ In p (mods_of (dedupe l)))).
Proof. exact dedupe_lemma. Qed.
Print Assumptions C19_dedupe_keeps_first.

(* non-vacuity: a well-formed tree and what the walk yields on it.
   /p/a/.gitignore = "foo", /p/ab/foo/m.py *)
Example C19_example_wf : wf_tree ex_tree1.
Proof. exact ex_tree1_wf. Qed.

Example C19_example_walk :
  walk ex_root ex_tree1 =
  [ (true, [47;112;47;97]%N); (true, [47;112;47;97;98]%N); (true, [47;112;47;97;98;47;102;111;111]%N);
    (false, [47;112;47;97;98;47;102;111;111;47;109;46;112;121]%N) ] /\
  walk_old_prefix ex_root ex_tree1 = [ (true, [47;112;47;97]%N); (true, [47;112;47;97;98]%N) ].
Proof. vm_compute. split; reflexivity. Qed.

Example C19_example_search :
  script_search false [99;108;97;115;115;32;70;111;111]%N     (* "class Foo" *)
    [ {| n_name := [102;111;111]%N; n_type := [99;108;97;115;115]%N; n_id := 0 |};
      {| n_name := [70;79;79]%N; n_type := [102;117;110;99;116;105;111;110]%N; n_id := 1 |};
      {| n_name := [102;111;111;120]%N; n_type := [99;108;97;115;115]%N; n_id := 2 |} ]
  = Some [ {| n_name := [102;111;111]%N; n_type := [99;108;97;115;115]%N; n_id := 0 |} ].
Proof. vm_compute. reflexivity. Qed.
