(* C14 property theorems.  Nothing but statements, `exact`, and Print Assumptions.
   `run true true` is the protocol as the code stands (a death in the version handshake of a
   replacement helper is InternalError; a truncated reply is handled like EOF); `run false true`
   and `run true false` are the code before the first / the second of these fixes.  `sched g k` is the fault injected into request k
   of helper generation g, so `forall sched ops` ranges over every fault pattern and every
   history of Script creations, queries, drops and get_sys_path calls, of any length. *)
From JV Require Import Model.C14_Protocol Proofs.C14_Proofs.

(* Each helper death fails at most one operation and that failure is InternalError - also when the
   death hits the version handshake of a replacement helper; every other failure is either a
   query on a Script whose helper had already crashed (InternalError, no new death) or the relayed
   exception of a helper function that raised (no death).  So the failures counted against the
   property are exactly as many as there were deaths. *)
Theorem C14_one_internal_error_per_death : forall sched ops s es,
  run true true sched init ops = (s, es) ->
  Forall (fun e =>
    e_deaths e <= 1 /\
    (e_deaths e = 1 -> e_stale e = false /\ e_out e = OExc EInternal) /\
    (forall x, e_out e = OExc x -> e_stale e = false ->
       (e_deaths e = 1 /\ x = EInternal) \/
       (e_deaths e = 0 /\ x = EHelper /\ raisedb (e_wire e) = true)) /\
    (e_stale e = true -> e_out e = OExc EInternal /\ e_deaths e = 0)) es /\
  length (filter fresh_failure es) = total_deaths es.
Proof. exact one_internal_error_per_death_L. Qed.
Print Assumptions C14_one_internal_error_per_death.

(* The only exception a crash produces is InternalError, unconditionally. *)
Theorem C14_only_internal_error : forall sched ops s es,
  run true true sched init ops = (s, es) ->
  Forall (fun e => forall x, e_out e = OExc x ->
            x = EInternal \/ (x = EHelper /\ raisedb (e_wire e) = true)) es.
Proof. exact only_internal_error_L. Qed.
Print Assumptions C14_only_internal_error.

(* The code before `fix: a helper that dies during the version handshake of a restart ...`:
   a replacement helper dying in its handshake gave InvalidPythonEnvironment. *)
Theorem C14_handshake_death_prefix_refuted :
  exists sched ops, In (OExc EInvalidEnv) (map e_out (snd (run false true sched init ops))).
Proof. exact handshake_death_prefix_refuted_L. Qed.
Print Assumptions C14_handshake_death_prefix_refuted.

(* The FIRST handshake of an environment is different on purpose: a crash there means the
   executable is no usable Python - InvalidPythonEnvironment, no Environment object, helper reaped;
   without one the environment starts in `init`, the state all other theorems start from. *)
Theorem C14_first_handshake : forall sched,
  (sched 1%N 0%N = FNone \/ sched 1%N 0%N = FRaises ->
     exists h w, start_env true sched = (inl init, h, w)) /\
  (sched 1%N 0%N <> FNone -> sched 1%N 0%N <> FRaises ->
     exists h w, start_env true sched = (inr EInvalidEnv, h, w) /\
                 h_crashed h = true /\ is_zombie h = false /\ h_reaped h = true).
Proof. exact first_handshake_L. Qed.
Print Assumptions C14_first_handshake.

(* Recovery: whatever happened before, an operation on a Script whose helper has not crashed and
   whose requests meet no fault gives the answer of the run in which nothing ever fails. *)
Theorem C14_recovery_same_answers : forall sched ops s es s0 es0,
  run true true sched init ops = (s, es) ->
  run true true no_faults init ops = (s0, es0) ->
  Forall (fun e => e_out e <> ONoScript) es0 ->
  forall i e e0, nth_error es i = Some e -> nth_error es0 i = Some e0 ->
    e_stale e = false -> clean (e_wire e) = true -> e_out e <> ONoScript ->
    e_out e = e_out e0.
Proof. exact recovery_same_answers_L. Qed.
Print Assumptions C14_recovery_same_answers.

(* A Script created after a crash gets a live helper of the next generation with no state. *)
Theorem C14_recovery_new_generation : forall sched ops s es id s' e,
  run true true sched init ops = (s, es) ->
  step true true sched s (OpNew id) = (s', e) -> e_out e = OOk [] ->
  h_crashed (cur s') = false /\ h_alive (cur s') = true /\
  exists sc, find_script id (scripts s') = Some sc /\ s_gen sc = h_gen (cur s') /\ s_used sc = false /\
  (h_crashed (cur s) = true -> h_gen (cur s') = N.succ (h_gen (cur s)) /\ h_states (cur s') = []).
Proof. exact recovery_new_generation_L. Qed.
Print Assumptions C14_recovery_new_generation.

(* Helpers are started only to replace dead ones: generations = 1 + deaths. *)
Theorem C14_helpers_started_is_one_plus_deaths : forall sched ops s es,
  run true true sched init ops = (s, es) ->
  (h_gen (cur s) + (if h_crashed (cur s) then 1 else 0))%N = (1 + N.of_nat (total_deaths es))%N.
Proof. exact spawn_accounting_L. Qed.
Print Assumptions C14_helpers_started_is_one_plus_deaths.

(* No helper-side state leaks: the helper's ids are the queued deletions plus the live used
   Scripts, without duplicates; right after an answered request the queue is empty and the
   helper holds exactly the live used Scripts (this one among them). *)
Theorem C14_no_helper_state_leak : forall sched ops s es,
  run true true sched init ops = (s, es) ->
  (h_crashed (cur s) = false ->
     NoDup (h_states (cur s)) /\
     forall x, In x (h_states (cur s)) <->
               In x (h_queue (cur s)) \/ In x (used_ids (h_gen (cur s)) (scripts s))) /\
  (forall id cs s' e, step true true sched s (OpQuery id cs) = (s', e) -> cs <> [] ->
     e_stale e = false -> e_deaths e = 0 -> e_out e <> ONoScript ->
     h_crashed (cur s') = false /\ h_queue (cur s') = [] /\ In id (h_states (cur s')) /\
     forall x, In x (h_states (cur s')) <-> In x (used_ids (h_gen (cur s')) (scripts s'))).
Proof. exact no_helper_state_leak_L. Qed.
Print Assumptions C14_no_helper_state_leak.

(* Every helper that is not running has been through _cleanup_process: no zombies, and the only
   pipe ends still open are the three of a live current helper. *)
Theorem C14_dead_helpers_reaped : forall sched ops s es,
  run true true sched init ops = (s, es) ->
  Forall (fun h => (h_alive h = false -> h_reaped h = true) /\
                   (h_crashed h = true -> h_alive h = false /\ h_reaped h = true /\ h_states h = []) /\
                   (h_crashed h = false -> h_alive h = true /\ h_reaped h = false)) (helpers s) /\
  Forall (fun h => h_crashed h = true) (old s) /\
  zombies s = 0 /\
  open_pipes s = (if h_crashed (cur s) then 0 else 3).
Proof. exact dead_helpers_reaped_L. Qed.
Print Assumptions C14_dead_helpers_reaped.

(* The code before the fix: one death (a truncated reply), two failing queries on fresh Scripts,
   one of them not InternalError.  This is what the differential must (and does) tell apart. *)
Theorem C14_truncated_reply_prefix_refuted :
  exists sched ops, let es := snd (run true false sched init ops) in
    total_deaths es = 1 /\ length (filter fresh_failure es) = 2 /\ In (OExc EUnpickling) (map e_out es).
Proof. exact truncated_reply_prefix_refuted_L. Qed.
Print Assumptions C14_truncated_reply_prefix_refuted.

(* non-vacuity: the same history on the code as it is: one death, one failure, recovery *)
Example C14_example_truncated_now :
  let es := snd (run true true wit_sched2 init wit_ops2) in
  map e_out es = [OOk []; OExc EInternal; OOk []; OOk []; OOk [6%N]; OOk []; OOk [7%N]] /\
  total_deaths es = 1 /\ length (filter fresh_failure es) = 1.
Proof. vm_compute. auto. Qed.

(* non-vacuity of the recovery theorem: three crashes in a row, then the undisturbed answers *)
Example C14_example_three_crashes :
  map e_out (snd (run true true (sched_of [(1%N, 2%N, FDeadBefore); (2%N, 1%N, FTrunc); (3%N, 1%N, FDiesAfter)]) init
    [OpNew 1%N; OpQuery 1%N [CEcho 1%N; CEcho 2%N]; OpDrop 1%N; OpNew 2%N; OpQuery 2%N [CEcho 1%N; CEcho 2%N];
     OpNew 3%N; OpQuery 3%N [CEcho 1%N; CEcho 2%N]; OpNew 4%N; OpQuery 4%N [CEcho 1%N; CEcho 2%N];
     OpQuery 1%N [CEcho 9%N]]))
  = [OOk []; OExc EInternal; OOk []; OOk []; OExc EInternal; OOk []; OExc EInternal; OOk [];
     OOk [1%N; 2%N]; ONoScript].
Proof. vm_compute. reflexivity. Qed.

(* non-vacuity: the handshake witness on the code as it is: InternalError, then recovery *)
Example C14_example_handshake_now :
  map e_out (snd (run true true wit_sched1 init wit_ops1))
  = [OOk []; OExc EInternal; OExc EInternal; OOk []; OOk [6%N]].
Proof. vm_compute. reflexivity. Qed.
