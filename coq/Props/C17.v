(* C17 property theorems.  Nothing but statements, `exact`, and Print Assumptions
   (+ Examples by vm_compute for non-vacuity). *)
From Coq Require Import Sorting.Sorted Sorting.Permutation.
From JV Require Import Base.Str Model.C17_Positions Proofs.C17_Proofs.
Local Open Scope N_scope.

(* ---- lines ---- *)

(* joining the lines gives the text back: no character is lost, duplicated or reordered *)
Theorem C17_join_split : forall s, concat (split_lines s) = s.
Proof. exact join_split. Qed.
Print Assumptions C17_join_split.

(* every line but the last is a break-free body followed by exactly one of "\n", "\r",
   "\r\n"; the last line has no line break: form feed, \x0b, \x1c-\x1e, \x85, U+2028/9 and
   tabs never split, every "\n"/"\r" does *)
Theorem C17_split_lines_shape : forall s,
  exists init last,
    split_lines s = init ++ [last] /\ no_break last = true /\
    Forall (fun l => exists body, no_break body = true /\
                       (l = body ++ [10] \/ l = body ++ [13] \/ l = body ++ [13; 10])) init.
Proof. exact split_lines_shape. Qed.
Print Assumptions C17_split_lines_shape.

(* one line per line break ("\r\n" counting once), plus the last line *)
Theorem C17_split_lines_count : forall s, length (split_lines s) = S (count_breaks s).
Proof. exact split_lines_count. Qed.
Print Assumptions C17_split_lines_count.

(* the algorithm parso runs (str.splitlines(True), merge what was split at a non-Python
   line break, append "" after a final line break) computes exactly [split_lines] *)
Theorem C17_split_lines_is_parso_algorithm : forall s, split_lines_parso s = split_lines s.
Proof. exact split_lines_parso_eq. Qed.
Print Assumptions C17_split_lines_is_parso_algorithm.

(* ---- text at the reported position ---- *)

(* In a consistent tree, for EVERY leaf: the lines of the module's code, sliced at the
   leaf's recorded (line, column) for len(value) characters, give the leaf's value up to and
   including its first line break (= the whole value for single-line tokens) -- for any
   mixture of \n, \r\n, \r, tabs, form feeds, continuation lines, multi-line strings and a
   missing final newline (no hypothesis on the text). *)
Theorem C17_leaf_text_at_pos : forall t A l B,
  consistent t = true -> leaves t = A ++ l :: B ->
  slice_at (split_lines (get_code t)) (lstart l) (length (lvalue l)) = first_line (lvalue l).
Proof. exact leaf_text_at_pos. Qed.
Print Assumptions C17_leaf_text_at_pos.

(* ... and for a token without line break (every identifier): exactly its value *)
Theorem C17_name_text_at_pos : forall t A l B,
  consistent t = true -> leaves t = A ++ l :: B -> no_break (lvalue l) = true ->
  slice_at (split_lines (get_code t)) (lstart l) (length (lvalue l)) = lvalue l.
Proof. exact leaf_text_exact. Qed.
Print Assumptions C17_name_text_at_pos.

(* ---- get_line_code ---- *)

(* with the default before=0, after=0 it returns exactly line number `line` of the lines *)
Theorem C17_line_code_is_line : forall lines l, get_line_code lines l 0 0 = line_at lines l.
Proof. exact line_code_is_line. Qed.
Print Assumptions C17_line_code_is_line.

(* that line exists and contains the token at the reported column *)
Theorem C17_line_code_contains_name : forall t A l B,
  consistent t = true -> leaves t = A ++ l :: B -> lvalue l <> [] ->
  let lines := split_lines (get_code t) in
  1 <= fst (lstart l) /\ (N.to_nat (fst (lstart l) - 1) < length lines)%nat /\
  exists a b, get_line_code lines (fst (lstart l)) 0 0 = a ++ first_line (lvalue l) ++ b /\
              length a = N.to_nat (snd (lstart l)).
Proof. exact line_code_contains_name. Qed.
Print Assumptions C17_line_code_contains_name.

(* ---- definition range ---- *)

(* whatever ancestor node get_definition() picks (free of zero-width error leaves), the
   reported range [start of its first leaf, end of its last leaf (for functions/classes: of
   the last leaf that is not the trailing newline)] encloses the whole name token *)
Theorem C17_def_range_encloses : forall t path d x fc,
  consistent t = true -> subtree t path = Some d -> solid d = true -> In x (leaves d) ->
  is_name x = true -> no_break (lvalue x) = true ->
  exists rng, def_range t (Some path) x fc = Some rng /\
              encloses rng (lstart x) (length (lvalue x)) = true.
Proof. exact def_range_encloses. Qed.
Print Assumptions C17_def_range_encloses.

(* a name without definition node reports its own extent *)
Theorem C17_def_range_without_definition : forall t x fc,
  no_break (lvalue x) = true ->
  exists rng, def_range t None x fc = Some rng /\
              encloses rng (lstart x) (length (lvalue x)) = true.
Proof. exact def_range_none_encloses. Qed.
Print Assumptions C17_def_range_without_definition.

(* ---- name enumeration ---- *)

(* for every flag combination: a permutation of the selected name leaves, sorted by position
   (no hypothesis on the tree) *)
Theorem C17_names_sorted_permutation : forall t a d r,
  Permutation (script_names t a d r) (filter (selected a d r) (names_of t)) /\
  StronglySorted (fun x y => pos_leb (lstart x) (lstart y) = true) (script_names t a d r).
Proof. exact script_names_perm. Qed.
Print Assumptions C17_names_sorted_permutation.

(* in a consistent tree: exactly the selected name leaves, in document order *)
Theorem C17_names_selected_exactly : forall t a d r,
  consistent t = true -> names_wf t = true ->
  script_names t a d r = filter (selected a d r) (names_of t).
Proof. exact script_names_eq. Qed.
Print Assumptions C17_names_selected_exactly.

(* all_scopes, definitions, references: every name leaf of the tree, each exactly once *)
Theorem C17_names_once_each : forall t,
  consistent t = true -> names_wf t = true ->
  script_names t true true true = names_of t.
Proof. exact names_once_each. Qed.
Print Assumptions C17_names_once_each.

(* definitions only: exactly the leaves for which the parser's is_definition holds;
   references only: exactly the others *)
Theorem C17_names_definitions_only : forall t,
  consistent t = true -> names_wf t = true ->
  script_names t true true false = filter l_isdef (names_of t) /\
  script_names t true false true = filter (fun l => negb (l_isdef l)) (names_of t).
Proof. exact names_definitions_only. Qed.
Print Assumptions C17_names_definitions_only.

(* no two reported names share a position *)
Theorem C17_names_distinct_positions : forall t,
  consistent t = true -> names_wf t = true -> NoDup (map lstart (names_of t)).
Proof. exact names_nodup_positions. Qed.
Print Assumptions C17_names_distinct_positions.

(* ---- non-vacuity and a refutation ---- *)

(* the parso tree of
     "def f(a):\r\n\tx = a + \\\r\n  1\r\x0c\xe9 = '''s\nt'''\ny = f"
   (CRLF, lone CR, LF, tab, form feed, continuation line, multi-line string, unicode
   identifier, no final newline) is [ex_tree] in Proofs/C17_Proofs.v *)
Example C17_example_consistent :
  consistent ex_tree = true /\ names_wf ex_tree = true /\
  option_map solid (subtree ex_tree [0%nat]) = Some true /\
  get_code ex_tree =
    [100;101;102;32;102;40;97;41;58;13;10;9;120;32;61;32;97;32;43;32;92;13;10;32;32;49;13;12;233;
     32;61;32;39;39;39;115;10;116;39;39;39;10;121;32;61;32;102] /\
  length (split_lines (get_code ex_tree)) = 6%nat /\
  map obs_name (script_names ex_tree true true true) =
    [(1, 4, [102], true); (1, 6, [97], true); (2, 1, [120], true); (2, 5, [97], false);
     (4, 1, [233], true); (6, 0, [121], true); (6, 4, [102], false)] /\
  map obs_name (script_names ex_tree false true false) =
    [(1, 4, [102], true); (6, 0, [121], true)] /\
  (* the funcdef node is child 0; `x` inside it; function range ends before the last newline *)
  def_range ex_tree (Some [0%nat]) (L (KName true false) [9] [120] 2 1) true = Some ((1, 0), (5, 4)) /\
  def_range ex_tree (Some [0%nat]) (L (KName true false) [9] [120] 2 1) false = Some ((1, 0), (6, 0)) /\
  get_line_code (split_lines (get_code ex_tree)) 4 0 0 = [12;233;32;61;32;39;39;39;115;10] /\
  get_line_code (split_lines (get_code ex_tree)) 4 1 1 = [32;32;49;13;12;233;32;61;32;39;39;39;115;10;116;39;39;39;10].
Proof. vm_compute. repeat split; reflexivity. Qed.

(* A buffer that starts with U+FEFF: parso keeps the BOM in the first prefix but does not
   count it, so the tree it builds for "\ufeffx = 1\n" is NOT consistent and the text at the
   recorded position of `x` is the BOM, not "x" (reproduced on the implementation by the
   `names` stream; known finding C17-bom-first-line). *)
Theorem C17_bom_refuted :
  exists t A l B,
    leaves t = A ++ l :: B /\ is_name l = true /\ consistent t = false /\
    slice_at (split_lines (get_code t)) (lstart l) (length (lvalue l)) <> lvalue l.
Proof. exact bom_refuted. Qed.
Print Assumptions C17_bom_refuted.
