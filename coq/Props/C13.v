(* C13 property theorems.  Nothing but statements, `exact`, and Print Assumptions
   (plus closed Examples for non-vacuity). *)
From JV Require Import Base.Str Model.C13_Getattr Proofs.C13_Proofs.

(* _check_class is _PyType_Lookup as long as no metaclass shadows __dict__ *)
Theorem C13_check_class_is_type_lookup :
  forall h k n, no_meta_shadow h -> check_class h k n = type_lookup h k n.
Proof. exact check_class_lookup. Qed.
Print Assumptions C13_check_class_is_type_lookup.

(* T1, instances: getattr_static says "(a, not a get-descriptor)" => getattr(o, n) runs no hook
   at all, and (when the instance dict is consulted) returns exactly a *)
Theorem C13_static_no_descriptor_run :
  forall h o n a,
  no_meta_shadow h ->
  is_type h o = false ->
  user_hook h (type_of h o) s_getattribute = false ->
  getattr_static h o n = Some (a, false) ->
  snd (py_getattr h o n) = [] /\
  (dict_consulted h (type_of h o) = true -> fst (py_getattr h o n) = RVal a).
Proof. exact static_no_descriptor_run. Qed.
Print Assumptions C13_static_no_descriptor_run.

(* T1 for class objects holds only under an extra hypothesis about the metaclass that the
   code does not establish (meta_harmless) *)
Theorem C13_static_no_descriptor_run_types :
  forall h o n a,
  no_meta_shadow h ->
  is_type h o = true ->
  user_hook h (type_of h o) s_getattribute = false ->
  getattr_static h o n = Some (a, false) ->
  meta_harmless h o n ->
  existsb descr_hook (snd (py_getattr h o n)) = false /\
  (meta_no_get h o n -> py_getattr h o n = (RVal a, [])).
Proof. exact static_no_descriptor_run_types. Qed.
Print Assumptions C13_static_no_descriptor_run_types.

(* refutation: a property on the metaclass is reported (attr, False) and getattr runs its getter *)
Theorem C13_static_no_descriptor_run_types_refuted :
  exists h o n a p,
    no_meta_shadow h /\ builtin_descr_wf h /\ is_type h o = true /\
    user_hook h (type_of h o) s_getattribute = false /\
    getattr_static h o n = Some (a, false) /\
    py_getattr h o n = (RHook, [HPropGet p]).
Proof. exact static_no_descriptor_run_types_refuted. Qed.
Print Assumptions C13_static_no_descriptor_run_types_refuted.

(* refutation: when a metaclass shadows __dict__ even instances are unsafe *)
Theorem C13_static_no_descriptor_run_needs_no_meta_shadow :
  exists h o n a p,
    is_type h o = false /\ user_hook h (type_of h o) s_getattribute = false /\
    getattr_static h o n = Some (a, false) /\
    py_getattr h o n = (RHook, [HPropGet p]).
Proof. exact static_no_descriptor_run_needs_no_meta_shadow. Qed.
Print Assumptions C13_static_no_descriptor_run_needs_no_meta_shadow.

(* T1, second half: a non-allowed get-descriptor becomes an empty name; nothing is looked up *)
Theorem C13_safe_filter_empty_for_descriptors :
  forall h o n a is_instance check_has annot_values in_dir c,
  getattr_static h o n = Some (a, true) ->
  allowed_descr_type h a = false ->
  snd (is_allowed_getattr h o n true) = [] /\
  (In c (filter_get false is_instance check_has (fst (is_allowed_getattr h o n true)) annot_values in_dir) ->
   (c = NEmpty \/ c = NAnnot) /\ name_infer_hooks h o n c = []).
Proof. exact safe_filter_empty_for_descriptors. Qed.
Print Assumptions C13_safe_filter_empty_for_descriptors.

(* composition: whatever name the safe-mode filter hands out, inferring it runs no Python-level
   __get__ and no property getter *)
Theorem C13_safe_filter_runs_no_descriptor :
  forall h o n is_instance check_has annot_values in_dir c,
  no_meta_shadow h -> builtin_descr_wf h ->
  user_hook h (type_of h o) s_getattribute = false ->
  (is_type h o = true -> meta_harmless h o n) ->
  snd (is_allowed_getattr h o n true) = [] /\
  (In c (filter_get false is_instance check_has (fst (is_allowed_getattr h o n true)) annot_values in_dir) ->
   existsb descr_hook (name_infer_hooks h o n c) = false).
Proof. exact safe_filter_runs_no_descriptor. Qed.
Print Assumptions C13_safe_filter_runs_no_descriptor.

(* T2: safe item access / iteration over the live object only for exact builtin container types *)
Theorem C13_safe_items_builtin_only :
  forall h o allow_unsafe has_iter_attr ret_annot a,
  In a (compiled_simple_getitem h o false ++ mixed_simple_getitem h o allow_unsafe
        ++ iter_list h o has_iter_attr ret_annot) ->
  access_target a = o /\ allowed_getitem_type h o = true.
Proof. exact safe_items_builtin_only. Qed.
Print Assumptions C13_safe_items_builtin_only.

(* refutation: py__iter__ first calls iter(obj) on any object, running a user __iter__ *)
Theorem C13_safe_iteration_probe_refuted :
  exists h o has_iter_attr ret_annot a,
    In a (compiled_py_iter h o has_iter_attr ret_annot) /\
    allowed_getitem_type h (access_target a) = false /\
    user_hook h (type_of h (access_target a)) s_iter = true.
Proof. exact safe_iteration_probe_refuted. Qed.
Print Assumptions C13_safe_iteration_probe_refuted.

(* refutation: py__bool__ calls bool(obj) on any object, running a user __bool__/__len__ *)
Theorem C13_safe_truth_value_refuted :
  exists h o a,
    In a (compiled_py_bool h o) /\
    allowed_getitem_type h (access_target a) = false /\
    user_truth_hook h (access_target a) = true.
Proof. exact safe_truth_value_refuted. Qed.
Print Assumptions C13_safe_truth_value_refuted.

(* refutation: py__getitem__all_values (the non-literal-index route of obj[...]) iterates over
   instances of SUBCLASSES of list/tuple/dict, running their Python-level __iter__ *)
Theorem C13_safe_getitem_all_values_refuted :
  exists h o a,
    In a (getitem_all_values h o) /\
    allowed_getitem_type h (access_target a) = false /\
    user_hook h (type_of h (access_target a)) s_iter = true.
Proof. exact safe_getitem_all_values_refuted. Qed.
Print Assumptions C13_safe_getitem_all_values_refuted.

(* ... while on exact list/tuple/dict objects it stays within the allowed container types *)
Theorem C13_getitem_all_values_exact :
  forall h o a,
    kind_in (kind_of h (type_of h o)) [KDict; KList; KTuple] = true ->
    In a (getitem_all_values h o) -> allowed_getitem_type h (access_target a) = true.
Proof. exact getitem_all_values_exact. Qed.
Print Assumptions C13_getitem_all_values_exact.

(* T3: values() hands out exactly one name per dir() entry, in order *)
Theorem C13_values_cover_dir :
  forall h o dirs allow_unsafe is_instance annot_values,
  map fst (filter_values h o dirs allow_unsafe is_instance annot_values) = dirs /\
  (forall n, In n dirs -> exists c, In (n, c) (filter_values h o dirs allow_unsafe is_instance annot_values)).
Proof. exact values_cover_dir. Qed.
Print Assumptions C13_values_cover_dir.

(* everything getattr_static can find on an instance is listed by dir *)
Theorem C13_static_found_in_dir :
  forall h o n r,
  is_type h o = false -> getattr_static h o n = Some r -> In n (py_dir h o).
Proof. exact static_found_in_dir. Qed.
Print Assumptions C13_static_found_in_dir.

(* ---- non-vacuity: ex_heap (Proofs/C13_Proofs.v) has object/type/function/property/
   wrapper_descriptor classes, a user class C (id 6) with a plain attribute, a property and a
   method, and an instance (id 10) with an instance dict ---- *)

Example C13_example_hypotheses :
  (no_meta_shadow_b ex_heap, builtin_descr_wf_b ex_heap, is_type ex_heap 10, is_type ex_heap 6,
   user_hook ex_heap (type_of ex_heap 10) s_getattribute,
   user_hook ex_heap (type_of ex_heap 6) s_getattribute,
   dict_consulted ex_heap (type_of ex_heap 10))
  = (true, true, false, true, false, false, true).
Proof. vm_compute. reflexivity. Qed.

(* plain class attribute through the instance: hypotheses of T1 hold, getattr returns it *)
Example C13_example_plain :
  (getattr_static ex_heap 10 n_plain, py_getattr ex_heap 10 n_plain,
   filter_get_name ex_heap 10 n_plain false true false true)
  = (Some (7, false), (RVal 7, []), [NReal false]).
Proof. vm_compute. reflexivity. Qed.

(* instance-dict attribute *)
Example C13_example_instance_dict :
  (getattr_static ex_heap 10 n_iv, py_getattr ex_heap 10 n_iv, py_dir ex_heap 10)
  = (Some (7, false), (RVal 7, []), [n_iv; n_plain; n_prop; n_meth]).
Proof. vm_compute. reflexivity. Qed.

(* property: reported as a get-descriptor of a non-allowed type; the filter hands out an
   empty name although getattr would run the getter (hypotheses of T1 second half) *)
Example C13_example_prop :
  (getattr_static ex_heap 10 n_prop, allowed_descr_type ex_heap 8,
   is_allowed_getattr ex_heap 10 n_prop true,
   filter_get_name ex_heap 10 n_prop false true false true,
   py_getattr ex_heap 10 n_prop)
  = (Some (8, true), false, ((true, true, false), []), [NEmpty], (RHook, [HPropGet 8])).
Proof. vm_compute. reflexivity. Qed.

(* method: a get-descriptor of an allowed type; getattr binds it with builtin code only *)
Example C13_example_meth :
  (getattr_static ex_heap 10 n_meth, allowed_descr_type ex_heap 9,
   filter_get_name ex_heap 10 n_meth false true false true,
   py_getattr ex_heap 10 n_meth)
  = (Some (9, true), true, [NReal false], (RBound 9 10, [])).
Proof. vm_compute. reflexivity. Qed.

(* the class object itself: hypotheses of T1-for-types hold *)
Example C13_example_class_object :
  (getattr_static ex_heap 6 n_plain, py_getattr ex_heap 6 n_plain,
   getattr_static ex_heap 6 n_meth, py_getattr ex_heap 6 n_meth)
  = (Some (7, false), (RVal 7, []), Some (9, true), (RVal 9, [])).
Proof. vm_compute. reflexivity. Qed.

(* the Prop-level hypotheses of the theorems above are satisfiable *)
Example C13_example_prop_level_hypotheses :
  no_meta_shadow ex_heap /\ builtin_descr_wf ex_heap /\
  is_type ex_heap 10 = false /\ is_type ex_heap 6 = true /\
  user_hook ex_heap (type_of ex_heap 10) s_getattribute = false /\
  user_hook ex_heap (type_of ex_heap 6) s_getattribute = false /\
  meta_harmless ex_heap 6 n_plain /\ meta_no_get ex_heap 6 n_plain /\
  meta_harmless ex_heap 6 n_meth.
Proof. exact ex_heap_hypotheses. Qed.

(* the refutation witnesses, evaluated *)
Example C13_example_meta_property :
  (getattr_static heap_meta_prop 7 n_mp, py_getattr heap_meta_prop 7 n_mp,
   filter_get_name heap_meta_prop 7 n_mp false false false true)
  = (Some (6, false), (RHook, [HPropGet 6]), [NReal false]).
Proof. vm_compute. reflexivity. Qed.

Example C13_example_meta_shadow :
  (no_meta_shadow_b heap_meta_shadow,
   getattr_static heap_meta_shadow 10 n_x, py_getattr heap_meta_shadow 10 n_x,
   filter_get_name heap_meta_shadow 10 n_x false true false true)
  = (false, Some (9, false), (RHook, [HPropGet 8]), [NReal false]).
Proof. vm_compute. reflexivity. Qed.
