(* C16 property theorems.  Nothing but statements, `exact`, and Print Assumptions. *)
From Coq Require Import Sorting.Sorted Sorting.Permutation.
From JV Require Import Base.Str Model.C16_Determinism Proofs.C16_Proofs.

(* the sort key of sorted_definitions determines the tuple Name.__eq__ compares
   (start_pos, module_path, name, inference_state) on results of one inference state whose
   path does not print as '' and which do not sit at (0, 0) *)
Theorem C16_key_determines_identity :
  forall a b, wf a -> wf b -> r_ist a = r_ist b -> sort_key a = sort_key b -> name_eqb a b = true.
Proof. exact key_determines_identity. Qed.
Print Assumptions C16_key_determines_identity.

(* ... and not without those side conditions: start_pos None and (0, 0) share a key *)
Theorem C16_key_injective_unrestricted_refuted :
  exists a b, r_ist a = r_ist b /\ name_eqb a b = false /\ sort_key a = sort_key b.
Proof. exact key_not_injective_unrestricted. Qed.
Print Assumptions C16_key_injective_unrestricted_refuted.

(* infer = sort o set: two enumerations of the same result set give EQUAL lists *)
Theorem C16_infer_order_function_of_set :
  forall l1 l2,
  (forall x, In x l1 <-> In x l2) -> Forall wf l1 -> same_ist l1 -> coherent l1 ->
  infer_out l1 = infer_out l2.
Proof. exact infer_function_of_set. Qed.
Print Assumptions C16_infer_order_function_of_set.

(* without `coherent`: whatever __eq__ and the key can see of the output is still determined *)
Theorem C16_infer_identity_function_of_set :
  forall l1 l2,
  (forall x, In x (map strip l1) <-> In x (map strip l2)) -> Forall wf l1 -> same_ist l1 ->
  map strip (infer_out l1) = map strip (infer_out l2).
Proof. exact infer_identity_function_of_set. Qed.
Print Assumptions C16_infer_identity_function_of_set.

(* ... but which of several __eq__-equal results survives set() depends on the enumeration *)
Theorem C16_infer_survivor_refuted :
  exists l1 l2, Permutation l1 l2 /\ Forall wf l1 /\ same_ist l1 /\ infer_out l1 <> infer_out l2.
Proof. exact infer_survivor_depends_on_enumeration. Qed.
Print Assumptions C16_infer_survivor_refuted.

Theorem C16_infer_sorted :
  forall l, StronglySorted (fun a b => leb_by res dkey sort_key dkey_cmp a b = true) (infer_out l).
Proof. exact infer_sorted. Qed.
Print Assumptions C16_infer_sorted.

(* get_references = sort (no set): function of the multiset of results *)
Theorem C16_refs_order_function_of_multiset :
  forall l1 l2,
  Permutation l1 l2 -> Forall wf l1 -> same_ist l1 -> coherent l1 -> refs_out l1 = refs_out l2.
Proof. exact refs_function_of_multiset. Qed.
Print Assumptions C16_refs_order_function_of_multiset.

Theorem C16_refs_sorted_permutation :
  forall l, StronglySorted (fun a b => leb_by res dkey sort_key dkey_cmp a b = true) (refs_out l) /\
            Permutation l (refs_out l).
Proof. exact refs_sorted_perm. Qed.
Print Assumptions C16_refs_sorted_permutation.

(* goto = set o sort: the same SET for every enumeration *)
Theorem C16_goto_set_equal :
  forall l1 l2,
  (forall x, In x l1 <-> In x l2) -> coherent l1 ->
  forall x, In x (goto_set l1) <-> In x (goto_set l2).
Proof. exact goto_same_set. Qed.
Print Assumptions C16_goto_set_equal.

Theorem C16_goto_identity_set_equal :
  forall l1 l2,
  (forall x, In x (map strip l1) <-> In x (map strip l2)) ->
  forall x, In x (map strip (goto_set l1)) <-> In x (map strip (goto_set l2)).
Proof. exact goto_identity_same_set. Qed.
Print Assumptions C16_goto_identity_set_equal.

(* the canonical form the harness compares *)
Theorem C16_goto_canonical_equal :
  forall l1 l2,
  (forall x, In x l1 <-> In x l2) -> Forall wf l1 -> same_ist l1 -> coherent l1 ->
  goto_canon l1 = goto_canon l2.
Proof. exact goto_canon_equal. Qed.
Print Assumptions C16_goto_canonical_equal.

(* get_signatures has no ordering step: its order is the enumeration order of the value set *)
Theorem C16_signatures_order_refuted :
  (forall l, sigs_out l = l) /\
  exists l1 l2, Permutation l1 l2 /\ Forall wf l1 /\ same_ist l1 /\ coherent l1 /\ sigs_out l1 <> sigs_out l2.
Proof. exact sigs_order_is_enumeration_order. Qed.
Print Assumptions C16_signatures_order_refuted.

(* complete: a stable sort over a SEQUENCE: sorted by the documented key, a permutation, and
   names with equal keys stay in the order of the sequence *)
Theorem C16_complete_order_function_of_sequence :
  forall like l,
  StronglySorted (fun a b => leb_by cres ckey (csort_key like) ckey_cmp a b = true) (csort like l) /\
  Permutation l (csort like l) /\
  (forall k, filter (key_eqb_by cres ckey (csort_key like) ckey_cmp k) (csort like l) =
             filter (key_eqb_by cres ckey (csort_key like) ckey_cmp k) l).
Proof. exact complete_sorted_stable. Qed.
Print Assumptions C16_complete_order_function_of_sequence.

(* ... independent of the enumeration order EXACTLY when no two different names share a key *)
Theorem C16_complete_order_independent_iff_no_ties :
  forall like l,
  (forall l', Permutation l l' -> csort like l = csort like l') <->
  (forall a b, In a l -> In b l -> csort_key like a = csort_key like b -> a = b).
Proof. exact complete_order_indep_iff. Qed.
Print Assumptions C16_complete_order_independent_iff_no_ties.

Theorem C16_complete_names_distinct :
  forall like l, NoDup (map c_name (complete_out like l)).
Proof. exact complete_out_names_distinct. Qed.
Print Assumptions C16_complete_names_distinct.

Theorem C16_complete_function_of_survivors :
  forall like l l',
  Permutation (cdedup l) (cdedup l') ->
  (forall a b, In a (cdedup l) -> In b (cdedup l) -> csort_key like a = csort_key like b -> a = b) ->
  complete_out like l = complete_out like l'.
Proof. exact complete_out_function_of_survivors. Qed.
Print Assumptions C16_complete_function_of_survivors.

(* the two places where the engine's enumeration order shows through complete() *)
Theorem C16_complete_key_tie_refuted :
  exists like l1 l2, Permutation l1 l2 /\ NoDup (map c_name l1) /\ complete_out like l1 <> complete_out like l2.
Proof. exact complete_key_tie_depends_on_enumeration. Qed.
Print Assumptions C16_complete_key_tie_refuted.

Theorem C16_complete_survivor_refuted :
  exists like l1 l2, Permutation l1 l2 /\ complete_out like l1 <> complete_out like l2 /\
                     map c_name (complete_out like l1) = map c_name (complete_out like l2).
Proof. exact complete_survivor_depends_on_enumeration. Qed.
Print Assumptions C16_complete_survivor_refuted.

(* after any code built from the try/finally shapes of the anchors - returning or raising -
   every transient equals its value before *)
Theorem C16_transients_restored :
  forall o s, t_flow s = true -> t_ana s = false -> transients (st_of (exec o s)) = transients s.
Proof. exact exec_restores. Qed.
Print Assumptions C16_transients_restored.

Theorem C16_query_restores_idle :
  forall o s, idle s -> idle (st_of (run_query o s)) /\ transients (st_of (run_query o s)) = transients s.
Proof. exact (fun o s H => conj (query_keeps_idle o s H) (query_restores o s H)). Qed.
Print Assumptions C16_query_restores_idle.

(* the flat sequence of writes replays to the same state (ties `exec` to observed writes) *)
Theorem C16_trace_replays :
  forall o s, run_trace (trace_of (run_query o s)) s = st_of (run_query o s).
Proof. exact query_trace_agrees. Qed.
Print Assumptions C16_trace_replays.

(* _memoize_default is NOT of that shape: an exception leaves the recursion default in the memo,
   and the query that raised does not raise when asked again *)
Theorem C16_memo_default_survives_exception_refuted :
  exists o s k, idle s /\ t_memo s = [] /\ raised_of (run_query o s) = true /\
                memo_default k (t_memo (st_of (run_query o s))) = true /\ idle (st_of (run_query o s)) /\
                raised_of (run_query o (st_of (run_query o s))) = false.
Proof. exact memo_default_survives_exception. Qed.
Print Assumptions C16_memo_default_survives_exception_refuted.

Theorem C16_no_exception_no_default :
  forall o s, raise_free o = true ->
  raised_of (exec o s) = false /\
  forall k, memo_default k (t_memo (st_of (exec o s))) = true -> memo_default k (t_memo s) = true.
Proof. exact no_exception_no_default. Qed.
Print Assumptions C16_no_exception_no_default.

(* the memo key ignores the transient flags: an entry computed while flow analysis was switched off
   (find_references) is served to a later query running with flow analysis on; a fresh state computes
   it under flow analysis *)
Theorem C16_memo_ignores_flow_mode_refuted :
  exists o1 o2 s k,
    idle s /\ t_memo s = [] /\
    let s1 := st_of (run_query o1 s) in
    let s2 := st_of (run_query o2 s1) in
    idle s1 /\ idle s2 /\ raised_of (run_query o1 s) = false /\
    memo_get k (t_memo s2) = Some (false, false, false) /\ t_flow s1 = true /\
    trace_of (run_query o2 s1) = [EReset] /\
    memo_get k (t_memo (st_of (run_query o2 s))) = Some (false, true, false).
Proof. exact memo_ignores_flow_mode. Qed.
Print Assumptions C16_memo_ignores_flow_mode_refuted.

(* non-vacuity: hypotheses are satisfiable and the model computes *)
Example C16_example_infer :
  let a := {| r_pos := Some (3, 6)%N; r_path := Some [47;112]%N; r_name := [66]%N; r_ist := 1; r_pay := 0 |} in
  let b := {| r_pos := Some (1, 6)%N; r_path := Some [47;112]%N; r_name := [65]%N; r_ist := 1; r_pay := 1 |} in
  let c := {| r_pos := None; r_path := None; r_name := [105;110;116]%N; r_ist := 1; r_pay := 2 |} in
  wfb a && wfb b && wfb c = true /\
  infer_out [a; b; c; a] = [c; b; a] /\ infer_out [c; a; a; b] = [c; b; a] /\
  goto_canon [b; a] = goto_canon [a; b; a] /\ refs_out [a; b] = [b; a].
Proof. vm_compute. repeat split. Qed.

Example C16_example_complete :
  let f := {| c_name := [102;111;111]%N; c_lname := [102;111;111]%N; c_del := false; c_pay := 0 |} in
  let g := {| c_name := [95;103]%N; c_lname := [95;103]%N; c_del := false; c_pay := 0 |} in
  let f' := {| c_name := [102;111;111]%N; c_lname := [102;111;111]%N; c_del := false; c_pay := 5 |} in
  complete_out [] [g; f; f'] = [f; g] /\ complete_out [] [f'; g; f] = [f'; g].
Proof. vm_compute. split; reflexivity. Qed.

Example C16_example_transients :
  let q := OFlowOff (OSeq (OExec 1 (ORec 2 (OPredef 3 4 (ODyn (OMemo 5 ORaise))))) OSkip) in
  raised_of (run_query q idle_state) = true /\ idleb (st_of (run_query q idle_state)) = true /\
  memo_default 5%N (t_memo (st_of (run_query q idle_state))) = true.
Proof. vm_compute. repeat split. Qed.
