(* C08 property theorems.  Nothing but statements, `exact`, and Print Assumptions.

   The machine (Model/C08_History.v) is generic in the parser and the engine:
     parse    from-scratch parse, a function of the text
     reparse  the incremental parser (old tree, old text, new text)
     derive   definition names / parent scopes, functions of the tree
     sig_of   signatures at a call, a function of the tree
   A1 is the property's own proviso ("provided the incrementally re-parsed tree equals a
   from-scratch parse"); A2 (derived data are functions of the tree) is built into the types. *)
From Coq Require Import List NArith Bool.
From JV Require Import Model.C08_History Proofs.C08_Proofs.
Import ListNotations.
Local Open Scope N_scope.

(* every entry of a derived cache that can be reached through the cache item currently stored
   under a key was computed from the tree stored under that key (no proviso needed) *)
Theorem C08_version_keyed_fresh :
  forall (text tree D : Type) (text_eqb : text -> text -> bool) (parse : text -> tree)
         (reparse : tree -> text -> text -> tree) (derive : N -> tree -> N -> D)
         (sig_of : tree -> N -> N -> D) (cfg : config),
  cf_keying cfg = ByVersion ->
  forall (h : list (op text)) (k : N) (e : pentry text tree) (c a : N) (d : D),
  nlookup k (st_pcache text tree D (final text tree D text_eqb parse reparse derive sig_of cfg h)) = Some e ->
  dlookup (c, dkey cfg k (pe_version text tree e), a)
          (st_dcache text tree D (final text tree D text_eqb parse reparse derive sig_of cfg h)) = Some d ->
  d = derive c (pe_tree text tree e) a.
Proof. exact version_keyed_fresh_l. Qed.
Print Assumptions C08_version_keyed_fresh.

(* after ANY history h (edits of any buffers, questions, time passing, cache evictions), a new
   Script for text t under key k answers every question - also after any number of other
   questions qs to the same Script - with the pure function of parse t, i.e. exactly what the
   one-Script history answers *)
Theorem C08_history_independent :
  forall (text tree D : Type) (text_eqb : text -> text -> bool) (parse : text -> tree)
         (reparse : tree -> text -> text -> tree) (derive : N -> tree -> N -> D)
         (sig_of : tree -> N -> N -> D) (cfg : config),
  cf_keying cfg = ByVersion ->
  cf_memo cfg = MemoPerScript ->
  (forall a b : text, text_eqb a b = true -> a = b) ->
  (forall (old : tree) (ot t : text), reparse old ot t = parse t) ->          (* A1 *)
  forall (h : list (op text)) (k : N) (t : text) (qs : list (op text)) (m : bool) (q : query),
  match q with QD _ _ => True | QSig a _ => cf_sig cfg = SigAsCoded /\ a <> 0 end ->
  forallb (is_ask text) qs = true ->
  answer text tree D text_eqb parse reparse derive sig_of cfg (h ++ Edit k t :: qs ++ [Query m q]) =
  Some (eval_pure tree D derive sig_of (parse t) q)
  /\
  answer text tree D text_eqb parse reparse derive sig_of cfg (h ++ Edit k t :: qs ++ [Query m q]) =
  answer text tree D text_eqb parse reparse derive sig_of cfg [Edit k t; Query m q].
Proof.
  intros text tree D text_eqb parse reparse derive sig_of cfg Hk Hm Hs A1 h k t qs m q V F.
  split.
  - exact (history_independent_gen text tree D text_eqb parse reparse derive sig_of cfg Hk Hm Hs A1 h k t qs m q V F).
  - exact (eq_trans
      (history_independent_gen text tree D text_eqb parse reparse derive sig_of cfg Hk Hm Hs A1 h k t qs m q V F)
      (eq_sym (history_independent_gen text tree D text_eqb parse reparse derive sig_of cfg Hk Hm Hs A1 [] k t [] m q V eq_refl))).
Qed.
Print Assumptions C08_history_independent.

(* a hit of the signature time cache returns what was computed for the same path, the same text
   before the bracket and the same bracket position, at a moment of this history less than the
   validity ago (any configuration) *)
Theorem C08_time_cache_no_stale :
  forall (text tree D : Type) (text_eqb : text -> text -> bool) (parse : text -> tree)
         (reparse : tree -> text -> text -> tree) (derive : N -> tree -> N -> D)
         (sig_of : tree -> N -> N -> D) (cfg : config)
         (h : list (op text)) (m : bool) (a b : N) (d : D),
  snd (step text tree D text_eqb parse reparse derive sig_of cfg
            (final text tree D text_eqb parse reparse derive sig_of cfg h) (Query m (QSig a b)))
    = EvAns false true (Some d) ->
  exists (h1 h2 : list (op text)) (k : N) (tr tr' : tree),
    h = h1 ++ h2 /\ k <> 0 /\
    st_cur text tree D (final text tree D text_eqb parse reparse derive sig_of cfg h1) = Some (k, tr) /\
    st_cur text tree D (final text tree D text_eqb parse reparse derive sig_of cfg h) = Some (k, tr') /\
    d = sig_of tr a b /\
    st_clock text tree D (final text tree D text_eqb parse reparse derive sig_of cfg h) <
    st_clock text tree D (final text tree D text_eqb parse reparse derive sig_of cfg h1) + cf_validity cfg.
Proof. exact time_cache_no_stale_l. Qed.
Print Assumptions C08_time_cache_no_stale.

(* nothing asked of a path-less buffer is ever stored in the time cache *)
Theorem C08_pathless_never_cached :
  forall (text tree D : Type) (text_eqb : text -> text -> bool) (parse : text -> tree)
         (reparse : tree -> text -> text -> tree) (derive : N -> tree -> N -> D)
         (sig_of : tree -> N -> N -> D) (cfg : config) (h : list (op text)) (e : sentry D),
  In e (st_sig text tree D (final text tree D text_eqb parse reparse derive sig_of cfg h)) ->
  se_path D e <> 0.
Proof. exact pathless_never_cached_l. Qed.
Print Assumptions C08_pathless_never_cached.

(* with the key as coded (re.Match object or None in the middle) the only calls that can hit are
   those for which the scanned text holds no bracket: QSig 0 b *)
Theorem C08_coded_key_hits_only_without_bracket :
  forall (text tree D : Type) (text_eqb : text -> text -> bool) (parse : text -> tree)
         (reparse : tree -> text -> text -> tree) (derive : N -> tree -> N -> D)
         (sig_of : tree -> N -> N -> D) (cfg : config)
         (s : state text tree D) (m : bool) (a b : N) (mh : bool) (ans : option D),
  cf_sig cfg = SigAsCoded ->
  snd (step text tree D text_eqb parse reparse derive sig_of cfg s (Query m (QSig a b))) = EvAns mh true ans ->
  a = 0.
Proof. exact coded_key_hits_only_without_bracket_l. Qed.
Print Assumptions C08_coded_key_hits_only_without_bracket.

(* ... and for exactly those the REAL configuration is history dependent: a finding
   (known_findings: C08-stale-signature-multiline-call).  get_signatures with the cursor on a
   later line than the open bracket is answered from the 3 s cache under the key
   (path, None, bracket position), whatever happened to the text in between *)
Theorem C08_history_dependent_multiline_call :
  exists (h : list (op N)) (k t : N) (m : bool) (q : query),
  answer N N N N.eqb (fun t => t) (fun _ _ t => t) (fun _ tr _ => tr) (fun tr _ _ => tr)
         real_config (h ++ [Edit k t; Query m q]) <>
  answer N N N N.eqb (fun t => t) (fun _ _ t => t) (fun _ tr _ => tr) (fun tr _ _ => tr)
         real_config [Edit k t; Query m q].
Proof.
  exists [Edit 1 10; Query false (QSig 0 4)], 1, 11, false, (QSig 0 4).
  exact (fun E => match eq_trans (eq_sym (proj1 multiline_call_witness)) (eq_trans E (proj2 multiline_call_witness))
                  in _ = y return match y with Some 11 => False | _ => True end with eq_refl => I end).
Qed.
Print Assumptions C08_history_dependent_multiline_call.

(* with ANY signature key (as coded or the intended textual one) the answers are history
   independent once the validity has passed ... *)
Theorem C08_fresh_after_validity :
  forall (text tree D : Type) (text_eqb : text -> text -> bool) (parse : text -> tree)
         (reparse : tree -> text -> text -> tree) (derive : N -> tree -> N -> D)
         (sig_of : tree -> N -> N -> D) (cfg : config),
  cf_keying cfg = ByVersion ->
  cf_memo cfg = MemoPerScript ->
  (forall a b : text, text_eqb a b = true -> a = b) ->
  (forall (old : tree) (ot t : text), reparse old ot t = parse t) ->
  forall (h : list (op text)) (dt k : N) (t : text) (m : bool) (q : query),
  cf_validity cfg <= dt ->
  answer text tree D text_eqb parse reparse derive sig_of cfg (h ++ [Tick dt; Edit k t; Query m q]) =
  Some (eval_pure tree D derive sig_of (parse t) q).
Proof. exact fresh_after_validity_l. Qed.
Print Assumptions C08_fresh_after_validity.

(* ... but NOT inside it, also for the intended key: making the key textual (as the code
   comment promises) would extend the finding to every call *)
Theorem C08_history_dependent_if_textual_sig_key :
  exists (h : list (op N)) (k t : N) (m : bool) (q : query),
  answer N N N N.eqb (fun t => t) (fun _ _ t => t) (fun _ tr _ => tr) (fun tr _ _ => tr)
         (mkConfig ByVersion SigTextual MemoPerScript 6) (h ++ [Edit k t; Query m q]) <>
  answer N N N N.eqb (fun t => t) (fun _ _ t => t) (fun _ tr _ => tr) (fun tr _ _ => tr)
         (mkConfig ByVersion SigTextual MemoPerScript 6) [Edit k t; Query m q].
Proof.
  exists [Edit 1 10; Query false (QSig 3 4)], 1, 11, false, (QSig 3 4).
  exact (fun E => match eq_trans (eq_sym (proj1 textual_sig_witness)) (eq_trans E (proj2 textual_sig_witness))
                  in _ = y return match y with Some 11 => False | _ => True end with eq_refl => I end).
Qed.
Print Assumptions C08_history_dependent_if_textual_sig_key.

(* the deliberately wrong variant: derived caches keyed by PATH instead of by cache item.
   The theorem above is therefore not vacuous, and this is what the differential stream must catch *)
Theorem C08_history_dependent_if_path_keyed :
  exists (h : list (op N)) (k t : N) (m : bool) (q : query),
  answer N N N N.eqb (fun t => t) (fun _ _ t => t) (fun _ tr _ => tr) (fun tr _ _ => tr)
         (mkConfig ByPath SigAsCoded MemoPerScript 6) (h ++ [Edit k t; Query m q]) <>
  answer N N N N.eqb (fun t => t) (fun _ _ t => t) (fun _ tr _ => tr) (fun tr _ _ => tr)
         (mkConfig ByPath SigAsCoded MemoPerScript 6) [Edit k t; Query m q].
Proof.
  exists [Edit 1 10; Query false (QD 0 5)], 1, 11, false, (QD 0 5).
  exact (fun E => match eq_trans (eq_sym (proj1 path_keyed_witness)) (eq_trans E (proj2 path_keyed_witness))
                  in _ = y return match y with Some 11 => False | _ => True end with eq_refl => I end).
Qed.
Print Assumptions C08_history_dependent_if_path_keyed.

(* wrong variant: a memo that outlives the Script (memoising on the class, a module-level dict) *)
Theorem C08_history_dependent_if_memo_shared :
  exists (h : list (op N)) (k t : N) (m : bool) (q : query),
  answer N N N N.eqb (fun t => t) (fun _ _ t => t) (fun _ tr _ => tr) (fun tr _ _ => tr)
         (mkConfig ByVersion SigAsCoded MemoShared 6) (h ++ [Edit k t; Query m q]) <>
  answer N N N N.eqb (fun t => t) (fun _ _ t => t) (fun _ tr _ => tr) (fun tr _ _ => tr)
         (mkConfig ByVersion SigAsCoded MemoShared 6) [Edit k t; Query m q].
Proof.
  exists [Edit 1 10; Query true (QD 0 5)], 1, 11, true, (QD 0 5).
  exact (fun E => match eq_trans (eq_sym (proj1 memo_shared_witness)) (eq_trans E (proj2 memo_shared_witness))
                  in _ = y return match y with Some 11 => False | _ => True end with eq_refl => I end).
Qed.
Print Assumptions C08_history_dependent_if_memo_shared.

(* the proviso is needed: with an incremental parser that does not agree with the from-scratch
   parser the real configuration is history dependent *)
Theorem C08_history_dependent_without_proviso :
  exists (h : list (op N)) (k t : N) (m : bool) (q : query),
  answer N N N N.eqb (fun t => t) (fun old _ _ => old) (fun _ tr _ => tr) (fun tr _ _ => tr)
         real_config (h ++ [Edit k t; Query m q]) <>
  answer N N N N.eqb (fun t => t) (fun old _ _ => old) (fun _ tr _ => tr) (fun tr _ _ => tr)
         real_config [Edit k t; Query m q].
Proof.
  exists [Edit 1 10], 1, 11, false, (QD 0 5).
  exact (fun E => match eq_trans (eq_sym (proj1 stale_parser_witness)) (eq_trans E (proj2 stale_parser_witness))
                  in _ = y return match y with Some 11 => False | _ => True end with eq_refl => I end).
Qed.
Print Assumptions C08_history_dependent_without_proviso.

(* non-vacuity: the hypotheses of C08_history_independent hold of the evaluated instance, and a
   concrete run (edit, ask, edit again, ask, unchanged text, time passes, ask signatures twice) *)
Example C08_example_hypotheses :
  cf_keying real_config = ByVersion /\ cf_memo real_config = MemoPerScript /\
  cf_sig real_config = SigAsCoded /\
  (forall a b : N, N.eqb a b = true -> a = b) /\
  (forall old ot t : N, (fun _ _ x => x) old ot t = (fun x : N => x) t).
Proof. repeat split. exact (fun a b => proj1 (N.eqb_eq a b)). Qed.

Example C08_example_run :
  run_obs real_config
    [Edit 1 10; Query false (QD 0 5); Query false (QD 0 5); Edit 1 11; Query false (QD 0 5);
     Edit 1 11; Query false (QD 0 5); Query false (QSig 3 4); Tick 7; Query false (QSig 3 4);
     Edit 1 12; Edit 0 20; Query false (QD 0 5); Query false (QSig 0 4);
     Edit 1 13; Query false (QSig 0 4); Edit 1 14; Query false (QSig 0 4); Tick 6;
     Edit 1 15; Query false (QSig 0 4)]
  = [EvEdit true 0 0; EvAns false false (Some 10); EvAns false true (Some 10);
     EvEdit true 0 0; EvAns false false (Some 11);
     EvEdit false 0 0; EvAns false true (Some 11); EvAns false false (Some 11); EvNone;
     EvAns false false (Some 11);
     EvEdit true 1 0; EvEdit true 1 0; EvAns false false (Some 20); EvAns false false (Some 20);
     EvEdit true 1 0; EvAns false false (Some 13); EvEdit true 2 0; EvAns false true (Some 13); EvNone;
     EvEdit true 2 0; EvAns false false (Some 15)].
Proof. vm_compute. reflexivity. Qed.
