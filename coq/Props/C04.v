(* C04 property theorems.  Nothing but statements, `exact`, and Print Assumptions. *)
From Coq Require Import Sorting.Sorted Sorting.Permutation.
From JV Require Import Base.Str Model.C04_Complete Proofs.C04_Proofs.

(* fuzzy=True matches exactly the names that contain the fragment as a subsequence *)
Theorem C04_fuzzy_match_is_subsequence : forall s l, fuzzy_match s l = true <-> Subseq l s.
Proof. exact fuzzy_match_subseq. Qed.
Print Assumptions C04_fuzzy_match_is_subsequence.

Theorem C04_start_match_is_prefix : forall s l, start_match s l = true <-> Prefix l s.
Proof. exact start_match_prefix. Qed.
Print Assumptions C04_start_match_is_prefix.

(* every returned completion extends the fragment; complete is the missing suffix of
   name_with_symbols; prefix length = fragment length; None when fuzzy *)
Theorem C04_results_extend_fragment :
  forall ab like llike fuzzy imported names c,
  In c (complete_model ab like llike fuzzy imported names) ->
  In (c_src c) names /\ extends_fragment fuzzy llike (lname (c_src c)) /\
  c_prefix_len c = length like /\ is_del (c_src c) = false /\
  c_name_with_symbols ab c = firstn (length like) (c_name c) ++ c_complete_str ab c /\
  c_complete ab c = (if fuzzy then None else Some (c_complete_str ab c)).
Proof. exact model_results_extend. Qed.
Print Assumptions C04_results_extend_fragment.

Theorem C04_no_duplicate_pairs :
  forall ab like llike fuzzy imported names,
  NoDup (map (c_key ab) (complete_model ab like llike fuzzy imported names)).
Proof. exact model_no_duplicate_pairs. Qed.
Print Assumptions C04_no_duplicate_pairs.

(* ordered by the documented key, a permutation of the filtered names, equal keys in input order *)
Theorem C04_sorted_as_documented :
  forall ab like llike fuzzy imported names,
  let out := complete_model ab like llike fuzzy imported names in
  StronglySorted (fun a b => skey_leb (sort_key like a) (sort_key like b) = true) out /\
  Permutation (filter_names ab like llike fuzzy imported names) out /\
  (forall k, filter (fun c => skey_eqb (sort_key like c) k) out =
             filter (fun c => skey_eqb (sort_key like c) k) (filter_names ab like llike fuzzy imported names)).
Proof. exact model_sorted. Qed.
Print Assumptions C04_sorted_as_documented.

Theorem C04_order_case_match_first :
  forall like a b,
  starts_with (c_name a) like = true -> starts_with (c_name b) like = false ->
  skey_cmp (sort_key like a) (sort_key like b) = Lt.
Proof. exact order_case_match_first. Qed.
Print Assumptions C04_order_case_match_first.

Theorem C04_order_public_private_dunder :
  forall like a b,
  starts_with (c_name a) like = starts_with (c_name b) like ->
  (starts_with (c_name a) [95;95]%N = false /\ starts_with (c_name b) [95;95]%N = true) \/
  (starts_with (c_name a) [95;95]%N = starts_with (c_name b) [95;95]%N /\
   starts_with (c_name a) [95]%N = false /\ starts_with (c_name b) [95]%N = true) ->
  skey_cmp (sort_key like a) (sort_key like b) = Lt.
Proof. exact order_public_private_dunder. Qed.
Print Assumptions C04_order_public_private_dunder.

Theorem C04_order_alphabetical :
  forall like a b,
  starts_with (c_name a) like = starts_with (c_name b) like ->
  starts_with (c_name a) [95;95]%N = starts_with (c_name b) [95;95]%N ->
  starts_with (c_name a) [95]%N = starts_with (c_name b) [95]%N ->
  skey_cmp (sort_key like a) (sort_key like b) = str_cmp (lpname (c_src a)) (lpname (c_src b)).
Proof. exact order_alphabetical. Qed.
Print Assumptions C04_order_alphabetical.

(* nothing that matches is lost by the filter (except names shadowed by a `del`) *)
Theorem C04_filter_complete :
  forall ab like llike fuzzy imported names n,
  In n names ->
  (str_in (sname n) imported && negb (str_eqb (sname n) llike)) = false ->
  match_ (lname n) llike fuzzy = true ->
  In (c_key ab {| c_src := n; c_like_len := length like; c_fuzzy := fuzzy |})
     (map (c_key ab) (complete_model ab like llike fuzzy imported names)) \/
  (exists m, In m names /\ is_del m = true /\
             c_key ab {| c_src := m; c_like_len := length like; c_fuzzy := fuzzy |} =
             c_key ab {| c_src := n; c_like_len := length like; c_fuzzy := fuzzy |}).
Proof. exact model_filter_complete. Qed.
Print Assumptions C04_filter_complete.

(* non-vacuity: a concrete run of the model *)
Example C04_example :
  map (observe false)
      (complete_model false [102;79]%N [102;111]%N false []
         [ {| sname := [95;102;111;111]%N; lname := [95;102;111;111]%N; pname := [95;102;111;111]%N; lpname := [95;102;111;111]%N; is_func := false; is_del := false |};
           {| sname := [102;111;111]%N; lname := [102;111;111]%N; pname := [102;111;111]%N; lpname := [102;111;111]%N; is_func := false; is_del := false |};
           {| sname := [102;79;120]%N; lname := [102;111;120]%N; pname := [102;79;120]%N; lpname := [102;111;120]%N; is_func := false; is_del := false |};
           {| sname := [102;111;111]%N; lname := [102;111;111]%N; pname := [102;111;111]%N; lpname := [102;111;111]%N; is_func := false; is_del := false |} ])
  = [ ([102;79;120]%N, Some [120]%N, [102;79;120]%N, 2); ([102;111;111]%N, Some [111]%N, [102;111;111]%N, 2) ].
Proof. vm_compute. reflexivity. Qed.
