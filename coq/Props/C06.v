(* C06 property theorems.  Nothing but statements, `exact`, and Print Assumptions. *)
From JV Require Import Model.C06_Inline Proofs.C06_Proofs.

(* the grammar relation derives exactly the texts of well-formed trees *)
Theorem C06_grammar_is_print_of_wf :
  forall l ts e, D l ts e <-> (ts = print e /\ wf_at l e = true).
Proof. exact T1_grammar_is_print_of_wf. Qed.
Print Assumptions C06_grammar_is_print_of_wf.

(* inlining with parentheses around every reference: the token-level substitution parses,
   in the same slot, to the inlined tree, whose abstract syntax is the substitution *)
Theorem C06_inline_parens_preserve :
  forall x r e l pt mid toks rtoks,
  D l toks e -> D 1 rtoks r -> nobind x e = true -> l <= tightest pt ->
  D l (tsubst x (TS LPar :: rtoks ++ [TS RPar]) toks) (inl always_rule x r pt mid e) /\
  strip (inl always_rule x r pt mid e) = subst x (strip r) (strip e).
Proof. exact T2_inline_parens_preserve. Qed.
Print Assumptions C06_inline_parens_preserve.

(* any rule that leaves a reference bare only where the slot is loose enough for r *)
Theorem C06_inline_rule_sound_general :
  forall rule x r e l pt mid toks rtoks,
  D l toks e -> D 1 rtoks r ->
  (forall p, p = pt \/ p <> P_dictorsetmaker -> rule p = false -> tightest p <= level r) ->
  l <= tightest pt ->
  D l (print (inl rule x r pt mid e)) (inl rule x r pt mid e) /\
  strip (inl rule x r pt mid e) = subst x (strip r) (strip e).
Proof. exact T3_inline_rule_sound_general. Qed.
Print Assumptions C06_inline_rule_sound_general.

(* jedi's current rule is sound for every reference whose parent is not dictorsetmaker *)
Theorem C06_inline_noparens_ok :
  forall x r e l pt mid toks rtoks,
  D l toks e -> D 1 rtoks r -> pt <> P_dictorsetmaker -> l <= tightest pt ->
  D l (inline_text new_rule false x r pt mid e) (inline_tree new_rule false x r pt mid e) /\
  strip (inline_tree new_rule false x r pt mid e) = subst x (strip r) (strip e).
Proof. exact T4_inline_noparens_ok. Qed.
Print Assumptions C06_inline_noparens_ok.

Theorem C06_inline_bare_slots_admit_test :
  forall p, p <> P_dictorsetmaker -> new_rule p = false -> tightest p <= 1.
Proof. exact new_rule_bare_slots. Qed.
Print Assumptions C06_inline_bare_slots_admit_test.

(* a bare tuple right-hand side is always parenthesised, whatever the rule *)
Theorem C06_inline_tuple_rhs_ok :
  forall rule x es e l pt mid toks,
  D l toks e -> wf (Tup es) = true -> l <= tightest pt ->
  D l (inline_text rule true x (Tup es) pt mid e) (inline_tree rule true x (Tup es) pt mid e).
Proof. exact T4c_inline_tuple_rhs_ok. Qed.
Print Assumptions C06_inline_tuple_rhs_ok.

(* the rule before the fix: the text still parses, but to a different tree with a different value *)
Theorem C06_inline_old_rule_refuted :
  exists x r e parsed rho,
  wf_at 1 e = true /\ wf_at 1 r = true /\ nobind x e = true /\
  inline_text old_rule false x r P_expr_stmt false e = print parsed /\
  D 1 (print parsed) parsed /\
  ~ D 1 (inline_text old_rule false x r P_expr_stmt false e)
        (inline_tree old_rule false x r P_expr_stmt false e) /\
  ev rho parsed <> ev rho (subst x r e).
Proof. exact T5_inline_old_rule_refuted. Qed.
Print Assumptions C06_inline_old_rule_refuted.

(* the old rule was already sound for right-hand sides of level >= expr *)
Theorem C06_inline_old_rule_ok_above_expr :
  forall x r e l pt mid toks rtoks,
  D l toks e -> D 6 rtoks r -> l <= tightest pt ->
  D l (inline_text old_rule false x r pt mid e) (inline_tree old_rule false x r pt mid e).
Proof. exact T5b_inline_old_rule_ok_above_expr. Qed.
Print Assumptions C06_inline_old_rule_ok_above_expr.

(* open finding: `{**x}` is an `expr` slot whose parent type is not parenthesised *)
Theorem C06_inline_dict_splat_refuted :
  exists x r,
  wf_at 1 r = true /\ new_rule P_dictorsetmaker = false /\ wf_at 6 (Var x) = true /\
  wf_at 6 (inline_tree new_rule false x r P_dictorsetmaker false (Var x)) = false.
Proof. exact T5c_inline_dict_splat_refuted. Qed.
Print Assumptions C06_inline_dict_splat_refuted.

Theorem C06_extract_inline_subst :
  forall rho x s c v, ev rho s = Some v -> ev (upd rho x v) c = ev rho (subst x s c).
Proof. exact T6_extract_inline_subst. Qed.
Print Assumptions C06_extract_inline_subst.

Theorem C06_inline_meaning_preserved :
  forall rule rho x r e pt mid v,
  ev rho r = Some v -> ev (upd rho x v) e = ev rho (inl rule x r pt mid e).
Proof. exact T7_inline_meaning_preserved. Qed.
Print Assumptions C06_inline_meaning_preserved.

Theorem C06_extract_then_inline_identity :
  forall rule rho x s c c' pt mid v,
  is_extraction x s c c' = true ->
  strip (inl rule x s pt mid c') = strip c /\
  (ev rho s = Some v -> ev (upd rho x v) c' = ev rho c).
Proof. exact T8_extract_then_inline_identity. Qed.
Print Assumptions C06_extract_then_inline_identity.

Theorem C06_name_fits_every_slot : forall l x, l <= 15 -> D l [TName x] (Var x).
Proof. exact T9_name_fits_every_slot. Qed.
Print Assumptions C06_name_fits_every_slot.

Theorem C06_inline_text_is_splice :
  forall rule x r e pt mid, nobind x e = true ->
  inline_text rule false x r pt mid e =
  splice x (map rule (parents x pt mid e)) (print r) (print e).
Proof. exact T10_inline_text_is_splice. Qed.
Print Assumptions C06_inline_text_is_splice.

(* non-vacuity *)
Example C06_ex_wit_wf : wf_at 1 wit_e = true /\ wf_at 1 wit_r = true /\ nobind wit_x wit_e = true.
Proof. vm_compute. repeat split; reflexivity. Qed.

(* x = 1 if a else 2 ; x if b else 3   --new rule-->   (1 if a else 2) if b else 3 *)
Example C06_ex_new_rule_text :
  inline_text new_rule false wit_x wit_r P_expr_stmt false wit_e =
  [TS LPar; TNum 1; TS KIf; TName wit_a; TS KElse; TNum 2; TS RPar;
   TS KIf; TName wit_b; TS KElse; TNum 3].
Proof. vm_compute; reflexivity. Qed.

Example C06_ex_old_rule_text :
  inline_text old_rule false wit_x wit_r P_expr_stmt false wit_e =
  [TNum 1; TS KIf; TName wit_a; TS KElse; TNum 2; TS KIf; TName wit_b; TS KElse; TNum 3].
Proof. vm_compute; reflexivity. Qed.

(* x + a(x)[x].f : parents of the three references *)
Example C06_ex_parents :
  parents wit_x P_expr_stmt false
    (Bin BAdd (Var wit_x)
       (Attr (Sub (Call (Var wit_a) (ECons (Var wit_x) ENil)) (Var wit_x)) 7%N)) =
  [P_arith_expr; P_trailer_mid; P_trailer_mid].
Proof. vm_compute; reflexivity. Qed.

Example C06_ex_ev :
  ev (upd wit_env wit_x 1%Z) wit_e = Some 3%Z /\
  ev wit_env (inl new_rule wit_x wit_r P_expr_stmt false wit_e) = Some 3%Z /\
  ev wit_env wit_parsed = Some 1%Z.
Proof. vm_compute. repeat split; reflexivity. Qed.

(* (a + 1) * 2  with the selection a + 1 extracted as x:  x * 2 *)
Example C06_ex_is_extraction :
  is_extraction wit_x (Bin BAdd (Var wit_a) (Num 1))
    (Bin BMul (Paren (Bin BAdd (Var wit_a) (Num 1))) (Num 2))
    (Bin BMul (Var wit_x) (Num 2)) = true.
Proof. vm_compute; reflexivity. Qed.

Example C06_ex_rhs_level6 : wf_at 6 (Bin BAdd (Num 1) (Num 2)) = true.
Proof. vm_compute; reflexivity. Qed.
