(* C10 property theorems.  Nothing but statements, `exact`, and Print Assumptions.
   Vocabulary (all in Model/C10_Imports.v): `py_import`/`resolve_name`/`py_query` transcribe importlib on
   dotted-name STRINGS; `mk_importer`/`follow`/`import_by_names`/`jedi_query` transcribe jedi on name
   TUPLES; `find_in` is the PathFinder/FileFinder precedence both sides delegate to;
   `transform_path_to_dotted` is the string-level path -> dotted name function as it is now,
   `transform_string_prefix` the behaviour before the folder-boundary fix. *)
From Coq Require Import List NArith Bool Arith.
From JV Require Import Base.Str Model.C10_Imports Proofs.C10_Proofs.
Import ListNotations.

(* Importer.__init__ rewrites a relative level inside the package to exactly the absolute name
   importlib._resolve_name computes (rsplit on the dotted package string) *)
Theorem C10_level_rewrite_is_resolve_name :
  forall self path level,
  Forall (fun s => valid_name s = true) (v_package self) ->
  Forall (fun s => valid_name s = true) path ->
  1 <= level <= length (v_package self) ->
  i_fixed (mk_importer self path level) = None /\
  i_possible (mk_importer self path level) = true /\
  resolve_name (join_dot path) (join_dot (v_package self)) level =
  Some (join_dot (i_path (mk_importer self path level))).
Proof. exact level_rewrite_is_resolve_name. Qed.
Print Assumptions C10_level_rewrite_is_resolve_name.

(* beyond the top-level package Python raises ImportError; jedi's heuristic (no claim of agreement)
   keeps the path and searches only the directory `level-1` folders above the file, or gives up at '/' *)
Theorem C10_level_beyond_top :
  forall self path level,
  Forall (fun s => valid_name s = true) (v_package self) ->
  length (v_package self) < level ->
  resolve_name (join_dot path) (join_dot (v_package self)) level = None /\
  mk_importer self path level =
  match climb (level - 1) (dirname (v_file self)) with
  | None => {| i_path := path; i_fixed := None; i_possible := false |}
  | Some d => {| i_path := path; i_fixed := Some [d]; i_possible := true |}
  end.
Proof. exact level_beyond_top. Qed.
Print Assumptions C10_level_beyond_top.

(* import_module_by_names (left to right over the tuple, parent's py__path__) returns what importlib's
   recursive _find_and_load (rpartition on the string, parent first) returns: same file, same namespace
   directories, or nothing — on EVERY file system and sys.path *)
Theorem C10_walk_agrees :
  forall fs roots names,
  names <> [] -> Forall (fun s => valid_name s = true) names ->
  res_of_opt (fst (import_by_names fs [] roots names)) =
  res_of_found (py_import fs roots (join_dot names)).
Proof. exact walk_agrees. Qed.
Print Assumptions C10_walk_agrees.

(* the same with jedi's module cache (which import_module also fills, negative results included), provided
   every cached entry is what Python imports under its key; the cache handed on has the property again *)
Theorem C10_walk_agrees_coherent_cache :
  forall fs roots c names,
  (forall k r, cache_get c k = Some r -> conv k (py_import fs roots (join_dot k)) = r) ->
  names <> [] -> Forall (fun s => valid_name s = true) names ->
  fst (import_by_names fs c roots names) = conv names (py_import fs roots (join_dot names)) /\
  (forall k r, cache_get (snd (import_by_names fs c roots names)) k = Some r ->
               conv k (py_import fs roots (join_dot k)) = r).
Proof. exact walk_agrees_cache. Qed.
Print Assumptions C10_walk_agrees_coherent_cache.

(* whole statements: `import a.b` / the from-part of a from-import, absolute or relative *)
Theorem C10_module_import_agrees :
  forall goto fs roots self q,
  q_name q = None -> q_probe q = None ->
  self_coherent fs roots self ->
  Forall (fun s => valid_name s = true) (v_package self) ->
  Forall (fun s => valid_name s = true) (q_path q) ->
  level_ok self q ->
  jedi_query goto fs roots self q = py_query fs roots (importer_of self) q.
Proof. exact module_import_agrees. Qed.
Print Assumptions C10_module_import_agrees.

(* `from X import x`: attribute of the package first, then the sub-module — infer and goto; X is not the
   analysed module itself and X.x is not an already imported ancestor package of it *)
Theorem C10_from_import_agrees :
  forall goto fs roots self q x,
  q_name q = Some x -> q_probe q = None ->
  self_coherent fs roots self ->
  Forall (fun s => valid_name s = true) (v_package self) ->
  Forall (fun s => valid_name s = true) (q_path q) ->
  valid_name x = true ->
  level_ok self q ->
  py_already_imported (importer_of self) (abs_path self q ++ [x]) = false ->
  found_file (py_import fs roots (join_dot (abs_path self q))) <> v_file self ->
  v_file self <> [] ->
  jedi_query goto fs roots self q = py_query fs roots (importer_of self) q.
Proof. exact from_import_agrees. Qed.
Print Assumptions C10_from_import_agrees.

(* `from X import *` then a bare name, X not a namespace package *)
Theorem C10_star_import_agrees :
  forall goto fs roots self q x,
  q_probe q = Some x ->
  self_coherent fs roots self ->
  Forall (fun s => valid_name s = true) (v_package self) ->
  Forall (fun s => valid_name s = true) (q_path q) ->
  level_ok self q ->
  (forall ds, py_import fs roots (join_dot (abs_path self q)) <> FNs ds) ->
  py_already_imported (importer_of self) (abs_path self q ++ [x]) = false ->
  jedi_query goto fs roots self q = py_query fs roots (importer_of self) q.
Proof. exact star_import_agrees. Qed.
Print Assumptions C10_star_import_agrees.

(* the three hypotheses are needed: witnesses (replayed on the implementation as known findings) *)
Theorem C10_star_namespace_refuted :
  exists fs roots file q,
    let self := script_module roots file in
    self_coherent fs roots self /\ level_ok self q /\
    jedi_query false fs roots self q <> py_query fs roots (importer_of self) q.
Proof. exact star_namespace_refuted. Qed.
Print Assumptions C10_star_namespace_refuted.

Theorem C10_shadowed_self_refuted :
  exists fs roots file q,
    let self := script_module roots file in
    ~ self_coherent fs roots self /\
    jedi_query false fs roots self q = RFile file /\
    py_query fs roots None q = RFile [[114;49]%N; [97;46;112;121]%N] /\
    py_query fs roots (importer_of self) q = RFile [[114;49]%N; [97;46;112;121]%N].
Proof. exact shadowed_self_refuted. Qed.
Print Assumptions C10_shadowed_self_refuted.

Theorem C10_ancestor_attribute_refuted :
  exists fs roots file q x,
    let self := script_module roots file in
    self_coherent fs roots self /\ level_ok self q /\ q_name q = Some x /\
    py_already_imported (importer_of self) (abs_path self q ++ [x]) = true /\
    jedi_query false fs roots self q <> py_query fs roots (importer_of self) q.
Proof. exact ancestor_attribute_refuted. Qed.
Print Assumptions C10_ancestor_attribute_refuted.

(* path -> dotted name, as the code is now: for a file d/n.py whose components and the sys.path entries
   are plain folder paths, the derived name is the component-wise path of the file relative to a sys.path
   entry that is an ancestor FOLDER, the shortest such; and when nothing shadows that chain, importing the
   name in Python gives the file back *)
Theorem C10_dotted_roundtrip :
  forall fs roots d n names is_pkg,
  Forall (Forall (fun s => plain s = true)) roots ->
  Forall (fun s => plain s = true) d -> plain n = true ->
  (if str_eqb n s_init then d else d ++ [n]) <> [] ->
  transform_path_to_dotted (map path_str roots) (d ++ [n ++ s_py]) = (Some names, is_pkg) ->
  exists r,
    In r roots /\ d ++ [n ++ s_py] = file_of r names is_pkg /\
    (forall r', In r' roots -> proper_prefix r' (if str_eqb n s_init then d else d ++ [n]) = true ->
                length names + length r' <= length (if str_eqb n s_init then d else d ++ [n])) /\
    (unshadowed fs roots r names is_pkg = true ->
     res_of_found (py_import fs roots (join_dot names)) = RFile (d ++ [n ++ s_py])).
Proof. exact dotted_roundtrip. Qed.
Print Assumptions C10_dotted_roundtrip.

(* a name is derived exactly when some entry is a proper ancestor folder (complete characterisation) *)
Theorem C10_dotted_is_shortest_relative_name :
  forall roots d n,
  Forall (Forall (fun s => plain s = true)) roots ->
  Forall (fun s => plain s = true) d -> plain n = true ->
  (if str_eqb n s_init then d else d ++ [n]) <> [] ->
  transform_path_to_dotted (map path_str roots) (d ++ [n ++ s_py]) =
  match filter (fun r => proper_prefix r (if str_eqb n s_init then d else d ++ [n])) roots with
  | [] => (None, false)
  | r :: rs => (Some (shortest (skipn (length r) (if str_eqb n s_init then d else d ++ [n]))
                               (map (fun r => skipn (length r) (if str_eqb n s_init then d else d ++ [n])) rs)),
                str_eqb n s_init)
  end.
Proof. exact transform_wf. Qed.
Print Assumptions C10_dotted_is_shortest_relative_name.

(* any unshadowed chain imports back (used by the round trip; also the hypothesis the harness validates) *)
Theorem C10_import_unshadowed :
  forall fs roots r names is_pkg,
  Forall (fun s => valid_name s = true) names ->
  unshadowed fs roots r names is_pkg = true ->
  res_of_found (py_import fs roots (join_dot names)) = RFile (file_of r names is_pkg).
Proof. exact import_unshadowed. Qed.
Print Assumptions C10_import_unshadowed.

(* before the fix: ['/foo/ba'] + '/foo/bar/baz.py' gave ('r', 'baz'); now nothing *)
Theorem C10_dotted_refuted_string_prefix :
  exists sys_path module_path,
    transform_string_prefix sys_path module_path = (Some [[114]%N; [98;97;122]%N], false) /\
    transform_path_to_dotted sys_path module_path = (None, false).
Proof. exact dotted_refuted_string_prefix. Qed.
Print Assumptions C10_dotted_refuted_string_prefix.

(* non-vacuity: the hypotheses of the round trip and of the agreement theorems are satisfiable *)
Example C10_roundtrip_example :
  transform_path_to_dotted (map path_str [[[114]%N]]) [[114]%N; [112]%N; [120]%N; [109;46;112;121]%N]
    = (Some [[112]%N; [120]%N; [109]%N], false) /\
  unshadowed fs_anc [[[114]%N]] [[114]%N] [[112]%N; [120]%N; [109]%N] false = true /\
  py_import fs_anc [[[114]%N]] (join_dot [[112]%N; [120]%N; [109]%N]) = FMod [[114]%N; [112]%N; [120]%N; [109;46;112;121]%N].
Proof. repeat split; vm_compute; reflexivity. Qed.

Example C10_coherent_example :
  self_coherent fs_anc [[[114]%N]] (script_module [[[114]%N]] [[114]%N; [112]%N; [120]%N; [109;46;112;121]%N]).
Proof. vm_compute. reflexivity. Qed.
