(* C20 property theorems.  Nothing but statements, `exact`, and Print Assumptions
   (plus Examples evaluated by vm_compute). *)
From JV Require Import Base.Str Model.C20_SysPath Proofs.C20_Proofs.

(* --- the effective module search path ------------------------------------------------ *)

(* no duplicates *)
Theorem C20_sys_path_nodup :
  forall p env script inits buildout add_parent add_init,
  NoDup (get_sys_path p env script inits buildout add_parent add_init).
Proof. exact sys_path_nodup. Qed.
Print Assumptions C20_sys_path_nodup.

(* the project directory comes first when smart_sys_path is on *)
Theorem C20_sys_path_project_first :
  forall p env script inits buildout add_parent add_init,
  pr_smart p = true ->
  exists rest, get_sys_path p env script inits buildout add_parent add_init = path_str (pr_path p) :: rest.
Proof. exact sys_path_project_first. Qed.
Print Assumptions C20_sys_path_project_first.

(* without smart_sys_path: exactly the base entries followed by added_sys_path, de-duplicated *)
Theorem C20_sys_path_not_smart :
  forall p env script inits buildout add_parent add_init,
  pr_smart p = false -> pr_django p = false ->
  get_sys_path p env script inits buildout add_parent add_init =
  remove_duplicates (base_sys_path p env ++ pr_added p).
Proof. exact sys_path_not_smart. Qed.
Print Assumptions C20_sys_path_not_smart.

(* the environment's / explicitly given entries keep their order: the distinct base entries
   (first occurrences; the project directory is already in front) form a sub-list of the result *)
Theorem C20_sys_path_keeps_base_order :
  forall p env script inits buildout add_parent add_init,
  Sub (filter (fun x => negb (inb x (prefixed p))) (remove_duplicates (base_sys_path p env)))
      (get_sys_path p env script inits buildout add_parent add_init).
Proof. exact sys_path_keeps_base_order. Qed.
Print Assumptions C20_sys_path_keeps_base_order.

(* in particular a duplicate-free explicit sys_path that does not mention the project survives verbatim *)
Theorem C20_sys_path_keeps_explicit_sys_path :
  forall p env script inits buildout add_parent add_init l,
  pr_sys_path p = Some l -> NoDup l -> ~ In (path_str (pr_path p)) l ->
  Sub l (get_sys_path p env script inits buildout add_parent add_init).
Proof. exact sys_path_keeps_explicit_sys_path. Qed.
Print Assumptions C20_sys_path_keeps_explicit_sys_path.

(* order of the three segments: [project] ; base ; suffix — each later segment only contributes
   entries not seen before *)
Theorem C20_sys_path_segments :
  forall p env script inits buildout add_parent add_init,
  get_sys_path p env script inits buildout add_parent add_init =
  remove_duplicates (prefixed p) ++
  filter (fun x => negb (inb x (prefixed p))) (remove_duplicates (base_sys_path p env)) ++
  filter (fun x => negb (inb x (prefixed p ++ base_sys_path p env)))
         (remove_duplicates (suffixed p script inits buildout add_parent add_init)).
Proof. exact sys_path_decomposition. Qed.
Print Assumptions C20_sys_path_segments.

(* suffix order: after project and base come added_sys_path, then the buildout paths, then the
   buffer's ancestor directories, in this order *)
Theorem C20_sys_path_suffix_order :
  forall p env sp inits buildout add_init,
  pr_smart p = true -> pr_django p = false ->
  get_sys_path p env (Some sp) inits buildout true add_init =
  remove_duplicates (path_str (pr_path p) :: base_sys_path p env) ++
  filter (fun x => negb (inb x (path_str (pr_path p) :: base_sys_path p env)))
         (remove_duplicates (pr_added p ++ buildout ++ rev (traversed p sp inits add_init))).
Proof. exact sys_path_smart_shape. Qed.
Print Assumptions C20_sys_path_suffix_order.

(* the ancestor directories: exactly the parents of the buffer that lie strictly inside the project
   (minus those holding an __init__.py unless add_init_paths), nearest first as collected ... *)
Theorem C20_ancestors_inside_project :
  forall p sp inits add_init,
  traversed p sp inits add_init =
  map path_str (filter (fun q => inside (pr_path p) q && (add_init || negb (has_init inits q))) (parents sp)).
Proof. exact traversed_spec. Qed.
Print Assumptions C20_ancestors_inside_project.

(* ... where `inside` means: same root and the project's parts are a strict prefix *)
Theorem C20_inside_is_strict_ancestor :
  forall a q, inside a q = true <-> p_root a = p_root q /\ exists c r, p_parts q = p_parts a ++ c :: r.
Proof. exact inside_spec. Qed.
Print Assumptions C20_inside_is_strict_ancestor.

(* ... and they are appended deepest last (increasing number of components) *)
Theorem C20_ancestors_deepest_last :
  forall p sp inits add_init,
  rev (traversed p sp inits add_init) =
  map path_str
    (filter (fun q => inside (pr_path p) q && (add_init || negb (has_init inits q)))
       (map (fun k => mkpath (p_root sp) (firstn k (p_parts sp))) (seq 0 (length (p_parts sp))))).
Proof. exact traversed_deepest_last. Qed.
Print Assumptions C20_ancestors_deepest_last.

(* explicit form for a buffer below the project: project/d1, project/d1/d2, ..., the buffer's directory *)
Theorem C20_ancestors_of_script_inside_project :
  forall r ps ds f inits p,
  pr_path p = mkpath r ps ->
  rev (traversed p (mkpath r (ps ++ ds ++ [f])) inits true) =
  map (fun k => path_str (mkpath r (ps ++ firstn k ds))) (seq 1 (length ds)).
Proof. exact traversed_inside_explicit. Qed.
Print Assumptions C20_ancestors_of_script_inside_project.

(* a buffer none of whose parents is inside the project contributes nothing *)
Theorem C20_ancestors_outside_project :
  forall p sp inits add_init,
  (forall q, In q (parents sp) -> inside (pr_path p) q = false) -> traversed p sp inits add_init = [].
Proof. exact traversed_outside. Qed.
Print Assumptions C20_ancestors_outside_project.

(* membership: nothing else gets onto the path *)
Theorem C20_sys_path_members :
  forall p env script inits buildout add_parent add_init x,
  In x (get_sys_path p env script inits buildout add_parent add_init) <->
  In x (prefixed p) \/ In x (base_sys_path p env) \/ In x (pr_added p) \/
  (pr_smart p = true /\ exists sp, script = Some sp /\
     (In x buildout \/ (add_parent = true /\ In x (traversed p sp inits add_init)))).
Proof. exact sys_path_members. Qed.
Print Assumptions C20_sys_path_members.

(* --- and this path is what import resolution uses ---------------------------------------- *)
Theorem C20_import_resolves_first_on_composed_path :
  forall p env script inits buildout mods has e,
  resolve has (importer_sys_path None p env script inits buildout mods false) = Some e ->
  exists l1 l2,
    get_sys_path p env script inits buildout true true ++ mods = l1 ++ e :: l2 /\
    has e = true /\ forall x, In x l1 -> has x = false.
Proof. exact import_resolves_first. Qed.
Print Assumptions C20_import_resolves_first_on_composed_path.

Theorem C20_import_unresolved_iff_nowhere_on_path :
  forall has l, resolve has l = None <-> forall x, In x l -> has x = false.
Proof. exact resolve_none. Qed.
Print Assumptions C20_import_unresolved_iff_nowhere_on_path.

(* --- save / load ---------------------------------------------------------------------------- *)

(* str(Path) parses back to the same Path *)
Theorem C20_path_str_parse_roundtrip :
  forall p, wf_path p -> parse_path (path_str p) = p.
Proof. exact parse_str. Qed.
Print Assumptions C20_path_str_parse_roundtrip.

Theorem C20_parsed_paths_well_formed : forall s, wf_path (parse_path s).
Proof. exact parse_wf. Qed.
Print Assumptions C20_parsed_paths_well_formed.

(* round trip: same five settings and the same path, when the path argument is a str or an
   absolute Path and environment_path is None or a str *)
Theorem C20_save_load_roundtrip :
  forall cwd a,
  wf_path cwd -> is_abs cwd = true ->
  match a_path a with PStr _ => True | PPath s => is_abs (parse_path s) = true end ->
  match a_env a with Some (PPath _) => False | _ => True end ->
  load cwd (save (mk_project cwd a)) = mk_project cwd a.
Proof. exact save_load_roundtrip. Qed.
Print Assumptions C20_save_load_roundtrip.

(* environment_path of any kind (since ba5f9c2 a pathlib.Path is saved as its str): path and the other
   four settings survive unchanged, environment_path comes back as the str of what was given *)
Theorem C20_save_load_roundtrip_any_environment_path :
  forall cwd a,
  wf_path cwd -> is_abs cwd = true ->
  match a_path a with PStr _ => True | PPath s => is_abs (parse_path s) = true end ->
  load cwd (save (mk_project cwd a)) =
  set_env (option_map (fun x => PStr (arg_str x)) (a_env a)) (mk_project cwd a).
Proof. exact save_load_roundtrip_any_env. Qed.
Print Assumptions C20_save_load_roundtrip_any_environment_path.

Theorem C20_loaded_environment_path_is_str_of_path_object :
  forall cwd a s,
  a_env a = Some (PPath s) ->
  pr_env (load cwd (save (mk_project cwd a))) = Some (PStr (path_str (parse_path s))).
Proof. exact loaded_env_of_path_object. Qed.
Print Assumptions C20_loaded_environment_path_is_str_of_path_object.

(* in general the settings always survive (environment_path as its str); the path comes back made absolute *)
Theorem C20_save_load_general :
  forall cwd a,
  wf_path cwd ->
  load cwd (save (mk_project cwd a)) =
  set_env (option_map (fun x => PStr (arg_str x)) (a_env a))
          (set_path (absolute cwd (pr_path (mk_project cwd a))) (mk_project cwd a)).
Proof. exact save_load_general. Qed.
Print Assumptions C20_save_load_general.

(* REFUTED clause (known finding C20-relative-path-roundtrip): Project(Path('rel')) saved and
   loaded comes back with an absolute path *)
Theorem C20_roundtrip_relative_path_refuted :
  exists cwd a,
    wf_path cwd /\ is_abs cwd = true /\ a_env a = None /\
    pr_path (load cwd (save (mk_project cwd a))) <> pr_path (mk_project cwd a).
Proof. exact roundtrip_relative_path_refuted. Qed.
Print Assumptions C20_roundtrip_relative_path_refuted.

(* OLD behaviour, fixed by ba5f9c2 (finding C20-environment-path-object-save): `save_old` is the
   transcription of save() before the fix; with environment_path given as a pathlib.Path it failed,
   and wherever it succeeded it wrote what save writes now *)
Theorem C20_old_save_failed_on_environment_path_object :
  forall cwd a s, a_env a = Some (PPath s) -> save_old (mk_project cwd a) = None.
Proof. exact save_old_failed_on_path_object. Qed.
Print Assumptions C20_old_save_failed_on_environment_path_object.

Theorem C20_old_save_agrees_where_it_succeeded :
  forall p j, save_old p = Some j -> j = save p.
Proof. exact save_old_agrees. Qed.
Print Assumptions C20_old_save_agrees_where_it_succeeded.

(* REFUTED clause (known finding C20-relative-path-no-ancestors): with a relative Path as project
   path the buffer's ancestor directories are not appended although the buffer is in the project *)
Theorem C20_relative_project_path_no_ancestors_refuted :
  exists cwd a script,
    wf_path cwd /\ is_abs cwd = true /\ a_smart a = true /\
    inside (absolute cwd (pr_path (mk_project cwd a))) script = true /\
    is_abs script = true /\
    traversed (mk_project cwd a) script [] true = [].
Proof. exact relative_project_no_ancestors_refuted. Qed.
Print Assumptions C20_relative_project_path_no_ancestors_refuted.

(* --- non-vacuity / sanity, evaluated by the kernel ------------------------------------------ *)
Definition ex_s (l : list nat) : str := map N.of_nat l.
(* "/w" , "/w/p", "/w/p/a/b/m.py", "/x", "/w/p/a" *)
Definition ex_cwd := parse_path (ex_s [47;119]).
Definition ex_args := mkargs (PStr (ex_s [112])) None false
                             (Some [PStr (ex_s [47;120]); PPath (ex_s [47;120;47]); PStr (ex_s [47;119;47;112])])
                             [PStr (ex_s [47;119;47;112;47;97])] true.
Definition ex_script := parse_path (ex_s [47;119;47;112;47;97;47;98;47;109;46;112;121]).

Example C20_example_compose :
  get_sys_path (mk_project ex_cwd ex_args) [] (Some ex_script) [] [] true true =
  [ex_s [47;119;47;112]; ex_s [47;120]; ex_s [47;119;47;112;47;97]; ex_s [47;119;47;112;47;97;47;98]].
Proof. vm_compute. reflexivity. Qed.

Example C20_example_roundtrip_hypotheses_satisfiable :
  wf_path ex_cwd /\ is_abs ex_cwd = true /\
  match a_path ex_args with PStr _ => True | PPath s => is_abs (parse_path s) = true end /\
  match a_env ex_args with Some (PPath _) => False | _ => True end.
Proof. split; [apply parse_wf|]. vm_compute. auto. Qed.

Example C20_example_roundtrip :
  load ex_cwd (save (mk_project ex_cwd ex_args)) = mk_project ex_cwd ex_args.
Proof. vm_compute. reflexivity. Qed.

(* environment_path = Path("/x/") comes back as the str "/x" *)
Example C20_example_environment_path_object :
  pr_env (load ex_cwd (save (mk_project ex_cwd
            (mkargs (PStr (ex_s [112])) (Some (PPath (ex_s [47;120;47]))) false None [] true)))) =
  Some (PStr (ex_s [47;120])).
Proof. vm_compute. reflexivity. Qed.
