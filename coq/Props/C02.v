(* C02 property theorems.  Nothing but statements, `exact`, Print Assumptions, and
   witnesses computed by vm_compute. *)
From JV Require Import Model.C02_MiniInfer Proofs.C02_Proofs.

(* SOUNDNESS, whole core language (assignments, defs with positional / keyword / default /
   *args / **kwargs parameters, classes, tuples, constant indexing, conditional expressions,
   calls): for every program, every condition input, every statement position i and every
   expression e, if evaluating e just before statement i yields v, then the class tag of v
   is among the tags the jedi-style abstract evaluator reports there.
   kw_ok_prog: no call passes a keyword that names a *args/**kwargs parameter of a function
   of the program (outside it the statement is false, see C02_binding_star_keyword_refuted). *)
Theorem C02_ainfer_sound :
  forall (p : prog) (inp : list bool) (i : nat) (e : expr) (v : value),
  kw_ok_prog p e = true ->
  eval p inp i e = Some v ->
  In (tag_of v) (ainfer_tags p i e).
Proof. exact ainfer_sound_proof. Qed.
Print Assumptions C02_ainfer_sound.

(* EXACTNESS: when no conditional expression occurs in the statements before i (function
   bodies and defaults included) nor in e, the report is exactly the class of the value
   and nothing else (and the abstract value is the canonical abstraction of v). *)
Theorem C02_ainfer_exact_single :
  forall (p : prog) (inp : list bool) (i : nat) (e : expr) (v : value),
  kw_ok_prog p e = true ->
  forallb tern_free_stmt (firstn i p) = true -> tern_free e = true ->
  eval p inp i e = Some v ->
  ainfer p i e = [abs v] /\ ainfer_tags p i e = [tag_of v].
Proof. exact ainfer_exact_single_proof. Qed.
Print Assumptions C02_ainfer_exact_single.

(* ARGUMENT BINDING: whenever Python's binding of the call succeeds, jedi's
   get_executed_param_names_and_issues gives every parameter the same argument(s) / default. *)
Theorem C02_binding_agrees :
  forall (A : Type) (ps : list pspec) (pos : list A) (kws : list (N * A)) (s : list (N * binding A)),
  (forall k, In k (map fst kws) -> ~ In k (star_names ps)) ->
  py_bind ps pos kws = Some s ->
  jedi_bind ps pos kws = s.
Proof. exact binding_agrees_proof. Qed.
Print Assumptions C02_binding_agrees.

(* ... and the side condition is needed: def f( *a, **k) called f(a=X): Python puts a=X into k,
   jedi binds the keyword to the starred parameter itself. *)
Theorem C02_binding_star_keyword_refuted :
  exists (ps : list pspec) (pos : list nat) (kws : list (N * nat)) (s : list (N * binding nat)),
  py_bind ps pos kws = Some s /\ jedi_bind ps pos kws <> s.
Proof.
  exists [(1%N, PStar, false); (2%N, PStarStar, false)], [], [(1%N, 7)],
         [(1%N, BStar []); (2%N, BKw [(1%N, 7)])].
  split; [reflexivity|]. vm_compute. discriminate.
Qed.
Print Assumptions C02_binding_star_keyword_refuted.

(* METHOD RESOLUTION ORDER: jedi's depth-first, de-duplicated py__mro__ equals C3 on every
   single-inheritance hierarchy (any length, any shape of chains/trees) ... *)
Theorem C02_mro_depth_first_vs_c3 :
  forall h : hier, single_inh [] h = true -> c3_table [] h = Some (jedi_table [] h).
Proof. exact mro_single_inheritance_proof. Qed.
Print Assumptions C02_mro_depth_first_vs_c3.

(* ... and differs on the diamond with an override in the second branch:
   class K1: m -> int; class K2(K1); class K3(K1): m -> str; class K4(K2, K3);  K4().m *)
Theorem C02_mro_diamond_refuted :
  exists (h : hier) (c a : N),
  py_attr h c a = Some (3%N, LStr) /\ jedi_attr h c a = Some (1%N, LInt).
Proof.
  exists [ {| c_id := 1; c_bases := []; c_attrs := [(7%N, LInt)] |};
           {| c_id := 2; c_bases := [1%N]; c_attrs := [] |};
           {| c_id := 3; c_bases := [1%N]; c_attrs := [(7%N, LStr)] |};
           {| c_id := 4; c_bases := [2%N; 3%N]; c_attrs := [] |} ], 4%N, 7%N.
  split; reflexivity.
Qed.
Print Assumptions C02_mro_diamond_refuted.

(* non-vacuity: a program with a class, a function with default/*args/keyword-only parameters,
   a call, tuple indexing; the hypotheses of both theorems hold and eval succeeds *)
Definition ex_prog : prog :=
  [ SClass 1;
    SAssign 1 (ELit LStr);
    SDef 1 [(1%N, PReg, None); (2%N, PReg, Some (EName 1)); (3%N, PStar, None); (4%N, PReg, Some (ELit LFloat))]
         (ETuple [EName 1; EName 2; EIndex (EName 3) 0; EName 4]);
    SAssign 1 (ELit LInt);
    SAssign 2 (ECall 1 [ENew 1; EName 1; ELit LBytes] []) ].
Example C02_hypotheses_satisfiable :
  kw_ok_prog ex_prog (EIndex (EName 2) 2) = true /\
  forallb tern_free_stmt ex_prog = true /\
  eval ex_prog [] 5 (EIndex (EName 2) 2) = Some (VLit LBytes) /\
  ainfer_tags ex_prog 5 (EIndex (EName 2) 2) = [TLit LBytes] /\
  ainfer_tags ex_prog 5 (EIndex (ECall 1 [ENew 1] []) 1) = [TLit LStr] /\
  ainfer_tags ex_prog 5 (EIndex (ECall 1 [ENew 1] []) 0) = [TInst 1].
Proof. vm_compute. repeat split. Qed.

(* why exactness needs the hypothesis: a conditional yields both classes whatever the input *)
Example C02_ternary_reports_both :
  eval [] [true] 0 (ETern 0 (ELit LInt) (ELit LStr)) = Some (VLit LInt) /\
  ainfer_tags [] 0 (ETern 0 (ELit LInt) (ELit LStr)) = [TLit LInt; TLit LStr].
Proof. vm_compute. split; reflexivity. Qed.

(* single inheritance hypothesis is satisfiable on a non-trivial tree *)
Example C02_single_inh_inhabited :
  single_inh [] [ {| c_id := 1; c_bases := []; c_attrs := [] |}; {| c_id := 2; c_bases := [1%N]; c_attrs := [] |};
                  {| c_id := 3; c_bases := [1%N]; c_attrs := [] |}; {| c_id := 4; c_bases := [3%N]; c_attrs := [] |} ] = true.
Proof. reflexivity. Qed.
