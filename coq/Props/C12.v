(* C12 property theorems.  Nothing but statements, `exact`, and Print Assumptions. *)
From JV Require Import Base.Str Model.C12_Routes Proofs.C12_Proofs.

(* With load_unsafe_extensions = false, whatever import_module decides (any name, any finder
   answer, any sys_path argument, any auto_import_modules list), a directory that the helper
   searches while it really imports is a directory of the environment's base sys.path (hence of
   the helper's own sys.path) - and it was on the sys_path argument. *)
Theorem C12_exec_only_from_base_path :
  forall c name0 dotted fr sp,
  unsafe c = false ->
  forall d, In d (search_of (import_route c name0 dotted fr sp)) ->
            In d (base_sys_path c) /\ In d (env_path c) /\ In d sp.
Proof. exact exec_only_from_base_path. Qed.
Print Assumptions C12_exec_only_from_base_path.

(* ... hence if no project directory is on the environment's path, none is searched. *)
Theorem C12_no_project_dir_searched :
  forall c name0 dotted fr sp (project_dirs : list str),
  unsafe c = false ->
  (forall d, In d project_dirs -> ~ In d (env_path c)) ->
  forall d, In d project_dirs -> ~ In d (search_of (import_route c name0 dotted fr sp)).
Proof. exact no_project_dir_searched. Qed.
Print Assumptions C12_no_project_dir_searched.

(* The table executes code exactly for auto-import names and for modules without source;
   a module with source is read and parsed. *)
Theorem C12_exec_iff_auto_import_or_no_source :
  forall c name0 dotted fr sp,
  is_exec (import_route c name0 dotted fr sp) = true <->
  (In name0 (auto_import c) \/ fr = FNoSource).
Proof. exact exec_iff. Qed.
Print Assumptions C12_exec_iff_auto_import_or_no_source.

Theorem C12_source_is_parsed :
  forall c name0 dotted f sp,
  ~ In name0 (auto_import c) ->
  import_route c name0 dotted (FSource f) sp = ParseSource f.
Proof. exact source_is_parsed. Qed.
Print Assumptions C12_source_is_parsed.

(* access.load_module and functions.get_module_info (with a sys_path argument): whatever the
   wrapped call does to sys.path and however it exits (returns, ImportError, another Exception,
   a BaseException that propagates), sys.path afterwards is the value before the call; the
   second half says which exits return and which propagate. *)
Theorem C12_sys_path_restored :
  forall sp eff m,
  sys_path (fst (exec (Some sp) eff load_module_prog m)) = sys_path m /\
  sys_path (fst (exec (Some sp) eff get_module_info_prog m)) = sys_path m /\
  snd (exec (Some sp) eff load_module_prog m) = load_status eff /\
  snd (exec (Some sp) eff get_module_info_prog m) = info_status eff.
Proof. exact sys_path_restored. Qed.
Print Assumptions C12_sys_path_restored.

(* the import inside load_module runs with exactly the argument as sys.path *)
Theorem C12_import_runs_under_argument :
  forall sp eff m,
  events (fst (exec (Some sp) eff load_module_prog m)) = EImport sp :: events m.
Proof. exact import_runs_under_argument. Qed.
Print Assumptions C12_import_runs_under_argument.

(* The helper as a whole: for every sequence of requests that the host's routing can produce with
   load_unsafe_extensions = false, started with the helper's own path, every real import
   (load_module AND the ambient __import__ of getattr_paths) searches only directories of the
   environment's path, and sys.path is unchanged at the end.  Hypothesis on effects: calls that
   run under the ambient path (trusted code of the environment) do not themselves change it. *)
Theorem C12_query_confined :
  forall c (ops : list host_op) (rqs : list (request * effect)),
  unsafe c = false ->
  (forall r eff, In (r, eff) rqs -> exists op, In op ops /\ In r (requests_of c op)) ->
  (forall r eff, In (r, eff) rqs -> swaps r = false -> neutral eff) ->
  sys_path (run (init_mem (env_path c)) rqs) = env_path c /\
  (forall s, In s (import_searches (events (run (init_mem (env_path c)) rqs))) ->
             incl s (env_path c)).
Proof. exact query_confined. Qed.
Print Assumptions C12_query_confined.

Theorem C12_query_never_searches_project :
  forall c ops rqs (project_dirs : list str),
  unsafe c = false ->
  (forall d, In d project_dirs -> ~ In d (env_path c)) ->
  (forall r eff, In (r, eff) rqs -> exists op, In op ops /\ In r (requests_of c op)) ->
  (forall r eff, In (r, eff) rqs -> swaps r = false -> neutral eff) ->
  forall s d, In s (import_searches (events (run (init_mem (env_path c)) rqs))) ->
              In d project_dirs -> ~ In d s.
Proof. exact query_never_searches_project. Qed.
Print Assumptions C12_query_never_searches_project.

(* Non-vacuity of the flag: with unsafe = true - which is also what a Script without explicit
   project gets from a .jedi/project.json found in the analysed tree - a directory outside the
   environment's path IS searched by a real import. *)
Theorem C12_unsafe_searches_project_refuted :
  exists c name0 dotted fr sp d,
    unsafe c = effective_unsafe (Discovered (Some true)) /\
    ~ In d (env_path c) /\
    In d (search_of (import_route c name0 dotted fr sp)).
Proof. exact unsafe_searches_project. Qed.
Print Assumptions C12_unsafe_searches_project_refuted.

(* The `finally` is needed: the same function with the restore after the try statement leaves
   sys.path swapped when the import raises ImportError. *)
Theorem C12_without_finally_not_restored_refuted :
  exists sp eff m,
    sys_path (fst (exec (Some sp) eff load_module_prog_nofinally m)) <> sys_path m /\
    raises eff = Some ImportError.
Proof. exact nofinally_not_restored. Qed.
Print Assumptions C12_without_finally_not_restored_refuted.

(* Every site of the table whose kind executes code on the spot is one of the two modelled
   __import__ sites. *)
Theorem C12_exec_sites_are_modelled :
  exec_sites = [site_getattr_paths_import; site_load_module_import] /\
  forallb (fun s => implb (exec_kind (let '(_, _, k) := site_key s in k)) (is_exec_import_role (site_role_of s)))
          site_table = true.
Proof. exact exec_sites_are_the_two_imports. Qed.
Print Assumptions C12_exec_sites_are_modelled.

(* the hypotheses are satisfiable: the same import with the flag off searches the base path only *)
Example C12_safe_example :
  import_route (ex_cfg false) ex_gi ex_gi (FSource [120]%N) (ex_proj :: ex_env)
  = CompiledImport ex_gi [[115;116;100]; [115;105;116;101]]%N.
Proof. vm_compute. reflexivity. Qed.

Example C12_query_example :
  let c := ex_cfg false in
  let rqs := map (fun r => (r, {| on_path := fun p => p; raises := Some ImportError |}))
                 (requests_of c (OpImport ex_gi ex_gi FNotFound (ex_proj :: ex_env) true) ++
                  requests_of c OpCompiledAttr) in
  import_searches (events (run (init_mem (env_path c)) rqs)) =
  [ex_env; [[115;116;100]; [115;105;116;101]]%N].
Proof. vm_compute. reflexivity. Qed.
