(* C09 property theorems.  Nothing but statements, `exact`, and Print Assumptions. *)
From JV Require Import Model.C09_DiskCache Proofs.C09_Proofs.
Local Open Scope N_scope.

(* Strictly monotone time: every timestamp a mutation writes (file, directory) is larger than every
   timestamp already present (files, directories, pickles).  Then, for a history of ANY length over any
   number of processes and process restarts, every Script answers exactly what the current files say
   (spec_run is a function of the files at that moment only) and no staleness classifier fires --
   same process (memory cache, helper's directory listings) and new process with a warm pickle
   directory alike. *)
Theorem C09_fresh_under_monotone_time :
  forall t0 h, monotone t0 h = true -> run (init_st t0) h = spec_run (init_fs t0) h.
Proof. exact fresh_under_monotone_time. Qed.
Print Assumptions C09_fresh_under_monotone_time.

(* the same from any state whose cache entries are valid and whose timestamps are bounded by hw *)
Theorem C09_fresh_under_monotone_time_from_any_valid_state :
  forall s hw h, Valid s -> Bounded hw s -> monotone hw h = true -> run s h = spec_run (s_fs s) h.
Proof. exact fresh_under_monotone_time_any. Qed.
Print Assumptions C09_fresh_under_monotone_time_from_any_valid_state.

(* what spec_run prescribes IS the answer of a run from empty caches on the same files *)
Theorem C09_empty_cache_run_is_fresh :
  forall fs p tq chs,
  snd (exec (cold fs) (OQuery p tq chs)) = map (fun ch => (fresh_import fs ch, @nil flag)) chs.
Proof. exact empty_cache_run_is_fresh. Qed.
Print Assumptions C09_empty_cache_run_is_fresh.

(* For EVERY history (no assumption on timestamps) and every start state: an answer that carries no
   classifier flag equals the answer for the current files.  So the model can be stale only through
   the three validation rules: memory hit with mtime <= change_time (1), trusted pickle (2, 3),
   directory listing kept because the directory mtime is unchanged (4). *)
Theorem C09_stale_only_when_classified :
  forall h s,
  Forall2 (Forall2 (fun x f : res * list flag => snd x = [] -> fst x = fst f)) (run s h) (spec_run (s_fs s) h).
Proof. exact stale_only_when_classified. Qed.
Print Assumptions C09_stale_only_when_classified.

(* Without monotone time the property is false in the model (and, replayed by the harness, in jedi):
   (a) overwrite with an EQUAL mtime after the file was served: the same process keeps the old tree;
   (b) a module created in a directory whose mtime does not advance is not found by the long-lived helper;
   (c) a file rewritten with an mtime newer than its old one but not newer than the pickle written
       in between: a NEW process trusts the pickle (while the old process sees the change). *)
Theorem C09_stale_without_monotone_refuted :
  let m : key := ([], 1, Py) in
  (run (init_st 1) [OWrite m 10 5 5; OQuery 0 6 [[1]]; OWrite m 11 5 5; OQuery 0 7 [[1]]]
     = [[]; [((KMod, Some 10, None), [])]; []; [((KMod, Some 10, None), [F_MEM])]]
   /\ spec_run (init_fs 1) [OWrite m 10 5 5; OQuery 0 6 [[1]]; OWrite m 11 5 5; OQuery 0 7 [[1]]]
     = [[]; [((KMod, Some 10, None), [])]; []; [((KMod, Some 11, None), [])]])
  /\ (run (init_st 1) [OQuery 0 2 [[1]]; OWrite m 10 9 1; OQuery 0 10 [[1]]]
     = [[(none_res, [])]; []; [(none_res, [F_DIR])]]
   /\ spec_run (init_fs 1) [OQuery 0 2 [[1]]; OWrite m 10 9 1; OQuery 0 10 [[1]]]
     = [[(none_res, [])]; []; [((KMod, Some 10, None), [])]])
  /\ (run (init_st 1) [OWrite m 10 5 5; OQuery 0 100 [[1]]; OWrite m 11 50 5; ONewProc 1; OQuery 1 101 [[1]]; OQuery 0 102 [[1]]]
     = [[]; [((KMod, Some 10, None), [])]; []; []; [((KMod, Some 10, None), [F_PK_BETWEEN])]; [((KMod, Some 11, None), [])]]
   /\ spec_run (init_fs 1) [OWrite m 10 5 5; OQuery 0 100 [[1]]; OWrite m 11 50 5; ONewProc 1; OQuery 1 101 [[1]]; OQuery 0 102 [[1]]]
     = [[]; [((KMod, Some 10, None), [])]; []; []; [((KMod, Some 11, None), [])]; [((KMod, Some 11, None), [])]]).
Proof. exact stale_without_monotone_refuted. Qed.
Print Assumptions C09_stale_without_monotone_refuted.

(* The module cache is per Script: a Script starts with an empty one (exec); inside one Script any
   module cache whose entries are import results for the current files gives the specified answers. *)
Theorem C09_module_cache_per_script :
  forall s p tq chs mc0,
  Valid s -> mc_fresh (s_fs s) mc0 ->
  fst (fst (query_mc p tq chs mc0 s)) = map (fun ch => (fresh_import (s_fs s) ch, @nil flag)) chs.
Proof. exact module_cache_per_script. Qed.
Print Assumptions C09_module_cache_per_script.

(* ... and it has to be: a module cache that outlives the Script (one per process) answers from the
   old file even when every timestamp is strictly monotone, where the real design answers correctly *)
Theorem C09_shared_module_cache_refuted :
  let m : key := ([], 1, Py) in
  let h := [OWrite m 10 5 5; OQuery 0 6 [[1]]; OWrite m 11 8 9; OQuery 0 10 [[1]]] in
  monotone 1 h = true /\
  run (init_st 1) h = spec_run (init_fs 1) h /\
  run_shared_mc (init_st 1) (fun _ => []) h <> spec_run (init_fs 1) h.
Proof. exact shared_module_cache_refuted. Qed.
Print Assumptions C09_shared_module_cache_refuted.

(* non-vacuity: a strictly monotone history with a module, a stub, a package, a module turned into a
   package, a restart and a second process; what the model answers *)
Example C09_example :
  let h := [OWrite ([], 1, Py) 10 2 3; OWrite ([], 1, Pyi) 101 4 5;
            OMkDir [] 2 6 7; OWrite ([2], 0, Py) 11 8 9; OWrite ([2], 5, Py) 12 10 11;
            OQuery 0 12 [[1]; [2; 5]; [2]; [3]];
            ODelete ([], 1, Py) 13; OMkDir [] 1 14 15; OWrite ([1], 0, Py) 13 16 17;
            ONewProc 1; OQuery 1 18 [[1]]; OQuery 0 19 [[1]; [2; 5]]] in
  monotone 1 h = true /\
  run (init_st 1) h =
    [[]; []; []; []; [];
     [((KMod, Some 10, Some 101), []); ((KMod, Some 12, None), []); ((KPkg, Some 11, None), []); (none_res, [])];
     []; []; []; [];
     [((KPkg, Some 13, None), [])];
     [((KPkg, Some 13, None), []); ((KMod, Some 12, None), [])]].
Proof. vm_compute. split; reflexivity. Qed.
