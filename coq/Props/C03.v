(* C03 property theorems.  Nothing but statements, `exact`, Print Assumptions, and
   witnesses computed by vm_compute. *)
From JV Require Import Model.C03_Resolve Proofs.C03_Proofs.

(* MAIN: for every chain of enclosing scopes (any depth, any occurrences) and every use inside
   the fragment, whatever jedi's outward walk finds lies in exactly the scope Python reads
   at that use: it is a binding of the same identifier writing that scope (or, at module
   level, only `global` statements were found). *)
Theorem C03_goto_in_python_scope :
  forall c u gd dep od,
  wf_chain c = true -> in_fragment c u = true ->
  jedi_find (o_name u) gd c (Some (o_id u)) false = Some (dep, od) ->
  py_scope c u = Some dep /\
  match od with
  | Some d => o_name d = o_name u /\ o_role d = Bind /\
              exists pre f rest, c = pre ++ f :: rest /\ length (f :: rest) = dep /\
                                 In d (f_occs f) /\ bind_scope (f :: rest) d = Some dep
  | None => dep = 1
  end.
Proof. exact goto_in_python_scope. Qed.
Print Assumptions C03_goto_in_python_scope.

(* the same for whole programs and for the list Script.goto returns *)
Theorem C03_program_goto_in_python_scope :
  forall p u c e,
  forallb no_module_sub p = true ->
  In (u, c) (occs_of p) -> in_fragment c u = true ->
  In e (jedi_goto p c u) ->
  o_name e = o_name u /\
  (o_role e = DeclG \/
   (o_role e = Bind /\ exists pre f rest, c = pre ++ f :: rest /\ In e (f_occs f) /\
                                         bind_scope (f :: rest) e = py_scope c u)).
Proof. exact program_goto_in_python_scope. Qed.
Print Assumptions C03_program_goto_in_python_scope.

(* a local (function, lambda, comprehension or class body) variable that Python reads is found *)
Theorem C03_goto_finds_local :
  forall c u gd,
  wf_chain c = true -> in_fragment c u = true ->
  (exists f rest, c = f :: rest /\ f_kind f <> Module /\ bound (o_name u) f = true) ->
  exists d, jedi_find (o_name u) gd c (Some (o_id u)) false = Some (length c, Some d) /\
            py_scope c u = Some (length c).
Proof. exact goto_finds_local. Qed.
Print Assumptions C03_goto_finds_local.

(* straight-line clause: exactly the textually last binding before the use *)
Theorem C03_goto_exact_last_before :
  forall p f rest u,
  f_kind f <> Comp ->
  bound_before (o_name u) (o_id u) f = true ->
  exists d pre post,
    f_occs f = pre ++ d :: post /\
    is Bind (o_name u) d = true /\ N.ltb (o_id d) (o_id u) = true /\
    forallb (fun o => negb (is Bind (o_name u) o && N.ltb (o_id o) (o_id u))) post = true /\
    jedi_goto p (f :: rest) u =
      insert_occ d (if Nat.eqb (length (f :: rest)) 1 then global_decls (o_name u) p else []).
Proof. exact goto_exact_last_before. Qed.
Print Assumptions C03_goto_exact_last_before.

(* ---- outside the fragment the statement is false: one witness per excluded shape ---- *)
Definition mk (i n : N) (r : role) := {| o_id := i; o_name := n; o_role := r |}.
Definition fr (k : kind) (s : N) (l : list occ) := {| f_kind := k; f_sid := s; f_occs := l |}.
Definition diverges (c : chain) (u : occ) : Prop :=
  wf_chain c = true /\ in_fragment c u = false /\
  exists dep od, jedi_find (o_name u) false c (Some (o_id u)) false = Some (dep, od) /\ py_scope c u <> Some dep.

(* F1: use in a function before the only (later) local binding; a module-level namesake exists *)
Theorem C03_refuted_F1_late_local :
  diverges [fr Def 1 [mk 5 1 Use; mk 6 1 Bind]; fr Module 0 [mk 1 1 Bind]] (mk 5 1 Use).
Proof. split; [reflexivity|]. split; [reflexivity|]. exists 1, (Some (mk 1 1 Bind)). split; [reflexivity|discriminate]. Qed.
Print Assumptions C03_refuted_F1_late_local.

(* F2: comprehension element in a class body that binds the name *)
Theorem C03_refuted_F2_comp_sees_class :
  diverges [fr Comp 2 [mk 4 1 Use; mk 5 3 Bind]; fr Class 1 [mk 2 1 Bind]; fr Module 0 [mk 1 1 Bind]] (mk 4 1 Use).
Proof. split; [reflexivity|]. split; [reflexivity|]. exists 2, (Some (mk 2 1 Bind)). split; [reflexivity|discriminate]. Qed.
Print Assumptions C03_refuted_F2_comp_sees_class.

(* F3: class body uses a name it binds only later while the enclosing function binds it *)
Theorem C03_refuted_F3_class_loadname :
  diverges [fr Class 2 [mk 5 1 Use; mk 6 1 Bind]; fr Def 1 [mk 2 1 Bind]; fr Module 0 [mk 1 1 Bind]] (mk 5 1 Use).
Proof. split; [reflexivity|]. split; [reflexivity|]. exists 2, (Some (mk 2 1 Bind)). split; [reflexivity|discriminate]. Qed.
Print Assumptions C03_refuted_F3_class_loadname.

(* F4: nested class body sees the outer class's attribute *)
Theorem C03_refuted_F4_nested_class :
  diverges [fr Class 2 [mk 4 1 Use]; fr Class 1 [mk 2 1 Bind]; fr Module 0 [mk 1 1 Bind]] (mk 4 1 Use).
Proof. split; [reflexivity|]. split; [reflexivity|]. exists 2, (Some (mk 2 1 Bind)). split; [reflexivity|discriminate]. Qed.
Print Assumptions C03_refuted_F4_nested_class.

(* F5: `global x` ignored when an enclosing function binds x *)
Theorem C03_refuted_F5_global_ignored :
  diverges [fr Def 2 [mk 4 1 DeclG; mk 5 1 Use]; fr Def 1 [mk 2 1 Bind]; fr Module 0 [mk 1 1 Bind]] (mk 5 1 Use).
Proof. split; [reflexivity|]. split; [reflexivity|]. exists 2, (Some (mk 2 1 Bind)). split; [reflexivity|discriminate]. Qed.
Print Assumptions C03_refuted_F5_global_ignored.

(* non-vacuity: a closure reading an enclosing function's variable through a class and a lambda *)
Example C03_fragment_inhabited :
  let c := [fr Lam 3 [mk 7 1 Use]; fr Class 2 [mk 6 2 Bind]; fr Def 1 [mk 3 1 Bind; mk 9 1 Bind]; fr Module 0 [mk 1 1 Bind]] in
  wf_chain c = true /\ in_fragment c (mk 7 1 Use) = true /\
  jedi_find 1 false c (Some 7%N) false = Some (2, Some (mk 9 1 Bind)) /\ py_scope c (mk 7 1 Use) = Some 2.
Proof. vm_compute. repeat split. Qed.
