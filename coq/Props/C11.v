(* C11 property theorems.  Nothing but statements, `exact`, and Print Assumptions. *)
From JV Require Import Base.Str Model.C11_Signature Proofs.C11_Proofs.

(* get_kind (jedi's reading of the `/` and `*` markers, per parameter) gives every
   parameter of a syntactically valid parameter list the kind and name Python gives it,
   provided no name starts with `__` *)
Theorem C11_get_kind_is_python_kind :
  forall cs, valid_children cs = true -> no_dunder cs = true -> jedi_sig cs = py_sig cs.
Proof. exact get_kind_is_python_kind. Qed.
Print Assumptions C11_get_kind_is_python_kind.

(* ... and with a `__x` name it does not: def f(__x) is reported as positional-only `x` *)
Theorem C11_get_kind_dunder_refuted :
  exists cs, valid_children cs = true /\ jedi_sig cs <> py_sig cs /\
             py_sig cs = [mkParam [95; 95; 120]%N PK] /\ jedi_sig cs = [mkParam [120]%N PO].
Proof. exact get_kind_dunder_refuted. Qed.
Print Assumptions C11_get_kind_dunder_refuted.

(* re-reading the `/` and `*` markers that to_string inserts recovers names and kinds *)
Theorem C11_to_string_roundtrip :
  forall ps, wf ps = true -> py_sig (to_string_children ps) = ps.
Proof. exact to_string_roundtrip. Qed.
Print Assumptions C11_to_string_roundtrip.

(* ... and what to_string renders is a syntactically valid parameter list *)
Theorem C11_to_string_valid :
  forall ps, wf ps = true -> valid_children (to_string_children ps) = true.
Proof. exact to_string_valid. Qed.
Print Assumptions C11_to_string_valid.

(* calculate_index returns the preferred binding target: the positional slot while
   positional arguments are legal, else the first unused keyword-capable parameter
   matching the typed `name=` / identifier prefix, else **kwargs, else None *)
Theorem C11_index_is_preferred_target :
  forall ps args, wf ps = true -> args <> [] -> star_free args = true ->
  calc_index ps args = preferred ps args.
Proof. exact index_is_preferred. Qed.
Print Assumptions C11_index_is_preferred_target.

(* the scanner never yields an empty list; if it did, the answer is that of `f(|` *)
Theorem C11_index_no_args :
  forall ps, wf ps = true -> calc_index ps [] = preferred ps [(0%N, Some [], false)].
Proof. exact index_no_args. Qed.
Print Assumptions C11_index_no_args.

(* the index is a parameter Python can bind the argument under the cursor to ... *)
Theorem C11_index_sound :
  forall ps args i,
  wf ps = true -> args <> [] -> star_free args = true -> rebinding ps args = false ->
  calc_index ps args = Some i -> Target ps args i.
Proof. exact index_sound. Qed.
Print Assumptions C11_index_sound.

(* ... None only when Python can bind it to no parameter ... *)
Theorem C11_index_complete :
  forall ps args,
  wf ps = true -> args <> [] -> star_free args = true ->
  calc_index ps args = None -> forall i, ~ Target ps args i.
Proof. exact index_complete. Qed.
Print Assumptions C11_index_complete.

(* ... and exactly the positional slot (or *args) while positional arguments are legal *)
Theorem C11_index_positional_exact :
  forall ps args i p,
  wf ps = true -> args <> [] -> star_free args = true ->
  a_eq (cursor args) = false -> kw_before args = false ->
  nth_error ps i = Some p ->
  (is_positional_kind (pkind p) = true /\ rank ps i = n_pos args) \/
  (pkind p = VP /\ n_positional ps <= n_pos args) ->
  calc_index ps args = Some i.
Proof. exact index_positional_exact. Qed.
Print Assumptions C11_index_positional_exact.

(* without the no-rebinding hypothesis soundness fails: call `f(1, a=|` with def f(a, **kw)
   is answered with kw although Python raises "multiple values for argument 'a'" *)
Theorem C11_index_rebinding_refuted :
  exists ps args i,
    wf ps = true /\ star_free args = true /\ args <> [] /\
    calc_index ps args = Some i /\ ~ Target ps args i.
Proof. exact index_rebinding_refuted. Qed.
Print Assumptions C11_index_rebinding_refuted.

(* starred arguments.  `*x` in front of the cursor is treated as an empty iterable: *)
Theorem C11_index_starred_as_empty_partial :
  forall b cur ps,
  forallb (fun a => N.eqb (a_stars a) 0 || negb (a_eq a)) b = true ->
  calc_index ps (b ++ [cur]) =
  calc_index ps (filter (fun a => negb (N.eqb (a_stars a) 1)) b ++ [cur]).
Proof. exact index_starred_as_empty. Qed.
Print Assumptions C11_index_starred_as_empty_partial.

(* so with a non-empty iterable the positional slot is not the one reported *)
Theorem C11_index_starred_exact_refuted :
  exists ps star_args expanded i j,
    wf ps = true /\
    calc_index ps star_args = Some i /\
    Target ps expanded j /\ ~ Target ps expanded i /\ star_free expanded = true.
Proof. exact index_starred_exact_refuted. Qed.
Print Assumptions C11_index_starred_exact_refuted.

(* a `*` argument under the cursor is sent to the next positional slot *)
Theorem C11_index_cursor_star_partial :
  forall b key ps,
  wf ps = true -> star_free b = true -> existsb a_eq b = false ->
  calc_index ps (b ++ [(1%N, key, false)]) = pos_slot ps 0 (length (filter is_pos_arg b)).
Proof. exact index_cursor_star. Qed.
Print Assumptions C11_index_cursor_star_partial.

(* a `**` argument under the cursor: first unused keyword-capable parameter, else **kwargs *)
Theorem C11_index_cursor_double_star_partial :
  forall b key ps,
  wf ps = true ->
  calc_index ps (b ++ [(2%N, key, false)]) =
  kw_search ps (used_keys (b ++ [(2%N, key, false)])) (n_pos (b ++ [(2%N, key, false)])) (fun _ => true).
Proof. exact index_cursor_double_star. Qed.
Print Assumptions C11_index_cursor_double_star_partial.

(* docstring(raw=True) is the docstring; otherwise the signature text is put in front,
   separated by an empty line exactly when both parts are non-empty *)
Theorem C11_docstring_assembly :
  forall sig doc,
  docstring sig doc true = doc /\
  (sig <> [] -> doc <> [] -> docstring sig doc false = sig ++ [10; 10]%N ++ doc) /\
  (doc = [] -> docstring sig doc false = sig) /\
  (sig = [] -> docstring sig doc false = doc) /\
  (exists sep, docstring sig doc false = sig ++ sep ++ doc).
Proof. exact docstring_assembly. Qed.
Print Assumptions C11_docstring_assembly.

(* non-vacuity: the hypotheses of the index theorems hold of def f(a, /, b, *, x, **kw)
   and the prefix `f(1, x|`, and the answer is b *)
Example C11_index_nonvacuous :
  let ps := [mkParam [97]%N PO; mkParam [98]%N PK; mkParam [120]%N KO; mkParam [107; 119]%N VK] in
  let args := [(0%N, Some [], false); (0%N, Some [120]%N, false)] in
  wf ps = true /\ args <> [] /\ star_free args = true /\ rebinding ps args = false /\
  calc_index ps args = Some 1.
Proof. exact index_nonvacuous. Qed.

Example C11_kinds_nonvacuous :
  let cs := [COther; CParam 0 [97]%N; CSlash; CParam 0 [98]%N; CStar; COther; CParam 0 [99]%N; CParam 2 [107]%N; COther] in
  valid_children cs = true /\ no_dunder cs = true /\
  py_sig cs = [mkParam [97]%N PO; mkParam [98]%N PK; mkParam [99]%N KO; mkParam [107]%N VK].
Proof. vm_compute. repeat split. Qed.

Example C11_to_string_example :
  to_string [102]%N
    [mkR [97]%N PO None None; mkR [98]%N PK (Some [105]%N) (Some [49]%N); mkR [99]%N KO None None]
    None
  = [102; 40; 97; 44; 32; 47; 44; 32; 98; 58; 32; 105; 61; 49; 44; 32; 42; 44; 32; 99; 41]%N.
Proof. vm_compute. reflexivity. Qed.
