(* C15 property theorems.  Nothing but statements, `exact`, and Print Assumptions. *)
From JV Require Import Model.C15_Budget Proofs.C15_Proofs.

(* ExecutionRecursionDetector, any well-bracketed trace of any length from a reset, any limits:
   accepted ordinary (non-builtins) executions are bounded in total, per definition (typing
   module excepted), in nesting depth, and per definition on the stack. *)
Theorem C15_exec_budget :
  forall (L : limits) (tr : list xev) (s : xstate),
  xrun L xreset tr = Some s ->
  cnt acc_nb (x_log s) <= total_limit L /\
  (forall f, cnt (acc_of f) (x_log s) <= per_func_limit L) /\
  cnt acc_nb (x_marks s) <= recursion_limit L /\
  (forall f, cnt (acc_of f) (x_marks s) <= per_func_rec_limit L).
Proof. exact exec_budget_gen. Qed.
Print Assumptions C15_exec_budget.

(* the same for the documented constants 200 / 6 / 15 / 2 *)
Theorem C15_exec_budget_documented :
  forall (tr : list xev) (s : xstate),
  xrun documented_limits xreset tr = Some s ->
  cnt acc_nb (x_log s) <= 200 /\
  (forall f, cnt (acc_of f) (x_log s) <= 6) /\
  cnt acc_nb (x_marks s) <= 15 /\
  (forall f, cnt (acc_of f) (x_marks s) <= 2).
Proof. exact (exec_budget_gen documented_limits). Qed.
Print Assumptions C15_exec_budget_documented.

(* a refused push still increments level and stack until it is popped *)
Theorem C15_refused_push_occupies_until_popped :
  forall L d x d',
  push_execution L d x = (d', true) ->
  e_level d' = e_level d + 1 /\ e_stack d' = x_func x :: e_stack d /\
  pop_execution d' = Some (mkEdet (e_level d) (e_stack d) (e_counts d') (e_total d')).
Proof. exact refused_push_occupies. Qed.
Print Assumptions C15_refused_push_occupies_until_popped.

(* refuted clause: for executions in the builtins module there is no depth bound at all *)
Theorem C15_exec_depth_builtins_unbounded_refuted :
  forall (L : limits) (n : nat),
  exists tr s, xrun L xreset tr = Some s /\ cnt acc_any (x_marks s) = N.of_nat n.
Proof. exact exec_depth_builtins_unbounded. Qed.
Print Assumptions C15_exec_depth_builtins_unbounded_refuted.

(* execution_allowed: the statement stack is duplicate free, hence no deeper than the
   number of distinct statements *)
Theorem C15_stmt_guard_depth :
  forall (tr : list sev) (s : sstate),
  srun sreset tr = Some s ->
  NoDup (s_pushed s) /\
  forall ns, incl (entered tr) ns -> (length (s_pushed s) <= length ns)%nat.
Proof. exact stmt_guard_gen. Qed.
Print Assumptions C15_stmt_guard_depth.

Theorem C15_stmt_refused_iff_active :
  forall s n s',
  sstep s (SEnter n) = Some (s', Some false) <->
  (In n (s_pushed s) /\ s' = mkS (s_pushed s) (false :: s_frames s)).
Proof. exact stmt_refused_iff_active. Qed.
Print Assumptions C15_stmt_refused_iff_active.

(* _memoize_default with a default: the body of a key is entered at most once per
   inference state, whatever happens (re-entry, exceptions, later calls) *)
Theorem C15_memo_body_entered_once :
  forall (k : N) (tr : list mev) (memo : list (N * N)),
  calls_have_default k tr -> cnt (is_enter_of k) (snd (mrun memo tr)) <= 1.
Proof. exact memo_enter_once. Qed.
Print Assumptions C15_memo_body_entered_once.

(* a call with a key that is being computed (entered, result not yet stored) returns the
   default without entering the body *)
Theorem C15_memo_reentry_returns_default :
  forall memo k dv t2 d',
  lookup k memo = None -> no_store k t2 = true ->
  let m1 := fst (mstep memo (MCall k (Some dv))) in
  let m2 := fst (mrun m1 t2) in
  snd (mstep memo (MCall k (Some dv))) = MEnter /\
  mstep m2 (MCall k d') = (m2, MHit dv).
Proof. exact memo_reentry_default. Qed.
Print Assumptions C15_memo_reentry_returns_default.

(* refuted clause: decorated WITHOUT a default (_NO_DEFAULT) a re-entrant call enters the body again *)
Theorem C15_memo_nodefault_reentry_refuted :
  exists tr k, cnt (is_enter_of k) (snd (mrun [] tr)) = 2.
Proof. exact memo_nodefault_reenters. Qed.
Print Assumptions C15_memo_nodefault_reentry_refuted.

(* generator cache: the underlying generator is never re-entered (an Advance happens only
   when none is pending), a consumer that was stopped stays stopped, and the cached
   elements only ever grow at the end (all consumers see one sequence) *)
Theorem C15_gen_cache_no_reentry :
  forall tr1 tr2 s1 o1 s2 o2,
  grun greset tr1 = Some (s1, o1) -> grun s1 tr2 = Some (s2, o2) ->
  (length (g_adv s2) <= 1)%nat /\
  (forall c s3 o, gstep s2 (GAsk c) = Some (s3, o) -> o = GAdvance -> g_adv s2 = []) /\
  (forall c, In c (g_fin s2) -> ~ In c (g_adv s2) -> gstep s2 (GAsk c) = Some (s2, GStop)) /\
  exists ext, gvalues (g_cached s2) = gvalues (g_cached s1) ++ ext.
Proof. exact gen_cache_gen. Qed.
Print Assumptions C15_gen_cache_no_reentry.

(* _limit_value_infers: accepted node inferences are linear in the number of scopes *)
Theorem C15_infer_cap_linear :
  forall (L : limits) (isb : N -> bool),
  1 <= infer_cap L -> 1 <= builtin_mult L ->
  forall tr : list iev,
  (forall k b, In (k, b) tr -> b = isb k) ->
  accepted (snd (irun L [] tr)) <=
    infer_cap L * cnt (fun k => negb (isb k)) (scopes [] tr) +
    infer_cap L * builtin_mult L * cnt isb (scopes [] tr).
Proof. exact infer_cap_gen. Qed.
Print Assumptions C15_infer_cap_linear.

Theorem C15_infer_cap_linear_documented :
  forall (isb : N -> bool) (tr : list iev),
  (forall k b, In (k, b) tr -> b = isb k) ->
  accepted (snd (irun documented_limits [] tr)) <=
    300 * cnt (fun k => negb (isb k)) (scopes [] tr) + 30000 * cnt isb (scopes [] tr).
Proof. exact infer_cap_documented. Qed.
Print Assumptions C15_infer_cap_linear_documented.

(* `scopes [] tr` really is the duplicate-free list of the scopes used in the trace *)
Theorem C15_scopes_are_the_distinct_scopes :
  forall tr : list iev,
  NoDup (scopes [] tr) /\ forall k, In k (scopes [] tr) <-> exists b, In (k, b) tr.
Proof. exact scopes_spec_nil. Qed.
Print Assumptions C15_scopes_are_the_distinct_scopes.

(* total work: for ANY call tree of node inferences with fan-out <= b (however deep), the
   number of calls the engine makes under the guard is linear in the number of scopes *)
Theorem C15_infer_work_polynomial :
  forall (L : limits) (isb : N -> bool) (b : nat) (t : ctree),
  1 <= infer_cap L -> 1 <= builtin_mult L ->
  fanout_le b t = true ->
  (forall k bb, In (k, bb) (map fst (snd (visit L t []))) -> bb = isb k) ->
  let log := snd (visit L t []) in
  let ks := scopes [] (map fst log) in
  len log <= 1 + N.of_nat b * (infer_cap L * cnt (fun k => negb (isb k)) ks +
                               infer_cap L * builtin_mult L * cnt isb ks).
Proof. exact infer_work_gen. Qed.
Print Assumptions C15_infer_work_polynomial.

(* ---- non-vacuity and tightness, by computation *)
(* mutual recursion f0 <-> f1 of depth 40 through the decorator is a well-bracketed trace;
   it is cut at nesting depth 4 (2 per definition), 4 accepted executions *)
Example C15_example_mutual_recursion :
  match xrun documented_limits xreset (mutual_trace documented_limits 40 0 edet_reset) with
  | Some s => (cnt acc_nb (x_log s), len (x_log s), len (x_marks s),
               xrun_bounds documented_limits xreset (mutual_trace documented_limits 40 0 edet_reset))
  | None => (0, 0, 0, false)
  end = (4, 5, 0, true).
Proof. vm_compute. reflexivity. Qed.

(* the per-definition stack bound 2 is tight: the third nested execution is the first refused *)
Example C15_example_third_nested_refused :
  map snd (match xrun documented_limits xreset
                   [XPush (mkExec 1 false false); XPush (mkExec 1 false false); XPush (mkExec 1 false false)]
           with Some s => rev (x_log s) | None => [] end) = [false; false; true].
Proof. vm_compute. reflexivity. Qed.

(* the typing exemption: ten executions of one typing definition are all accepted *)
Example C15_example_typing_exempt :
  match xrun documented_limits xreset (typing_calls 10) with
  | Some s => cnt acc_nb (x_log s) | None => 0 end = 10.
Proof. vm_compute. reflexivity. Qed.

(* a complete binary call tree of depth 12 in one scope has 8191 calls; 309 are made, 300 accepted *)
Example C15_example_binary_tree :
  let log := snd (visit documented_limits (bin_tree 12 0) []) in (len log, accepted log) = (309, 300).
Proof. vm_compute. reflexivity. Qed.

Example C15_example_memo :
  snd (mrun [] [MCall 1 (Some 0); MCall 2 (Some 0); MCall 1 (Some 0); MStore 2 8; MStore 1 9; MCall 1 (Some 0)])
  = [(MCall 1 (Some 0), MEnter); (MCall 2 (Some 0), MEnter); (MCall 1 (Some 0), MHit 0);
     (MStore 2 8, MStored); (MStore 1 9, MStored); (MCall 1 (Some 0), MHit 9)].
Proof. vm_compute. reflexivity. Qed.

(* a generator whose body consumes itself: the inner consumer is stopped by the sentinel *)
Example C15_example_gen_cache :
  match grun greset [GAsk 1; GAsk 2; GDone (Some 5); GAsk 2; GAsk 1; GAsk 3; GDone None] with
  | Some (_, outs) => outs | None => [] end
  = [GAdvance; GStop; GYield 5; GStop; GAdvance; GYield 5; GStop].
Proof. vm_compute. reflexivity. Qed.
