(* C05 property theorems. *)
From JV Require Import Base.Str Model.C03_Resolve Model.C05_Rename Proofs.C03_Proofs Proofs.C05_Proofs.

(* the rewritten file is the old one with exactly the value bytes of the reported references
   replaced by the new name; prefixes (whitespace, comments, line ends) and all other tokens
   are identical and in place *)
Theorem C05_rename_text_splice :
  forall new ls,
  rename_text new ls = flat_map (fun l => l_prefix l ++ (if l_sel l then new else l_value l)) ls.
Proof. exact rename_text_splice. Qed.
Print Assumptions C05_rename_text_splice.

Theorem C05_rename_nothing_selected :
  forall new ls, forallb (fun l => negb (l_sel l)) ls = true -> rename_text new ls = code_of ls.
Proof. exact rename_text_nothing_selected. Qed.
Print Assumptions C05_rename_nothing_selected.

(* renaming the new name back restores the original text byte for byte *)
Theorem C05_rename_roundtrip :
  forall old new ls,
  forallb (fun l => implb (l_sel l) (str_eqb (l_value l) old)) ls = true ->
  rename_text old (map (rename_leaf new) ls) = code_of ls.
Proof. exact rename_roundtrip. Qed.
Print Assumptions C05_rename_roundtrip.

(* renaming a variable to a fresh name preserves the scope every use resolves to (no capture,
   no escape) and renames exactly the uses of that variable -- for chains of any depth *)
Theorem C05_alpha_preserves_use :
  forall x y dV c u,
  x <> y -> wf_chain c = true -> NoD x c -> fresh y c = true ->
  (exists f rest, c = f :: rest /\ In u (f_occs f)) -> o_role u = Use ->
  no_early_class_use c u = true ->
  py_scope (ren_chain x y dV c) (ren_occ x y dV c u) = py_scope c u /\
  (o_name (ren_occ x y dV c u) = y <-> (o_name u = x /\ py_scope c u = Some dV)).
Proof. exact alpha_preserves_use. Qed.
Print Assumptions C05_alpha_preserves_use.

Theorem C05_alpha_preserves_bind :
  forall x y dV c b,
  x <> y -> wf_chain c = true -> NoD x c -> fresh y c = true ->
  (exists f rest, c = f :: rest /\ In b (f_occs f)) -> o_role b = Bind ->
  bind_scope (ren_chain x y dV c) (ren_occ x y dV c b) = bind_scope c b /\
  (o_name (ren_occ x y dV c b) = y <-> (o_name b = x /\ bind_scope c b = Some dV)).
Proof. exact alpha_preserves_bind. Qed.
Print Assumptions C05_alpha_preserves_bind.

(* the side condition is needed: renaming a class attribute that the class body reads (as a
   global, by LOAD_NAME) before binding it lets an enclosing function's variable capture the read *)
Theorem C05_alpha_class_capture_refuted :
  exists x y dV c u,
    x <> y /\ wf_chain c = true /\ NoD x c /\ fresh y c = true /\ o_role u = Use /\
    no_early_class_use c u = false /\
    py_scope (ren_chain x y dV c) (ren_occ x y dV c u) <> py_scope c u.
Proof.
  exists 1%N, 9%N, 3,
    [ {| f_kind := Class; f_sid := 2; f_occs := [ {| o_id := 5; o_name := 1; o_role := Use |}; {| o_id := 6; o_name := 1; o_role := Bind |} ] |};
      {| f_kind := Def; f_sid := 1; f_occs := [ {| o_id := 2; o_name := 1; o_role := Bind |} ] |};
      {| f_kind := Module; f_sid := 0; f_occs := [] |} ],
    {| o_id := 5; o_name := 1; o_role := Use |}.
  repeat split; try reflexivity; try discriminate.
Qed.
Print Assumptions C05_alpha_class_capture_refuted.

(* the reference search: nothing is invented, the starting definitions are kept ... *)
Theorem C05_find_refs_sound :
  forall found0 cands x,
  In x (find_refs found0 cands) -> In x found0 \/ exists s, In s cands /\ In x s.
Proof. exact find_refs_sound. Qed.
Print Assumptions C05_find_refs_sound.

Theorem C05_find_refs_keeps_start :
  forall found0 cands x, In x found0 -> In x (find_refs found0 cands).
Proof. exact find_refs_keeps_start. Qed.
Print Assumptions C05_find_refs_keeps_start.

(* ... but the parked-set merge is not transitive in general: a candidate set sharing a member
   with the result can be left out when it was parked two steps away *)
Theorem C05_find_refs_not_closed_refuted :
  exists found0 cands s a b,
    In s cands /\ In a s /\ In b s /\ In a (find_refs found0 cands) /\ ~ In b (find_refs found0 cands).
Proof.
  exists [9%N], [[1;2]; [2;3]; [3;9]]%N, [1;2]%N, 2%N, 1%N.
  vm_compute. repeat split; auto.
  intros [H|[H|[H|[]]]]; discriminate.
Qed.
Print Assumptions C05_find_refs_not_closed_refuted.
