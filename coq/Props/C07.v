(* C07 property theorems.  Nothing but statements, `exact`, and Print Assumptions. *)
From JV Require Import Base.Str Model.C07_Refactor Proofs.C07_Proofs.

(* an empty node map renders the tree unchanged *)
Theorem C07_refactor_empty : forall t, refactor t [] = get_code t.
Proof. exact refactor_empty. Qed.
Print Assumptions C07_refactor_empty.

(* The output of the refactorer is the original text with exactly the outermost
   mapped nodes replaced: `pieces t m []` is a list of verbatim pieces (Keep s)
   and replaced nodes (Repl k orig new); reading the `orig` side gives get_code t,
   reading the `new` side gives refactor t m, so every Keep piece -- all text
   outside the rewritten nodes -- is the same bytes in both.  Every Repl is a
   node of the tree that is a key of the map with no mapped ancestor, and for
   pairwise non-overlapping valid keys every key occurs. *)
Theorem C07_refactor_outside_untouched : forall t m,
  orig_of (pieces t m []) = get_code t /\
  new_of (pieces t m []) = refactor t m /\
  (forall k o n, In (Repl k o n) (pieces t m []) ->
      (exists t', subtree t k = Some t' /\ get_code t' = o) /\
      lookup m k = Some n /\
      (forall k' s', In (k', s') m -> proper_prefix k' k = false)) /\
  ((forall k1 s1 k2 s2, In (k1, s1) m -> In (k2, s2) m -> proper_prefix k1 k2 = false) ->
   NoDup (map fst m) ->
   (forall k s, In (k, s) m -> subtree t k <> None) ->
   forall k s, In (k, s) m -> exists o, In (Repl k o s) (pieces t m [])).
Proof. exact refactor_outside_untouched. Qed.
Print Assumptions C07_refactor_outside_untouched.

(* split_lines loses nothing, and the diff preamble only adds a final "\n" to an
   unterminated last line *)
Theorem C07_preamble_preserves_text : forall s,
  concat (split_lines s) = s /\
  concat (preamble s) = match last (split_lines s) [] with [] => s | _ :: _ => s ++ [10%N] end.
Proof. exact (fun s => conj (split_lines_concat s) (preamble_concat s)). Qed.
Print Assumptions C07_preamble_preserves_text.

(* the applier accepts exactly the diffs that transform old into new in the
   declarative sense, and the result is unique *)
Theorem C07_apply_udiff_sound : forall old hs new,
  apply_udiff old hs = Some new -> Transforms 0 0 hs old new.
Proof. exact apply_udiff_sound. Qed.
Print Assumptions C07_apply_udiff_sound.

Theorem C07_apply_udiff_complete : forall old hs new,
  Transforms 0 0 hs old new -> apply_udiff old hs = Some new.
Proof. exact apply_udiff_complete. Qed.
Print Assumptions C07_apply_udiff_complete.

Theorem C07_transforms_functional : forall hs old n1 n2,
  Transforms 0 0 hs old n1 -> Transforms 0 0 hs old n2 -> n1 = n2.
Proof. exact transforms_functional. Qed.
Print Assumptions C07_transforms_functional.

(* a context or deleted line that differs from the old file rejects the hunk *)
Theorem C07_mismatching_hunk_rejected : forall l o b old, str_eqb l o = false ->
  run_body (HCtx l :: b) (o :: old) = None /\ run_body (HDel l :: b) (o :: old) = None.
Proof. exact run_body_rejects. Qed.
Print Assumptions C07_mismatching_hunk_rejected.

(* what a passed per-diff check (run by vm_compute on every produced diff) means *)
Theorem C07_checked_diff_transforms : forall old_code new_code hs,
  diff_ok old_code new_code hs = true ->
  Transforms 0 0 hs (preamble old_code) (preamble new_code).
Proof. exact diff_ok_sound. Qed.
Print Assumptions C07_checked_diff_transforms.

(* get_changed_files names exactly the files with a node map; to_path is the
   component-wise rewrite by the rename pairs (the code as of fix 7b0370f) = the
   path the file really ends up at after the renames (final_path, the FS model's
   own notion): unconditionally, for every list of renames *)
Theorem C07_announced_name_is_final_path : forall rs p,
  calc_to_path p rs = final_path rs p.
Proof. exact calc_to_path_final. Qed.
Print Assumptions C07_announced_name_is_final_path.

Theorem C07_changed_files_match : forall changes renames,
  map (fun e => fst (fst e)) (get_changed_files changes renames) = map fst changes /\
  (forall p to m, In (Some p, to, m) (get_changed_files changes renames) ->
      to = Some (final_path renames p) /\ In (Some p, m) changes) /\
  (forall p m, In (Some p, m) changes ->
      (forall f t, In (f, t) renames -> is_prefix f p = false) ->
      In (Some p, Some p, m) (get_changed_files changes renames)).
Proof. exact changed_files_match. Qed.
Print Assumptions C07_changed_files_match.

(* to_path differs from from_path exactly when the (single) rename pair is a
   component-wise prefix of it *)
Theorem C07_to_path_single_rename : forall p f t,
  calc_to_path p [(f, t)] <> p <-> (is_prefix f p = true /\ f <> t).
Proof. exact calc_to_path_single. Qed.
Print Assumptions C07_to_path_single_rename.

(* FS model of apply(): every file of the old state ends up at its final path
   with the new code if it was a changed file and its old content otherwise;
   nothing else exists afterwards *)
Theorem C07_apply_effect : forall changed renames s,
  NoDup (map fst s) ->
  (forall p c, In (p, c) changed -> fs_lookup s p <> None) ->
  apply_fs changed renames s =
  map (fun e => (final_path renames (fst e), new_content changed (fst e) (snd e))) s.
Proof. exact apply_effect. Qed.
Print Assumptions C07_apply_effect.

Theorem C07_apply_effect_changed : forall changed renames s p c,
  NoDup (map fst s) ->
  (forall p c, In (p, c) changed -> fs_lookup s p <> None) ->
  NoDup (map fst changed) -> In (p, c) changed ->
  In (final_path renames p, c) (apply_fs changed renames s).
Proof. exact apply_effect_changed. Qed.
Print Assumptions C07_apply_effect_changed.

Theorem C07_apply_effect_untouched : forall changed renames s p c,
  NoDup (map fst s) ->
  (forall p c, In (p, c) changed -> fs_lookup s p <> None) ->
  In (p, c) s -> ~ In p (map fst changed) ->
  (forall f t, In (f, t) renames -> is_prefix f p = false) ->
  In (p, c) (apply_fs changed renames s).
Proof. exact apply_effect_untouched. Qed.
Print Assumptions C07_apply_effect_untouched.

(* Refactoring.apply with a path-less buffer among the changed files is refused
   before anything is written (fix f514566); otherwise it is apply_fs *)
Theorem C07_apply_pathless_refused : forall changed renames s c,
  In (None, c) changed -> apply_refactoring changed renames s = None.
Proof. exact apply_pathless_refused. Qed.
Print Assumptions C07_apply_pathless_refused.

Theorem C07_apply_refactoring_effect : forall changed renames s,
  (forall c, ~ In (None, c) changed) ->
  exists ch, map (fun e => (Some (fst e), snd e)) ch = changed /\
             apply_refactoring changed renames s = Some (apply_fs ch renames s).
Proof. exact apply_refactoring_effect. Qed.
Print Assumptions C07_apply_refactoring_effect.

(* The rule used before fix 7b0370f (calc_to_path_str, a string prefix rewrite)
   announced the final path only when the string prefix test agreed with the
   component-wise one ... *)
Theorem C07_old_string_prefix_rule_agrees : forall p f t,
  (starts_with (render p) (render f) = true -> is_prefix f p = true) ->
  calc_to_path_str (render p) [(render f, render t)] = render (final_path [(f, t)] p).
Proof. exact old_rule_agrees_single. Qed.
Print Assumptions C07_old_string_prefix_rule_agrees.

(* ... and was wrong without it: /pkg2/a under the rename /pkg -> /new came out
   as /new2/a (finding C07-to-path-string-prefix, fixed) *)
Theorem C07_old_string_prefix_rule_refuted : exists p f t,
  calc_to_path_str (render p) [(render f, render t)] <> render (final_path [(f, t)] p).
Proof. exact old_rule_refuted. Qed.
Print Assumptions C07_old_string_prefix_rule_refuted.

(* non-vacuity: concrete runs of the model *)
Example C07_example_refactor :
  (* "a = b" with the leaf `b` (path [2]) mapped to " c" *)
  let t := Node [Leaf [] [97]; Leaf [32] [61]; Leaf [32] [98]; Leaf [] [10]; Leaf [] []]%N in
  refactor t [([2], [32; 99]%N)] = [97; 32; 61; 32; 99; 10]%N /\
  pieces t [([2], [32; 99]%N)] [] =
    [Keep [97]%N; Keep [32; 61]%N; Repl [2] [32; 98]%N [32; 99]%N; Keep [10]%N; Keep []].
Proof. vm_compute. split; reflexivity. Qed.

Example C07_example_diff :
  (* old "a\nb\nc" (no final newline), new "a\nB\nc": one hunk @@ -1,3 +1,3 @@ *)
  diff_ok [97; 10; 98; 10; 99]%N [97; 10; 66; 10; 99]%N
    [mkHunk 1 3 1 3 [HCtx [97; 10]%N; HDel [98; 10]%N; HAdd [66; 10]%N; HCtx [99; 10]%N]] = true /\
  (* a hunk whose context does not match is rejected *)
  diff_ok [97; 10; 98; 10; 99]%N [97; 10; 66; 10; 99]%N
    [mkHunk 1 3 1 3 [HCtx [97; 10]%N; HDel [120; 10]%N; HAdd [66; 10]%N; HCtx [99; 10]%N]] = false.
Proof. vm_compute. split; reflexivity. Qed.

Example C07_example_apply :
  (* /R/pkg/__init__.py (id 1), /R/main.py (id 2) changed to id 9; rename /R/pkg -> /R/new *)
  let R := [82]%N in let pkg := [112;107;103]%N in let new := [110;101;119]%N in
  let ini := [105]%N in let main := [109]%N in
  apply_fs [([R; main], 9%N)] [([R; pkg], [R; new])] [([R; pkg; ini], 1%N); ([R; main], 2%N)]
  = [([R; new; ini], 1%N); ([R; main], 9%N)].
Proof. vm_compute. reflexivity. Qed.


Example C07_example_pathless :
  apply_refactoring [(Some [[82]%N; [109]%N], 9%N); (None, 8%N)] [] [([[82]%N; [109]%N], 2%N)] = None /\
  calc_to_path [[112;107;103;50]%N; [97]%N] [([[112;107;103]%N], [[110;101;119]%N])] = [[112;107;103;50]%N; [97]%N].
Proof. vm_compute. split; reflexivity. Qed.
