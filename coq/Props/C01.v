(* C01 property theorems: the position contract of the query API. *)
From JV Require Import Base.Str Model.C01_Validate Proofs.C01_Proofs.
Local Open Scope Z_scope.

(* a position is accepted iff it lies inside the text: an existing line, and a column between 0
   and the length of that line without its line terminator *)
Theorem C01_validate_accept_iff :
  forall lines l c l' c',
  validate lines (Some l) (Some c) = Accept l' c' <->
  l' = l /\ c' = c /\ 1 <= l <= Z.of_nat (length lines) /\
  0 <= c <= stripped_len (nth (Z.to_nat (l - 1)) lines []).
Proof. exact validate_accept_iff. Qed.
Print Assumptions C01_validate_accept_iff.

(* every other position is rejected with ValueError (the only other outcome there is) *)
Theorem C01_validate_reject_iff :
  forall lines l c,
  validate lines (Some l) (Some c) = ValueError <->
  ~ (1 <= l <= Z.of_nat (length lines) /\ 0 <= c <= stripped_len (nth (Z.to_nat (l - 1)) lines [])).
Proof. exact validate_reject_iff. Qed.
Print Assumptions C01_validate_reject_iff.

(* whatever is accepted (explicit or defaulted) indexes an existing line and a column within it *)
Theorem C01_validate_safe :
  forall lines line col l c,
  validate lines line col = Accept l c ->
  1 <= l <= Z.of_nat (length lines) /\ 0 <= c <= Z.of_nat (length (nth (Z.to_nat (l - 1)) lines [])).
Proof. exact validate_safe. Qed.
Print Assumptions C01_validate_safe.

(* the default position is valid for every text, the empty one included *)
Theorem C01_defaults_always_accepted :
  forall s, exists l c, validate_text s None None = Accept l c.
Proof. exact validate_defaults_accept. Qed.
Print Assumptions C01_defaults_always_accepted.

(* the line table loses nothing: concatenating the lines gives back the text, for any mixture of
   \n, \r\n, lone \r, form feeds and a missing final newline *)
Theorem C01_join_split : forall s, concat (split_lines s) = s.
Proof. exact join_split. Qed.
Print Assumptions C01_join_split.

Example C01_examples :
  split_lines [97;13;10;98;13;99;12;100;10]%N = [[97;13;10]; [98;13]; [99;12;100;10]; []]%N /\
  validate_text [97;13;10;98;13]%N (Some 1) (Some 1) = Accept 1 1 /\
  validate_text [97;13;10;98;13]%N (Some 1) (Some 2) = ValueError /\
  validate_text [97;13;10;98;13]%N (Some 2) (Some 2) = Accept 2 2 /\
  validate_text [] None None = Accept 1 0 /\
  validate_text [] (Some 0) (Some 0) = ValueError /\ validate_text [] (Some 2) None = ValueError.
Proof. vm_compute. repeat split. Qed.
