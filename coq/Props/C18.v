(* C18 property theorems.  Nothing but statements, `exact`, and Print Assumptions
   (plus examples by vm_compute). *)
From JV Require Import Base.Str Model.C18_Nesting Proofs.C18_Proofs.

(* get_context, for any file whose definition tree (of ANY depth) is properly nested (wf_file):
   at a position that touches a leaf and is not inside a lambda written directly in a class body,
   the result is the innermost def/class whose extent — from just after its first character to
   the end of its suite — contains the position and whose keyword column is left of the
   position's column (None = the module).  This is the reading fixed in DESIGN §C18. *)
Theorem C18_context_general :
  forall f p,
  wf_file f = true -> on_code f p = true -> lam_cls_free (scopes f) p = true ->
  get_context_scope f p = innermost_ext_col (scopes f) p.
Proof. exact context_general. Qed.
Print Assumptions C18_context_general.

(* strict reading, suite positions: the innermost function or class whose BODY contains the
   position, when the position is on no header and right of that definition's keyword column *)
Theorem C18_context_is_innermost :
  forall f p d,
  wf_file f = true -> on_code f p = true -> lam_cls_free (scopes f) p = true ->
  Innermost in_body (scopes f) p d -> NoneContains in_header (scopes f) p ->
  (kwcol d < snd p)%N ->
  get_context_scope f p = Some d.
Proof. exact context_is_innermost. Qed.
Print Assumptions C18_context_is_innermost.

(* "the module otherwise" *)
Theorem C18_context_module :
  forall f p,
  wf_file f = true -> on_code f p = true -> lam_cls_free (scopes f) p = true ->
  NoneContains in_extent (scopes f) p ->
  get_context_scope f p = None.
Proof. exact context_module. Qed.
Print Assumptions C18_context_module.

(* extent reading (covers header positions, as pinned by upstream's test_context): the
   innermost definition whose extent after its first character contains the position *)
Theorem C18_context_header :
  forall f p d,
  wf_file f = true -> on_code f p = true -> lam_cls_free (scopes f) p = true ->
  Innermost in_extent (scopes f) p d -> (kwcol d < snd p)%N ->
  get_context_scope f p = Some d.
Proof. exact context_extent. Qed.
Print Assumptions C18_context_header.

(* the column proviso is necessary: a continuation line starting left of the `def` keyword *)
Theorem C18_context_suite_column_refuted :
  exists f p d, wf_file f = true /\ on_code f p = true /\ lam_cls_free (scopes f) p = true /\
    Innermost in_body (scopes f) p d /\ NoneContains in_header (scopes f) p /\
    get_context_scope f p <> Some d.
Proof. exact context_suite_column_refuted. Qed.
Print Assumptions C18_context_suite_column_refuted.

(* ... and the body of an `async def` indented right of `async` but not right of `def` *)
Theorem C18_context_async_refuted :
  exists f p d, wf_file f = true /\ on_code f p = true /\ lam_cls_free (scopes f) p = true /\
    Innermost in_body (scopes f) p d /\ NoneContains in_header (scopes f) p /\
    (s_ind d < snd p)%N /\ get_context_scope f p <> Some d.
Proof. exact context_async_refuted. Qed.
Print Assumptions C18_context_async_refuted.

(* the lambda proviso is necessary: inside a lambda written directly in a class body the class is skipped *)
Theorem C18_context_lambda_in_class_refuted :
  exists f p d, wf_file f = true /\ on_code f p = true /\
    Innermost in_body (scopes f) p d /\ NoneContains in_header (scopes f) p /\
    (kwcol d < snd p)%N /\ get_context_scope f p <> Some d.
Proof. exact context_lambda_in_class_refuted. Qed.
Print Assumptions C18_context_lambda_in_class_refuted.

(* the computable `innermost` the harness compares with the ast oracle is the declarative one *)
Theorem C18_innermost_body_is_declarative :
  forall l p d, wf_scopes l = true ->
  (innermost in_body l p = Some d <-> Innermost in_body l p d).
Proof. intros l p d H. split; [exact (innermost_body_sound l p d H)|exact (innermost_complete in_body l p d H)]. Qed.
Print Assumptions C18_innermost_body_is_declarative.

(* iterating parent() from the name of a def/class (p: a position of d outside nested scopes, e.g.
   its name) visits exactly the lexically enclosing defs/classes, innermost first, then the module;
   lambdas and comprehensions are skipped *)
Theorem C18_parent_chain_is_lexical :
  forall l d p,
  wf_scopes l = true -> In d l ->
  contains d p = true -> (forall e, In e l -> contains e p = true -> encloses e d = true) ->
  parent_chain l NDef p = map s_id (filter is_def (enclosing l d)) ++ [0%N].
Proof. intros l d p Hw Hd Hc He. exact (parent_chain_lexical l Hw d Hd p (conj Hc He)). Qed.
Print Assumptions C18_parent_chain_is_lexical.

(* a parameter: its function first, then the same chain *)
Theorem C18_parent_chain_param :
  forall l d p,
  wf_scopes l = true -> In d l -> is_def d = true ->
  contains d p = true -> (forall e, In e l -> contains e p = true -> encloses e d = true) ->
  parent_chain l NParam p = s_id d :: map s_id (filter is_def (enclosing l d)) ++ [0%N].
Proof. intros l d p Hw Hd Dd Hc He. exact (parent_chain_param l Hw d Hd p Dd (conj Hc He)). Qed.
Print Assumptions C18_parent_chain_param.

(* a definition whose enclosing scopes are all classes: full_name = module path ++ __qualname__ *)
Theorem C18_full_name_is_qualname :
  forall f d p,
  wf_scopes (scopes f) = true -> In d (scopes f) -> is_def d = true ->
  contains d p = true -> (forall e, In e (scopes f) -> contains e p = true -> encloses e d = true) ->
  pos_ltb p (s_colon d) = true ->
  forallb is_cls (enclosing (scopes f) d) = true ->
  full_name_def f p (s_name d) = Some (f_mod f ++ qualname (scopes f) d).
Proof.
  intros f d p Hw Hd Dd Hc He Hp Hcls.
  apply (full_name_qualname (scopes f) Hw d Hd f p eq_refl Dd (conj Hc He)); [|exact Hcls].
  apply pos_ltb_spec. exact Hp.
Qed.
Print Assumptions C18_full_name_is_qualname.

(* the restriction to module/class level is necessary: a function nested in a function *)
Theorem C18_full_name_function_local_refuted :
  exists f d p, wf_file f = true /\ In d (scopes f) /\ is_def d = true /\
    contains d p = true /\ (forall e, In e (scopes f) -> contains e p = true -> encloses e d = true) /\
    pos_ltb p (s_colon d) = true /\
    forallb is_cls (enclosing (scopes f) d) = false /\
    full_name_def f p (s_name d) <> Some (f_mod f ++ qualname (scopes f) d).
Proof. exact full_name_function_local_refuted. Qed.
Print Assumptions C18_full_name_function_local_refuted.

(* non-vacuity: the hypotheses hold of a concrete nested program (class A: class B: def m ...;
   def n: def inner), and the model computes what jedi answers there *)
Example C18_example :
  wf_file ex_main = true /\
  on_code ex_main (4,12)%N = true /\ lam_cls_free (scopes ex_main) (4,12)%N = true /\
  get_context ex_main (4,12)%N = 3%N /\ get_context ex_main (3,12)%N = 3%N /\
  get_context ex_main (3,8)%N = 2%N /\ get_context ex_main (10,0)%N = 0%N /\
  parent_chain (scopes ex_main) NDef (3,12)%N = [2; 1; 0]%N /\
  parent_chain (scopes ex_main) NParam (3,29)%N = [3; 2; 1; 0]%N /\
  full_name_def ex_main (3,12)%N [109]%N = Some [[112;107]; [109;111;100]; [65]; [66]; [109]]%N /\
  full_name_def ex_main (7,12)%N [105;110;110;101;114]%N = Some [[112;107]; [109;111;100]; [65]; [110]; [105;110;110;101;114]]%N.
Proof. vm_compute. repeat split; reflexivity. Qed.
