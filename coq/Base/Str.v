(* Strings as lists of code points; the string operations jedi uses. Definitions only compute. *)
From Coq Require Export List NArith Bool Arith Lia.
Export ListNotations.

Definition str := list N.

Fixpoint str_eqb (a b : str) : bool :=
  match a, b with
  | [], [] => true
  | x :: a', y :: b' => N.eqb x y && str_eqb a' b'
  | _, _ => false
  end.

(* str.startswith *)
Fixpoint starts_with (s p : str) {struct p} : bool :=
  match p with
  | [] => true
  | c :: p' => match s with
               | [] => false
               | d :: s' => N.eqb c d && starts_with s' p'
               end
  end.

Fixpoint mem (c : N) (s : str) : bool :=
  match s with
  | [] => false
  | d :: s' => N.eqb c d || mem c s'
  end.

(* s[s.find(c)+1:] when c occurs *)
Fixpoint after_first (c : N) (s : str) : option str :=
  match s with
  | [] => None
  | d :: s' => if N.eqb c d then Some s' else after_first c s'
  end.

(* lexicographic order on code points, as Python compares str *)
Fixpoint str_leb (a b : str) : bool :=
  match a, b with
  | [], _ => true
  | _ :: _, [] => false
  | x :: a', y :: b' => if N.ltb x y then true else if N.eqb x y then str_leb a' b' else false
  end.

Fixpoint str_ltb (a b : str) : bool :=
  match a, b with
  | _, [] => false
  | [], _ :: _ => true
  | x :: a', y :: b' => if N.ltb x y then true else if N.eqb x y then str_ltb a' b' else false
  end.

Inductive Subseq : str -> str -> Prop :=
| Subseq_nil : forall s, Subseq [] s
| Subseq_skip : forall l d s, Subseq l s -> Subseq l (d :: s)
| Subseq_take : forall c l s, Subseq l s -> Subseq (c :: l) (c :: s).

Definition Prefix (p s : str) : Prop := exists r, s = p ++ r.

Definition bool_leb (a b : bool) : bool := implb a b.
