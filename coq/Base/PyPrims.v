(* Python primitives used by the generated (translated) definitions in Gen/*.v.
   The translator harness/pytrans.py maps each Python operation it supports to exactly one
   definition of this file; the semantics written here (negative indices, slices, str.find,
   `in` on strings = substring test, for loops with continue/return) are part of the trusted
   base of the translator tie and are themselves compared with CPython by the check
   (harness/pytrans.py:selftest evaluates every primitive by vm_compute against the interpreter).
   Definitions only. *)
From Coq Require Export List NArith ZArith Bool Arith Lia.
From JV Require Export Base.Str.

Inductive pyexc := ValueErrorE | IndexErrorE | TypeErrorE | UnboundE.

(* result of a translated function: value, Python exception, or recursion fuel exhausted *)
Inductive res (A : Type) := Ok (a : A) | Exc (e : pyexc) | OutOfFuel.
Arguments Ok {A} a.
Arguments Exc {A} e.
Arguments OutOfFuel {A}.

Definition zlen {A} (l : list A) : Z := Z.of_nat (length l).

(* seq[i] with Python's negative-index rule; None = IndexError *)
Definition py_norm_index (len i : Z) : option nat :=
  if (0 <=? i)%Z then (if (i <? len)%Z then Some (Z.to_nat i) else None)
  else if (0 <=? i + len)%Z then Some (Z.to_nat (i + len)) else None.

Definition py_list_index {A} (l : list A) (i : Z) : option A :=
  match py_norm_index (zlen l) i with
  | Some n => nth_error l n
  | None => None
  end.

(* s[i] on a str is a str of length one *)
Definition py_str_index (s : str) (i : Z) : option str :=
  match py_list_index s i with
  | Some c => Some [c]
  | None => None
  end.

(* seq[i:] : a negative start counts from the end, clamped at 0; never raises *)
Definition py_slice_from {A} (l : list A) (i : Z) : list A :=
  if (0 <=? i)%Z then skipn (Z.to_nat i) l
  else skipn (Z.to_nat (Z.max 0 (i + zlen l))) l.

(* seq[:j] *)
Definition py_slice_to {A} (l : list A) (j : Z) : list A :=
  if (0 <=? j)%Z then firstn (Z.to_nat j) l
  else firstn (Z.to_nat (Z.max 0 (j + zlen l))) l.

(* str.endswith *)
Definition py_endswith (s suf : str) : bool := starts_with (rev s) (rev suf).

(* str.find(p): index of the first occurrence of the substring p, -1 if none *)
Fixpoint py_find_from (s p : str) (k : Z) : Z :=
  if starts_with s p then k
  else match s with
       | [] => (-1)%Z
       | _ :: s' => py_find_from s' p (k + 1)%Z
       end.
Definition py_find (s p : str) : Z := py_find_from s p 0%Z.

(* `p in s` for two strings: substring test *)
Definition py_str_in (p s : str) : bool := (0 <=? py_find s p)%Z.

(* `x in some_set_or_list_of_strings` *)
Fixpoint py_mem_str (x : str) (l : list str) : bool :=
  match l with
  | [] => false
  | y :: r => str_eqb x y || py_mem_str x r
  end.

(* one iteration of a for loop: go on with a new state (end of body / continue), leave the
   loop (break), leave the function (return), or raise *)
Inductive lres (S R : Type) := LNext (s : S) | LBreak (s : S) | LRet (r : R) | LExc (e : pyexc).
Arguments LNext {S R} s.
Arguments LBreak {S R} s.
Arguments LRet {S R} r.
Arguments LExc {S R} e.

Fixpoint py_for {A S R} (body : S -> A -> lres S R) (xs : list A) (s : S) : lres S R :=
  match xs with
  | [] => LNext s
  | x :: r =>
      match body s x with
      | LNext s' => py_for body r s'
      | LBreak s' => LNext s'
      | LRet v => LRet v
      | LExc e => LExc e
      end
  end.

(* enumerate(xs) *)
Fixpoint py_enumerate_from {A} (k : Z) (xs : list A) : list (Z * A) :=
  match xs with
  | [] => []
  | x :: r => (k, x) :: py_enumerate_from (k + 1)%Z r
  end.
Definition py_enumerate {A} (xs : list A) : list (Z * A) := py_enumerate_from 0%Z xs.

(* `name in used` where used holds optional strings (None never equals a str) *)
Fixpoint py_mem_optstr (x : str) (l : list (option str)) : bool :=
  match l with
  | [] => false
  | Some y :: r => str_eqb x y || py_mem_optstr x r
  | None :: r => py_mem_optstr x r
  end.
