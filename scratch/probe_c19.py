import os, shutil, tempfile
import jedi

d = tempfile.mkdtemp(prefix='pj')
try:
    os.makedirs(d + '/a/foo'); os.makedirs(d + '/ab/foo')
    open(d + '/a/.gitignore', 'w').write('foo\n')
    open(d + '/a/foo/m.py', 'w').write('def hidden_fn(): pass\n')
    open(d + '/ab/foo/n.py', 'w').write('def visible_fn(): pass\n')
    open(d + '/t.py', 'w').write('def top_fn(): pass\n')
    p = jedi.Project(d)
    for s in ['hidden_fn', 'visible_fn', 'top_fn']:
        print(s, [(str(x.module_path)[len(d):], x.line) for x in p.search(s)])
    print(sorted(os.listdir(d)))
finally:
    shutil.rmtree(d)
