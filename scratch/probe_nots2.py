import jedi, sys, traceback
snips = ["def f(): return None\nx = f()\nx", "x = 1 == 2\nx", "x = not 1\nx", "def f(a):\n    if a: return 1\n    return 'x'\ny = f(0)\ny",
         "x = 1 if 2 else 'a'\nx", "x = 1 and 'a'\nx", "class A: pass\nx = A() or 1\nx", "x = [1, 'a']\ny = x[0]\ny", "x = {'a': 1}\ny = x['a']\ny",
         "def g():\n    yield 1\nfor y in g():\n    y", "x = [a for a in (1, 2)]\ny = x[0]\ny", "class A:\n    def __getitem__(self, i): return 'x'\ny = A()[0]\ny",
         "class A:\n    def __iter__(self):\n        yield 1\nfor y in A():\n    y", "class A:\n    def __call__(self): return 1\ny = A()()\ny",
         "class A:\n    @property\n    def p(self): return 1\ny = A().p\ny", "class A:\n    @staticmethod\n    def s(): return 1\n    @classmethod\n    def c(cls): return cls()\ny = A.s()\nz = A.c()\nz",
         "def deco(f):\n    return f\n@deco\ndef h(): return 1\ny = h()\ny", "def outer():\n    v = 'a'\n    def inner(): return v\n    return inner\ny = outer()()\ny",
         "x = lambda a: a\ny = x(1)\ny", "try:\n    pass\nexcept ValueError as e:\n    e", "with open('x') as f:\n    f", "def f(a):\n    if isinstance(a, str):\n        a\n", "import os\nx = os.getcwd()\nx", "x = str(1)\nx", "x = len('a')\nx", "a, (b, c) = 1, ('x', 2.0)\nc",
         "class A:\n    def __init__(self, v): self.v = v\ny = A(1).v\ny", "x = 'a'.upper()\nx", "x = 1 + 2\nx", "x = 'a' * 2\nx", "def f(*args, **kw): return args\ny = f(1)\ny", "def f(*args, **kw): return kw\ny = f(a=1)\ny", "def f(*args): return args[0]\ny = f(1)\ny"]
for s in snips:
    try:
        sc = jedi.Script(s)
        r = sc.infer()
        print('ok ', repr(s[-30:]), [(d.name, d.type, d.line) for d in r])
    except BaseException as e:
        tb = traceback.extract_tb(sys.exc_info()[2])
        last = [f for f in tb if '/repo/jedi/' in f.filename][-1]
        print('EXC', repr(s[-30:]), type(e).__name__, last.name)
