import os, shutil, tempfile, sys
import jedi
from jedi import settings

d = tempfile.mkdtemp(prefix='c09')
settings.cache_directory = os.path.join(d, 'cache')
os.makedirs(settings.cache_directory)
proj = os.path.join(d, 'proj'); os.makedirs(proj)
m = os.path.join(proj, 'mod.py')

def q(code='import mod\nmod.'):
    s = jedi.Script(code, path=os.path.join(proj, 'main.py'), project=jedi.Project(proj))
    return sorted(c.name for c in s.complete() if not c.name.startswith('_'))

try:
    open(m, 'w').write('alpha = 1\n'); os.utime(m, ns=(10**18, 10**18))
    print('1', q())
    open(m, 'w').write('beta = 1\n'); os.utime(m, ns=(10**18, 10**18))   # same mtime
    print('2 same mtime', q())
    open(m, 'w').write('gamma = 1\n'); os.utime(m, ns=(10**18 - 5 * 10**9, 10**18 - 5 * 10**9))  # older
    print('3 older mtime', q())
    open(m, 'w').write('delta = 1\n'); os.utime(m, ns=(10**18 + 5 * 10**9, 10**18 + 5 * 10**9))  # newer
    print('4 newer mtime', q())
    # new module in dir with unchanged dir mtime
    st = os.stat(proj)
    n = os.path.join(proj, 'newmod.py')
    open(n, 'w').write('zeta = 1\n')
    os.utime(proj, ns=(st.st_atime_ns, st.st_mtime_ns))
    print('5 new module, dir mtime unchanged', q('import newmod\nnewmod.'))
    os.utime(proj, ns=(st.st_atime_ns, st.st_mtime_ns + 10**9))
    print('6 dir mtime advanced', q('import newmod\nnewmod.'))
    os.remove(m)
    print('7 deleted', q())
finally:
    shutil.rmtree(d)
