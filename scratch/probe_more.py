import jedi, tempfile, os, shutil
from pathlib import Path

src = '''x = 0
def f():
    x = 1
    class C:
        print(x)
        x = 2
f()
'''
print('C03 classbody', [(d.line, d.column) for d in jedi.Script(src).goto(5, 14)], '(python prints 0 -> line 1)')

src = '''class A:
    def m(self): return 1
class B(A): pass
class C(A):
    def m(self): return 'x'
class D(B, C): pass
r = D().m()
r
'''
print('C02 diamond', [(d.name, d.line) for d in jedi.Script(src).infer(8, 1)], [(d.line) for d in jedi.Script(src).goto(7, 9)], '(python: str, C.m line 5)')

d = tempfile.mkdtemp()
try:
    cwd = os.getcwd(); os.chdir(d)
    os.mkdir('proj')
    p = jedi.Project(Path('proj'), sys_path=['/a', Path('/b')], added_sys_path=('/c',), smart_sys_path=False, load_unsafe_extensions=True, environment_path=None)
    p.save()
    q = jedi.Project.load(Path('proj'))
    print('C20', repr(p.path), repr(q.path), q.sys_path, q.added_sys_path, q.smart_sys_path, q.load_unsafe_extensions, q._environment_path)
    print(open('proj/.jedi/project.json').read())
    os.chdir(cwd)
finally:
    shutil.rmtree(d)

src = 'foo = 1\r\nbar = foo  # c\r\n\r\nprint(foo)'
r = jedi.Script(src).rename(1, 0, new_name='qux')
print('C07', repr(r.get_changed_files()[None].get_new_code()))
print(repr(r.get_diff()))

# C05 partition: global + class attr
src = '''def f():
    global g
    g = 1
def h():
    return g
g = 2
'''
s = jedi.Script(src)
for pos in [(2, 11), (3, 4), (5, 11), (6, 0)]:
    print('C05', pos, sorted((d.line, d.column) for d in s.get_references(*pos)))
