"""Scratch prototype for C11: transcribed calculate_index + relational Target spec vs real jedi."""
import itertools, sys, collections
import jedi

PO, PK, VP, KO, VK = 'PO', 'PK', 'VP', 'KO', 'VK'
ORDER = {PO: 0, PK: 1, VP: 2, KO: 3, VK: 4}
NAMES = ['a', 'ab', 'b', 'c']


def param_lists(maxn):
    for n in range(0, maxn + 1):
        for kinds in itertools.product([PO, PK, VP, KO, VK], repeat=n):
            if list(kinds) != sorted(kinds, key=ORDER.get):
                continue
            if kinds.count(VP) > 1 or kinds.count(VK) > 1:
                continue
            yield [(NAMES[i], k) for i, k in enumerate(kinds)]


def render_def(ps):
    parts = []
    seen_po = any(k == PO for _, k in ps)
    did_slash = False
    did_star = False
    for i, (n, k) in enumerate(ps):
        if seen_po and not did_slash and k != PO:
            parts.append('/'); did_slash = True
        if k == KO and not did_star:
            if not any(kk == VP for _, kk in ps):
                parts.append('*')
            did_star = True
        if k == VP:
            parts.append('*' + n); did_star = True
        elif k == VK:
            parts.append('**' + n)
        else:
            parts.append(n)
    if seen_po and not did_slash:
        parts.append('/')
    return 'def f(%s): pass\n' % ', '.join(parts)


# arguments before cursor: 'P' positional, ('K', name) keyword
# current: ('E', prefix) empty/identifier prefix without '=', ('K', name) `name=` typed
def arg_prefixes(maxlen, names):
    items = ['P'] + [('K', n) for n in names]
    for n in range(0, maxlen + 1):
        for combo in itertools.product(items, repeat=n):
            # python syntax: positional after keyword is a SyntaxError, but jedi must still answer; keep both
            yield list(combo)


def render_call(before, cur):
    parts = []
    for a in before:
        parts.append('1' if a == 'P' else '%s=1' % a[1])
    if cur[0] == 'E':
        parts.append(cur[1])
    else:
        parts.append(cur[1] + '=')
    return 'f(' + ', '.join(parts)


# ---- transcription of CallDetails.calculate_index on the triple list
def calc_index(ps, triples):
    positional_count = 0
    used_names = set()
    star_count = -1
    args = triples
    if not args:
        return 0 if ps else None
    is_kwarg = False
    for i, (star_count, key_start, had_equal) in enumerate(args):
        is_kwarg |= had_equal | (star_count == 2)
        if star_count:
            pass
        else:
            if i + 1 != len(args):
                if had_equal:
                    used_names.add(key_start)
                else:
                    positional_count += 1
    for i, (name, kind) in enumerate(ps):
        if not is_kwarg:
            if kind == VP:
                return i
            if kind in (PK, PO):
                if i == positional_count:
                    return i
        if key_start is not None and not star_count == 1 or star_count == 2:
            if name not in used_names and (kind == KO or kind == PK and positional_count <= i):
                if star_count:
                    return i
                if had_equal:
                    if name == key_start:
                        return i
                else:
                    if name.startswith(key_start):
                        return i
            if kind == VK:
                return i
    return None


def triples_of(before, cur):
    t = []
    for a in before:
        t.append((0, None, False) if a == 'P' else (0, a[1], True))
    if cur[0] == 'E':
        t.append((0, cur[1], False))
    else:
        t.append((0, cur[1], True))
    return t


# ---- relational spec: set of admissible targets, and the preferred one
def targets(ps, before, cur):
    npos = sum(1 for a in before if a == 'P')
    used = {a[1] for a in before if a != 'P'}
    kw_before = any(a != 'P' for a in before)
    res = []
    positional_slot = None
    if not kw_before:
        pos_params = [i for i, (n, k) in enumerate(ps) if k in (PO, PK)]
        if npos < len(pos_params):
            positional_slot = pos_params[npos]
        else:
            vp = [i for i, (n, k) in enumerate(ps) if k == VP]
            if vp:
                positional_slot = vp[0]
    def kw_capable(i):
        n, k = ps[i]
        return n not in used and (k == KO or (k == PK and i >= npos))
    vk = [i for i, (n, k) in enumerate(ps) if k == VK]
    if cur[0] == 'K':
        exact = [i for i in range(len(ps)) if kw_capable(i) and ps[i][0] == cur[1]]
        if exact:
            return exact[:1], exact[0]
        return (vk[:1], vk[0]) if vk else ([], None)
    # identifier prefix / empty, no '=' yet
    allowed = []
    if positional_slot is not None:
        allowed.append(positional_slot)
    allowed += [i for i in range(len(ps)) if kw_capable(i) and ps[i][0].startswith(cur[1]) and i not in allowed]
    if vk:
        allowed += vk[:1]
    if positional_slot is not None:
        pref = positional_slot
    else:
        pref = min(allowed) if allowed else None
    return allowed, pref


def jedi_index(src_def, call):
    s = jedi.Script(src_def + call)
    sigs = s.get_signatures(2, len(call))
    if not sigs:
        return 'NOSIG'
    return sigs[0].index, [tuple(x) for x in sigs[0]._call_details._list_arguments()]


if __name__ == '__main__':
    maxp, maxa, limit = int(sys.argv[1]), int(sys.argv[2]), int(sys.argv[3])
    stats = collections.Counter()
    shown = collections.Counter()
    n = 0
    for ps in param_lists(maxp):
        d = render_def(ps)
        names = [p[0] for p in ps][:2] + ['zz']
        for before in arg_prefixes(maxa, names[:2]):
            for cur in [('E', ''), ('E', 'a'), ('K', 'a'), ('K', 'zz'), ('K', 'b')]:
                n += 1
                if n > limit:
                    break
                call = render_call(before, cur)
                tr = triples_of(before, cur)
                m = calc_index(ps, tr)
                r = jedi_index(d, call)
                stats['cases'] += 1
                if r == 'NOSIG':
                    stats['nosig'] += 1; continue
                idx, real_tr = r
                if [(a, (b or '') if not c else b, c) for a, b, c in real_tr] != [(a, (b or '') if not c else b, c) for a, b, c in tr]:
                    stats['triples_differ'] += 1
                    if shown['t'] < 5:
                        shown['t'] += 1; print('TRIPLES', d.strip(), call, real_tr, tr)
                if idx != m:
                    stats['model_vs_jedi'] += 1
                    if shown['m'] < 10:
                        shown['m'] += 1; print('MODEL!=JEDI', d.strip(), call, 'model', m, 'jedi', idx)
                allowed, pref = targets(ps, before, cur)
                syntactically_valid = not any(b == 'P' and any(x != 'P' for x in before[:j]) for j, b in enumerate(before)) \
                    and not (cur[0] == 'E' and cur[1] == '' and False)
                key = None
                if idx is None and allowed:
                    key = 'none-but-allowed'
                elif idx is not None and idx not in allowed:
                    key = 'not-allowed'
                elif idx != pref:
                    key = 'not-preferred'
                if key:
                    stats[key + ('' if syntactically_valid else '(invalid-prefix)')] += 1
                    if shown[key] < 12 and syntactically_valid:
                        shown[key] += 1
                        print(key.upper(), d.strip(), repr(call), 'jedi', idx, 'allowed', allowed, 'pref', pref)
    print(dict(stats))
