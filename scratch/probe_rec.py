import jedi, traceback, sys
from jedi import settings
class C:
    def __iter__(self):
        return iter([1])
c = C()
for safe in (False, True):
    settings.allow_unsafe_interpreter_executions = safe
    for meth in ('complete', 'infer', 'goto'):
        i = jedi.Interpreter('for x in c:\n    x.', [{'c': c}])
        try:
            r = getattr(i, meth)()
            print(safe, meth, 'ok', len(r))
        except RecursionError as e:
            tb = traceback.extract_tb(sys.exc_info()[2])
            print(safe, meth, 'RecursionError', len(tb))
            for fr in tb[-12:]:
                print('   ', fr.filename.split('/repo/')[-1], fr.lineno, fr.name)
class D:
    def __iter__(self):
        yield 1
i = jedi.Interpreter('for x in d:\n    x.', [{'d': D()}])
print(len(i.complete()))
s = jedi.Script('class C:\n    def __iter__(self):\n        return iter([1])\nc = C()\nfor x in c:\n    x.')
print(len(s.complete()))
