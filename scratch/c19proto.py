"""Scratch prototype for C19: transcribed directory walk with gitignore pruning vs the real one,
plus the declarative ignore spec (component-wise) to expose the string-prefix leak."""
import os, random, shutil, tempfile, collections
from jedi.file_io import FolderIO
from jedi.inference.references import recurse_find_python_folders_and_files

IGN = ('.tox', '.venv', '.mypy_cache', 'venv', '__pycache__')


def listing(d):
    dirs, files = [], []
    for e in os.scandir(d):          # same order os.walk sees
        (dirs if e.is_dir() else files).append(e.name)
    return dirs, files


def parse_gitignore(folder, data):
    abs_, rel = set(), set()
    for l in data.splitlines():
        if not l or l.startswith(b'#') or l.startswith(b'!') or b'*' in l:
            continue
        p = l.decode('utf-8', 'ignore').rstrip('/')
        if '/' in p:
            abs_.add(os.path.join(folder, p.lstrip('/')))
        else:
            rel.add((folder, p))
    return abs_, rel


def model_walk(root):
    out = []
    except_paths, except_rel = set(), set()
    stack = [root]
    # os.walk topdown: root, then each kept subdir in listing order, depth-first
    def visit(d):
        nonlocal except_paths, except_rel
        dirs, files = listing(d)
        for f in files:
            path = os.path.join(d, f)
            if os.path.splitext(f)[1] in ('.py', '.pyi'):  # real code compares a pathlib.Path with str entries: never equal
                out.append(('F', path))
            if f == '.gitignore':
                a, r = parse_gitignore(d, open(path, 'rb').read())
                except_paths |= a; except_rel |= r
        expanded = {os.path.join(d, name) for (folder, name) in except_rel if d.startswith(folder)}
        kept = [x for x in dirs if os.path.join(d, x) not in except_paths
                and os.path.join(d, x) not in expanded and x not in IGN]
        for x in kept:
            out.append(('D', os.path.join(d, x)))
        for x in kept:
            visit(os.path.join(d, x))
    visit(root)
    return out


def spec_ignored_dirs(root):
    """declarative: directory is ignored iff named by a .gitignore in an ancestor dir (component-wise) or in IGN."""
    ignored = set()
    rules = []  # (folder, kind, value)
    for d, dirs, files in os.walk(root):
        if '.gitignore' in files:
            a, r = parse_gitignore(d, open(os.path.join(d, '.gitignore'), 'rb').read())
            rules += [(d, 'abs', x) for x in a] + [(d, 'rel', n) for (_, n) in r]
    for d, dirs, files in os.walk(root):
        for x in dirs:
            p = os.path.join(d, x)
            if x in IGN:
                ignored.add(p)
            for folder, kind, v in rules:
                under = d == folder or d.startswith(folder + os.sep)
                if kind == 'abs' and p == v:
                    ignored.add(p)
                if kind == 'rel' and under and x == v:
                    ignored.add(p)
    return ignored


def main():
    rng = random.Random(3)
    stats = collections.Counter()
    base = tempfile.mkdtemp(prefix='c19')
    try:
        for it in range(200):
            root = os.path.join(base, 'r%d' % it)
            os.makedirs(root)
            names = ['a', 'ab', 'b', 'foo', 'venv', '__pycache__', 'pkg']
            dirs = [root]
            for _ in range(rng.randint(2, 9)):
                parent = rng.choice(dirs)
                d = os.path.join(parent, rng.choice(names))
                if not os.path.exists(d) and d.count(os.sep) - root.count(os.sep) <= 3:
                    os.makedirs(d); dirs.append(d)
            for d in dirs:
                for f in rng.sample(['m.py', 'n.py', 's.pyi', 'x.txt'], rng.randint(0, 3)):
                    open(os.path.join(d, f), 'w').write('def fn_%s(): pass\n' % f[0])
                if rng.random() < 0.35:
                    lines = []
                    for _ in range(rng.randint(1, 3)):
                        n = rng.choice(names)
                        lines.append(rng.choice([n, n + '/', '/' + n, '#' + n, '*.pyc', 'sub/' + n, n + '/m.py', '/m.py']))
                    open(os.path.join(d, '.gitignore'), 'w').write('\n'.join(lines) + '\n')
            real = []
            for folder_io, file_io in recurse_find_python_folders_and_files(FolderIO(root)):
                real.append(('D', folder_io.path) if file_io is None else ('F', str(file_io.path)))
            m = model_walk(root)
            stats['trees'] += 1
            if real != m:
                stats['model_mismatch'] += 1
                if stats['model_mismatch'] < 4:
                    print('MODEL MISMATCH', root); print(' real ', real); print(' model', m)
            ign = spec_ignored_dirs(root)
            yielded_files = {p for k, p in real if k == 'F'}
            expected = set()
            for d, ds, fs in os.walk(root):
                ds[:] = [x for x in ds if os.path.join(d, x) not in ign]
                for f in fs:
                    if f.endswith(('.py', '.pyi')):
                        expected.add(os.path.join(d, f))
            missing = expected - yielded_files
            extra = yielded_files - expected
            if missing:
                stats['incomplete'] += 1
                if stats['incomplete'] < 4:
                    print('INCOMPLETE (spec says not ignored, walk pruned):', sorted(x[len(root):] for x in missing))
                    for d, ds, fs in os.walk(root):
                        if '.gitignore' in fs:
                            print('   ', d[len(root):] or '/', repr(open(os.path.join(d, '.gitignore')).read()))
            if extra:
                stats['unsound'] += 1
                if stats['unsound'] < 4:
                    print('UNSOUND (ignored dir content yielded):', sorted(x[len(root):] for x in extra))
    finally:
        shutil.rmtree(base)
    print(dict(stats))


main()
