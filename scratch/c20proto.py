"""Scratch prototype for C20: transcribed sys.path composition vs Project._get_sys_path."""
import os, random, shutil, tempfile, itertools, collections
from pathlib import Path
import jedi


def dedupe(xs):
    seen, out = set(), []
    for x in xs:
        if x not in seen:
            seen.add(x); out.append(x)
    return out


def model(project, base, added, smart, script, has_init, add_parent_paths=True, add_init_paths=False):
    suffixed = list(added)
    prefixed = []
    if smart:
        prefixed.append(project)
        if script is not None and add_parent_paths:
            traversed = []
            par = os.path.dirname(script)
            while True:
                if par == project or not (par.startswith(project + os.sep)):
                    break
                if not (not add_init_paths and par in has_init):
                    traversed.append(par)
                par = os.path.dirname(par)
            suffixed += reversed(traversed)
    return dedupe(prefixed + list(base) + suffixed)


def main():
    rng = random.Random(1)
    stats = collections.Counter()
    root = tempfile.mkdtemp(prefix='c20')
    try:
        for it in range(300):
            proj = os.path.join(root, 'p%d' % it)
            depth = rng.randint(0, 4)
            parts = ['d%d' % i for i in range(depth)]
            inside = rng.random() < 0.8
            base_dir = proj if inside else os.path.join(root, 'out%d' % it)
            d = base_dir
            has_init = set()
            os.makedirs(proj, exist_ok=True)
            os.makedirs(base_dir, exist_ok=True)
            for part in parts:
                d = os.path.join(d, part)
                os.makedirs(d, exist_ok=True)
                if rng.random() < 0.5:
                    open(os.path.join(d, '__init__.py'), 'w').close(); has_init.add(d)
            script = os.path.join(d, 'm.py')
            pool = [proj, os.path.join(proj, 'd0'), '/x', '/x/y', '/x', proj + 'x', os.path.join(root, 'é')]
            base = [rng.choice(pool) for _ in range(rng.randint(0, 4))]
            added = [rng.choice(pool) for _ in range(rng.randint(0, 3))]
            smart = rng.random() < 0.7
            p = jedi.Project(proj, sys_path=base, added_sys_path=added, smart_sys_path=smart)
            s = jedi.Script('', path=script, project=p)
            for app, aip in itertools.product([True, False], repeat=2):
                real = s._inference_state.get_sys_path(add_parent_paths=app, add_init_paths=aip)
                m = model(proj, base, added, smart, script, has_init, app, aip)
                stats['cases'] += 1
                if real != m:
                    stats['mismatch'] += 1
                    if stats['mismatch'] < 6:
                        print('MISMATCH', dict(proj=proj, base=base, added=added, smart=smart, script=script, init=sorted(has_init), app=app, aip=aip))
                        print('  real ', real); print('  model', m)
                assert len(real) == len(set(real))
            # save / load
            p.save()
            q = jedi.Project.load(proj)
            same = (str(q.path), q.sys_path, q.added_sys_path, q.smart_sys_path, q.load_unsafe_extensions, q._environment_path) == \
                   (str(p.path), p.sys_path, p.added_sys_path, p.smart_sys_path, p.load_unsafe_extensions, p._environment_path)
            stats['roundtrip_ok' if same else 'roundtrip_bad'] += 1
    finally:
        shutil.rmtree(root)
    print(dict(stats))


main()
