import jedi
src = '''a = True
b = False
x = 1 if a else 2
y = x if b else 3
print(y)
'''
s = jedi.Script(src)
r = s.inline(3, 0)
print(r.get_changed_files()[None].get_new_code())

src = '''x = lambda: 1
y = x()
z = not x
'''
print(jedi.Script(src).inline(1, 0).get_changed_files()[None].get_new_code())
src = '''def f():
    x = yield
    y = x
'''
try:
    print(jedi.Script(src).inline(2, 4).get_changed_files()[None].get_new_code())
except Exception as e:
    print(type(e), e)
src = '''x = 5
y = [x for x in range(3)]
z = x
'''
try:
    print(jedi.Script(src).inline(1, 0).get_changed_files()[None].get_new_code())
except Exception as e:
    print(type(e), e)
src = '''x = a = 5
z = x
'''
try:
    print(jedi.Script(src).inline(1, 0).get_changed_files()[None].get_new_code())
except Exception as e:
    print(type(e), e)
src = '''x = 1, 2
z = x[0]
w = f(*x)
'''
try:
    print(jedi.Script(src).inline(1, 0).get_changed_files()[None].get_new_code())
except Exception as e:
    print(type(e), e)
src = '''x = 2
z = x ** 3
w = -x
k = await_ = x.real
'''
try:
    print(jedi.Script(src).inline(1, 0).get_changed_files()[None].get_new_code())
except Exception as e:
    print(type(e), e)
