from pathlib import Path
from jedi.inference.sys_path import transform_path_to_dotted
print(transform_path_to_dotted(['/foo/ba', '/foo'], Path('/foo/bar/baz.py')))
print(transform_path_to_dotted(['/foo', '/foo/ba'], Path('/foo/bar/baz.py')))
print(transform_path_to_dotted(['/foo/ba'], Path('/foo/bar/baz.py')))
print(transform_path_to_dotted(['/foo/'], Path('/foo/bar/__init__.py')))
print(transform_path_to_dotted(['/foo/bar'], Path('/foo/bar/__init__.py')))
print(transform_path_to_dotted(['/foo'], Path('/foo/bar-stubs/baz.pyi')))
print(transform_path_to_dotted(['/foo'], Path('/foo/a.b/baz.py')))
