import os, sys, subprocess
code = r'''
import os, sys
import jedi
from jedi.api.environment import Environment
env = Environment('/tmp/proxy_helper.py')
def q():
    s = jedi.Script('import math\nmath.sq', environment=env)
    return [c.name for c in s.complete()]
for i in range(4):
    try:
        print(i, 'ok', q())
    except BaseException as e:
        print(i, 'EXC', type(e).__module__ + '.' + type(e).__name__, str(e)[:80])
'''
os.chmod('/tmp/proxy_helper.py', 0o755)
for phase in ('before', 'after', 'trunc'):
    for k in (3, 8):
        env = dict(os.environ, PYTHONPATH='/repo', PROXY_CTL='%d:%s' % (k, phase))
        r = subprocess.run(['/venv/bin/python', '-c', code], env=env, capture_output=True, text=True, timeout=120)
        print('==', phase, k)
        print(r.stdout.strip())
        if r.returncode:
            print('rc', r.returncode, r.stderr[-400:])
