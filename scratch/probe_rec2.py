import jedi, sys, traceback
src = '''class C:
    def __iter__(self):
        return iter([1])
c = C()
for x in c:
    x.'''
# find the values involved
s = jedi.Script(src)
try:
    s.complete()
except RecursionError:
    tb = sys.exc_info()[2]
    frames = traceback.extract_tb(tb)
    # print the first 40 frames to see how we got into the loop
    for fr in frames[:60]:
        print(fr.filename.split('/repo/')[-1].split('site-packages/')[-1], fr.lineno, fr.name)
    # inspect the looping object
    t = tb
    n = 0
    while t.tb_next is not None and n < 80:
        t = t.tb_next; n += 1
    f = t.tb_frame
    print('locals at depth 80:', {k: repr(v)[:200] for k, v in f.f_locals.items() if k in ('self', 'cls', 'is_instance')})
# simpler variants
for v in ['x = iter([1])\nfor y in x:\n    y.', 'x = iter([1])\nx.', 'x = iter([1])\nnext(x).', 'for y in iter([1]):\n    y.', 'import typing\ndef f() -> typing.Iterator[int]: pass\nfor y in f():\n    y.']:
    try:
        print(repr(v), len(jedi.Script(v).complete()))
    except RecursionError:
        print(repr(v), 'RecursionError')
