import jedi, jedi.cache as c, tempfile, os
d = tempfile.mkdtemp()
p = os.path.join(d, 'm.py')
src = 'def f(a, b): pass\nf('
open(p, 'w').write(src)
import jedi.api.helpers as h
calls = []
orig = h.infer
def spy(*a, **k):
    calls.append(1); return orig(*a, **k)
h.infer = spy
for i in range(3):
    s = jedi.Script(src, path=p)
    s.get_signatures(2, 2)
    print(i, 'infer calls so far', len(calls), 'cache size', {k: len(v) for k, v in c._time_caches.items()})
s = jedi.Script(src, path=p)
s.get_signatures(2, 2); s.get_signatures(2, 2)
print('same script twice', len(calls), {k: [type(x[1]).__name__ for x in v] for k, v in c._time_caches.items()})
