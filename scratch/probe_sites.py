import jedi, collections, sys, traceback
snips = ["None.", "import os\nos.", "x = (i for i in [1])\nx.", "def g():\n    yield 1\ng().", "@staticmethod\ndef f(): pass\nf.",
         "isinstance(1, int).", "import typing\nx: typing.List[int] = []\nx.", "[1].", "import os\nos.path."]
sites = collections.Counter()
for s in snips:
    try:
        jedi.Script(s).complete()
    except BaseException as e:
        tb = traceback.extract_tb(sys.exc_info()[2])
        last = [f for f in tb if '/repo/jedi/' in f.filename][-1]
        key = (type(e).__name__, last.filename.split('/repo/')[-1], last.name, str(e)[:90])
        sites[key] += 1
        print(repr(s), key)
