"""Scratch prototype for the C03 model: scope-tree language, printer, CPython oracle,
python-scoping model, jedi-goto model, and comparison on enumerated shapes."""
import itertools, random, sys, traceback, json, collections
import jedi

# ---------------------------------------------------------------- language
# stmt forms (tuples):
#  ('bind', x) ('use', x) ('global', x) ('nonlocal', x)
#  ('def', fname, [params], body) ('class', cname, body)
#  ('lam', x) ('comp', x, var) ('for', var, body) ('if', body1, body2)

FUNCLIKE = ('def', 'lam', 'comp')


class Occ:
    def __init__(self, oid, name, role, scope, line=None, col=None, how=None):
        self.oid, self.name, self.role, self.scope = oid, name, role, scope
        self.line, self.col, self.how = line, col, how
        self.order = None  # textual order index

    def __repr__(self):
        return '<%s %s#%d @%s:%s in %s>' % (self.role, self.name, self.oid, self.line, self.col, self.scope.sid)


class Scope:
    def __init__(self, sid, kind, parent, name=None):
        self.sid, self.kind, self.parent, self.name = sid, kind, parent, name
        self.occs = []       # occurrences whose *Python* scope is this one, textual order
        self.globals_, self.nonlocals = set(), set()
        self.children = []
        self.header_pos = None  # (line, col) of def/class keyword

    def bound(self, x):
        return any(o.role == 'bind' and o.name == x for o in self.occs)


class Printer:
    def __init__(self):
        self.lines = []
        self.occs = []
        self.scopes = []
        self.n = 100

    def new_scope(self, kind, parent, name=None):
        s = Scope(len(self.scopes), kind, parent, name)
        self.scopes.append(s)
        if parent is not None:
            parent.children.append(s)
        return s

    def occ(self, name, role, scope, how=None):
        self.n += 1
        o = Occ(self.n, name, role, scope, how=how)
        o.order = len(self.occs)
        self.occs.append(o)
        scope.occs.append(o)
        return o

    def emit(self, indent, parts):
        """parts: list of str or (str, Occ) -> records positions."""
        line = ' ' * indent
        for p in parts:
            if isinstance(p, tuple):
                text, o = p
                o.line, o.col = len(self.lines) + 1, len(line)
                line += text
            else:
                line += p
        self.lines.append(line)

    def body(self, stmts, scope, indent):
        if not stmts:
            self.emit(indent, ['pass'])
        for st in stmts:
            self.stmt(st, scope, indent)

    def stmt(self, st, scope, indent):
        k = st[0]
        if k == 'bind':
            o = self.occ(st[1], 'bind', scope, 'assign')
            self.emit(indent, [(st[1], o), ' = %d' % o.oid])
        elif k == 'use':
            o = self.occ(st[1], 'use', scope)
            self.emit(indent, ['_r.append((%d, ' % o.oid, (st[1], o), '))'])
        elif k == 'global':
            o = self.occ(st[1], 'decl', scope, 'global')
            scope.globals_.add(st[1])
            self.emit(indent, ['global ', (st[1], o)])
        elif k == 'nonlocal':
            o = self.occ(st[1], 'decl', scope, 'nonlocal')
            scope.nonlocals.add(st[1])
            self.emit(indent, ['nonlocal ', (st[1], o)])
        elif k == 'def':
            _, fname, params, body = st
            inner = self.new_scope('def', scope, fname)
            inner.header_pos = (len(self.lines) + 1, indent)
            parts = ['def %s(' % fname]
            for i, p in enumerate(params):
                o = self.occ(p, 'bind', inner, 'param')
                if i:
                    parts.append(', ')
                parts += [(p, o), '=%d' % o.oid]
            parts.append('):')
            self.emit(indent, parts)
            self.body(body, inner, indent + 4)
            self.emit(indent, ['%s()' % fname])
        elif k == 'class':
            _, cname, body = st
            inner = self.new_scope('class', scope, cname)
            inner.header_pos = (len(self.lines) + 1, indent)
            self.emit(indent, ['class %s:' % cname])
            self.body(body, inner, indent + 4)
        elif k == 'lam':
            inner = self.new_scope('lam', scope)
            o = self.occ(st[1], 'use', inner)
            self.emit(indent, ['(lambda: _r.append((%d, ' % o.oid, (st[1], o), ')))()'])
        elif k == 'comp':
            _, x, var = st
            inner = self.new_scope('comp', scope)
            ou = self.occ(x, 'use', inner)
            ov = self.occ(var, 'bind', inner, 'compfor')
            self.emit(indent, ['[_r.append((%d, ' % ou.oid, (x, ou), ')) for ', (var, ov), ' in (%d,)]' % ov.oid])
        elif k == 'for':
            _, var, body = st
            o = self.occ(var, 'bind', scope, 'for')
            self.emit(indent, ['for ', (var, o), ' in (%d, %d):' % (o.oid, o.oid)])
            self.body(body, scope, indent + 4)
        else:
            raise ValueError(st)


def build(prog):
    p = Printer()
    mod = p.new_scope('module', None)
    p.lines.append('_r = []')
    p.body(prog, mod, 0)
    return p, '\n'.join(p.lines) + '\n'


# ---------------------------------------------------------------- python model
def py_scope(p, use):
    """Returns (scope or None, kind) Python consults for this use. kind: 'local','free','global','builtin'"""
    x = use.name
    s = use.scope
    mod = p.scopes[0]

    def enclosing_function_binding(start):
        t = start
        while t is not None:
            if t.kind in FUNCLIKE and x not in t.globals_ and x not in t.nonlocals and t.bound(x):
                return t
            if t.kind in FUNCLIKE and x in t.globals_:
                return mod  # explicit global in an enclosing function does not affect children; python: free var lookup skips? (children treat as global implicit)
            t = t.parent
        return None

    if s.kind == 'module':
        return mod
    if x in s.globals_:
        return mod
    if x in s.nonlocals:
        return enclosing_function_binding(s.parent)
    if s.kind in FUNCLIKE:
        if s.bound(x):
            return s
        t = enclosing_function_binding(s.parent)
        return t if t is not None else mod
    if s.kind == 'class':
        if s.bound(x):
            # LOAD_NAME: class dict if a binding was executed before, else globals
            before = [o for o in s.occs if o.role == 'bind' and o.name == x and o.order < use.order]
            return s if before else mod
        t = enclosing_function_binding(s.parent)
        return t if t is not None else mod
    raise AssertionError


def binding_scope(p, b):
    """Scope whose variable a binding occurrence writes."""
    x, s = b.name, b.scope
    mod = p.scopes[0]
    if s.kind == 'module' or x in s.globals_:
        return mod
    if x in s.nonlocals:
        t = s.parent
        while t is not None:
            if t.kind in FUNCLIKE and x not in t.globals_ and x not in t.nonlocals and t.bound(x):
                return t
            t = t.parent
        return None
    return s


# ---------------------------------------------------------------- jedi model
def jedi_parent_context(s):
    """context chain: a function's parent context skips classes."""
    t = s.parent
    if s.kind in ('def', 'lam'):
        while t is not None and t.kind == 'class':
            t = t.parent
    return t


def jedi_goto(p, use):
    x = use.name
    ctx = use.scope
    until = use.order        # position limit (textual), None = no limit
    while ctx is not None:
        lim = until
        if ctx.kind == 'comp':
            lim = None   # CompForContext.get_filters ignores until_position
        cands = [o for o in ctx.occs if o.role == 'bind' and o.name == x and (lim is None or o.order < lim)]
        # also: names in nested blocks belong to same scope (for-body etc.) already in occs
        if ctx.kind == 'module':
            decls = [o for s in p.scopes for o in s.occs if o.role == 'decl' and o.how == 'global' and o.name == x]
        else:
            decls = []
        if cands:
            last = max(cands, key=lambda o: o.order)
            return sorted([last] + decls, key=lambda o: o.order)
        if decls:
            return sorted(decls, key=lambda o: o.order)
        if ctx.kind in ('def', 'lam', 'module'):
            until = None
        ctx = jedi_parent_context(ctx)
    return []


# ---------------------------------------------------------------- oracles
def run_python(src):
    g = {}
    try:
        exec(compile(src, '<prog>', 'exec'), g)
        err = None
    except SyntaxError as e:
        return None, 'SyntaxError: %s' % e
    except Exception as e:
        err = type(e).__name__
    return g.get('_r', []), err


def run_jedi(src, o):
    s = jedi.Script(src)
    return sorted((d.line, d.column) for d in s.goto(o.line, o.col))


# ---------------------------------------------------------------- enumeration
IDS = ['a']


def gen_bodies(depth, size, rng=None):
    """enumerate statement lists of given max size and nesting depth"""
    atoms = [('bind', 'a'), ('use', 'a'), ('lam', 'a'), ('comp', 'a', 'v'), ('comp', 'a', 'a'), ('global', 'a'), ('nonlocal', 'a')]
    def stmts(d):
        yield from atoms
        if d > 0:
            for b in bodies(d - 1, 2):
                yield ('def', 'f%d' % d, [], b)
                yield ('class', 'C%d' % d, b)
                yield ('for', 'a', b)
            for b in bodies(d - 1, 1):
                yield ('def', 'f%d' % d, ['a'], b)
    def bodies(d, n):
        if n == 0:
            yield []
            return
        for k in range(1, n + 1):
            for combo in itertools.product(list(stmts(d)), repeat=k):
                yield list(combo)
    return bodies(depth, size)


def check(prog, stats, verbose=False):
    p, src = build(prog)
    trace, err = run_python(src)
    if trace is None:
        stats['syntax'] += 1
        return
    stats['programs'] += 1
    byid = {o.oid: o for o in p.occs}
    for occ_id, val in trace:
        u = byid[occ_id]
        stats['uses'] += 1
        b = byid.get(val)
        # (a) python model
        sc = py_scope(p, u)
        ok_py = b is not None and sc is not None and binding_scope(p, b) is sc and b.name == u.name
        if not ok_py:
            stats['pymodel_bad'] += 1
            if stats['pymodel_bad'] <= 5:
                print('PYMODEL MISMATCH\n' + src, u, 'observed', b, 'model scope', sc and sc.sid)
        # (b) jedi model vs jedi
        jm = sorted((o.line, o.col) for o in jedi_goto(p, u))
        try:
            jr = run_jedi(src, u)
        except Exception as e:
            jr = 'EXC %s' % type(e).__name__
        if jm != jr:
            stats['jedimodel_bad'] += 1
            if stats['jedimodel_bad'] <= 8:
                print('JEDIMODEL MISMATCH\n' + src, u, 'model', jm, 'jedi', jr)
        # (c) property: jedi results belong to python's scope
        if isinstance(jr, list) and b is not None:
            pos2occ = {(o.line, o.col): o for o in p.occs}
            bad = []
            for pos in jr:
                d = pos2occ.get(pos)
                if d is None or d.name != u.name:
                    bad.append(pos); continue
                if d.role == 'decl':
                    continue
                if binding_scope(p, d) is not binding_scope(p, b):
                    bad.append(pos)
            if bad or not jr:
                stats['property_viol'] += 1
                key = classify(p, u, b)
                stats['viol:' + key] += 1
                if stats['viol:' + key] <= 2:
                    print('PROPERTY VIOLATION [%s]\n' % key + src, u, 'python took', b, 'jedi', jr)


def classify(p, u, b):
    s = u.scope
    if s.kind in FUNCLIKE and s.bound(u.name) and u.name not in s.globals_ and u.name not in s.nonlocals \
            and not any(o.role == 'bind' and o.name == u.name and o.order < u.order for o in s.occs):
        return 'F1-late-local'
    crossed = []
    t = jedi_parent_context(s)
    while t is not None and t.kind == 'class':
        crossed.append(t)
        t = jedi_parent_context(t)
    if s.kind == 'comp' and any(c.bound(u.name) for c in crossed):
        return 'F2-comp-sees-class'
    if s.kind == 'class' and any(c.bound(u.name) for c in crossed):
        return 'F4-nested-class-sees-outer-class'
    if s.kind == 'class' and s.bound(u.name):
        return 'F3-class-loadname'
    return 'other'


if __name__ == '__main__':
    stats = collections.Counter()
    depth, size, limit = int(sys.argv[1]), int(sys.argv[2]), int(sys.argv[3])
    rng = random.Random(0)
    progs = list(itertools.islice(gen_bodies(depth, size), 200000))
    rng.shuffle(progs)
    for prog in progs[:limit]:
        check(prog, stats)
    print(dict(stats))
