import jedi, collections
snips = [
 "[1].", "(1,2).", "{1:2}.", "{1}.", "'a'.", "1 .", "1.0.", "b'a'.", "None.", "True.",
 "x = [1]\nx[0].", "x = (1,'a')\nx[1].", "x = {'a': 1}\nx['a'].", "x=[1]\nfor y in x:\n    y.",
 "def f(): return [1]\nf().", "def f(*a): return a\nf(1).", "def f(**k): return k\nf(a=1).",
 "x = [i for i in [1]]\nx.", "x = (i for i in [1])\nx.", "def g():\n    yield 1\ng().", "for a in g():\n    a.",
 "class A:\n    def __init__(self): self.x = []\nA().x.", "import os\nos.", "import os\nos.path.", "str.", "int().", "list().", "dict().",
 "len([1]).", "x = [1]\nx.append(2)\nx[0].", "a, b = 1, 'x'\nb.", "a, *b = 1, 2\nb.", "lambda: 1", "x = lambda: 1\nx().",
 "with open('f') as f:\n    f.", "try:\n    pass\nexcept Exception as e:\n    e.", "isinstance(1, int).", "x: int = 1\nx.", "def f(a: str):\n    a.",
 "def f(a):\n    '''\n    :type a: str\n    '''\n    a.", "import typing\nx: typing.List[int] = []\nx.", "class B:\n    @property\n    def p(self): return 1\nB().p.", "@staticmethod\ndef f(): pass\nf.",
 "print(", "abs(", "x = 1\nx.real.", "x='a'\nx.upper().", "x='a' + 'b'\nx.", "x = 1 + 2\nx.", "x=[1]+[2]\nx.",
]
res = collections.Counter()
for s in snips:
    for meth in ('complete', 'infer', 'goto', 'get_signatures', 'help'):
        try:
            r = getattr(jedi.Script(s), meth)()
            for o in r:
                o.name; o.type; o.full_name; o.description; o.docstring(); o.module_path
            out = 'ok %d' % len(r)
        except BaseException as e:
            out = 'EXC ' + type(e).__name__
        res[out.split()[0] + (' ' + out.split()[1] if out.startswith('EXC') else '')] += 1
        if out.startswith('EXC'):
            print(repr(s), meth, out)
print(res)
