#!/venv/bin/python
"""Scratch fault-injecting stand-in for the helper's python executable."""
import os, sys, subprocess, pickle, threading
sys.path.insert(0, '/repo')
ctl = os.environ.get('PROXY_CTL', '')  # "k:phase"
k, phase = (ctl.split(':') + [''])[:2] if ctl else ('-1', '')
k = int(k)
child = subprocess.Popen(['/venv/bin/python'] + sys.argv[1:], stdin=subprocess.PIPE, stdout=subprocess.PIPE)
inp = sys.stdin.buffer; out = sys.stdout.buffer
i = 0
while True:
    try:
        req = pickle.Unpickler(inp).load()
    except EOFError:
        child.kill(); sys.exit(0)
    if i == k and phase == 'before':
        child.kill(); os._exit(1)
    pickle.dump(req, child.stdin, 4); child.stdin.flush()
    if i == k and phase == 'after':
        child.kill(); os._exit(1)
    rep = pickle.Unpickler(child.stdout).load()
    data = pickle.dumps(rep, 4)
    if i == k and phase == 'trunc':
        out.write(data[:max(1, len(data) // 2)]); out.flush()
        child.kill(); os._exit(1)
    out.write(data); out.flush()
    i += 1
