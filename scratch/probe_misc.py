import jedi, io, pickle

# C04: unicode lower length change
src = 'İxyz = 1\nİ'
s = jedi.Script(src)
for c in s.complete(2, 1):
    if 'xyz' in c.name:
        print('C04', repr(c.name), repr(c.complete), c.get_completion_prefix_length())

# C18: get_context on header
src = '''class A:
    def f(self, a=1):
        x = 1
        return x
    y = 2
'''
s = jedi.Script(src)
for pos in [(2, 4), (2, 8), (2, 10), (2, 16), (2, 20), (3, 0), (3, 8), (5, 4), (5, 0), (1, 6), (1, 8)]:
    c = s.get_context(*pos)
    print('C18', pos, c.name, c.type)

# C11: index
src = '''def f(a, b, /, c, d=1, *args, e, f=2, **kw): pass
f(1, 2, 3, '''
s = jedi.Script(src)
sig = s.get_signatures(2, len("f(1, 2, 3, "))[0]
print('C11', sig.index, sig.to_string(), [(p.name, str(p.kind)) for p in sig.params])
for call in ['f(', 'f(1, ', 'f(1, 2, 3, 4, 5, 6, ', 'f(e=1, ', 'f(e=1, c', 'f(e=1, c=', 'f(1, a=', 'f(*x, ', 'f(**x, ', 'f(1, 2, 3, 4, f', 'f(zz=']:
    s = jedi.Script('def f(a, b, /, c, d=1, *args, e, f=2, **kw): pass\n' + call)
    sigs = s.get_signatures(2, len(call))
    print('C11', repr(call), sigs[0].index if sigs else None)
for call in ['g(', 'g(1, ', 'g(1, 2, ', 'g(x=', 'g(b=']:
    s = jedi.Script('def g(a, *, b): pass\n' + call)
    sigs = s.get_signatures(2, len(call))
    print('C11g', repr(call), sigs[0].index if sigs else None)

# truncated pickle
data = pickle.dumps((False, None, list(range(1000))), 4)
for n in (0, 1, 5, len(data) // 2, len(data) - 1):
    try:
        pickle.Unpickler(io.BytesIO(data[:n])).load()
    except Exception as e:
        print('C14 trunc', n, type(e).__name__, e)

# C13 safe mode counters
from jedi import settings
calls = []
class D:
    def __get__(self, inst, owner):
        calls.append('D.__get__'); return 1
class C:
    d = D()
    @property
    def p(self):
        calls.append('p'); return 'x'
    def __getitem__(self, i):
        calls.append('getitem'); return 1
    def __iter__(self):
        calls.append('iter'); return iter([1])
    def __len__(self):
        calls.append('len'); return 1
    def __bool__(self):
        calls.append('bool'); return True
    def __call__(self):
        calls.append('call'); return 1
c = C()
settings.allow_unsafe_interpreter_executions = False
for code in ['c.', 'c.p.', 'c.d.', 'c[0].', 'c().', 'for x in c:\n    x.', 'C.p.', 'c.p', 'x = c or 1\nx.', 'if c:\n    y = 1\ny']:
    calls.clear()
    i = jedi.Interpreter(code, [{'c': c, 'C': C}])
    try:
        r = i.complete()
        i2 = jedi.Interpreter(code, [{'c': c, 'C': C}]); i2.infer()
        i3 = jedi.Interpreter(code, [{'c': c, 'C': C}]); i3.goto(); i3.help(); i3.get_signatures()
    except Exception as e:
        print('C13 exc', repr(code), type(e), e)
    print('C13', repr(code), calls)
