#!/bin/bash
# Build the Coq development from files on disk only (offline).
cd "$(dirname "$0")"
export PYTHONPATH=/repo PYTHONDONTWRITEBYTECODE=1
exec /venv/bin/python -c "
import sys; sys.path.insert(0,'harness')
import common
ok,out=common.coq_build()
print(out[-3000:])
hits=common.guard_scan()
print('guard scan:',hits)
sys.exit(0 if ok and not hits else 1)
"
