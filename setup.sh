#!/bin/bash
# Build the Coq development from files on disk only (offline).
cd "$(dirname "$0")"
export PYTHONPATH=/repo PYTHONDONTWRITEBYTECODE=1
exec /venv/bin/python -c "
import sys; sys.path.insert(0,'harness')
import common
ok,out=common.coq_build()
print(out[-3000:])
hits=common.guard_scan()
print('guard scan:',hits)
# a file that fails to build only affects the property that depends on it: every check
# re-compiles its own Props file and reports it; setup fails only on forbidden vernacular
if not ok: print('WARNING: some files failed to build (see above)')
sys.exit(0 if not hits else 1)
"
